import Whv.Lemmas.Gossip
import Whv.Props.C02
/-!
# C03 — gossip not signed by a current guardian cannot change node state
# (the two p2p verifiers, the heartbeat table with its per-guardian cap, domain separation)

Model: `Whv.Gossip` (`processHeartbeat`, `processObsReq`, `setHeartbeat`, `cleanup`, node histories `run`).
The digest function `H`, signature recovery and the protobuf decoders are arbitrary parameters (`Oracles`) in every
theorem: nothing is assumed about Keccak or secp256k1.  The constants are an arbitrary `Cfg` wherever possible;
the theorems that speak about the concrete prefixes and the 34-byte floor are about `Cfg.gen`, i.e. about
`Whv.Gen.C03`, which is re-extracted from the source on every run.

(The observation gate of `processor.handleObservation`, third part of the statement, is proved with the processor model.)
-/
namespace Whv.C03
open Whv Whv.Gossip

/-! ### acceptance ⇔ the five conditions -/

/-- **Heartbeats.**  With verification enabled a gossiped heartbeat is accepted — and changes the table — exactly when
the envelope address (last 20 bytes / left-padded) is a key of the guardian set in force, the signed pre-image
`prefix ++ body` passes the length floor, the signature over `H (prefix ++ body)` recovers to THAT address, the body
decodes, and the guardian's table entry has room; the new table then is the old one with that one entry set. -/
theorem c03_hb_accept_iff (o : Oracles) (cfg : Cfg) (gs : List Addr) (t t' : Table) (src : Peer) (s : Signed) (h : Hb) :
    processHeartbeat o cfg false gs t src s = (t', .ok h) ↔
      bytesToAddress s.addr ∈ gs ∧
      cfg.hbTooShort cfg.hbPrefix.length s.body.length = false ∧
      o.recover (o.H (cfg.hbPrefix ++ s.body)) s.sig = some (bytesToAddress s.addr) ∧
      o.decodeHb s.body = some h ∧
      hasRoom cfg.cap t (bytesToAddress s.addr) = true ∧
      t' = stored t (bytesToAddress s.addr) src h := by
  unfold processHeartbeat
  cases hk : envelopeKey false gs (bytesToAddress s.addr) with
  | none =>
    have := envelopeKey_false_none hk
    simp [this]
  | some k =>
    obtain ⟨rfl, hmem⟩ := envelopeKey_false_some hk
    simp only
    cases hf : cfg.hbTooShort cfg.hbPrefix.length s.body.length with
    | true => simp
    | false =>
      simp only [Bool.false_eq_true, if_false]
      cases hr : o.recover (o.H (cfg.hbPrefix ++ s.body)) s.sig with
      | none => simp
      | some signer =>
        simp only
        by_cases hs : bytesToAddress s.addr = signer
        · subst hs
          simp only [ne_eq, not_true_eq_false, false_and, if_false]
          cases hd : o.decodeHb s.body with
          | none => simp
          | some h' =>
            simp only
            cases hset : setHeartbeat cfg.cap t (bytesToAddress s.addr) src h' with
            | none =>
              have : hasRoom cfg.cap t (bytesToAddress s.addr) = false := by
                rw [setHeartbeat_eq] at hset
                cases hh : hasRoom cfg.cap t (bytesToAddress s.addr) with
                | false => rfl
                | true => simp [hh] at hset
              simp [this]
            | some t2 =>
              obtain ⟨hroom, rfl⟩ := (setHeartbeat_some_iff ..).1 hset
              simp only [hmem, hroom, true_and, Prod.mk.injEq, Except.ok.injEq, Option.some.injEq]
              constructor
              · rintro ⟨rfl, rfl⟩; exact ⟨rfl, rfl⟩
              · rintro ⟨rfl, rfl⟩; exact ⟨rfl, rfl⟩
        · have hne : ¬ signer = bytesToAddress s.addr := fun h' => hs h'.symm
          simp [hs, hne]

/-- **Observation requests.**  Accepted exactly when the envelope address is a key of the set, the pre-image passes the
floor, the signature over `H (prefix ++ body)` recovers to that address, and the body decodes. -/
theorem c03_req_accept_iff (o : Oracles) (cfg : Cfg) (gs : List Addr) (s : Signed) (r : ObsReq) :
    processObsReq o cfg gs s = .ok r ↔
      bytesToAddress s.addr ∈ gs ∧
      cfg.reqTooShort cfg.reqPrefix.length s.body.length = false ∧
      o.recover (o.H (cfg.reqPrefix ++ s.body)) s.sig = some (bytesToAddress s.addr) ∧
      o.decodeReq s.body = some r := by
  unfold processObsReq
  cases hk : keyOf gs (bytesToAddress s.addr) with
  | none =>
    have := keyOf_none hk
    simp [this]
  | some k =>
    obtain ⟨rfl, hmem⟩ := keyOf_some hk
    simp only
    cases hf : cfg.reqTooShort cfg.reqPrefix.length s.body.length with
    | true => simp
    | false =>
      simp only [Bool.false_eq_true, if_false]
      cases hr : o.recover (o.H (cfg.reqPrefix ++ s.body)) s.sig with
      | none => simp
      | some signer =>
        simp only
        by_cases hs : bytesToAddress s.addr = signer
        · subst hs
          simp only [ne_eq, not_true_eq_false, if_false]
          cases hd : o.decodeReq s.body with
          | none => simp
          | some r' => simp [hmem]
        · have hne : ¬ signer = bytesToAddress s.addr := fun h' => hs h'.symm
          simp [hs, hne]

/-- a tiny concrete universe for the non-vacuity examples: guardian address `g`, outsider `x`; the digest function is
the identity, signature `[1]` over the heartbeat pre-image and `[2]` over the request pre-image recover to `g`. -/
private def g : Addr := List.replicate 20 7
private def x : Addr := List.replicate 20 9
private def body : Bytes := List.replicate 24 65
private def o : Oracles :=
  { H := id
    recover := fun d sg =>
      if d = Cfg.gen.hbPrefix ++ body ∧ sg = [1] then some g
      else if d = Cfg.gen.reqPrefix ++ body ∧ sg = [2] then some g
      else if sg = [3] then some x else none
    decodeHb := fun b => if b = body then some ⟨[1, 2], 5⟩ else none
    decodeReq := fun b => if b = body then some ⟨2, [9]⟩ else none }

example : processHeartbeat o Cfg.gen false [x, g] [] [80] ⟨body, [1], List.replicate 12 255 ++ g⟩
    = ([(g, [([80], ⟨[1, 2], 5⟩)])], .ok ⟨[1, 2], 5⟩) := by decide
example : processObsReq o Cfg.gen [g] ⟨body, [2], g⟩ = .ok ⟨2, [9]⟩ := by decide
-- a heartbeat signature presented as a request, an outsider, a member's address with the outsider's signature:
example : processObsReq o Cfg.gen [g] ⟨body, [1], g⟩ = .error .recoverFailed := by decide
example : (processHeartbeat o Cfg.gen false [g] [] [80] ⟨body, [3], x⟩).2 = .error .notInSet := by decide
example : (processHeartbeat o Cfg.gen false [g, x] [] [80] ⟨body, [3], g⟩).2 = .error .invalidSigner := by decide

/-! ### rejection ⇒ no state change -/

private theorem unchanged_or_ok (o : Oracles) (cfg : Cfg) (dv : Bool) (gs : List Addr) (t : Table) (src : Peer) (s : Signed) :
    (processHeartbeat o cfg dv gs t src s).1 = t ∨ ∃ h, (processHeartbeat o cfg dv gs t src s).2 = .ok h := by
  unfold processHeartbeat
  split
  · exact Or.inl rfl
  · split
    · exact Or.inl rfl
    · split
      · exact Or.inl rfl
      · split
        · exact Or.inl rfl
        · split
          · exact Or.inl rfl
          · split
            · exact Or.inl rfl
            · exact Or.inr ⟨_, rfl⟩

/-- A rejected heartbeat leaves the table exactly as it was — whatever the reason and whatever `disableVerify` is. -/
theorem c03_reject_noop (o : Oracles) (cfg : Cfg) (dv : Bool) (gs : List Addr) (t : Table) (src : Peer) (s : Signed) (e : Err)
    (h : (processHeartbeat o cfg dv gs t src s).2 = .error e) : (processHeartbeat o cfg dv gs t src s).1 = t := by
  rcases unchanged_or_ok o cfg dv gs t src s with h1 | ⟨hb, h2⟩
  · exact h1
  · rw [h2] at h; cases h

example : processHeartbeat o Cfg.gen false [g] [(g, [([80], ⟨[], 0⟩)])] [81] ⟨body, [3], g⟩
    = ([(g, [([80], ⟨[], 0⟩)])], .error .invalidSigner) := by decide

/-- In the node: a gossiped heartbeat or request that is not accepted changes neither the table nor the list of requests
handed to the chain watchers' dispatcher; an accepted request is appended unchanged, and touches no table. -/
theorem c03_reject_noop_node (o : Oracles) (cfg : Cfg) (n : Node) :
    (∀ gs src s e, (processHeartbeat o cfg false gs n.table src s).2 = .error e →
        (step o cfg n (.heartbeat gs src s)).table = n.table ∧ (step o cfg n (.heartbeat gs src s)).forwarded = n.forwarded) ∧
    (∀ gs s e, processObsReq o cfg gs s = .error e → step o cfg n (.obsReq gs s) = n) ∧
    (∀ gs s r, processObsReq o cfg gs s = .ok r →
        (step o cfg n (.obsReq gs s)).forwarded = n.forwarded ++ [r] ∧ (step o cfg n (.obsReq gs s)).table = n.table) ∧
    (∀ gs src s, (step o cfg n (.heartbeat gs src s)).forwarded = n.forwarded) := by
  refine ⟨?_, ?_, ?_, ?_⟩
  · intro gs src s e h
    exact ⟨c03_reject_noop o cfg false gs n.table src s e h, rfl⟩
  · intro gs s e h; simp [step, h]
  · intro gs s r h; simp [step, h]
  · intro gs src s; rfl

example : (step o Cfg.gen {} (.obsReq [g] ⟨body, [1], g⟩)).forwarded = [] ∧
    (step o Cfg.gen {} (.obsReq [g] ⟨body, [2], g⟩)).forwarded = [⟨2, [9]⟩] := by decide

/-! ### stored under the recovered signer -/

/-- Whenever a heartbeat is accepted (even with `disableVerify`), the entry is written under the address RECOVERED from
the signature — never under the address the envelope merely claims — for the sending peer, with the decoded body, and
no other guardian's entries change. -/
theorem c03_stored_under_signer (o : Oracles) (cfg : Cfg) (dv : Bool) (gs : List Addr) (t t' : Table) (src : Peer)
    (s : Signed) (h : Hb) (hacc : processHeartbeat o cfg dv gs t src s = (t', .ok h)) :
    ∃ signer, o.recover (o.H (cfg.hbPrefix ++ s.body)) s.sig = some signer ∧
      o.decodeHb s.body = some h ∧
      t' = stored t signer src h ∧
      (t'.get signer).bind (fun v => v.lookup src) = some h ∧
      ∀ a, a ≠ signer → t'.get a = t.get a := by
  unfold processHeartbeat at hacc
  split at hacc
  · cases hacc
  · split at hacc
    · cases hacc
    · split at hacc
      · cases hacc
      · rename_i signer hrec
        split at hacc
        · cases hacc
        · split at hacc
          · cases hacc
          · rename_i h' hdec
            split at hacc
            · cases hacc
            · rename_i t2 hset
              injection hacc with h1 h2
              injection h2 with h2
              subst h1; subst h2
              obtain ⟨_, rfl⟩ := (setHeartbeat_some_iff ..).1 hset
              refine ⟨signer, hrec, hdec, rfl, ?_, ?_⟩
              · simp [stored, Table.get, assocSet_lookup_self]
              · intro a ha
                simp only [stored, Table.get]
                exact assocSet_lookup_ne _ _ ha

example : (processHeartbeat o Cfg.gen true [] [] [80] ⟨body, [3], g⟩).1 = [(x, [([80], ⟨[1, 2], 5⟩)])] := by decide

/-! ### the per-guardian cap, for every history -/

private theorem capOk_step (o : Oracles) (cfg : Cfg) (hc : 1 ≤ cfg.cap) (n : Node) (op : Op) (h : CapOk cfg.cap n.table) :
    CapOk cfg.cap (step o cfg n op).table := by
  cases op with
  | cleanup now => exact capOk_cleanup h
  | obsReq gs s =>
    simp only [step]
    split <;> exact h
  | own a p hb =>
    simp only [step]
    cases hs : setHeartbeat cfg.cap n.table a p hb with
    | none => exact h
    | some t' => exact capOk_setHeartbeat hc h hs
  | heartbeat gs src s =>
    simp only [step]
    cases hr : (processHeartbeat o cfg false gs n.table src s).2 with
    | error e => rw [c03_reject_noop o cfg false gs n.table src s e hr]; exact h
    | ok hb =>
      have hacc : processHeartbeat o cfg false gs n.table src s = ((processHeartbeat o cfg false gs n.table src s).1, .ok hb) := by
        rw [← hr]
      obtain ⟨_, _, _, _, hroom, ht⟩ := (c03_hb_accept_iff ..).1 hacc
      rw [ht]
      exact capOk_stored hc h hroom

/-- **Table cap.**  For every history of gossiped heartbeats (accepted or not), gossiped requests, the node's own
heartbeats and `Cleanup`s, starting from a table within the cap, every guardian holds at most `cap` node entries. -/
theorem c03_table_cap (o : Oracles) (cfg : Cfg) (hc : 1 ≤ cfg.cap) (ops : List Op) (n : Node) (h : CapOk cfg.cap n.table) :
    CapOk cfg.cap (run o cfg n ops).table := by
  induction ops generalizing n with
  | nil => exact h
  | cons op ops ih => exact ih _ (capOk_step o cfg hc n op h)

/-- … in particular with the extracted `MaxNodesPerGuardian`, from the empty table. -/
theorem c03_table_cap_gen (o : Oracles) (ops : List Op) :
    ∀ e ∈ (run o Cfg.gen {} ops).table, e.2.length ≤ Whv.Gen.C03.maxNodesPerGuardian :=
  c03_table_cap o Cfg.gen (by decide) ops {} (by intro e he; cases he)

example : (run o { Cfg.gen with cap := 2 } {} [.own g [1] ⟨[], 0⟩, .own g [2] ⟨[], 0⟩, .own g [3] ⟨[], 0⟩, .own g [1] ⟨[9], 0⟩,
    .cleanup 70000000000, .own g [3] ⟨[], 69000000000⟩]).table = [(g, [([3], ⟨[], 69000000000⟩)])] := by decide

/-! ### only guardians of the set in force ever get an entry; only verified requests are forwarded -/

/-- Who may legitimately obtain a table entry during a history: a member of the set in force whose address the
envelope names (and whose signature verified — `c03_hb_accept_iff`), or the node itself. -/
def Entitled (ops : List Op) (a : Addr) : Prop :=
  ∃ op ∈ ops, (∃ gs src s, op = .heartbeat gs src s ∧ a = bytesToAddress s.addr ∧ a ∈ gs) ∨ (∃ p hb, op = .own a p hb)

theorem c03_only_members_enter (o : Oracles) (cfg : Cfg) (ops : List Op) (n : Node) (a : Addr)
    (h : a ∈ keys (run o cfg n ops).table) : a ∈ keys n.table ∨ Entitled ops a := by
  induction ops generalizing n with
  | nil => exact Or.inl h
  | cons op ops ih =>
    rcases ih (step o cfg n op) h with h1 | ⟨op', hm, hop⟩
    · -- `a` has an entry after the first step: either it had one before, or this step entitled it
      have : a ∈ keys n.table ∨ Entitled [op] a := by
        cases op with
        | cleanup now => left; simpa [step, keys_cleanup] using h1
        | obsReq gs s =>
          left
          simp only [step] at h1
          split at h1 <;> exact h1
        | own a' p hb =>
          simp only [step] at h1
          cases hs : setHeartbeat cfg.cap n.table a' p hb with
          | none => left; simpa [hs] using h1
          | some t' =>
            obtain ⟨_, rfl⟩ := (setHeartbeat_some_iff ..).1 hs
            simp only [hs, Option.getD_some] at h1
            rcases keys_stored h1 with rfl | h1
            · right; exact ⟨_, List.mem_singleton.2 rfl, Or.inr ⟨p, hb, rfl⟩⟩
            · left; exact h1
        | heartbeat gs src s =>
          simp only [step] at h1
          cases hr : (processHeartbeat o cfg false gs n.table src s).2 with
          | error e => left; rwa [c03_reject_noop o cfg false gs n.table src s e hr] at h1
          | ok hb =>
            have hacc : processHeartbeat o cfg false gs n.table src s = ((processHeartbeat o cfg false gs n.table src s).1, .ok hb) := by
              rw [← hr]
            obtain ⟨hmem, _, _, _, _, ht⟩ := (c03_hb_accept_iff ..).1 hacc
            rw [ht] at h1
            rcases keys_stored h1 with rfl | h1
            · right; exact ⟨_, List.mem_singleton.2 rfl, Or.inl ⟨gs, src, s, rfl, rfl, hmem⟩⟩
            · left; exact h1
      rcases this with h2 | ⟨op', hm, hop⟩
      · exact Or.inl h2
      · right; exact ⟨op', by rw [List.mem_singleton.1 hm]; exact List.mem_cons_self, hop⟩
    · right; exact ⟨op', List.mem_cons_of_mem _ hm, hop⟩

/-- The requests handed to the dispatcher over a history are exactly the accepted ones, in order, unchanged. -/
theorem c03_forwarded_exactly_verified (o : Oracles) (cfg : Cfg) (ops : List Op) (n : Node) :
    (run o cfg n ops).forwarded = n.forwarded ++ ops.filterMap (fun op =>
      match op with
      | .obsReq gs s => (match processObsReq o cfg gs s with | .ok r => some r | .error _ => none)
      | _ => none) := by
  induction ops generalizing n with
  | nil => simp [run]
  | cons op ops ih =>
    simp only [run]
    rw [ih]
    cases op with
    | obsReq gs s =>
      simp only [step, List.filterMap_cons]
      cases processObsReq o cfg gs s with
      | ok r => simp
      | error e => simp
    | heartbeat gs src s => simp [step]
    | own a p hb => simp [step]
    | cleanup now => simp [step]

example : (run o Cfg.gen {} [.obsReq [g] ⟨body, [1], g⟩, .heartbeat [g] [80] ⟨body, [3], x⟩, .obsReq [g] ⟨body, [2], g⟩,
    .heartbeat [g] [80] ⟨body, [1], g⟩]).forwarded = [⟨2, [9]⟩] ∧
    keys (run o Cfg.gen {} [.heartbeat [g] [80] ⟨body, [3], x⟩, .heartbeat [g] [80] ⟨body, [1], g⟩]).table = [g] := by decide

/-! ### an entry under an address only if something that address signed was received -/

/-- What can put an entry under address `a` during a history: a gossiped heartbeat whose signature — over the digest of the
heartbeat-domain pre-image — RECOVERS to `a` (whatever its envelope or its body say about who sent it), or the node's own
heartbeat for `a`. -/
def SignedFor (o : Oracles) (cfg : Cfg) (ops : List Op) (a : Addr) : Prop :=
  ∃ op ∈ ops, (∃ gs src s, op = .heartbeat gs src s ∧ o.recover (o.H (cfg.hbPrefix ++ s.body)) s.sig = some a) ∨
    (∃ p hb, op = .own a p hb)

/-- **Per address.**  After any history, an address has an entry in the heartbeat table only if it had one before or a
heartbeat whose signature recovers to that very address was received during the history (or the node filed its own).  A
member signing a heartbeat that NAMES another member or an outsider creates nothing under the named address. -/
theorem c03_entry_only_for_signer (o : Oracles) (cfg : Cfg) (ops : List Op) (n : Node) (a : Addr)
    (h : a ∈ keys (run o cfg n ops).table) : a ∈ keys n.table ∨ SignedFor o cfg ops a := by
  induction ops generalizing n with
  | nil => exact Or.inl h
  | cons op ops ih =>
    rcases ih (step o cfg n op) h with h1 | ⟨op', hm, hop⟩
    · have : a ∈ keys n.table ∨ SignedFor o cfg [op] a := by
        cases op with
        | cleanup now => left; simpa [step, keys_cleanup] using h1
        | obsReq gs s =>
          left
          simp only [step] at h1
          split at h1 <;> exact h1
        | own a' p hb =>
          simp only [step] at h1
          cases hs : setHeartbeat cfg.cap n.table a' p hb with
          | none => left; simpa [hs] using h1
          | some t' =>
            obtain ⟨_, rfl⟩ := (setHeartbeat_some_iff ..).1 hs
            simp only [hs, Option.getD_some] at h1
            rcases keys_stored h1 with rfl | h1
            · right; exact ⟨_, List.mem_singleton.2 rfl, Or.inr ⟨p, hb, rfl⟩⟩
            · left; exact h1
        | heartbeat gs src s =>
          simp only [step] at h1
          cases hr : (processHeartbeat o cfg false gs n.table src s).2 with
          | error e => left; rwa [c03_reject_noop o cfg false gs n.table src s e hr] at h1
          | ok hb =>
            have hacc : processHeartbeat o cfg false gs n.table src s = ((processHeartbeat o cfg false gs n.table src s).1, .ok hb) := by
              rw [← hr]
            obtain ⟨_, _, hrec, _, _, ht⟩ := (c03_hb_accept_iff ..).1 hacc
            rw [ht] at h1
            rcases keys_stored h1 with rfl | h1
            · right; exact ⟨_, List.mem_singleton.2 rfl, Or.inl ⟨gs, src, s, rfl, hrec⟩⟩
            · left; exact h1
      rcases this with h2 | ⟨op', hm, hop⟩
      · exact Or.inl h2
      · right; exact ⟨op', by rw [List.mem_singleton.1 hm]; exact List.mem_cons_self, hop⟩
    · right; exact ⟨op', List.mem_cons_of_mem _ hm, hop⟩

-- `g` signs a heartbeat (signature `[1]`); the envelope of the second message names `g` but `x` signed it: no entry for `x`,
-- and none for anybody else either
example : keys (run o Cfg.gen {} [.heartbeat [g, x] [80] ⟨body, [1], g⟩, .heartbeat [g, x] [81] ⟨body, [3], g⟩]).table = [g] ∧
    SignedFor o Cfg.gen [.heartbeat [g, x] [80] ⟨body, [1], g⟩] g := by
  refine ⟨by decide, _, List.mem_singleton.2 rfl, Or.inl ⟨_, _, _, rfl, by decide⟩⟩

/-! ### dropped messages leave no trace: what follows them is handled as if they had never arrived -/

/-- a gossiped message the node drops in state `n` -/
def Dropped (o : Oracles) (cfg : Cfg) (n : Node) : Op → Prop
  | .heartbeat gs src s => ∃ e, (processHeartbeat o cfg false gs n.table src s).2 = .error e
  | .obsReq gs s => ∃ e, processObsReq o cfg gs s = .error e
  | _ => False

/-- **No trace.**  A history that consists of dropped messages only — any number of them, whoever they name — leaves the node
exactly as it was, so whatever arrives next (a genuine request of the guardian the forged ones named, say) is handled
precisely as it would have been without them: same table, same requests forwarded. -/
theorem c03_dropped_history_noop (o : Oracles) (cfg : Cfg) (ops : List Op) (n : Node)
    (h : ∀ op ∈ ops, Dropped o cfg n op) : run o cfg n ops = n ∧ ∀ next, step o cfg (run o cfg n ops) next = step o cfg n next := by
  have hrun : run o cfg n ops = n := by
    induction ops with
    | nil => rfl
    | cons op ops ih =>
      have hstep : step o cfg n op = n := by
        have hd := h op List.mem_cons_self
        cases op with
        | heartbeat gs src s =>
          obtain ⟨e, he⟩ := hd
          simp only [step]
          rw [c03_reject_noop o cfg false gs n.table src s e he]
        | obsReq gs s =>
          obtain ⟨e, he⟩ := hd
          simp [step, he]
        | own a p hb => exact hd.elim
        | cleanup now => exact hd.elim
      simp only [run]
      rw [hstep]
      exact ih (fun op' hm => h op' (List.mem_cons_of_mem _ hm))
  exact ⟨hrun, fun next => by rw [hrun]⟩

-- 130 forged requests and 130 forged heartbeats naming `g` (signed by the outsider `x`), then `g`'s genuine request: forwarded
set_option maxRecDepth 20000 in
example : (run o Cfg.gen {} (List.replicate 130 (.obsReq [g] ⟨body, [3], g⟩) ++ List.replicate 130 (.heartbeat [g] [80] ⟨body, [3], g⟩) ++
    [.obsReq [g] ⟨body, [2], g⟩])).forwarded = [⟨2, [9]⟩] := by decide

/-! ### domain separation (pre-image level: nothing is assumed about the digest function) -/

/-- the signed bytes of a VAA signature: the 32-byte inner hash whose Keccak is the VAA digest -/
def VaaPre (p : Bytes) : Prop := p.length = 32
/-- the signed bytes of an acceptable heartbeat -/
def HbPre (p : Bytes) : Prop := ∃ b, p = Cfg.gen.hbPrefix ++ b ∧ Cfg.gen.hbTooShort Cfg.gen.hbPrefix.length b.length = false
/-- the signed bytes of an acceptable observation request -/
def ReqPre (p : Bytes) : Prop := ∃ b, p = Cfg.gen.reqPrefix ++ b ∧ Cfg.gen.reqTooShort Cfg.gen.reqPrefix.length b.length = false

/-- **Domain separation.**  The three sets of byte strings a guardian key ever signs for these purposes — 32-byte VAA
pre-images, `"heartbeat|" ++ b` of total length ≥ 34, `"signed_observation_request|" ++ b` of total length ≥ 34 — are
pairwise disjoint (lengths, resp. first byte).  So no signature made for one purpose is over the bytes of another. -/
theorem c03_domain_separation (p : Bytes) :
    ¬ (VaaPre p ∧ HbPre p) ∧ ¬ (VaaPre p ∧ ReqPre p) ∧ ¬ (HbPre p ∧ ReqPre p) := by
  refine ⟨?_, ?_, ?_⟩
  · rintro ⟨hv, b, rfl, hf⟩
    simp only [VaaPre, Cfg.gen, Whv.Gen.C03.hbTooShort, Whv.Gen.C03.heartbeatPrefix, List.length_append, List.length_cons,
      List.length_nil, decide_eq_false_iff_not] at hv hf
    omega
  · rintro ⟨hv, b, rfl, hf⟩
    simp only [VaaPre, Cfg.gen, Whv.Gen.C03.reqTooShort, Whv.Gen.C03.obsReqPrefix, List.length_append, List.length_cons,
      List.length_nil, decide_eq_false_iff_not] at hv hf
    omega
  · rintro ⟨⟨b1, rfl, _⟩, b2, h2, _⟩
    have := congrArg List.head? h2
    simp [Cfg.gen, Whv.Gen.C03.heartbeatPrefix, Whv.Gen.C03.obsReqPrefix] at this

example : HbPre (Cfg.gen.hbPrefix ++ body) ∧ ReqPre (Cfg.gen.reqPrefix ++ body) ∧ VaaPre (List.replicate 32 0) :=
  ⟨⟨body, rfl, by decide⟩, ⟨body, rfl, by decide⟩, by simp [VaaPre]⟩

/-- **The floor is enforced before a signature can be accepted**: an accepted heartbeat's signature was checked against
the digest of a pre-image in the heartbeat domain (hence neither a VAA pre-image nor a request pre-image), an accepted
request's against one in the request domain. -/
theorem c03_accepted_preimage_in_own_domain (o : Oracles) (gs : List Addr) (t t' : Table) (src : Peer) (s : Signed) :
    (∀ h, processHeartbeat o Cfg.gen false gs t src s = (t', .ok h) →
      HbPre (Cfg.gen.hbPrefix ++ s.body) ∧ ¬ VaaPre (Cfg.gen.hbPrefix ++ s.body) ∧ ¬ ReqPre (Cfg.gen.hbPrefix ++ s.body) ∧
      o.recover (o.H (Cfg.gen.hbPrefix ++ s.body)) s.sig = some (bytesToAddress s.addr)) ∧
    (∀ r, processObsReq o Cfg.gen gs s = .ok r →
      ReqPre (Cfg.gen.reqPrefix ++ s.body) ∧ ¬ VaaPre (Cfg.gen.reqPrefix ++ s.body) ∧ ¬ HbPre (Cfg.gen.reqPrefix ++ s.body) ∧
      o.recover (o.H (Cfg.gen.reqPrefix ++ s.body)) s.sig = some (bytesToAddress s.addr)) := by
  constructor
  · intro h hacc
    obtain ⟨_, hf, hr, _⟩ := (c03_hb_accept_iff ..).1 hacc
    have hp : HbPre (Cfg.gen.hbPrefix ++ s.body) := ⟨s.body, rfl, hf⟩
    obtain ⟨h1, _, h3⟩ := c03_domain_separation (Cfg.gen.hbPrefix ++ s.body)
    exact ⟨hp, fun hv => h1 ⟨hv, hp⟩, fun hq => h3 ⟨hp, hq⟩, hr⟩
  · intro r hacc
    obtain ⟨_, hf, hr, _⟩ := (c03_req_accept_iff ..).1 hacc
    have hp : ReqPre (Cfg.gen.reqPrefix ++ s.body) := ⟨s.body, rfl, hf⟩
    obtain ⟨_, h2, h3⟩ := c03_domain_separation (Cfg.gen.reqPrefix ++ s.body)
    exact ⟨hp, fun hv => h2 ⟨hv, hp⟩, fun hq => h3 ⟨hq, hp⟩, hr⟩

/-- A validly signed heartbeat whose pre-image is 32 bytes long (the only length at which it could coincide with a VAA
pre-image) is rejected as too short, before any signature is looked at. -/
theorem c03_thirty_two_byte_preimage_rejected (o : Oracles) (dv : Bool) (gs : List Addr) (t : Table) (src : Peer) (s : Signed)
    (hmem : bytesToAddress s.addr ∈ gs) (hlen : (Cfg.gen.hbPrefix ++ s.body).length = 32) :
    processHeartbeat o Cfg.gen dv gs t src s = (t, .error .tooShort) := by
  have hb : s.body.length = 22 := by
    simp only [Cfg.gen, Whv.Gen.C03.heartbeatPrefix, List.length_append, List.length_cons, List.length_nil] at hlen
    omega
  unfold processHeartbeat
  rw [envelopeKey_of_mem dv hmem]
  simp [Cfg.gen, Whv.Gen.C03.hbTooShort, Whv.Gen.C03.heartbeatPrefix, hb]

example : processHeartbeat o Cfg.gen false [g] [] [80] ⟨List.replicate 22 65, [1], g⟩ = ([], .error .tooShort) := by decide

/-! ### the extracted constants are the protocol's -/

/-- The prefixes are the protocol's `"heartbeat|"` and `"signed_observation_request|"` (every guardian signs under these),
both floor tests are `prefix length + body length < 34`, and the fixed per-guardian number of node entries is 15. -/
theorem c03_protocol_constants :
    Whv.Gen.C03.heartbeatPrefix = [104, 101, 97, 114, 116, 98, 101, 97, 116, 124] ∧
    Whv.Gen.C03.obsReqPrefix = [115, 105, 103, 110, 101, 100, 95, 111, 98, 115, 101, 114, 118, 97, 116, 105, 111, 110, 95,
      114, 101, 113, 117, 101, 115, 116, 124] ∧
    (∀ p n, Whv.Gen.C03.hbTooShort p n = decide (p + n < 34)) ∧
    (∀ p n, Whv.Gen.C03.reqTooShort p n = decide (p + n < 34)) ∧
    Whv.Gen.C03.maxNodesPerGuardian = 15 := by
  refine ⟨by decide, by decide, fun p n => rfl, fun p n => rfl, by decide⟩

example : "heartbeat|".toList.map (fun c => c.toNat) = Whv.Gen.C03.heartbeatPrefix.map (·.toNat) ∧
    "signed_observation_request|".toList.map (fun c => c.toNat) = Whv.Gen.C03.obsReqPrefix.map (·.toNat) := by decide

/-! ## gossiped observations (the processor's gate) -/

/-- **Observation gate.** A gossiped observation affects the node only if its signature recovers to the address it
claims and that address belongs to the applicable guardian set (the entry's snapshot if it has one, else the current
set): any other observation — forged signature, signature over another digest, signer outside the set, a member using
another member's address, no set known yet — leaves aggregation state, store and guardian set untouched and emits
nothing. (This is `C02.invalid_observation_noop` on the processor model of `handleObservation`.) -/
theorem observation_gate_noop (O : Whv.Proc.Oracle) (cfg : Whv.Proc.Config) (s : Whv.Proc.PState) (o : Whv.Proc.Obs)
    (now : Int) (h : ¬ Whv.C02.Accepted O s o) :
    Whv.Proc.step O cfg s (.observation o now) = .ok s [] :=
  Whv.C02.invalid_observation_noop O cfg s o now h

/-- Conversely, whatever an accepted observation records is filed under the recovered signer, who is a member of the
applicable set: the only change to the aggregation map is at the observation's own digest. -/
theorem observation_changes_only_its_digest (O : Whv.Proc.Oracle) (cfg : Whv.Proc.Config) (s s' : Whv.Proc.PState)
    (o : Whv.Proc.Obs) (now : Int) (outs : List Whv.Proc.Out)
    (hr : Whv.Proc.step O cfg s (.observation o now) = .ok s' outs) :
    s'.gs = s.gs ∧ (s'.agg = s.agg ∨ ∃ st, s'.agg = Whv.Proc.alInsert o.hash st s.agg) := by
  unfold Whv.Proc.step Whv.Proc.handleObservation at hr
  simp only at hr
  split at hr
  · cases hr; exact ⟨rfl, Or.inl rfl⟩
  · split at hr
    · cases hr; exact ⟨rfl, Or.inl rfl⟩
    · split at hr
      · cases hr; exact ⟨rfl, Or.inl rfl⟩
      · split at hr
        · cases hr; exact ⟨rfl, Or.inl rfl⟩
        · unfold Whv.Proc.obsFinish at hr
          split at hr
          · cases hr
          · split at hr
            · cases hr; exact ⟨rfl, Or.inr ⟨_, rfl⟩⟩
            · simp only at hr
              split at hr
              · split at hr
                · cases hr
                · cases hr; exact ⟨rfl, Or.inr ⟨_, rfl⟩⟩
              · cases hr; exact ⟨rfl, Or.inr ⟨_, rfl⟩⟩

end Whv.C03
