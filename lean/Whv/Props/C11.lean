import Whv.Lemmas.AlphUtil
import Whv.Lemmas.AlphWatch
import Whv.Gen.C11
/-!
# C11 — Alephium event fields map faithfully to the attested message

Model: `Whv/Model/AlphUtil.lean` (`node/pkg/alephium/utils.go` branch by branch, with the repair
`fixes/C11-narrow-uint-bounds.diff`), tied to the real functions by `checks/c11.py` on every run.
Contract-side facts (event declaration, attestation payload layout, handler offsets, Go constants) are
re-extracted into `Whv/Gen/C11.lean` on every run and compared with the model here by `decide`.

* `c11_pending_message_exact`  what the watcher keeps as pending for a fetched event is the event's decoded message, unadjusted
* `c11_fit_decoded`       every event within the VAA ranges decodes to exactly its values, block time, chain id 255
* `c11_unfit_rejected`    every event outside them is an error
* `c11_accepted_exact`    (the general form) whatever is accepted has six fields of the right type whose numerals /
                          hex strings denote exactly the returned values — nothing is wrapped, truncated or defaulted
* `c11_fit_fields_decoded` any field list that denotes an in-range event (any digit string, either hex case) is decoded to it
* `c11_model_meets_spec`  the Bool Spec the driver evaluates on the implementation's answers holds of the model
* `c11_render_is_fit`     every in-range event, as the node renders it, lies in the Spec's "must be accepted" domain
* narrowing lemmas (`toUintN_ok_iff`, `toUintN_rejects`), numeral grammar, `c11_publication` (timestamp, chain id),
  `c11_hex_roundtrip` / `c11_hex_decode_encode`, `c11_attest_roundtrip(_padded)` / `c11_attest_accepted`,
  `c11_contract_id_roundtrip` (any base58 codec) and `c11_base58_roundtrip` / `c11_contract_id_roundtrip_btcutil`
  (the modelled btcutil codec, proved), `c11_event_shape` / `c11_attest_layout` (contract sources, by `decide`)
-/
namespace Whv.C11
open Whv Whv.AlphUtil

/-! ## converters: exact characterisation -/

/-- `toU256` succeeds exactly on a `U256`-tagged numeral `[+-]?[0-9]+`, with the signed value it spells. -/
theorem toU256_ok_iff (f : Val) (v : Int) :
    toU256 f = .ok v ↔ ∃ t, f.u256 = some t ∧ t.typ = tagU256 ∧ parseInt t.value = some v := by
  unfold toU256
  cases hf : f.u256 with
  | none => simp
  | some t =>
    by_cases ht : t.typ = tagU256
    · cases hp : parseInt t.value with
      | none => simp [ht, hp]
      | some w =>
        simp only [ht, ne_eq, not_true_eq_false, if_false, Option.some.injEq, exists_eq_left', hp, true_and]
        constructor
        · intro h; cases h; rfl
        · intro h; cases h; rfl
    · simp only [ne_eq, ht, not_false_eq_true, if_true, Option.some.injEq, exists_eq_left', false_and, iff_false]
      intro h; cases h

private theorem ite_ok_iff {c : Prop} [Decidable c] {x n : Nat} {e : Err} :
    ((if c then (Except.ok x : R Nat) else Except.error e) = Except.ok n) ↔ (c ∧ x = n) := by
  split <;> simp [*]

/-- `toUint8` returns `n` exactly when the numeral's value is `n` and `n ≤ 255` (255 included, negatives excluded). -/
theorem toUint8_ok_iff (f : Val) (n : Nat) : toUint8 f = .ok n ↔ toU256 f = .ok (n : Int) ∧ n < 2 ^ 8 := by
  unfold toUint8
  cases h : toU256 f with
  | error e => simp
  | ok v =>
    simp only [ite_ok_iff, Bool.and_eq_true, decide_eq_true_eq, isUint64, Except.ok.injEq]
    simp only [uint64Of]
    constructor
    · rintro ⟨⟨⟨h0, h1⟩, h2⟩, h3⟩
      have e : (v.natAbs : Int) = v := Int.natAbs_of_nonneg h0
      omega
    · rintro ⟨h1, h2⟩
      subst h1
      have e : (n : Int).natAbs = n := Int.natAbs_natCast n
      rw [e]; omega

/-- `toUint16` returns `n` exactly when the numeral's value is `n` and `n ≤ 65535`. -/
theorem toUint16_ok_iff (f : Val) (n : Nat) : toUint16 f = .ok n ↔ toU256 f = .ok (n : Int) ∧ n < 2 ^ 16 := by
  unfold toUint16
  cases h : toU256 f with
  | error e => simp
  | ok v =>
    simp only [ite_ok_iff, Bool.and_eq_true, decide_eq_true_eq, isUint64, Except.ok.injEq]
    simp only [uint64Of]
    constructor
    · rintro ⟨⟨⟨h0, h1⟩, h2⟩, h3⟩
      have e : (v.natAbs : Int) = v := Int.natAbs_of_nonneg h0
      omega
    · rintro ⟨h1, h2⟩
      subst h1
      have e : (n : Int).natAbs = n := Int.natAbs_natCast n
      rw [e]; omega

/-- `toUint64` returns `n` exactly when the numeral's value is `n` and `n < 2^64`. -/
theorem toUint64_ok_iff (f : Val) (n : Nat) : toUint64 f = .ok n ↔ toU256 f = .ok (n : Int) ∧ n < 2 ^ 64 := by
  unfold toUint64
  cases h : toU256 f with
  | error e => simp
  | ok v =>
    simp only [ite_ok_iff, Bool.and_eq_true, decide_eq_true_eq, isUint64, Except.ok.injEq]
    simp only [uint64Of]
    constructor
    · rintro ⟨⟨h0, h1⟩, h3⟩
      have e : (v.natAbs : Int) = v := Int.natAbs_of_nonneg h0
      omega
    · rintro ⟨h1, h2⟩
      subst h1
      have e : (n : Int).natAbs = n := Int.natAbs_natCast n
      rw [e]; omega

/-- `toByteVec` returns `bs` exactly when the field is a `ByteVec`-tagged even-length all-hex string spelling `bs`. -/
theorem toByteVec_ok_iff (f : Val) (bs : Bytes) :
    toByteVec f = .ok bs ↔ ∃ t, f.byteVec = some t ∧ t.typ = tagByteVec ∧ decodeHex t.value = (bs, none) := by
  unfold toByteVec
  cases hf : f.byteVec with
  | none => simp
  | some t =>
    by_cases ht : t.typ = tagByteVec
    · simp only [ht, ne_eq, not_true_eq_false, if_false, Option.some.injEq, exists_eq_left', true_and]
      cases hd : decodeHex t.value with
      | mk r e =>
        cases e with
        | none =>
          simp only [Prod.mk.injEq, and_true]
          constructor
          · intro h; cases h; rfl
          · intro h; rw [h]
        | some e =>
          cases e <;> simp
    · simp only [ne_eq, ht, not_false_eq_true, if_true, Option.some.injEq, exists_eq_left', false_and, iff_false]
      intro h; cases h

theorem toByte32_ok_iff (f : Val) (bs : Bytes) : toByte32 f = .ok bs ↔ toByteVec f = .ok bs ∧ bs.length = 32 := by
  unfold toByte32
  cases h : toByteVec f with
  | error e => simp
  | ok b =>
    by_cases hl : b.length = 32
    · simp only [hl, ne_eq, not_true_eq_false, if_false, Except.ok.injEq]
      constructor
      · intro e; subst e; exact ⟨rfl, hl⟩
      · intro e; exact e.1
    · simp only [ne_eq, hl, not_false_eq_true, if_true, Except.ok.injEq]
      constructor
      · intro e; cases e
      · rintro ⟨rfl, h2⟩; exact absurd h2 hl

/-! ## the narrowing conversions never wrap -/

/-- A negative numeral, or one above the width, is an error for every narrowing converter (here: the 8-bit one). -/
theorem toUint8_rejects (f : Val) (v : Int) (h : toU256 f = .ok v) (hv : v < 0 ∨ 255 < v) : toUint8 f = .error .uint8 := by
  unfold toUint8; rw [h]; simp only
  split
  · rename_i hc
    simp only [Bool.and_eq_true, decide_eq_true_eq, isUint64] at hc
    simp only [uint64Of] at hc
    have e : (v.natAbs : Int) = v := Int.natAbs_of_nonneg hc.1.1
    omega
  · rfl

theorem toUint16_rejects (f : Val) (v : Int) (h : toU256 f = .ok v) (hv : v < 0 ∨ 65535 < v) : toUint16 f = .error .uint16 := by
  unfold toUint16; rw [h]; simp only
  split
  · rename_i hc
    simp only [Bool.and_eq_true, decide_eq_true_eq, isUint64] at hc
    simp only [uint64Of] at hc
    have e : (v.natAbs : Int) = v := Int.natAbs_of_nonneg hc.1.1
    omega
  · rfl

theorem toUint64_rejects (f : Val) (v : Int) (h : toU256 f = .ok v) (hv : v < 0 ∨ 2 ^ 64 ≤ v) : toUint64 f = .error .uint64 := by
  unfold toUint64; rw [h]; simp only
  split
  · rename_i hc
    simp only [Bool.and_eq_true, decide_eq_true_eq, isUint64] at hc
    omega
  · rfl

/-- The boundary values the pinned code got wrong. -/
example : toUint8 (.ofU256 (decBytes 255)) = .ok 255 := by decide
example : toUint16 (.ofU256 (decBytes 65535)) = .ok 65535 := by decide
example : toUint8 (.ofU256 [45, 49]) = .error .uint8 := by decide          -- "-1"
example : toUint8 (.ofU256 (decBytes 256)) = .error .uint8 := by decide
example : toUint16 (.ofU256 (decBytes 65536)) = .error .uint16 := by decide

/-! ## the numeral grammar -/

/-- Nothing but `[+-]?[0-9]+` is a numeral: a byte that is not a digit anywhere after the first position, or a
non-digit non-sign first byte, or no digit at all, makes `toU256` fail. -/
theorem non_numeric_rejected (tag s : GoStr) (c : UInt8) (hc : c ∈ s.drop 1) (hn : isDigit c = false) :
    toU256 { u256 := some ⟨tag, s⟩ } = .error (.badNumeral .u256) ∨ toU256 { u256 := some ⟨tag, s⟩ } = .error (.badType .u256) := by
  unfold toU256
  simp only
  split
  · exact Or.inr rfl
  · left
    have : parseInt s = none := by
      cases s with
      | nil => simp at hc
      | cons a rest =>
        simp only [List.drop_succ_cons, List.drop_zero] at hc
        have h1 : parseNat rest = none := parseNat_none_of_nondigit hc hn
        have h2 : parseNat (a :: rest) = none := parseNat_none_of_nondigit (List.mem_cons_of_mem a hc) hn
        unfold parseInt
        simp [h1, h2]
    simp [this]

example : parseInt [] = none := by decide                       -- ""
example : parseInt [32, 53] = none := by decide                 -- " 5"
example : parseInt [48, 120, 49, 48] = none := by decide        -- "0x10"
example : parseInt [49, 101, 51] = none := by decide            -- "1e3"
example : parseInt [49, 95, 48] = none := by decide             -- "1_0"
example : parseInt [0xd9, 0xa1, 0xd9, 0xa2] = none := by decide -- "١٢"
example : parseInt [43, 53] = some 5 := by decide               -- "+5"
example : parseInt [45, 48] = some 0 := by decide               -- "-0"

/-! ## `ToWormholeMessage` -/

/-- **Exactness of everything accepted.**  If `ToWormholeMessage` returns a message then there were exactly six fields,
of types ByteVec, U256, U256, ByteVec, ByteVec, U256, the byte fields are well-formed hex of 32 / 4 / any bytes and the
numerals denote — as integers, no reduction modulo anything — exactly the returned target chain (< 2^16), sequence
(< 2^64) and consistency level (< 2^8). -/
theorem c11_accepted_exact (fields : List Val) (tx : GoStr) (m : Msg) (h : toWormholeMessage fields tx = .ok m) :
    ∃ f0 f1 f2 f3 f4 f5 nonce, fields = [f0, f1, f2, f3, f4, f5] ∧
      toByteVec f0 = .ok m.sender ∧ m.sender.length = 32 ∧
      toU256 f1 = .ok (m.target : Int) ∧ m.target < 2 ^ 16 ∧
      toU256 f2 = .ok (m.sequence : Int) ∧ m.sequence < 2 ^ 64 ∧
      toByteVec f3 = .ok nonce ∧ nonce.length = 4 ∧ m.nonce = unbe nonce ∧
      toByteVec f4 = .ok m.payload ∧
      toU256 f5 = .ok (m.cl : Int) ∧ m.cl < 2 ^ 8 ∧ m.txId = tx := by
  unfold toWormholeMessage at h
  split at h
  · rename_i f0 f1 f2 f3 f4 f5
    split at h; · cases h
    rename_i emitter h0
    split at h; · cases h
    rename_i target h1
    split at h; · cases h
    rename_i sequence h2
    split at h; · cases h
    rename_i nonce h3
    split at h; · cases h
    rename_i hlen
    split at h; · cases h
    rename_i payload h4
    split at h; · cases h
    rename_i cl h5
    cases h
    obtain ⟨a0, b0⟩ := (toByte32_ok_iff _ _).mp h0
    obtain ⟨a1, b1⟩ := (toUint16_ok_iff _ _).mp h1
    obtain ⟨a2, b2⟩ := (toUint64_ok_iff _ _).mp h2
    obtain ⟨a5, b5⟩ := (toUint8_ok_iff _ _).mp h5
    exact ⟨f0, f1, f2, f3, f4, f5, nonce, rfl, a0, b0, a1, b1, a2, b2, h3, by simpa using hlen, rfl, h4, a5, b5, rfl⟩
  · cases h

/-- Conversely, six well-typed fields that denote in-range values are accepted with exactly those values. -/
theorem c11_fit_fields_accepted (f0 f1 f2 f3 f4 f5 : Val) (tx : GoStr) (s n p : Bytes) (t q c : Nat)
    (h0 : toByteVec f0 = .ok s) (l0 : s.length = 32) (h1 : toU256 f1 = .ok (t : Int)) (l1 : t < 2 ^ 16)
    (h2 : toU256 f2 = .ok (q : Int)) (l2 : q < 2 ^ 64) (h3 : toByteVec f3 = .ok n) (l3 : n.length = 4)
    (h4 : toByteVec f4 = .ok p) (h5 : toU256 f5 = .ok (c : Int)) (l5 : c < 2 ^ 8) :
    toWormholeMessage [f0, f1, f2, f3, f4, f5] tx =
      .ok { txId := tx, sender := s, target := t, nonce := unbe n, payload := p, sequence := q, cl := c } := by
  have e0 := (toByte32_ok_iff f0 s).mpr ⟨h0, l0⟩
  have e1 := (toUint16_ok_iff f1 t).mpr ⟨h1, l1⟩
  have e2 := (toUint64_ok_iff f2 q).mpr ⟨h2, l2⟩
  have e5 := (toUint8_ok_iff f5 c).mpr ⟨h5, l5⟩
  simp [toWormholeMessage, e0, e1, e2, h3, l3, h4, e5]

/-- Wrong number of fields ⇒ error. -/
theorem wrong_count_rejected (fields : List Val) (tx : GoStr) (h : fields.length ≠ 6) :
    toWormholeMessage fields tx = .error .fieldCount := by
  unfold toWormholeMessage
  split
  · simp at h
  · rfl

/-- Wrong type tag (or a different / missing variant) in any of the six positions ⇒ error. -/
theorem wrong_tag_rejected (fields : List Val) (tx : GoStr) (i : Nat) (f : Val) (hi : fields[i]? = some f)
    (hbad : (i ∈ [0, 3, 4] ∧ ∀ t, f.byteVec = some t → t.typ ≠ tagByteVec) ∨ (i ∈ [1, 2, 5] ∧ ∀ t, f.u256 = some t → t.typ ≠ tagU256)) :
    ∃ e, toWormholeMessage fields tx = .error e := by
  cases hres : toWormholeMessage fields tx with
  | error e => exact ⟨e, rfl⟩
  | ok m =>
    exfalso
    obtain ⟨f0, f1, f2, f3, f4, f5, nonce, rfl, a0, _, a1, _, a2, _, a3, _, _, a4, a5, _, _⟩ := c11_accepted_exact _ _ _ hres
    have hb : ∀ g bs, toByteVec g = .ok bs → ∃ t, g.byteVec = some t ∧ t.typ = tagByteVec := by
      intro g bs hg; obtain ⟨t, h1, h2, _⟩ := (toByteVec_ok_iff g bs).mp hg; exact ⟨t, h1, h2⟩
    have hu : ∀ g v, toU256 g = .ok v → ∃ t, g.u256 = some t ∧ t.typ = tagU256 := by
      intro g v hg; obtain ⟨t, h1, h2, _⟩ := (toU256_ok_iff g v).mp hg; exact ⟨t, h1, h2⟩
    rcases hbad with ⟨hm, hb'⟩ | ⟨hm, hu'⟩
    · simp only [List.mem_cons, List.not_mem_nil, or_false] at hm
      rcases hm with rfl | rfl | rfl <;> simp at hi <;> subst hi
      · obtain ⟨t, h1, h2⟩ := hb _ _ a0; exact hb' t h1 h2
      · obtain ⟨t, h1, h2⟩ := hb _ _ a3; exact hb' t h1 h2
      · obtain ⟨t, h1, h2⟩ := hb _ _ a4; exact hb' t h1 h2
    · simp only [List.mem_cons, List.not_mem_nil, or_false] at hm
      rcases hm with rfl | rfl | rfl <;> simp at hi <;> subst hi
      · obtain ⟨t, h1, h2⟩ := hu _ _ a1; exact hu' t h1 h2
      · obtain ⟨t, h1, h2⟩ := hu _ _ a2; exact hu' t h1 h2
      · obtain ⟨t, h1, h2⟩ := hu _ _ a5; exact hu' t h1 h2

/-! ## events as the contract emits them and the node reports them -/

/-- The values of one `WormholeMessage` event (what `publishWormholeMessage` emitted). -/
structure Event where
  sender : Bytes
  target : Nat
  sequence : Nat
  nonce : Bytes
  payload : Bytes
  cl : Nat

/-- "fits the VAA format" -/
def Event.Fits (e : Event) : Prop :=
  e.sender.length = 32 ∧ e.target < 2 ^ 16 ∧ e.sequence < 2 ^ 64 ∧ e.nonce.length = 4 ∧ e.cl < 2 ^ 8

instance (e : Event) : Decidable e.Fits := by unfold Event.Fits; infer_instance

/-- The node's JSON rendering: ByteVec as lower-case hex, U256 as canonical decimal, tagged with the declared types. -/
def Event.render (e : Event) : List Val :=
  [.ofByteVec (encodeHex e.sender), .ofU256 (decBytes e.target), .ofU256 (decBytes e.sequence),
   .ofByteVec (encodeHex e.nonce), .ofByteVec (encodeHex e.payload), .ofU256 (decBytes e.cl)]

private theorem toByteVec_render (b : Bytes) : toByteVec (.ofByteVec (encodeHex b)) = .ok b :=
  (toByteVec_ok_iff _ _).mpr ⟨⟨tagByteVec, encodeHex b⟩, rfl, rfl, decodeHex_encodeHex b⟩

private theorem toU256_render (n : Nat) : toU256 (.ofU256 (decBytes n)) = .ok (n : Int) :=
  (toU256_ok_iff _ _).mpr ⟨⟨tagU256, decBytes n⟩, rfl, rfl, parseInt_decBytes n⟩

/-- **C11, first half.**  Every event whose fields fit the VAA format is decoded into a message with exactly those
values; published with the block timestamp (to the millisecond) and the Alephium chain id. -/
theorem c11_fit_decoded (e : Event) (tx : GoStr) (blockTsMs : Int) (h : e.Fits) :
    ∃ w, toWormholeMessage e.render tx = .ok w ∧
      (toMessagePublication w blockTsMs).emitter = e.sender ∧
      (toMessagePublication w blockTsMs).targetChain = e.target ∧
      (toMessagePublication w blockTsMs).sequence = e.sequence ∧
      (toMessagePublication w blockTsMs).nonce = unbe e.nonce ∧
      (toMessagePublication w blockTsMs).payload = e.payload ∧
      (toMessagePublication w blockTsMs).cl = e.cl ∧
      (toMessagePublication w blockTsMs).emitterChain = 255 ∧
      (toMessagePublication w blockTsMs).unixMilli = blockTsMs := by
  obtain ⟨l0, l1, l2, l3, l5⟩ := h
  refine ⟨_, c11_fit_fields_accepted _ _ _ _ _ _ tx e.sender e.nonce e.payload e.target e.sequence e.cl
    (toByteVec_render _) l0 (toU256_render _) l1 (toU256_render _) l2 (toByteVec_render _) l3 (toByteVec_render _) (toU256_render _) l5,
    rfl, rfl, rfl, rfl, rfl, rfl, rfl, ?_⟩
  exact (goUnix_milli blockTsMs).1

/-- **C11, second half.**  An event with any value outside the VAA ranges is rejected with an error (so it can never
come out wrapped or truncated). -/
theorem c11_unfit_rejected (e : Event) (tx : GoStr) (h : ¬ e.Fits) : ∃ err, toWormholeMessage e.render tx = .error err := by
  cases hres : toWormholeMessage e.render tx with
  | error err => exact ⟨err, rfl⟩
  | ok m =>
    exfalso; apply h
    obtain ⟨f0, f1, f2, f3, f4, f5, nonce, hf, a0, b0, a1, b1, a2, b2, a3, b3, _, _, a5, b5, _⟩ := c11_accepted_exact _ _ _ hres
    simp only [Event.render, List.cons.injEq, and_true] at hf
    obtain ⟨rfl, rfl, rfl, rfl, rfl, rfl⟩ := hf
    rw [toByteVec_render] at a0 a3
    rw [toU256_render] at a1 a2 a5
    simp only [Except.ok.injEq, Int.natCast_inj] at a0 a1 a2 a3 a5
    exact ⟨a0 ▸ b0, by omega, by omega, a3 ▸ b3, by omega⟩

/-! ## the driver's Spec holds of the model -/

private theorem denotesBytesLenient_iff (f : Val) (b : Bytes) : denotesBytesLenient f = some b ↔ toByteVec f = .ok b := by
  rw [toByteVec_ok_iff]
  unfold denotesBytesLenient
  cases hf : f.byteVec with
  | none => simp
  | some t =>
    by_cases ht : t.typ = tagByteVec
    · simp only [ht, if_true, Option.some.injEq, exists_eq_left', true_and]
      cases hd : decodeHex t.value with
      | mk r e =>
        cases e with
        | none => simp
        | some e => simp
    · simp [ht]

private theorem denotesBytes_lenient (f : Val) (b : Bytes) (h : denotesBytes f = some b) : denotesBytesLenient f = some b := by
  unfold denotesBytes at h
  unfold denotesBytesLenient
  cases hf : f.byteVec with
  | none => simp [hf] at h
  | some t =>
    simp only [hf] at h ⊢
    split at h
    · rename_i hc; rw [if_pos hc.1]; exact h
    · cases h

private theorem denotesBytes_toByteVec (f : Val) (b : Bytes) (h : denotesBytes f = some b) : toByteVec f = .ok b :=
  (denotesBytesLenient_iff f b).mp (denotesBytes_lenient f b h)

private theorem denotesNat_toU256 (f : Val) (n : Nat) (h : denotesNat f = some n) : toU256 f = .ok (n : Int) := by
  rw [toU256_ok_iff]
  unfold denotesNat at h
  cases hf : f.u256 with
  | none => simp [hf] at h
  | some t =>
    simp only [hf] at h
    split at h
    · rename_i ht; exact ⟨t, rfl, ht.1, parseInt_of_parseNat h⟩
    · cases h

private theorem denotesNatLenient_iff (f : Val) (n : Nat) : denotesNatLenient f = some n ↔ toU256 f = .ok (n : Int) := by
  rw [toU256_ok_iff]
  unfold denotesNatLenient
  cases hf : f.u256 with
  | none => simp
  | some t =>
    by_cases ht : t.typ = tagU256
    · simp only [ht, if_true, Option.some.injEq, exists_eq_left', true_and]
      cases hp : parseInt t.value with
      | none => simp
      | some v =>
        simp only [Option.some.injEq]
        split
        · simp only [Option.some.injEq]; omega
        · simp only [false_iff, reduceCtorEq]; omega
    · simp [ht]

/-- Every field list that denotes an in-range event (any digit strings, either hex case) is decoded to that event. -/
theorem c11_fit_fields_decoded (fields : List Val) (tx : GoStr) (m : Msg) (h : fitEvent fields tx = some m) :
    toWormholeMessage fields tx = .ok m := by
  unfold fitEvent at h
  split at h
  · rename_i f0 f1 f2 f3 f4 f5
    split at h
    · rename_i s t q n p c d0 d1 d2 d3 d4 d5
      split at h
      · rename_i hr
        cases h
        obtain ⟨l0, l1, l2, l3, l5⟩ := hr
        exact c11_fit_fields_accepted _ _ _ _ _ _ tx s n p t q c (denotesBytes_toByteVec _ _ d0) l0 (denotesNat_toU256 _ _ d1) l1
          (denotesNat_toU256 _ _ d2) l2 (denotesBytes_toByteVec _ _ d3) l3 (denotesBytes_toByteVec _ _ d4) (denotesNat_toU256 _ _ d5) l5
      · cases h
    · cases h
  · cases h

/-- The Spec's "must be accepted" domain contains every in-range event as the node renders it (so the driver's
`fit-rejected` clause is exactly the first half of the statement). -/
theorem c11_render_is_fit (e : Event) (tx : GoStr) (h : e.Fits) :
    fitEvent e.render tx = some { txId := tx, sender := e.sender, target := e.target, nonce := unbe e.nonce,
                                  payload := e.payload, sequence := e.sequence, cl := e.cl } := by
  have hb : ∀ b, denotesBytes (.ofByteVec (encodeHex b)) = some b := by
    intro b; simp [denotesBytes, Val.ofByteVec, isLowerHex_encodeHex, decodeHex_encodeHex]
  have hn : ∀ n, denotesNat (.ofU256 (decBytes n)) = some n := by
    intro n; simp [denotesNat, Val.ofU256, isCanonicalNumeral_decBytes, parseNat_decBytes]
  obtain ⟨l0, l1, l2, l3, l5⟩ := h
  simp only [fitEvent, Event.render, hb, hn]
  rw [if_pos ⟨l0, l1, l2, l3, l5⟩]

/-- Everything the model accepts is the event the fields denote under the lenient reading (sign `+`, `-0`). -/
theorem c11_accepted_denoted (fields : List Val) (tx : GoStr) (m : Msg) (h : toWormholeMessage fields tx = .ok m) :
    fitEventLenient fields tx = some m := by
  obtain ⟨f0, f1, f2, f3, f4, f5, nonce, rfl, a0, b0, a1, b1, a2, b2, a3, b3, hn, a4, a5, b5, htx⟩ := c11_accepted_exact _ _ _ h
  unfold fitEventLenient
  simp only [(denotesBytesLenient_iff _ _).mpr a0, (denotesNatLenient_iff _ _).mpr a1, (denotesNatLenient_iff _ _).mpr a2,
    (denotesBytesLenient_iff _ _).mpr a3, (denotesBytesLenient_iff _ _).mpr a4, (denotesNatLenient_iff _ _).mpr a5]
  rw [if_pos ⟨b0, b1, b2, b3, b5⟩]
  cases m
  simp_all

/-- The Bool Spec the driver evaluates on the implementation's answer is satisfied by the model's answer, for every
field list and transaction id: fit ⇒ accepted with exactly the denoted values, accepted ⇒ denoted, never wrapped. -/
theorem c11_model_meets_spec (fields : List Val) (tx : GoStr) :
    specMsg fields tx (match toWormholeMessage fields tx with | .ok m => some m | .error _ => none) = none := by
  have hsame : ∀ m : Msg, m.sameValues m = true := by intro m; simp [Msg.sameValues]
  unfold specMsg
  cases hfit : fitEvent fields tx with
  | some m =>
    rw [c11_fit_fields_decoded _ _ _ hfit]
    simp [hsame]
  | none =>
    cases hres : toWormholeMessage fields tx with
    | error e => rfl
    | ok o =>
      simp only
      rw [c11_accepted_denoted _ _ _ hres]
      simp [hsame]

/-! ## publication -/

/-- `toMessagePublication` copies every field, stamps chain id 255 and turns the header's milliseconds into a
normalised (seconds, nanoseconds) pair denoting the same instant — for every `int64` (indeed every integer) timestamp,
negative ones included. -/
theorem c11_publication (w : Msg) (ts : Int) :
    specPub w ts (toMessagePublication w ts) = none := by
  obtain ⟨h1, h2, h3, h4⟩ := goUnix_milli ts
  unfold specPub
  have e : (toMessagePublication w ts).unixMilli = ts := h1
  have n1 : (toMessagePublication w ts).nsec = (goUnix (Int.tdiv ts 1000) (Int.tmod ts 1000 * 1000000)).2 := rfl
  simp only [e, n1]
  have c1 : ¬ ((toMessagePublication w ts).emitterChain ≠ 255) := by simp [toMessagePublication, chainIDAlephium]
  rw [if_neg c1, if_neg (by omega)]
  simp [toMessagePublication]

/-- A 64-character hex transaction id is published as exactly its 32 bytes. -/
theorem c11_txhash (b : Bytes) (h : b.length = 32) : hexToHash (encodeHex b) = b := by
  have hl : (encodeHex b).length = 64 := by rw [encodeHex_length, h]
  have hne : ¬ ((encodeHex b).length % 2 = 1) := by omega
  unfold hexToHash
  cases b with
  | nil => simp at h
  | cons x xs =>
    have e : encodeHex (x :: xs) = AlphUtil.hexDigit (x.toNat / 16) :: AlphUtil.hexDigit (x.toNat % 16) :: encodeHex xs := by
      simp [encodeHex]
    -- a lower-case hex string never starts with "0x"
    have hx : ∀ n, n < 16 → ¬ ((AlphUtil.hexDigit n).toNat = 120 ∨ (AlphUtil.hexDigit n).toNat = 88) := by decide
    have hx' := hx (x.toNat % 16) (Nat.mod_lt _ (by omega))
    rw [e] at hne ⊢
    simp only [hx', and_false, if_false, hne]
    rw [← e, decodeHex_encodeHex]
    simp [h]

/-! ## hex ↔ Byte32 -/

/-- `HexToByte32(b.ToHex()) = b`. -/
theorem c11_hex_roundtrip (b : Bytes) (h : b.length = 32) : hexToByte32 (toHex32 b) = .ok b := by
  simp [hexToByte32, hexToFixedSizeBytes, toHex32, encodeHex_length, h, decodeHex_encodeHex]

/-- `HexToByte32(s) = b` implies `s` has 64 characters, `b` has 32 bytes and `b.ToHex()` is `s` (lower-cased). -/
theorem c11_hex_decode_encode (s : GoStr) (b : Bytes) (h : hexToByte32 s = .ok b) :
    s.length = 64 ∧ b.length = 32 ∧ toHex32 b = lowerHex s := by
  unfold hexToByte32 hexToFixedSizeBytes at h
  split at h; · cases h
  rename_i hl
  split at h
  · rename_i r hd
    cases h
    have := decodeHex_length s b hd
    exact ⟨by omega, by omega, encodeHex_of_decodeHex s b hd⟩
  · cases h
  · cases h

/-- Anything that is not exactly `2·length` hex characters is an error. -/
theorem c11_hex_unfit_rejected (s : GoStr) (n : Nat) (h : s.length ≠ 2 * n) : hexToFixedSizeBytes s n = .error .hexFixedLen := by
  unfold hexToFixedSizeBytes
  rw [if_pos (by omega)]

/-! ## attestation payloads -/

/-- **Round trip against the contract encoder.**  Whatever `TokenBridge.attestToken` encodes for an Alephium token
(`localChainId = 255`) is decoded by `parseAttestToken` to the same token id and decimals, and to the symbol / name
fields with their NUL padding removed. -/
theorem c11_attest_roundtrip (tokenId symbol name p : Bytes) (decimals : Nat)
    (h : ralphAttestPayload tokenId 255 decimals symbol name = some p) :
    parseAttestToken p = .ok { tokenId := tokenId, decimals := decimals, symbol := trimNul symbol, name := trimNul name } := by
  unfold ralphAttestPayload at h
  split at h
  · rename_i hc
    obtain ⟨hs, hn, ht, _, hd⟩ := hc
    cases h
    have hlen : (be 1 attestTokenPayloadId ++ tokenId ++ be 2 255 ++ be 1 decimals ++ symbol ++ name).length = 100 := by
      simp [hs, hn, ht]
    unfold parseAttestToken
    rw [if_neg (by rw [hlen]; decide)]
    have s1 : slice (be 1 attestTokenPayloadId ++ tokenId ++ be 2 255 ++ be 1 decimals ++ symbol ++ name) 1 33 = tokenId := by
      have := slice_mid (be 1 attestTokenPayloadId) tokenId (be 2 255 ++ be 1 decimals ++ symbol ++ name) 1 33 (by simp) (by simp [ht])
      simpa [List.append_assoc] using this
    have s2 : slice (be 1 attestTokenPayloadId ++ tokenId ++ be 2 255 ++ be 1 decimals ++ symbol ++ name) 33 35 = be 2 255 := by
      have := slice_mid (be 1 attestTokenPayloadId ++ tokenId) (be 2 255) (be 1 decimals ++ symbol ++ name) 33 35 (by simp [ht]) (by simp)
      simpa [List.append_assoc] using this
    have s3 : slice (be 1 attestTokenPayloadId ++ tokenId ++ be 2 255 ++ be 1 decimals ++ symbol ++ name) 35 36 = be 1 decimals := by
      have := slice_mid (be 1 attestTokenPayloadId ++ tokenId ++ be 2 255) (be 1 decimals) (symbol ++ name) 35 36 (by simp [ht]) (by simp)
      simpa [List.append_assoc] using this
    have s4 : slice (be 1 attestTokenPayloadId ++ tokenId ++ be 2 255 ++ be 1 decimals ++ symbol ++ name) 36 68 = symbol := by
      have := slice_mid (be 1 attestTokenPayloadId ++ tokenId ++ be 2 255 ++ be 1 decimals) symbol name 36 68 (by simp [ht]) (by simp [hs])
      simpa [List.append_assoc] using this
    have s5 : slice (be 1 attestTokenPayloadId ++ tokenId ++ be 2 255 ++ be 1 decimals ++ symbol ++ name) 68 100 = name := by
      have := slice_mid (be 1 attestTokenPayloadId ++ tokenId ++ be 2 255 ++ be 1 decimals ++ symbol) name [] 68 100 (by simp [ht, hs]) (by simp [hn])
      simpa [List.append_assoc] using this
    have u2 : unbe (be 2 255) = 255 := by decide
    have u1 : unbe (be 1 decimals) = decimals := unbe_be_of_lt (by simpa using hd)
    simp only [s1, s2, s3, s4, s5, u2, u1, chainIDAlephium, ne_eq, not_true_eq_false, if_false]
  · cases h

/-- With the padding made explicit: a symbol / name without NUL at either end, padded on the left (this fork's
convention), on the right, or both, comes back exactly. -/
theorem c11_attest_roundtrip_padded (tokenId sym nm p : Bytes) (decimals a b c d : Nat)
    (hs1 : ∀ x, sym.head? = some x → x ≠ 0) (hs2 : ∀ x, sym.getLast? = some x → x ≠ 0)
    (hn1 : ∀ x, nm.head? = some x → x ≠ 0) (hn2 : ∀ x, nm.getLast? = some x → x ≠ 0)
    (h : ralphAttestPayload tokenId 255 decimals (List.replicate a 0 ++ sym ++ List.replicate b 0)
          (List.replicate c 0 ++ nm ++ List.replicate d 0) = some p) :
    parseAttestToken p = .ok { tokenId := tokenId, decimals := decimals, symbol := sym, name := nm } := by
  rw [c11_attest_roundtrip _ _ _ _ _ h, trimNul_padded a b sym hs1 hs2, trimNul_padded c d nm hn1 hn2]

/-- Whatever `parseAttestToken` accepts has exactly 100 bytes, token chain 255, and the returned fields are the
slices at the contract's offsets (nothing else is read). -/
theorem c11_attest_accepted (p : Bytes) (t : TokenInfo) (h : parseAttestToken p = .ok t) :
    p.length = 100 ∧ unbe (slice p 33 35) = 255 ∧ t.tokenId = slice p 1 33 ∧ t.decimals = unbe (slice p 35 36) ∧
    t.symbol = trimNul (slice p 36 68) ∧ t.name = trimNul (slice p 68 100) := by
  unfold parseAttestToken at h
  by_cases hl : p.length = attestTokenPayloadLength
  · by_cases hc : unbe (slice p 33 35) = chainIDAlephium
    · simp only [hl, hc, ne_eq, not_true_eq_false, if_false, Except.ok.injEq] at h
      subst h
      exact ⟨hl, hc, rfl, rfl, rfl, rfl⟩
    · simp [hl, hc] at h
  · simp [hl] at h

/-! ## contract id ↔ address (base58 as a parameter) -/

/-- For any base58 codec with `dec (enc b) = b`: `ToContractId(ToContractAddress(hex id)) = id` for every 32-byte id. -/
theorem c11_contract_id_roundtrip (enc : Bytes → GoStr) (dec : GoStr → B58Res) (hcodec : ∀ b, dec (enc b) = .ok b)
    (id : Bytes) (h : id.length = 32) :
    ∃ a, toContractAddressWith enc (toHex32 id) = .ok a ∧ toContractIdWith dec a = .ok id := by
  refine ⟨enc (3 :: id), ?_, ?_⟩
  · have := c11_hex_roundtrip id h
    unfold hexToByte32 at this
    simp [toContractAddressWith, this]
  · simp [toContractIdWith, hcodec, h]

/-- The other direction: an address that is the encoding of `0x03 ‖ id` maps to `id` and back to itself. -/
theorem c11_contract_address_roundtrip (enc : Bytes → GoStr) (dec : GoStr → B58Res) (hcodec : ∀ b, dec (enc b) = .ok b)
    (id : Bytes) (h : id.length = 32) :
    toContractIdWith dec (enc (3 :: id)) = .ok id ∧ toContractAddressWith enc (toHex32 id) = .ok (enc (3 :: id)) := by
  constructor
  · simp [toContractIdWith, hcodec, h]
  · have := c11_hex_roundtrip id h
    unfold hexToByte32 at this
    simp [toContractAddressWith, this]

/-- The base58 hypothesis holds of the model of btcutil's codec (which is compared with the real library on every
run): `Decode(Encode(b)) = b` for every byte string, leading zero bytes included. -/
theorem c11_base58_roundtrip (b : Bytes) : b58Decode (b58Encode b) = .ok b := b58Decode_b58Encode b

/-- Hence, unconditionally for the modelled code: `ToContractId(ToContractAddress(hex id)) = id` for every 32-byte id,
and a contract address maps to its id and back to itself. -/
theorem c11_contract_id_roundtrip_btcutil (id : Bytes) (h : id.length = 32) :
    (∃ a, toContractAddress (toHex32 id) = .ok a ∧ toContractId a = .ok id) ∧
    toContractId (b58Encode (3 :: id)) = .ok id ∧ toContractAddress (toHex32 id) = .ok (b58Encode (3 :: id)) :=
  ⟨c11_contract_id_roundtrip b58Encode b58Decode b58Decode_b58Encode id h,
   c11_contract_address_roundtrip b58Encode b58Decode b58Decode_b58Encode id h⟩

/-- The concrete btcutil model on a sample with a leading zero byte. -/
example : b58Decode (b58Encode [3, 0, 255, 7]) = .ok [3, 0, 255, 7] := by decide

/-! ## contract layout, re-extracted from the sources on every run -/

/-- The event the governance contract declares has the six fields, in the order and with the types the Go converter
expects, and is emitted with its parameters in that order. -/
theorem c11_event_shape :
    Gen.C11.eventFieldTypes = [tagByteVec, tagU256, tagU256, tagByteVec, tagByteVec, tagU256] ∧
    Gen.C11.eventFieldNames = ["sender", "targetChainId", "sequence", "nonce", "payload", "consistencyLevel"] ∧
    Gen.C11.eventFieldTypes.length = wormholeMessageFieldSize ∧
    Gen.C11.goWormholeMessageFieldSize = wormholeMessageFieldSize ∧
    Gen.C11.emitInOrder = true ∧ Gen.C11.emitTyped = true ∧ Gen.C11.clLowerBoundOnly = true := by decide

/-- `WormholeMessage` is declared at the position among the governance contract's events that the watcher selects
(`WormholeMessageEventIndex` in utils.go): a node reports events by that index. -/
theorem c11_event_index : Gen.C11.eventIndex = Gen.C11.goWormholeMessageEventIndex := by decide

/-- The event's `sender` is `callerContractId!()`; the only contract that calls `governance.publishWormholeMessage` is the TokenBridge
contract, whose id the watcher is configured with. -/
theorem c11_only_token_bridge_publishes : Gen.C11.wormholePublishers = ["token_bridge/token_bridge.ral"] := by decide

/-- running end offsets of a width list -/
def ends : List Nat → Nat → List Nat
  | [], _ => []
  | w :: ws, o => (o + w) :: ends ws (o + w)

/-- The attestation payload the token bridge builds has the widths the model's encoder uses, the payload id the Go
code tests, and its field boundaries are the offsets both the Go parser and the Ralph handler slice at. -/
theorem c11_attest_layout :
    Gen.C11.attestEncoder.map (·.2) = attestLayout ∧
    Gen.C11.attestEncoder.map (·.1) = ["payloadId", "localTokenId", "localChainId", "decimals", "symbol", "name"] ∧
    Gen.C11.attestPayloadId = attestTokenPayloadId ∧ Gen.C11.goAttestTokenPayloadId = attestTokenPayloadId ∧
    Gen.C11.goTransferTokenPayloadId = transferTokenPayloadId ∧
    ends attestLayout 0 = attestOffsets ++ [attestTokenPayloadLength] ∧
    Gen.C11.goAttestTokenPayloadLength = attestTokenPayloadLength ∧ Gen.C11.handlerSize = attestTokenPayloadLength ∧
    Gen.C11.handlerSlices = [("tokenId", 1, 33), ("tokenChainId", 33, 35), ("decimals", 35, 36), ("symbol", 36, 68), ("name", 68, 100)] ∧
    Gen.C11.goSlices = [(1, 33), (33, 35), (36, 68), (68, 100), (35, 36)] ∧
    Gen.C11.goChainIDAlephium = chainIDAlephium ∧ Gen.C11.goHashLength = 32 := by decide

/-! ## non-vacuity -/

def sampleEvent : Event :=
  { sender := List.replicate 32 0xde, target := 65535, sequence := 2 ^ 64 - 1, nonce := [0x12, 0xe5, 0x51, 0xd9],
    payload := [2, 0, 255], cl := 255 }

example : sampleEvent.Fits := by decide
example : ¬ { sampleEvent with cl := 256 }.Fits := by decide
example : ¬ { sampleEvent with target := 65536 }.Fits := by decide
example : ¬ { sampleEvent with sequence := 2 ^ 64 }.Fits := by decide
example : ¬ { sampleEvent with nonce := [1, 2, 3] }.Fits := by decide
example : (toWormholeMessage sampleEvent.render []).toOption.map (·.cl) = some 255 := by decide
example : fitEvent sampleEvent.render [] ≠ none := by decide
example : (ralphAttestPayload (List.replicate 32 7) 255 18 (List.replicate 28 0 ++ [65, 76, 80, 72]) (List.replicate 24 0 ++ [65, 108, 101, 112, 104, 105, 117, 109])).isSome = true := by decide
example : hexToByte32 (toHex32 (List.replicate 32 0xab)) = .ok (List.replicate 32 0xab) := c11_hex_roundtrip _ (by decide)


/-! hypotheses of the theorems above are satisfiable by concrete, non-trivial instances -/

-- toUintN_rejects: "-1" and "256" really parse (so the rejection is not vacuous)
example : toU256 (.ofU256 [45, 49]) = .ok (-1) := by decide
example : toUint8 (.ofU256 [45, 49]) = .error .uint8 := toUint8_rejects _ (-1) (by decide) (by omega)
example : toUint16 (.ofU256 [54, 53, 53, 51, 54]) = .error .uint16 := toUint16_rejects _ 65536 (by decide) (by omega)
example : toUint64 (.ofU256 [45, 53]) = .error .uint64 := toUint64_rejects _ (-5) (by decide) (by omega)
-- non_numeric_rejected: 'x' inside "0x10"
example : (120 : UInt8) ∈ ([48, 120, 49, 48] : GoStr).drop 1 ∧ isDigit 120 = false := by decide
-- c11_accepted_exact / c11_accepted_denoted: something is accepted
example : (toWormholeMessage sampleEvent.render [0xab]).toOption.isSome = true := by decide
-- c11_fit_fields_decoded: upper-case hex and leading zeros are outside the strict domain, lower-case canonical is inside
example : (fitEvent sampleEvent.render []).isSome = true := by decide
example : denotesBytes (.ofByteVec [65, 66]) = none ∧ denotesBytesLenient (.ofByteVec [65, 66]) = some [0xab] := by decide   -- "AB"
example : denotesNat (.ofU256 [48, 55]) = none ∧ denotesNatLenient (.ofU256 [48, 55]) = some 7 := by decide                 -- "07"
-- wrong_count_rejected / wrong_tag_rejected
example : toWormholeMessage (sampleEvent.render.take 5) [] = .error .fieldCount := wrong_count_rejected _ _ (by decide)
example : ∃ e, toWormholeMessage (sampleEvent.render.set 5 { u256 := some ⟨tagI256, [49]⟩ }) [] = .error e :=
  wrong_tag_rejected _ _ 5 _ rfl (Or.inr ⟨by decide, by intro t h; cases h; decide⟩)
-- c11_unfit_rejected
example : ∃ err, toWormholeMessage { sampleEvent with cl := 256 }.render [] = .error err := c11_unfit_rejected _ _ (by decide)
-- c11_hex_decode_encode: an upper-case string is accepted and re-encodes to its lower-case form
example : (hexToByte32 (List.replicate 64 65)).toOption.isSome = true := by decide
-- c11_attest_roundtrip_padded: "ALPH" left-padded, "Alephium" right-padded
example : parseAttestToken (be 1 2 ++ List.replicate 32 7 ++ be 2 255 ++ be 1 18 ++ (List.replicate 28 0 ++ [65, 76, 80, 72]) ++
      ([65, 108, 101, 112, 104, 105, 117, 109] ++ List.replicate 24 0)) =
    .ok { tokenId := List.replicate 32 7, decimals := 18, symbol := [65, 76, 80, 72], name := [65, 108, 101, 112, 104, 105, 117, 109] } := by
  have h := c11_attest_roundtrip_padded (List.replicate 32 7) [65, 76, 80, 72] [65, 108, 101, 112, 104, 105, 117, 109]
    (be 1 2 ++ List.replicate 32 7 ++ be 2 255 ++ be 1 18 ++ (List.replicate 28 0 ++ [65, 76, 80, 72] ++ List.replicate 0 0) ++
      (List.replicate 0 0 ++ [65, 108, 101, 112, 104, 105, 117, 109] ++ List.replicate 24 0)) 18 28 0 0 24
    (by decide) (by decide) (by decide) (by decide) (by decide)
  simpa using h
-- c11_attest_accepted
example : (parseAttestToken (List.replicate 33 1 ++ [0, 255] ++ List.replicate 65 0)).toOption.isSome = true := by decide
-- c11_contract_id_roundtrip_btcutil: a 32-byte id
example : (List.replicate 32 (0 : UInt8)).length = 32 := by decide

/-! ## the block timestamp is the event's own block's

`toMessagePublication` takes the header as an argument; which header the watcher passes is part of "decoded into a message
with exactly those values, the block timestamp, …".  In the model of the watcher (`Whv/Model/AlphWatch.lean`, tied to the
real `handleConfirmedEvents` / `handleObsvRequest` by the `alphwatch` driver) a confirmed batch is a list of (event, header of
its block) pairs, and every message is published under the header it is paired with. -/

/-- **Every message of a confirmed batch carries its own block's timestamp and its own consistency level**, in whatever
order the batch arrives and whatever events of other senders it contains. -/
theorem c11_batch_block_timestamp (cfg : Alph.Cfg) (conf : List (Alph.Unconf × Alph.Header)) :
    ∀ p ∈ (Alph.handleConfirmed cfg conf).1.map Alph.pubOf,
      ∃ c ∈ conf, p = Alph.toPub c.1.ev.tx c.1.msg c.2 ∧ p.ts = c.2.ts ∧ p.cl = c.1.msg.cl ∧ p.seq = c.1.msg.seq ∧ p.emitterChain = 255 := by
  intro p hp
  obtain ⟨c, hc, rfl⟩ := List.mem_map.1 hp
  exact ⟨c, (Alph.handleConfirmed_mem cfg conf c hc).1, rfl, rfl, rfl, rfl, rfl⟩

example : (Alph.handleConfirmed ⟨true, [7], "gov"⟩
    [(⟨⟨0, "b1", "t1", 0, "-", none⟩, ⟨[7], 2, 5, 9, 1, [1]⟩⟩, ⟨100, 0⟩), (⟨⟨1, "b0", "t0", 0, "-", none⟩, ⟨[8], 2, 5, 1, 1, [1]⟩⟩, ⟨90, 7⟩),
     (⟨⟨2, "b2", "t2", 0, "-", none⟩, ⟨[7], 2, 6, 8, 3, [1]⟩⟩, ⟨101, 16000⟩)]).1.map (fun c => ((Alph.pubOf c).seq, (Alph.pubOf c).ts, (Alph.pubOf c).cl))
    = [(9, 0, 1), (8, 16000, 3)] := by decide

/-- **The pending message is the event's message.**  Whatever `handleUnconfirmedEvents` hands to the event loop for a page — under
any answers of the token contracts, and for any watcher configuration: the conversion (`toUnconfirmedEvent`) does not read one —
is an event of that page together with exactly the message its fields decode to.  No field (the consistency level, say) is
adjusted on the way from a fetched event to a pending one; `c11_batch_block_timestamp` carries that through to the publication. -/
theorem c11_pending_message_exact (ans : Bytes → Alph.TiAns) (evs : List Alph.Event) :
    ∀ u ∈ Alph.handleUnconfirmed ans evs, u.ev ∈ evs ∧ u.ev.idx = 0 ∧ u.ev.conv = some u.msg := by
  intro u hu
  obtain ⟨e, he, hacc⟩ := List.mem_filterMap.1 hu
  obtain ⟨h1, h2, h3, _⟩ := Alph.acceptEv_some hacc
  exact ⟨h1 ▸ he, h1 ▸ h2, h1 ▸ h3⟩

-- a transfer with consistency level 3: the pending message and the publication carry 3 (nothing in the model knows a network flag here)
example : (Alph.handleUnconfirmed (fun _ => .apiErr) [⟨0, "b1", "t1", 0, "-", some ⟨[7], 2, 5, 9, 3, [1]⟩⟩]).map (·.msg.cl) = [3] := by decide

end Whv.C11
