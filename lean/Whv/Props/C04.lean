import Whv.Lemmas.Vaa
import Whv.Gen.C04
import Whv.Driver.Vaa
/-!
# C04 — the signing digest is a deterministic, injective function of the message

* Go side: `Whv.serializeBody` / `Whv.marshal` (hand-written model, tied by the correspondence run).
* Contract side: `Whv.Gen.C04` (offset tables re-extracted from `Messages.sol` and `governance.ral` on every run).
* Keccak is never modelled: the digest is `H (H (serializeBody b))` for an arbitrary function `H`; everything
  is proved at pre-image level.
-/
namespace Whv.C04
open Whv

def fieldAt (bs : Bytes) (off w : Nat) : Bytes := (bs.drop off).take w

private theorem drop_app' {a b : Bytes} {n k : Nat} (h : a.length = k) (hk : k ≤ n) :
    (a ++ b).drop n = b.drop (n - k) := by
  subst h; rw [List.drop_append]; simp [List.drop_eq_nil_of_le hk]

private theorem take_app {a b : Bytes} {n : Nat} (h : a.length = n) : (a ++ b).take n = a := by subst h; simp

/-- The model's layout table: (field, offset, width); width 0 = the rest. -/
def bodyLayout : List (String × Nat × Nat) :=
  [("timestamp", 0, 4), ("nonce", 4, 4), ("emitterChainId", 8, 2), ("targetChainId", 10, 2),
   ("emitterAddress", 12, 32), ("sequence", 44, 8), ("consistencyLevel", 52, 1), ("payload", 53, 0)]

/-- `serializeBody` really puts each big-endian field at the offset `bodyLayout` names. -/
theorem body_layout (b : Body) (h : b.emitter.length = 32) :
    fieldAt (serializeBody b) 0 4 = be 4 b.ts ∧
    fieldAt (serializeBody b) 4 4 = be 4 b.nonce ∧
    fieldAt (serializeBody b) 8 2 = be 2 b.emitterChain ∧
    fieldAt (serializeBody b) 10 2 = be 2 b.targetChain ∧
    fieldAt (serializeBody b) 12 32 = b.emitter ∧
    fieldAt (serializeBody b) 44 8 = be 8 b.sequence ∧
    fieldAt (serializeBody b) 52 1 = be 1 b.consistency ∧
    (serializeBody b).drop 53 = b.payload := by
  unfold fieldAt serializeBody
  refine ⟨?_, ?_, ?_, ?_, ?_, ?_, ?_, ?_⟩
  · simp [take_app (be_length 4 b.ts)]
  · rw [drop_app' (be_length _ _) (by omega)]; simp [take_app (be_length 4 b.nonce)]
  · rw [drop_app' (be_length _ _) (by omega), drop_app' (be_length _ _) (by omega)]
    simp [take_app (be_length 2 b.emitterChain)]
  · rw [drop_app' (be_length _ _) (by omega), drop_app' (be_length _ _) (by omega), drop_app' (be_length _ _) (by omega)]
    simp [take_app (be_length 2 b.targetChain)]
  · rw [drop_app' (be_length _ _) (by omega), drop_app' (be_length _ _) (by omega), drop_app' (be_length _ _) (by omega),
      drop_app' (be_length _ _) (by omega)]
    simp [take_app h]
  · rw [drop_app' (be_length _ _) (by omega), drop_app' (be_length _ _) (by omega), drop_app' (be_length _ _) (by omega),
      drop_app' (be_length _ _) (by omega), drop_app' h (by omega)]
    simp [take_app (be_length 8 b.sequence)]
  · rw [drop_app' (be_length _ _) (by omega), drop_app' (be_length _ _) (by omega), drop_app' (be_length _ _) (by omega),
      drop_app' (be_length _ _) (by omega), drop_app' h (by omega), drop_app' (be_length _ _) (by omega)]
    simp [take_app (be_length 1 b.consistency)]
  · rw [drop_app' (be_length _ _) (by omega), drop_app' (be_length _ _) (by omega), drop_app' (be_length _ _) (by omega),
      drop_app' (be_length _ _) (by omega), drop_app' h (by omega), drop_app' (be_length _ _) (by omega),
      drop_app' (be_length _ _) (by omega)]
    simp

/-- Solidity `parseVM` reads exactly the model's body layout … -/
theorem sol_body_offsets : Whv.Gen.C04.solBody = bodyLayout := by decide

/-- … and every body field the Ralph parser reads sits at the model's offset with the model's width. -/
theorem ral_body_offsets : (∀ e ∈ Whv.Gen.C04.ralBody, e ∈ bodyLayout) ∧ Whv.Gen.C04.ralConvMismatch = 0 := by decide

/-- Header and signature records: 1 + 4 + 1 bytes, then 66-byte records (index ‖ 65-byte signature), in all three. -/
theorem header_offsets :
    Whv.Gen.C04.solHeader = [("version", 0, 1), ("guardianSetIndex", 1, 4), ("signersLen", 5, 1)] ∧
    Whv.Gen.C04.ralHeader = [("version", 0, 1), ("guardianSetIndex", 1, 4), ("signersLen", 5, 1)] ∧
    Whv.Gen.C04.solSig = [("guardianIndex", 0, 1), ("r", 1, 32), ("s", 33, 32), ("v", 65, 1)] ∧
    Whv.Gen.C04.ralSig = [("guardianIndex", 0, 1), ("signature", 1, 65)] ∧
    Whv.Gen.C04.ralSigStart = 6 ∧ Whv.Gen.C04.ralSigStride = 66 ∧ Whv.Gen.C04.ralBodyStart = (6, 66) ∧
    Whv.Gen.C04.ralBodyStartCount = "signatureSize" := by decide

/-- Both contracts hash the body twice (and Solidity checks the version byte). The Go side is not a textual fact: `SigningMsg`
is compared with Keccak(Keccak(`SerializeBody`)) recomputed by the harness on every `body` line (clause
`digest-not-double-keccak`). -/
theorem double_hash_everywhere :
    Whv.Gen.C04.solDoubleHash = true ∧ Whv.Gen.C04.ralDoubleHash = true ∧
    Whv.Gen.C04.solVersionCheck = true := by decide

/-- The bytes the contracts hash — everything after the `6 + 66·k`-byte header of the wire form — are exactly the
Go signing body, whatever the header says. -/
theorem wire_body (v : Vaa) (hs : ∀ s ∈ v.sigs, s.WF) :
    (marshal v).drop (Whv.Gen.C04.ralBodyStart.1 + v.sigs.length * Whv.Gen.C04.ralBodyStart.2) = serializeBody v.body := by
  have e : Whv.Gen.C04.ralBodyStart = (6, 66) := header_offsets.2.2.2.2.2.2.1
  rw [e]
  unfold marshal
  rw [drop_app' (be_length _ _) (by omega), drop_app' (be_length _ _) (by omega), drop_app' (be_length _ _) (by omega),
    drop_app' (sigsBytes_length _ hs) (by omega)]
  have : 6 + v.sigs.length * 66 - 1 - 4 - 1 - 66 * v.sigs.length = 0 := by omega
  rw [this]; rfl

/-- `SigningMsg` for an arbitrary hash function `H` (Keccak-256 in the code; never modelled). -/
def signingMsg (H : Bytes → Bytes) (v : Vaa) : Bytes := H (H (serializeBody v.body))

/-- The digest ignores version, guardian-set index and signatures: it is a function of the body alone. -/
theorem header_independent (H : Bytes → Bytes) (v₁ v₂ : Vaa) (h : v₁.body = v₂.body) :
    signingMsg H v₁ = signingMsg H v₂ := by
  unfold signingMsg; rw [h]

/-- What the contracts hash from the wire form is what the guardians signed. -/
theorem contract_digest_eq (H : Bytes → Bytes) (v : Vaa) (hs : ∀ s ∈ v.sigs, s.WF) :
    H (H ((marshal v).drop (Whv.Gen.C04.ralBodyStart.1 + v.sigs.length * Whv.Gen.C04.ralBodyStart.2))) = signingMsg H v := by
  rw [wire_body v hs]; rfl

/-- **Injectivity**: two in-range bodies with the same signing body are equal, field for field. -/
theorem body_injective (b₁ b₂ : Body) (h₁ : b₁.WF) (h₂ : b₂.WF)
    (h : serializeBody b₁ = serializeBody b₂) : b₁ = b₂ := by
  obtain ⟨a1, a2, a3, a4, a5, a6, a7⟩ := h₁
  obtain ⟨c1, c2, c3, c4, c5, c6, c7⟩ := h₂
  unfold serializeBody at h
  obtain ⟨e1, h⟩ := List.append_inj h (by simp)
  obtain ⟨e2, h⟩ := List.append_inj h (by simp)
  obtain ⟨e3, h⟩ := List.append_inj h (by simp)
  obtain ⟨e4, h⟩ := List.append_inj h (by simp)
  obtain ⟨e5, h⟩ := List.append_inj h (by rw [a5, c5])
  obtain ⟨e6, h⟩ := List.append_inj h (by simp)
  obtain ⟨e7, e8⟩ := List.append_inj h (by simp)
  have := be_inj_of_lt a1 c1 e1
  have := be_inj_of_lt a2 c2 e2
  have := be_inj_of_lt a3 c3 e3
  have := be_inj_of_lt a4 c4 e4
  have := be_inj_of_lt a6 c6 e6
  have := be_inj_of_lt a7 c7 e7
  cases b₁; cases b₂; simp_all

/-- Contrapositive, as the statement puts it: two messages that differ in any body field never share a signing body. -/
theorem differ_then_bodies_differ (b₁ b₂ : Body) (h₁ : b₁.WF) (h₂ : b₂.WF) (hne : b₁ ≠ b₂) :
    serializeBody b₁ ≠ serializeBody b₂ := fun h => hne (body_injective b₁ b₂ h₁ h₂ h)

/-- The processor builds the body from a chain message whose time is (seconds, nanoseconds): only whole
seconds (mod 2^32, Go's `uint32(Unix())`) enter. -/
def bodyOfMessage (sec : Nat) (_nsec : Nat) (nonce ec tc : Nat) (em : Bytes) (seq cl : Nat) (payload : Bytes) : Body :=
  { ts := sec % 256 ^ 4, nonce := nonce, emitterChain := ec, targetChain := tc, emitter := em,
    sequence := seq, consistency := cl, payload := payload }

theorem subsecond_independent (sec ns₁ ns₂ nonce ec tc : Nat) (em : Bytes) (seq cl : Nat) (p : Bytes) :
    serializeBody (bodyOfMessage sec ns₁ nonce ec tc em seq cl p) =
    serializeBody (bodyOfMessage sec ns₂ nonce ec tc em seq cl p) := rfl

/-- Non-vacuity: two concrete in-range bodies differing only in the consistency level have different signing bodies. -/
def sampleBody (cl : Nat) : Body :=
  { ts := 1700000000, nonce := 1, emitterChain := 255, targetChain := 2, emitter := List.replicate 32 7,
    sequence := 5, consistency := cl, payload := [1, 2, 3] }
example : (sampleBody 1).WF ∧ (sampleBody 2).WF ∧ serializeBody (sampleBody 1) ≠ serializeBody (sampleBody 2) := by decide

/-- The driver's reading of a serialized VAA as the contracts read it (`contractBody`: skip `6 + 66·(count byte)` bytes) yields the
signing body — for EVERY payload length, the empty payload included (the clause `wire-body-not-signing-body` evaluates exactly this
on `Marshal`'s output). -/
theorem contract_body_of_wire (v : Vaa) (hn : v.sigs.length ≤ 255) (hs : ∀ s ∈ v.sigs, s.WF) :
    Whv.Driver.VaaFam.contractBody (marshal v) = serializeBody v.body := by
  unfold Whv.Driver.VaaFam.contractBody
  have e : marshal v = (be 1 v.version ++ be 4 v.gsIndex) ++ (be 1 v.sigs.length ++ (sigsBytes v.sigs ++ serializeBody v.body)) := by
    simp [marshal, List.append_assoc]
  rw [e, takeN_append_of_length (by simp [be_length])]
  simp only [takeN_append_of_length (be_length 1 _)]
  rw [unbe_be1 (by omega), ← sigsBytes_length _ hs]
  simp

/-- Two VAAs with different (in-range) bodies never share a wire form: the body can be read back from the serialized VAA. -/
theorem wire_determines_body (v₁ v₂ : Vaa) (n₁ : v₁.sigs.length ≤ 255) (n₂ : v₂.sigs.length ≤ 255)
    (s₁ : ∀ s ∈ v₁.sigs, s.WF) (s₂ : ∀ s ∈ v₂.sigs, s.WF) (w₁ : v₁.body.WF) (w₂ : v₂.body.WF)
    (h : marshal v₁ = marshal v₂) : v₁.body = v₂.body := by
  apply body_injective _ _ w₁ w₂
  rw [← contract_body_of_wire v₁ n₁ s₁, ← contract_body_of_wire v₂ n₂ s₂, h]

/-- Non-vacuity: the empty payload and the payload `[0]` have different wire forms. -/
example : marshal ⟨1, 0, [], { sampleBody 1 with payload := [] }⟩ ≠ marshal ⟨1, 0, [], { sampleBody 1 with payload := [0] }⟩ := by decide

end Whv.C04
