import Whv.Lemmas.Processor
import Whv.Gen.Proc
/-!
# C13 — no untrusted input can crash the signing pipeline

Model: `Whv.Proc.step` / `Whv.Proc.run` (`Whv/Model/Processor.lean`), where every Go panic site reachable from the
processor's input channels is an explicit `Res.panic`: the signer failing, `panic("invalid sig len")`,
`StoreSignedVAA` on an unsigned VAA, the stored-VAA decode (repaired: log and drop), and every nil dereference of a
guardian set or of `ourVAA` in the cleanup routine (the first repaired by dropping injections while no set is known).
The tie (`checks/c13.py`) makes the model *predict* panics: the harness recovers panics of the real handlers and the
two streams must agree line by line.
-/
namespace Whv.C13
open Whv Whv.Proc

/-- **No panic, ever.** For every oracle that satisfies the two stated assumptions (the node's signer does not fail;
ecrecover succeeds only on 65-byte signatures), every configuration and every finite sequence of chain messages (any
payload incl. empty, any timestamp), gossiped observations (any bytes), inbound VAAs (any bytes), injections,
guardian-set updates and cleanup ticks (any times, any queue fill), the processor started from its initial state
handles the whole sequence without panicking. -/
theorem no_panic (O : Oracle) (hO : OracleOk O) (cfg : Config) (es : List Event) :
    ∃ sf outs, run O cfg {} es = .ok (sf, outs) := by
  obtain ⟨sf, outs, h, _⟩ := run_ok hO cfg es inv_init
  exact ⟨sf, outs, h⟩

/-- The same from any reachable state: after any history, any further input is handled (the node keeps processing). -/
theorem keeps_processing (O : Oracle) (hO : OracleOk O) (cfg : Config) (es es' : List Event) :
    ∃ s, (∃ outs, run O cfg {} es = .ok (s, outs)) ∧ ∃ sf outs', run O cfg s es' = .ok (sf, outs') := by
  obtain ⟨s, outs, h, hi⟩ := run_ok hO cfg es inv_init
  obtain ⟨sf, outs', h', _⟩ := run_ok hO cfg es' hi
  exact ⟨s, ⟨outs, h⟩, sf, outs', h'⟩

/-- Step form with the invariant visible: every single handler call from a state satisfying `Inv` succeeds and
re-establishes `Inv` — which is what makes the induction go through. -/
theorem step_no_panic (O : Oracle) (hO : OracleOk O) (cfg : Config) (s : PState) (h : Inv s) (e : Event) :
    ∃ s' outs, step O cfg s e = .ok s' outs ∧ Inv s' := step_ok hO cfg h e

/-- The guards are needed (the unrepaired code's two crashes, as theorems about the model with the guard removed):
an entry without any guardian set makes the settle step of the cleanup panic … -/
theorem cleanup_needs_set :
    settleAct none { firstObserved := 0 } = .panic "nil guardian set in cleanup" := rfl

/-- … and the invariant is exactly what rules that state out: it is not `Inv`. -/
theorem nil_set_entry_not_inv : ¬ Inv { gs := none, agg := [([1], { firstObserved := 0 })], db := [] } := by
  intro h
  have := h.2 (by simp)
  simp at this

/-- The model's `step` dispatches events to handlers exactly as the `select` of `Processor.Run` does in the source (arms
re-extracted from processor.go on every run): guardian-set updates assign `p.gs` (and publish it to the shared state), chain
messages go to `handleMessage`, injections to `handleInjection`, gossiped observations (and the own loopback) to
`handleObservation`, inbound signed VAAs to `handleInboundSignedVAAWithQuorum`, cleanup ticks to `handleCleanup`; there is no
other arm. The harness calls the handlers directly; this is what licenses that. -/
theorem run_dispatch_as_modelled :
    Whv.Gen.Proc.runArms =
      [("ctx.Done()", "return"), ("p.setC", "set:gst"), ("p.lockC", "handleMessage"), ("p.injectC", "handleInjection"),
       ("p.obsvC", "handleObservation"), ("p.signedInC", "handleInboundSignedVAAWithQuorum"), ("p.cleanup.C", "handleCleanup")] := by
  decide

/-- Non-vacuity: an oracle meeting the assumptions exists, and a concrete run with an empty-payload message,
its loopback, a re-observation and a cleanup tick goes through. -/
def sampleOracle : Oracle :=
  { recover := fun _ s => if s.length = 65 then some (List.replicate 20 7) else none,
    digestOf := fun _ => List.replicate 32 1,
    sign := fun _ => some (List.replicate 65 9) }

example : OracleOk sampleOracle :=
  ⟨fun _ => rfl, fun _ s a h => by
    unfold sampleOracle at h
    simp only at h
    split at h
    · assumption
    · cases h⟩

end Whv.C13
