import Whv.Model.Reobserve
import Whv.Gen.C17
/-!
# C17 — re-observation requests are routed once per transaction and never block

Model: `Whv.Reobserve` (`dispatch`, `purge`, histories `run`, the queue system `step`/`runOps`, `post`).
Every theorem is for every cache, every history / operation sequence, every queue answer and every window `w`;
the extracted durations (`Whv.Gen.C17`) appear only in `c17_window_about_eleven_minutes`.
-/
namespace Whv.C17
open Whv Whv.Reobserve

/-- At most one cache entry per key (what a Go map guarantees; here it is an invariant of the model). -/
def KeysNodup (c : Cache) : Prop := (c.map (·.1)).Nodup

/-! ### helpers -/

private theorem hasKey_of_mem {c : Cache} {k : Key} {a : Nat} (h : (k, a) ∈ c) : hasKey c k = true := by
  simp only [hasKey, List.any_eq_true]
  exact ⟨(k, a), h, by simp⟩

private theorem hasKey_false_iff {c : Cache} {k : Key} : hasKey c k = false ↔ ∀ a, (k, a) ∉ c := by
  constructor
  · intro h a hm
    rw [hasKey_of_mem hm] at h; cases h
  · intro h
    cases hk : hasKey c k with
    | false => rfl
    | true =>
      simp only [hasKey, List.any_eq_true] at hk
      obtain ⟨⟨k', a⟩, hm, he⟩ := hk
      have : k' = k := by simpa using he
      subst this
      exact absurd hm (h a)

private theorem hasKey_iff_mem_keys {c : Cache} {k : Key} : hasKey c k = true ↔ k ∈ c.map (·.1) := by
  simp only [hasKey, List.any_eq_true, List.mem_map]
  constructor
  · rintro ⟨e, hm, he⟩; exact ⟨e, hm, by simpa using he⟩
  · rintro ⟨e, hm, he⟩; exact ⟨e, hm, by simpa using he⟩

private theorem mem_purge {w now : Nat} {c : Cache} {e : Key × Nat} :
    e ∈ purge w now c ↔ e ∈ c ∧ ¬ now > e.2 + w := by
  simp [purge, List.mem_filter]

private theorem dispatch_cases (c : Cache) (now : Nat) (r : Req) (room : Nat → Option Bool) :
    (hasKey c r.key = true ∧ dispatch c now r room = (c, .duplicate)) ∨
    (hasKey c r.key = false ∧ room (r.chain % 65536) = none ∧ dispatch c now r room = (c, .unknown)) ∨
    (hasKey c r.key = false ∧ room (r.chain % 65536) = some false ∧ dispatch c now r room = (c, .full)) ∨
    (hasKey c r.key = false ∧ room (r.chain % 65536) = some true ∧
      dispatch c now r room = ((r.key, now) :: c, .forwarded (r.chain % 65536))) := by
  unfold dispatch
  cases hk : hasKey c r.key with
  | true => simp
  | false =>
    simp only [Bool.false_eq_true, if_false, Req.key]
    cases hr : room (r.chain % 65536) with
    | none => simp
    | some b => cases b <;> simp

/-! ### routing: only the named chain, exactly when not remembered and the watcher has room -/

/-- A request is forwarded only to the watcher of the chain it names (the 16-bit `vaa.ChainID` of its `chain_id`),
and only if that watcher exists and its queue had room. -/
theorem c17_only_named_chain (c c' : Cache) (now : Nat) (r : Req) (room : Nat → Option Bool) (ch : Nat)
    (h : dispatch c now r room = (c', .forwarded ch)) :
    ch = r.chain % 65536 ∧ room ch = some true ∧ hasKey c r.key = false := by
  rcases dispatch_cases c now r room with ⟨_, e⟩ | ⟨_, _, e⟩ | ⟨_, _, e⟩ | ⟨hk, hr, e⟩
  all_goals rw [e] at h
  all_goals first
    | (injection h with _ h2; cases h2; done)
    | (injection h with _ h2; injection h2 with h3; subst h3; exact ⟨rfl, hr, hk⟩)

example : dispatch [] 5 ⟨65538, [1]⟩ (fun ch => if ch = 2 then some true else none) = ([((2, [1]), 5)], .forwarded 2) := by
  decide

/-- Forwarded exactly when the key is not remembered and the named watcher's queue has room. -/
theorem c17_forwarded_iff (c : Cache) (now : Nat) (r : Req) (room : Nat → Option Bool) :
    (dispatch c now r room).2 = .forwarded (r.chain % 65536) ↔
      hasKey c r.key = false ∧ room (r.chain % 65536) = some true := by
  rcases dispatch_cases c now r room with ⟨hk, e⟩ | ⟨hk, hr, e⟩ | ⟨hk, hr, e⟩ | ⟨hk, hr, e⟩
  · rw [e]; simp [hk]
  · rw [e]; simp [hr]
  · rw [e]; simp [hr]
  · rw [e]; simp [hk, hr]

example : (dispatch [((2, [1]), 5)] 9 ⟨2, [1]⟩ (fun _ => some true)).2 = .duplicate := by decide

/-- Unknown chain, full queue, or a remembered key: the request is dropped and NOT remembered — the cache is
unchanged (so the next request for the same transaction is judged afresh). -/
theorem c17_drop_not_remembered (c : Cache) (now : Nat) (r : Req) (room : Nat → Option Bool)
    (h : hasKey c r.key = true ∨ room (r.chain % 65536) = none ∨ room (r.chain % 65536) = some false) :
    (dispatch c now r room).1 = c ∧ ∀ ch, (dispatch c now r room).2 ≠ .forwarded ch := by
  rcases dispatch_cases c now r room with ⟨hk, e⟩ | ⟨hk, hr, e⟩ | ⟨hk, hr, e⟩ | ⟨hk, hr, e⟩
  · rw [e]; exact ⟨rfl, by intro ch h; cases h⟩
  · rw [e]; exact ⟨rfl, by intro ch h; cases h⟩
  · rw [e]; exact ⟨rfl, by intro ch h; cases h⟩
  · rcases h with h | h | h
    · rw [hk] at h; cases h
    · rw [hr] at h; cases h
    · rw [hr] at h; cases h

example : dispatch [] 5 ⟨2, [1]⟩ (fun _ => some false) = ([], .full) ∧
    dispatch [] 5 ⟨9, [1]⟩ (fun _ => none) = ([], .unknown) := by decide

/-- A forwarded request is remembered with the time of the forward. -/
theorem c17_forward_remembered (c c' : Cache) (now : Nat) (r : Req) (room : Nat → Option Bool) (ch : Nat)
    (h : dispatch c now r room = (c', .forwarded ch)) : c' = (r.key, now) :: c := by
  rcases dispatch_cases c now r room with ⟨_, e⟩ | ⟨_, _, e⟩ | ⟨_, _, e⟩ | ⟨_, _, e⟩
  all_goals rw [e] at h
  all_goals first
    | (injection h with _ h2; cases h2; done)
    | (injection h with h1 _; exact h1.symm)

example : (dispatch [] 7 ⟨2, [1]⟩ (fun _ => some true)).1 = [((2, [1]), 7)] := by decide

/-! ### the cache behaves like a map -/

private theorem keysNodup_purge {w now : Nat} {c : Cache} (h : KeysNodup c) : KeysNodup (purge w now c) := by
  unfold KeysNodup purge at *
  exact (List.Sublist.map _ List.filter_sublist).nodup h

private theorem keysNodup_stepEv {w : Nat} {c : Cache} (e : Ev) (h : KeysNodup c) : KeysNodup (stepEv w c e).1 := by
  cases e with
  | tick now => exact keysNodup_purge h
  | req now r room =>
    simp only [stepEv]
    rcases dispatch_cases c now r (fun _ => room) with ⟨_, e⟩ | ⟨_, _, e⟩ | ⟨_, _, e⟩ | ⟨hk, _, e⟩ <;> rw [e] <;> simp only
    · exact h
    · exact h
    · exact h
    · unfold KeysNodup at *
      simp only [List.map_cons, List.nodup_cons]
      refine ⟨?_, h⟩
      intro hm
      rw [← hasKey_iff_mem_keys, hk] at hm
      cases hm

/-- Along every history the cache holds at most one entry per (chain, transaction). -/
theorem c17_cache_one_entry_per_key (w : Nat) (evs : List Ev) (c : Cache) (h : KeysNodup c) :
    KeysNodup (run w c evs).1 := by
  induction evs generalizing c with
  | nil => exact h
  | cons e es ih =>
    simp only [run]
    exact ih _ (keysNodup_stepEv e h)

example : KeysNodup (run 10 [] [.req 0 ⟨2, [1]⟩ (some true), .req 1 ⟨2, [1]⟩ (some true), .req 1 ⟨3, [1]⟩ (some true)]).1 := by
  unfold KeysNodup; decide

/-! ### suppression inside the window -/

private theorem run_cons (w : Nat) (c : Cache) (e : Ev) (es : List Ev) :
    run w c (e :: es) = ((run w (stepEv w c e).1 es).1, (stepEv w c e).2.toList ++ (run w (stepEv w c e).1 es).2) := rfl

/-- While no purge tick later than `forward + w` has happened, a remembered transaction stays remembered and is never
forwarded a second time — whatever else is requested, on whatever chains, with whatever queue answers. -/
theorem c17_suppressed_within_window (w : Nat) (evs : List Ev) (c : Cache) (k : Key) (t0 : Nat)
    (hmem : (k, t0) ∈ c) (hticks : ∀ T, Ev.tick T ∈ evs → T ≤ t0 + w) :
    (k, t0) ∈ (run w c evs).1 ∧ ∀ f ∈ (run w c evs).2, f.1 ≠ k := by
  induction evs generalizing c with
  | nil => exact ⟨hmem, by intro f hf; cases hf⟩
  | cons e es ih =>
    rw [run_cons]
    have hstep : (k, t0) ∈ (stepEv w c e).1 ∧ ∀ f ∈ (stepEv w c e).2.toList, f.1 ≠ k := by
      cases e with
      | tick T =>
        have hT := hticks T (by simp)
        simp only [stepEv, Option.toList_none, List.not_mem_nil, false_imp_iff, implies_true, and_true]
        exact mem_purge.2 ⟨hmem, by simp only [gt_iff_lt]; omega⟩
      | req now r room =>
        simp only [stepEv]
        rcases dispatch_cases c now r (fun _ => room) with ⟨_, e⟩ | ⟨_, _, e⟩ | ⟨_, _, e⟩ | ⟨hk, _, e⟩ <;> rw [e] <;> simp only
        · exact ⟨hmem, by intro f hf; cases hf⟩
        · exact ⟨hmem, by intro f hf; cases hf⟩
        · exact ⟨hmem, by intro f hf; cases hf⟩
        · refine ⟨List.mem_cons_of_mem _ hmem, ?_⟩
          intro f hf
          simp only [Option.toList_some, List.mem_singleton] at hf
          subst hf
          intro hkk
          simp only at hkk
          rw [hkk, hasKey_of_mem hmem] at hk
          cases hk
    have ih' := ih (stepEv w c e).1 hstep.1 (fun T hT => hticks T (List.mem_cons_of_mem _ hT))
    refine ⟨ih'.1, ?_⟩
    intro f hf
    rcases List.mem_append.1 hf with hf | hf
    · exact hstep.2 f hf
    · exact ih'.2 f hf

example : (run 10 [((2, [1]), 0)] [.tick 10, .req 10 ⟨2, [1]⟩ (some true), .req 10 ⟨3, [1]⟩ (some true)]).2 = [((3, [1]), 10)] := by
  decide

private theorem at_most_once_gen (w : Nat) (evs : List Ev) :
    ∀ (c : Cache) (lb : Nat) (past : List (Key × Nat)), Monotone lb evs →
      (∀ p ∈ past, lb ≤ p.2 + w → ∃ a, (p.1, a) ∈ c ∧ p.2 ≤ a) →
      (run w c evs).2.Pairwise (fun a b => a.1 = b.1 → b.2 > a.2 + w) ∧
      (∀ p ∈ past, ∀ f ∈ (run w c evs).2, f.1 = p.1 → f.2 > p.2 + w) := by
  induction evs with
  | nil => intro c lb past _ _; exact ⟨List.Pairwise.nil, by intro p _ f hf; cases hf⟩
  | cons e es ih =>
    intro c lb past hmono hP
    obtain ⟨hlb, hmono'⟩ := hmono
    rw [run_cons]
    -- the invariant after the step, for `past ++ new forward`
    have hP' : ∀ p ∈ past ++ (stepEv w c e).2.toList, e.time ≤ p.2 + w → ∃ a, (p.1, a) ∈ (stepEv w c e).1 ∧ p.2 ≤ a := by
      intro p hp hle
      rcases List.mem_append.1 hp with hp | hp
      · obtain ⟨a, ha, hpa⟩ := hP p hp (by omega)
        refine ⟨a, ?_, hpa⟩
        cases e with
        | tick T =>
          simp only [Ev.time] at hle
          exact mem_purge.2 ⟨ha, by simp only [gt_iff_lt]; omega⟩
        | req now r room =>
          simp only [stepEv]
          rcases dispatch_cases c now r (fun _ => room) with ⟨_, e⟩ | ⟨_, _, e⟩ | ⟨_, _, e⟩ | ⟨_, _, e⟩ <;> rw [e] <;> simp only
          · exact ha
          · exact ha
          · exact ha
          · exact List.mem_cons_of_mem _ ha
      · cases e with
        | tick T => simp [stepEv] at hp
        | req now r room =>
          simp only [stepEv] at hp ⊢
          rcases dispatch_cases c now r (fun _ => room) with ⟨_, e⟩ | ⟨_, _, e⟩ | ⟨_, _, e⟩ | ⟨_, _, e⟩ <;> rw [e] at hp ⊢ <;> simp only at hp ⊢
          · cases hp
          · cases hp
          · cases hp
          · simp only [Option.toList_some, List.mem_singleton] at hp
            subst hp
            exact ⟨now, List.mem_cons_self, Nat.le_refl _⟩
    obtain ⟨ihPair, ihPast⟩ := ih (stepEv w c e).1 e.time (past ++ (stepEv w c e).2.toList) hmono' hP'
    -- a forward produced by this step is later than `p.2 + w` for every past forward `p` of the same key
    have hnew : ∀ p ∈ past, ∀ f ∈ (stepEv w c e).2.toList, f.1 = p.1 → f.2 > p.2 + w := by
      intro p hp f hf hfk
      cases e with
      | tick T => simp [stepEv] at hf
      | req now r room =>
        simp only [stepEv] at hf
        rcases dispatch_cases c now r (fun _ => room) with ⟨_, e⟩ | ⟨_, _, e⟩ | ⟨_, _, e⟩ | ⟨hk, _, e⟩ <;> rw [e] at hf <;> simp only at hf
        · cases hf
        · cases hf
        · cases hf
        · simp only [Option.toList_some, List.mem_singleton] at hf
          subst hf
          simp only at hfk ⊢
          simp only [Ev.time] at hlb
          false_or_by_contra
          rename_i hcon
          obtain ⟨a, ha, _⟩ := hP p hp (by omega)
          rw [← hfk] at ha
          rw [hasKey_of_mem ha] at hk
          cases hk
    refine ⟨?_, ?_⟩
    · rw [List.pairwise_append]
      refine ⟨?_, ihPair, ?_⟩
      · cases (stepEv w c e).2 with
        | none => exact List.Pairwise.nil
        | some x => exact List.pairwise_singleton _ _
      · intro a ha b hb hab
        exact ihPast a (List.mem_append_right _ ha) b hb hab.symm
    · intro p hp f hf hfk
      rcases List.mem_append.1 hf with hf | hf
      · exact hnew p hp f hf hfk
      · exact ihPast p (List.mem_append_left _ hp) f hf hfk

/-- **At most once per window.**  In every history on which the clock does not go backwards, starting with an empty
cache, any two forwards of the same (chain, transaction) are more than `w` apart. -/
theorem c17_at_most_once_per_window (w : Nat) (evs : List Ev) (lb : Nat) (hmono : Monotone lb evs) :
    (run w [] evs).2.Pairwise (fun a b => a.1 = b.1 → b.2 > a.2 + w) :=
  (at_most_once_gen w evs [] lb [] hmono (by intro p hp; cases hp)).1

example : (run 10 [] [.req 0 ⟨2, [1]⟩ (some true), .req 5 ⟨2, [1]⟩ (some true), .tick 10, .req 10 ⟨2, [1]⟩ (some true),
    .tick 11, .req 11 ⟨2, [1]⟩ (some true)]).2 = [((2, [1]), 0), ((2, [1]), 11)] := by decide

/-! ### scale: more than a thousand distinct pairs inside one window -/

/-- `n` requests for `n` distinct transactions of chain 2 (32-byte ids), one per nanosecond from `t` on; the watcher
always has room. -/
def bulk (t : Nat) : Nat → List Ev
  | 0 => []
  | n + 1 => .req t ⟨2, be 32 t⟩ (some true) :: bulk (t + 1) n

private theorem monotone_weaken {a b : Nat} {l : List Ev} (h : Monotone a l) (hb : b ≤ a) : Monotone b l := by
  cases l with
  | nil => trivial
  | cons e es => exact ⟨Nat.le_trans hb h.1, h.2⟩

private theorem monotone_bulk_append (n : Nat) : ∀ (t lb : Nat) (rest : List Ev), lb ≤ t → Monotone (t + n) rest →
    Monotone lb (bulk t n ++ rest) := by
  induction n with
  | zero => intro t lb rest h hr; exact monotone_weaken hr (by omega)
  | succ n ih =>
    intro t lb rest h hr
    exact ⟨h, ih (t + 1) t rest (by omega) (by rw [show t + 1 + n = t + (n + 1) by omega]; exact hr)⟩

private theorem no_tick_in_bulk (n : Nat) : ∀ (t T : Nat) (rest : List Ev), Ev.tick T ∈ bulk t n ++ rest → Ev.tick T ∈ rest := by
  induction n with
  | zero => intro t T rest h; exact h
  | succ n ih =>
    intro t T rest h
    rcases List.mem_cons.1 h with h | h
    · cases h
    · exact ih (t + 1) T rest h

-- 1100 distinct (chain, transaction) pairs within 1.1 µs, then pair 5 again: the hypothesis of
-- `c17_at_most_once_per_window` holds of this history …
example : Monotone 0 (bulk 0 1100 ++ [.req 1100 ⟨2, be 32 5⟩ (some true)]) :=
  monotone_bulk_append 1100 0 0 _ (Nat.le_refl _) ⟨Nat.le_refl _, trivial⟩

-- … and it is one in which something is suppressed: pair 5 is remembered after the first six requests, and neither the
-- 1094 distinct pairs that follow nor its own repeat forward it a second time
example : ((2, be 32 5), 5) ∈ (run Whv.Gen.C17.windowNs [] (bulk 0 6)).1 ∧
    ∀ f ∈ (run Whv.Gen.C17.windowNs (run Whv.Gen.C17.windowNs [] (bulk 0 6)).1
            (bulk 6 1094 ++ [.req 1100 ⟨2, be 32 5⟩ (some true)])).2, f.1 ≠ (2, be 32 5) :=
  have h : ((2, be 32 5), 5) ∈ (run Whv.Gen.C17.windowNs [] (bulk 0 6)).1 := by decide
  ⟨h, (c17_suppressed_within_window _ _ _ _ 5 h (fun T hT => by
    have := no_tick_in_bulk 1094 6 T _ hT
    simp at this)).2⟩
/-! ### … and again once the window has lapsed -/

private theorem purge_removes {w T : Nat} {c : Cache} {k : Key} {t0 : Nat} (hn : KeysNodup c) (hm : (k, t0) ∈ c)
    (hT : T > t0 + w) : hasKey (purge w T c) k = false := by
  rw [hasKey_false_iff]
  intro a ha
  obtain ⟨hac, hkeep⟩ := mem_purge.1 ha
  -- the entry for `k` is unique
  have : a = t0 := by
    unfold KeysNodup at hn
    induction c with
    | nil => cases hm
    | cons e c ih =>
      simp only [List.map_cons, List.nodup_cons] at hn
      rcases List.mem_cons.1 hm with hm | hm <;> rcases List.mem_cons.1 hac with hac | hac
      · rw [← hm] at hac; injection hac
      · exfalso; apply hn.1; rw [← hm]; exact List.mem_map.2 ⟨(k, a), hac, rfl⟩
      · exfalso; apply hn.1; rw [← hac]; exact List.mem_map.2 ⟨(k, t0), hm, rfl⟩
      · exact ih hn.2 hm (mem_purge.2 ⟨hac, hkeep⟩) hac
  subst this
  simp only at hkeep
  exact hkeep hT

/-- After any history, once a purge tick later than `forward + w` has been handled the transaction is no longer
remembered, so the next request for it whose watcher has room is forwarded again. -/
theorem c17_again_after_window (w : Nat) (evs : List Ev) (k : Key) (t0 T now : Nat) (r : Req)
    (room : Nat → Option Bool)
    (hmem : (k, t0) ∈ (run w [] evs).1) (hT : T > t0 + w) (hr : r.key = k)
    (hroom : room (r.chain % 65536) = some true) :
    dispatch (purge w T (run w [] evs).1) now r room =
      ((r.key, now) :: purge w T (run w [] evs).1, .forwarded (r.chain % 65536)) := by
  have hn : KeysNodup (run w [] evs).1 := c17_cache_one_entry_per_key w evs [] (by simp [KeysNodup])
  have hk := purge_removes hn hmem hT
  rcases dispatch_cases (purge w T (run w [] evs).1) now r room with ⟨h, _⟩ | ⟨_, h, _⟩ | ⟨_, h, _⟩ | ⟨_, _, e⟩
  · rw [hr, hk] at h; cases h
  · rw [hroom] at h; cases h
  · rw [hroom] at h; cases h
  · exact e

example : (run 10 [] [.req 3 ⟨2, [1]⟩ (some true), .tick 13, .req 13 ⟨2, [1]⟩ (some true), .tick 14,
    .req 20 ⟨2, [1]⟩ (some true)]).2 = [((2, [1]), 3), ((2, [1]), 20)] := by decide

/-! ### never blocking: every send is a non-blocking one that found room -/

/-- `PostObservationRequest` fails exactly when the queue is full, leaves a full queue untouched, and otherwise
appends the request: it is a total function of the queue (there is no waiting outcome). -/
theorem c17_post_nonblocking (q : Chan) (r : Req) :
    ((post q r).2 = false ↔ q.cap ≤ q.items.length) ∧
    ((post q r).2 = false → (post q r).1 = q) ∧
    ((post q r).2 = true → (post q r).1 = { q with items := q.items ++ [r] }) := by
  unfold post Chan.trySend
  by_cases h : q.items.length < q.cap
  · simp [h]
  · simp [h]; omega

example : post ⟨2, [⟨1, []⟩, ⟨1, [7]⟩]⟩ ⟨1, [9]⟩ = (⟨2, [⟨1, []⟩, ⟨1, [7]⟩]⟩, false) := by decide

/-- No watcher queue is ever over-filled. -/
def QueuesOk (s : State) : Prop := ∀ e ∈ s.chans, e.2.items.length ≤ e.2.cap

private theorem lookup_mem {l : List (Nat × Chan)} {ch : Nat} {q : Chan} (h : l.lookup ch = some q) : (ch, q) ∈ l := by
  induction l with
  | nil => cases h
  | cons e l ih =>
    obtain ⟨a, b⟩ := e
    simp only [List.lookup_cons] at h
    by_cases hc : ch = a
    · subst hc; simp at h; subst h; exact List.mem_cons_self
    · have : (ch == a) = false := by simpa using hc
      rw [this] at h
      exact List.mem_cons_of_mem _ (ih h)

private theorem queuesOk_setChan {chans : List (Nat × Chan)} {ch : Nat} {q : Chan}
    (h : ∀ e ∈ chans, e.2.items.length ≤ e.2.cap) (hq : q.items.length ≤ q.cap) :
    ∀ e ∈ setChan chans ch q, e.2.items.length ≤ e.2.cap := by
  intro e he
  rcases List.mem_cons.1 he with he | he
  · subst he; exact hq
  · exact h e (List.mem_filter.1 he).1

private theorem queuesOk_step (w : Nat) (s : State) (o : Op) (h : QueuesOk s) : QueuesOk (step w s o).1 := by
  unfold QueuesOk at *
  cases o with
  | tick now => exact h
  | advance now => exact h
  | setchan ch cap => exact queuesOk_setChan h (by simp)
  | delchan ch => intro e he; exact h e (List.mem_filter.1 he).1
  | drain ch n =>
    simp only [step]
    cases hl : s.chans.lookup ch with
    | none => exact h
    | some q =>
      have := h _ (lookup_mem hl)
      exact queuesOk_setChan h (by simp only [List.length_drop]; simp only at this; omega)
  | req now r =>
    simp only [step]
    rcases dispatch_cases s.cache now r s.room with ⟨_, e⟩ | ⟨_, _, e⟩ | ⟨_, _, e⟩ | ⟨_, hr, e⟩ <;> rw [e] <;> simp only
    · exact h
    · exact h
    · exact h
    · cases hl : s.chans.lookup (r.chain % 65536) with
      | none => exact h
      | some q =>
        simp only [State.room, hl, Option.map_some, Option.some.injEq, decide_eq_true_eq] at hr
        exact queuesOk_setChan h (by simp; omega)

/-- **The dispatcher never performs a send that could block**: along every operation sequence (requests, ticks, watchers
draining, watchers appearing and disappearing) every queue stays within its capacity — each send happened only
when the non-blocking `select` found room. -/
theorem c17_dispatcher_never_blocks (w : Nat) (ops : List Op) (s : State) (h : QueuesOk s) : QueuesOk (runOps w s ops) := by
  induction ops generalizing s with
  | nil => exact h
  | cons o os ih => exact ih _ (queuesOk_step w s o h)

example : (runOps 10 { chans := [(2, ⟨1, []⟩)] } [.req 0 ⟨2, [1]⟩, .req 0 ⟨2, [2]⟩, .drain 2 1, .req 1 ⟨2, [2]⟩]).chans
    = [(2, ⟨1, [⟨2, [2]⟩]⟩)] := by decide

private theorem lookup_filter_ne (l : List (Nat × Chan)) {ch x : Nat} (hne : ch ≠ x) :
    (l.filter (fun e => e.1 != x)).lookup ch = l.lookup ch := by
  induction l with
  | nil => rfl
  | cons e l ih =>
    obtain ⟨a, b⟩ := e
    by_cases ha : a = x
    · subst ha
      have h1 : (ch == a) = false := by simpa using hne
      simp [List.lookup_cons, h1, ih]
    · have h2 : (a != x) = true := by simpa using ha
      simp only [List.filter_cons, h2, if_true, List.lookup_cons, ih]

/-- In the queue system a request touches no queue other than the named chain's. -/
theorem c17_other_queues_untouched (w : Nat) (s : State) (now : Nat) (r : Req) (ch : Nat) (hne : ch ≠ r.chain % 65536) :
    (step w s (.req now r)).1.chans.lookup ch = s.chans.lookup ch := by
  simp only [step]
  rcases dispatch_cases s.cache now r s.room with ⟨_, e⟩ | ⟨_, _, e⟩ | ⟨_, _, e⟩ | ⟨_, _, e⟩ <;> rw [e] <;> simp only
  cases hl : s.chans.lookup (r.chain % 65536) with
  | none => rfl
  | some q =>
    have h1 : (ch == r.chain % 65536) = false := by simpa using hne
    simp only [setChan, List.lookup_cons, h1]
    exact lookup_filter_ne _ hne

example : (step 10 { chans := [(2, ⟨1, []⟩), (3, ⟨1, []⟩)] } (.req 0 ⟨2, [1]⟩)).1.chans.lookup 3 = some ⟨1, []⟩ := by decide

/-! ### the admin entry point posts like every other caller -/

/-- `SendObservationRequest` (the admin RPC) on the outbound request queue: it fails exactly when the queue is full and
then leaves the queue untouched; otherwise the caller's request, unchanged, becomes the last entry.  It is a total
function of the queue — whatever context the caller passes, there is no waiting outcome. -/
theorem c17_admin_post_nonblocking (q : Chan) (r : Req) :
    ((adminSend q r).2 = false ↔ q.cap ≤ q.items.length) ∧
    ((adminSend q r).2 = false → (adminSend q r).1 = q) ∧
    ((adminSend q r).2 = true → (adminSend q r).1 = { q with items := q.items ++ [r] }) :=
  c17_post_nonblocking q r

example : adminSend ⟨1, [⟨1, []⟩]⟩ ⟨1, [9]⟩ = (⟨1, [⟨1, []⟩]⟩, false) ∧
    adminSend ⟨2, [⟨1, []⟩]⟩ ⟨1, [9]⟩ = (⟨2, [⟨1, []⟩, ⟨1, [9]⟩]⟩, true) := by decide

/-! ### dropped means dropped: nothing reaches a watcher that a request of the history did not forward -/

/-- The passage of time alone — the clock moving on, or a purge tick — puts nothing on any watcher queue (and the
clock moving on does not touch the cache either). -/
theorem c17_time_alone_delivers_nothing (w : Nat) (s : State) (now : Nat) :
    step w s (.advance now) = (s, none) ∧ (step w s (.tick now)).1.chans = s.chans ∧
    fwdOf w s (.advance now) = [] ∧ fwdOf w s (.tick now) = [] := ⟨rfl, rfl, rfl, rfl⟩

example : (runOps 10 { chans := [(2, ⟨1, []⟩)] } [.advance 5, .tick 7, .advance 700]).chans = [(2, ⟨1, []⟩)] := by decide

/-- A request that finds no watcher, a full queue, or a remembered key forwards nothing, now or later: it contributes
nothing to `forwards`, and the whole state is as it was. -/
theorem c17_dropped_request_forwards_nothing (w : Nat) (s : State) (now : Nat) (r : Req)
    (h : hasKey s.cache r.key = true ∨ s.room (r.chain % 65536) = none ∨ s.room (r.chain % 65536) = some false) :
    fwdOf w s (.req now r) = [] ∧ (step w s (.req now r)).1 = s := by
  simp only [fwdOf, step]
  rcases dispatch_cases s.cache now r s.room with ⟨_, e⟩ | ⟨_, _, e⟩ | ⟨_, _, e⟩ | ⟨hk, hr, _⟩
  · rw [e]; exact ⟨rfl, rfl⟩
  · rw [e]; exact ⟨rfl, rfl⟩
  · rw [e]; exact ⟨rfl, rfl⟩
  · rcases h with h | h | h
    · rw [hk] at h; cases h
    · rw [hr] at h; cases h
    · rw [hr] at h; cases h

example : fwdOf 10 { chans := [(2, ⟨1, [⟨2, [7]⟩]⟩)] } (.req 0 ⟨2, [1]⟩) = [] ∧
    fwdOf 10 { chans := [(2, ⟨1, []⟩)] } (.req 0 ⟨2, [1]⟩) = [⟨2, [1]⟩] := by decide

private theorem mem_setChan {chans : List (Nat × Chan)} {ch : Nat} {q : Chan} {e : Nat × Chan}
    (h : e ∈ setChan chans ch q) : e = (ch, q) ∨ e ∈ chans := by
  rcases List.mem_cons.1 h with h | h
  · exact Or.inl h
  · exact Or.inr (List.mem_filter.1 h).1

private theorem inQueues_step (w : Nat) (s : State) (o : Op) (x : Req) (h : InQueues (step w s o).1 x) :
    InQueues s x ∨ x ∈ fwdOf w s o := by
  obtain ⟨e, he, hx⟩ := h
  cases o with
  | tick now => exact Or.inl ⟨e, he, hx⟩
  | advance now => exact Or.inl ⟨e, he, hx⟩
  | setchan ch cap =>
    rcases mem_setChan he with he | he
    · subst he; cases hx
    · exact Or.inl ⟨e, he, hx⟩
  | delchan ch => exact Or.inl ⟨e, (List.mem_filter.1 he).1, hx⟩
  | drain ch n =>
    simp only [step] at he
    cases hl : s.chans.lookup ch with
    | none => rw [hl] at he; exact Or.inl ⟨e, he, hx⟩
    | some q =>
      rw [hl] at he
      rcases mem_setChan he with he | he
      · subst he
        exact Or.inl ⟨(ch, q), lookup_mem hl, List.mem_of_mem_drop hx⟩
      · exact Or.inl ⟨e, he, hx⟩
  | req now r =>
    simp only [fwdOf, step] at he ⊢
    rcases dispatch_cases s.cache now r s.room with ⟨_, d⟩ | ⟨_, _, d⟩ | ⟨_, _, d⟩ | ⟨_, _, d⟩ <;> rw [d] at he ⊢ <;> simp only at he ⊢
    · exact Or.inl ⟨e, he, hx⟩
    · exact Or.inl ⟨e, he, hx⟩
    · exact Or.inl ⟨e, he, hx⟩
    · cases hl : s.chans.lookup (r.chain % 65536) with
      | none => rw [hl] at he; exact Or.inl ⟨e, he, hx⟩
      | some q =>
        (try rw [hl] at he)
        (try rw [hl])
        simp only at he ⊢
        rcases mem_setChan he with he | he
        · subst he
          simp only [List.mem_append, List.mem_singleton] at hx
          rcases hx with hx | hx
          · exact Or.inl ⟨(r.chain % 65536, q), lookup_mem hl, hx⟩
          · exact Or.inr (by simp [hx])
        · exact Or.inl ⟨e, he, hx⟩

/-- **Everything on a watcher queue is accounted for.**  Along every operation sequence (requests, purge ticks, the clock
moving on, watchers draining, appearing and disappearing) a request sits in a watcher queue only if it was there at
the start or a request of the sequence was forwarded with it (`forwards`: the `req` operations whose outcome is
`forwarded`).  There is no deferred delivery: what was dropped is gone. -/
theorem c17_queue_items_were_forwarded (w : Nat) (ops : List Op) (s : State) (x : Req)
    (h : InQueues (runOps w s ops) x) : InQueues s x ∨ x ∈ forwards w s ops := by
  induction ops generalizing s with
  | nil => exact Or.inl h
  | cons o os ih =>
    simp only [runOps] at h
    simp only [forwards, List.mem_append]
    rcases ih _ h with h' | h'
    · rcases inQueues_step w s o x h' with h'' | h''
      · exact Or.inl h''
      · exact Or.inr (Or.inl h'')
    · exact Or.inr (Or.inr h')

/-- A request that was dropped (or never made) is never delivered later: starting from empty queues, a request that no
`req` operation of the sequence forwarded is in no watcher queue afterwards — however long the clock runs. -/
theorem c17_dropped_never_delivered (w : Nat) (ops : List Op) (s : State) (x : Req)
    (hempty : ∀ e ∈ s.chans, e.2.items = []) (hnot : x ∉ forwards w s ops) : ¬ InQueues (runOps w s ops) x := by
  intro h
  rcases c17_queue_items_were_forwarded w ops s x h with ⟨e, he, hx⟩ | h
  · rw [hempty e he] at hx; cases hx
  · exact hnot h

-- the seeded scenario: chain 2's queue is full when [2] arrives; it drains; five seconds, a minute, the window pass
example : forwards 660 { chans := [(2, ⟨1, []⟩)] }
      [.req 0 ⟨2, [1]⟩, .req 0 ⟨2, [2]⟩, .drain 2 1, .advance 5, .advance 60, .tick 420, .advance 661, .tick 840] = [⟨2, [1]⟩] ∧
    (runOps 660 { chans := [(2, ⟨1, []⟩)] }
      [.req 0 ⟨2, [1]⟩, .req 0 ⟨2, [2]⟩, .drain 2 1, .advance 5, .advance 60, .tick 420, .advance 661, .tick 840]).chans
      = [(2, ⟨1, []⟩)] := by decide

/-! ### the extracted durations -/

/-- The suppression window in the source is "about eleven minutes" (strictly between ten and twelve), and the purge
ticker has a positive period (`time.NewTicker` panics otherwise). -/
theorem c17_window_about_eleven_minutes :
    10 * 60 * 1000000000 < Whv.Gen.C17.windowNs ∧ Whv.Gen.C17.windowNs < 12 * 60 * 1000000000 ∧
    0 < Whv.Gen.C17.tickNs := by
  decide

/-- "…and again once the window has lapsed": the purge runs at least every seven minutes, so with a ticker that
keeps firing a lapsed entry is gone — and the transaction can be forwarded again (`c17_again_after_window`) — at most
eighteen minutes after the forward. -/
theorem c17_reforward_latency :
    Whv.Gen.C17.tickNs ≤ 7 * 60 * 1000000000 ∧ Whv.Gen.C17.windowNs + Whv.Gen.C17.tickNs ≤ 18 * 60 * 1000000000 := by
  decide

end Whv.C17
