import Whv.Lemmas.Supervisor
/-!
# C18 — supervised services restart after failure and never run twice at once

Model: `Whv/Model/Supervisor.lean` (the processor functions of `node/pkg/supervisor` statement by statement, and
the concurrent system `Sys`/`step`: processor steps interleaved arbitrarily with runnable actions — return an
error, return nil, return a context error, panic, each after arbitrary finite latency, also after signalling
Done).  `Reach P fixed H s`: `s` is reachable from `supervisor.New` by any finite interleaving (`H` is an
assumption made at GC steps; `fun _ => True` = none).

`fixed = true` is the repaired code (fixes/C18-done-goroutine-returned.diff: `processDied` records that the
goroutine returned, the GC counts a `DONE` node as restartable only then); `fixed = false` is the pinned code.

*Partial by nature:* Go scheduling, the 1 ms ticker, back-off sleepers and channel hand-offs are this
interleaving nondeterminism; they are not verified.
-/
namespace Whv.C18
open Whv.Sup

/-- "At no time do two instances of the same service run concurrently." -/
def Mutex (s : Sys) : Prop := ∀ dn, liveCount s dn ≤ 1

/-! ## never twice at once -/

/-- **Repaired code, unconditional.** In every reachable state, whatever the tree shape, failure kinds, failure
times and exit latencies, every dn has at most one running goroutine. -/
theorem c18_mutex (P : Params) {s : Sys} (h : Reach P true (fun _ => True) s) : Mutex s :=
  fun dn => mutex_of_inv (h.inv fun s _ _ => doneReturned_fixed s) dn

/-- A reachable state of the repaired model in which a restart has happened (root failed once, its child had
signalled Done and returned late): the hypotheses of `c18_mutex` are met by a non-trivial run. -/
def exRun : List Act :=
  [.sched [], .run 0 ["c"], .sched ["c"], .sig 1 .healthy, .sig 1 .done, .ret 0 .other, .died [] .other, .gc,
   .ret 1 .nil, .died ["c"] .nil, .gc, .sched [], .run 2 ["c"], .sched ["c"]]

example : ∃ s, run {} true (init {}) exRun = some s ∧ liveCount s ["c"] = 1 ∧ liveCount s [] = 1 ∧ s.nextIid = 4 := by
  decide

/-- **Pinned code, with the hypothesis visible.** The same invariant holds on the unrepaired GC *provided* every
`DONE` node inside a subtree the GC is about to restart has already returned (`DoneReturned`: "a Done runnable
has returned before an ancestor is rescheduled").  This is the only place the two proofs differ. -/
theorem c18_mutex_partial (P : Params) {s : Sys} (h : Reach P false (DoneReturned false) s) : Mutex s :=
  fun dn => mutex_of_inv (h.inv fun _ _ hD => hD) dn

/-- The hypothesis is satisfiable on a run with a restart: here the Done child returns (and its `died` is processed)
before the GC looks at the dead root, so `DoneReturned` holds at the GC step of the unrepaired model. -/
example : ∃ s, Reach {} false (DoneReturned false) s ∧ liveCount s ["c"] = 1 ∧ s.nextIid = 4 := by
  have h : ∃ s, runH {} false (fun s => decide (DoneReturned false s)) (init {})
      [.sched [], .run 0 ["c"], .sched ["c"], .sig 1 .healthy, .sig 1 .done, .ret 0 .other, .died [] .other,
       .ret 1 .nil, .died ["c"] .nil, .gc, .sched [], .run 2 ["c"], .sched ["c"]] = some s ∧
      liveCount s ["c"] = 1 ∧ s.nextIid = 4 := by decide
  obtain ⟨s, hs, h1, h2⟩ := h
  exact ⟨s, Reach.of_runH (fun _ hb => of_decide_eq_true hb) _ Reach.init hs, h1, h2⟩

/-- The probe of DESIGN.md §8 #15 as a run of the model: the root fails once while its child, which has signalled
Healthy and Done, is still running. -/
def witnessRun : List Act :=
  [.sched [], .run 0 ["c"], .sched ["c"], .sig 1 .healthy, .sig 1 .done, .ret 0 .other, .died [] .other, .gc,
   .sched [], .run 2 ["c"], .sched ["c"]]

/-- **Without the hypothesis the pinned code violates the property**: the run above is a run of the unrepaired
model and ends with two live instances of `root.c`. -/
theorem c18_mutex_witness : ¬ ∀ s, Reach {} false (fun _ => True) s → Mutex s := by
  intro h
  have hr : ∃ s, run {} false (init {}) witnessRun = some s ∧ liveCount s ["c"] = 2 := by decide
  obtain ⟨s, hs, h2⟩ := hr
  have := h s (Reach.of_run _ Reach.init hs) ["c"]
  omega

/-- The witness run breaks exactly the hypothesis of `c18_mutex_partial` (at its GC step), and the repaired
model refuses that GC-restart: the same action sequence is not a run of the repaired model. -/
example : ∃ s, run {} false (init {}) (witnessRun.take 7) = some s ∧ ¬ DoneReturned false s := by
  refine ⟨_, rfl, ?_⟩
  intro h
  have := h (rootNode {} |> fun r => { r with state := .dead, cancelled := true, exited := true, groups := [["c"]] })
    (by decide) { dn := ["c"], state := .done, cancelled := true, exited := false, bo := 500000000, groups := [], inc := 1 }
    (by decide) (by decide) rfl
  cases this

example : run {} true (init {}) witnessRun = none := by decide

/-- On the pinned code the late `died` request of the overtaken instance can also find no node at all
(`nodeByDN` panics in the processor goroutine: the process dies), or a late `Signal` panics inside `fromContext`
with the supervisor mutex held.  Reachable state of the unrepaired model with a pending request for a missing node: -/
theorem c18_orphan_request_witness :
    ¬ ∀ s, Reach {} false (fun _ => True) s → ∀ r ∈ s.pend, ∃ n ∈ s.tree, n.dn = r.dn := by
  intro h
  have hr : ∃ s, run {} false (init {}) (witnessRun.take 8 ++ [.ret 1 .nil]) = some s ∧
      Req.died ["c"] .nil ∈ s.pend ∧ find s.tree ["c"] = none := by decide
  obtain ⟨s, hs, hp, hf⟩ := hr
  obtain ⟨n, hn, hd⟩ := h s (Reach.of_run _ Reach.init hs) _ hp
  exact find_none hf n hn hd

/-- **Repaired code:** every request the processor will ever receive, and every running goroutine, refers to a
node that exists and belongs to it (so `nodeByDN` panics neither in `processSchedule`/`processDied` nor in
`Signal`/`RunGroup`, and a `died` is never attributed to a later incarnation). -/
theorem c18_requests_find_node (P : Params) {s : Sys} (h : Reach P true (fun _ => True) s) :
    (∀ r ∈ s.pend, ∃ n ∈ s.tree, n.dn = r.dn ∧ n.exited = false) ∧
    (∀ i ∈ s.live, ∃ n ∈ s.tree, n.dn = i.dn ∧ n.exited = false) := by
  have hI := h.inv fun s _ _ => doneReturned_fixed s
  constructor
  · intro r hr
    apply hI.tok_node r.dn
    unfold tok tokP
    have : 0 < s.pend.countP (fun q => q.dn = r.dn) := List.countP_pos_iff.2 ⟨r, hr, by simp⟩
    omega
  · intro i hi
    apply hI.tok_node i.dn
    unfold tok tokL
    have : 0 < s.live.countP (fun j => j.dn = i.dn) := List.countP_pos_iff.2 ⟨i, hi, by simp⟩
    omega

example : ∃ s, run {} true (init {}) (exRun.take 9) = some s ∧ s.pend = [.died ["c"] .nil] ∧ s.live = [] := by decide

/-! ## restart after failure -/

private theorem parentCancelled_of_live {t : Tree} {dn : DN} (h : parentLive t dn = true) : parentCancelled t dn = false := by
  unfold parentLive at h; unfold parentCancelled
  cases dn with
  | nil => rfl
  | cons a l =>
    simp only at h ⊢
    cases hf : find t (a :: l).dropLast with
    | none => rw [hf] at h; cases h
    | some p => rw [hf] at h; simpa using h

/-- **Restart.**  A node that died (`DEAD`) or was cancelled with its group (`CANCELED`) under a live parent
context, and whose whole subtree is dead / cancelled / done-and-returned, is restarted by the next GC pass: either
the node itself or an ancestor `r` is in the GC's `can` set; `r` is re-initialised (`NEW`, fresh live context,
children dropped) and its schedule request is emitted with a back-off that is zero unless `r` is `DEAD` and
never exceeds the node's current interval. -/
theorem c18_restart (P : Params) (fixed : Bool) (t : Tree) (inc : Nat) {n : Node} (hn : n ∈ t)
    (hdied : n.state = .dead ∨ n.state = .canceled) (hpar : parentLive t n.dn = true)
    (hsub : ready fixed t n.dn = true) :
    ∃ r ∈ can fixed t, under r.dn n.dn = true ∧
      (r.dn, backoffOf r) ∈ (processGC P fixed t inc).2 ∧ backoffOf r ≤ r.bo ∧
      (∃ r' ∈ (processGC P fixed t inc).1, r'.dn = r.dn ∧ r'.state = .new ∧ r'.cancelled = false ∧ r'.exited = false) ∧
      (∀ m ∈ (processGC P fixed t inc).1, above r.dn m.dn = false) := by
  have he : eligible fixed t n = true := by
    unfold eligible want
    rcases hdied with h | h <;> simp [h, hpar, hsub]
  obtain ⟨r, hr, hu⟩ := exists_can_above n.dn.length n hn (Nat.le_refl _) he
  have hrt := (mem_can.1 hr).1
  have hrc := (mem_can.1 hr).2
  refine ⟨r, hr, hu, ?_, ?_, ?_, ?_⟩
  · rw [processGC_reqs]; exact List.mem_map.2 ⟨r, hr, rfl⟩
  · unfold backoffOf; split <;> omega
  · refine ⟨resetNode P t inc r, ?_, rfl, rfl, parentCancelled_of_live (inCan_parentLive hrc), rfl⟩
    rw [processGC_tree]
    exact List.mem_filterMap.2 ⟨r, hrt, by simp [gcMap, hrc]⟩
  · intro m hm
    rw [processGC_tree] at hm
    obtain ⟨m0, hm0, hg⟩ := List.mem_filterMap.1 hm
    rw [gcMap_dn hg]
    cases hab : above r.dn m0.dn with
    | false => rfl
    | true =>
      exfalso
      have hblk : blocked fixed t m0.dn = true := by
        unfold blocked
        refine List.any_eq_true.2 ⟨r, hrt, ?_⟩
        have : eligible fixed t r = true := by
          unfold inCan at hrc; simp only [Bool.and_eq_true] at hrc; exact hrc.1
        simp [hab, this]
      have h1 : inCan fixed t m0 = false := by unfold inCan; simp [hblk]
      have h2 : ((can fixed t).any fun q => above q.dn m0.dn) = true := List.any_eq_true.2 ⟨r, hr, hab⟩
      simp [gcMap, h1, h2] at hg

/-- a concrete tree: `root.a` is DEAD with back-off interval 750 ms, its child DONE-and-returned, its sibling healthy -/
def exTree : Tree :=
  [ { dn := [], state := .healthy, cancelled := false, exited := false, bo := 500000000, groups := [["a", "b"]], inc := 0 },
    { dn := ["a"], state := .dead, cancelled := true, exited := true, bo := 750000000, groups := [["x"]], inc := 1 },
    { dn := ["a", "x"], state := .done, cancelled := true, exited := true, bo := 500000000, groups := [], inc := 2 },
    { dn := ["b"], state := .canceled, cancelled := true, exited := true, bo := 500000000, groups := [], inc := 1 } ]

example : (processGC {} true exTree 7).2 = [(["a"], 750000000), (["b"], 0)] ∧
    ((processGC {} true exTree 7).1.map fun n => (n.dn, n.state, n.bo)) =
      [([], .healthy, 500000000), (["a"], .new, 1125000000), (["b"], .new, 500000000)] := by decide

example : ∃ n ∈ exTree, n.dn = ["a"] ∧ n.state = .dead ∧ parentLive exTree n.dn = true ∧ ready true exTree n.dn = true := by decide

/-- **Restart, system level**: while the processor is alive (supervisor context not cancelled) the GC step is
enabled, puts the schedule request of `r` in flight, and the processor's next `processSchedule r` starts a
goroutine for it (arbitrary latency in between = the back-off sleep). -/
theorem c18_restart_sys (P : Params) (fixed : Bool) {s : Sys} (hk : s.killed = false) {n : Node} (hn : n ∈ s.tree)
    (hdied : n.state = .dead ∨ n.state = .canceled) (hpar : parentLive s.tree n.dn = true)
    (hsub : ready fixed s.tree n.dn = true) :
    ∃ s' r, step P fixed s .gc = some s' ∧ under r n.dn = true ∧ Req.sched r ∈ s'.pend ∧
      ∃ s'', step P fixed s' (.sched r) = some s'' ∧ ∃ i ∈ s''.live, i.dn = r := by
  obtain ⟨r, hr, hu, hreq, _, ⟨r', hr', hdn', _⟩, _⟩ := c18_restart P fixed s.tree s.nextInc hn hdied hpar hsub
  let s' : Sys := { s with tree := (processGC P fixed s.tree s.nextInc).1,
                           pend := s.pend ++ (processGC P fixed s.tree s.nextInc).2.map (fun q => Req.sched q.1),
                           nextInc := s.nextInc + 1 }
  refine ⟨s', r.dn, by simp [step, hk, s'], hu, ?_, ?_⟩
  · exact List.mem_append.2 (Or.inr (List.mem_map.2 ⟨_, hreq, rfl⟩))
  · have hp : Req.sched r.dn ∈ s.pend ++ (processGC P fixed s.tree s.nextInc).2.map (fun q => Req.sched q.1) :=
      List.mem_append.2 (Or.inr (List.mem_map.2 ⟨_, hreq, rfl⟩))
    cases hf : find (processGC P fixed s.tree s.nextInc).1 r.dn with
    | none => exact absurd hdn' (find_none hf r' hr')
    | some m =>
      refine ⟨{ s' with pend := s'.pend.erase (.sched r.dn), live := s'.live ++ [⟨s'.nextIid, r.dn, m.inc⟩], nextIid := s'.nextIid + 1 },
        by simp [step, hk, hp, hf, s'], ⟨s.nextIid, r.dn, m.inc⟩, ?_, rfl⟩
      simp [s']

/-- the state of `exRun` just before its second GC: root is DEAD, its Done child has returned, the processor is alive -/
example : ∃ s, run {} true (init {}) (exRun.take 10) = some s ∧ s.killed = false ∧
    ∃ n ∈ s.tree, n.dn = [] ∧ n.state = .dead ∧ parentLive s.tree n.dn = true ∧ ready true s.tree n.dn = true := by decide

/-- **Bounded back-off.** In every reachable state every node's back-off interval is at most `MaxInterval`
(or the initial interval, should that be configured larger); the library randomises it by at most ±50 %. -/
theorem c18_backoff_bounded (P : Params) (fixed : Bool) {H : Sys → Prop} {s : Sys} (h : Reach P fixed H s) :
    ∀ n ∈ s.tree, n.bo ≤ max P.initial P.max ∧ backoffOf n ≤ max P.initial P.max := by
  intro n hn
  have := h.bo n hn
  refine ⟨this, ?_⟩
  unfold backoffOf; split <;> omega

example : (Params.next {} 500000000, Params.next {} 45000000000, Params.next {} 60000000000) = (750000000, 60000000000, 60000000000) := by decide

/-! ## group cancellation -/

/-- **"it and the members of its group are cancelled".**  When a runnable returns or panics and that is not an
expected exit (not `DONE`+nil, not a context error under a cancelled context), the node becomes `DEAD` and
marked as returned, its context and every context below it is cancelled, and so is every other member of its
supervision group with everything below; no other node changes state. -/
theorem c18_died_cancels_group {t t' : Tree} {dn : DN} {e : ErrKind} {n : Node} (hf : find t dn = some n)
    (h1 : ¬(n.state = .done ∧ e = .nil)) (h2 : ¬(n.cancelled = true ∧ e = .ctx))
    (h : processDied t dn e = .ok t') :
    (∀ m' ∈ t', m'.dn = dn → m'.state = .dead ∧ m'.exited = true) ∧
    (∀ m' ∈ t', under dn m'.dn = true → m'.cancelled = true) ∧
    (∀ name, dn.getLast? = some name → ∀ p, find t dn.dropLast = some p → ∀ sib ∈ groupOf p.groups name, sib ≠ name →
      ∀ m' ∈ t', under (dn.dropLast ++ [sib]) m'.dn = true → m'.cancelled = true) ∧
    (t'.map (·.dn) = t.map (·.dn)) := by
  obtain ⟨g, rfl, hk, hst, _, hc, hsib⟩ := processDied_dead hf h1 h2 h
  refine ⟨fun m' hm' hd => ?_, fun m' hm' hu => ?_, fun name hl p hp sib hs hne m' hm' hu => ?_, ?_⟩
  · obtain ⟨m, _, rfl⟩ := List.mem_map.1 hm'
    exact hst m (by rw [← (hk m).1]; exact hd)
  · obtain ⟨m, _, rfl⟩ := List.mem_map.1 hm'
    exact hc m (by rw [← (hk m).1]; exact hu)
  · obtain ⟨m, _, rfl⟩ := List.mem_map.1 hm'
    exact hsib name hl p hp sib hs hne m (by rw [← (hk m).1]; exact hu)
  · rw [List.map_map]; congr 1; funext m; exact (hk m).1

def exGroup : Tree :=
  [ { dn := [], state := .healthy, cancelled := false, exited := false, bo := 5, groups := [["a", "b"], ["c"]], inc := 0 },
    { dn := ["a"], state := .healthy, cancelled := false, exited := false, bo := 5, groups := [], inc := 1 },
    { dn := ["b"], state := .healthy, cancelled := false, exited := false, bo := 5, groups := [["y"]], inc := 1 },
    { dn := ["b", "y"], state := .new, cancelled := false, exited := false, bo := 5, groups := [], inc := 2 },
    { dn := ["c"], state := .healthy, cancelled := false, exited := false, bo := 5, groups := [], inc := 3 } ]

example : (processDied exGroup ["a"] .nil).toOption.map (fun t => t.map fun n => (n.dn, n.state, n.cancelled)) =
    some [([], .healthy, false), (["a"], .dead, true), (["b"], .healthy, true), (["b", "y"], .new, true), (["c"], .healthy, false)] := by
  decide

/-! ## a service that signalled completion is left alone -/

/-- **Done is left alone.**  A `DONE` node is never in the GC's restart set; unless one of its proper ancestors is
`DEAD`/`CANCELED` (a failure elsewhere in the tree that takes the whole subtree with it) the GC leaves it exactly
as it is; and its plain return (`nil`) changes nothing but the returned-mark: no state change, nothing cancelled. -/
theorem c18_done_left_alone (P : Params) (fixed : Bool) (t : Tree) (inc : Nat) {n : Node} (hn : n ∈ t) (hd : n.state = .done)
    (hanc : ∀ m ∈ t, above m.dn n.dn = true → m.state ≠ .dead ∧ m.state ≠ .canceled) :
    n ∉ can fixed t ∧ (∀ q ∈ (processGC P fixed t inc).2, q.1 ≠ n.dn ∨ ∃ m ∈ t, m ≠ n ∧ m.dn = n.dn) ∧
    n ∈ (processGC P fixed t inc).1 ∧
    (find t n.dn = some n → processDied t n.dn .nil = .ok (modify t n.dn fun m => { m with exited := true })) := by
  have hnc : inCan fixed t n = false := by
    unfold inCan eligible want; simp [hd]
  have hnone : ((can fixed t).any fun r => above r.dn n.dn) = false := by
    cases hc : (can fixed t).any fun r => above r.dn n.dn with
    | false => rfl
    | true =>
      obtain ⟨r, hr, hab⟩ := List.any_eq_true.1 hc
      have hw := inCan_want (mem_can.1 hr).2
      have := hanc r (mem_can.1 hr).1 hab
      unfold want at hw
      simp only [Bool.or_eq_true, decide_eq_true_eq] at hw
      rcases hw with h | h
      · exact absurd h this.1
      · exact absurd h this.2
  refine ⟨fun h => (by rw [(mem_can.1 h).2] at hnc; cases hnc), ?_, ?_, ?_⟩
  · intro q hq
    rw [processGC_reqs] at hq
    obtain ⟨r, hr, rfl⟩ := List.mem_map.1 hq
    by_cases hrd : r.dn = n.dn
    · refine Or.inr ⟨r, (mem_can.1 hr).1, fun e => ?_, hrd⟩
      subst e; rw [(mem_can.1 hr).2] at hnc; cases hnc
    · exact Or.inl hrd
  · rw [processGC_tree]
    exact List.mem_filterMap.2 ⟨n, hn, by simp [gcMap, hnc, hnone]⟩
  · intro hf
    unfold processDied
    rw [hf]
    simp [hd]

example : let n : Node := { dn := ["a", "x"], state := .done, cancelled := true, exited := true, bo := 500000000, groups := [], inc := 2 }
    n ∈ exTree ∧ n ∈ (processGC {} true (exTree.map fun m => if m.dn = ["a"] then { m with state := .done } else m) 7).1 := by
  decide

/-! ## cancelling the supervisor context -/

/-- **Cancel stops everything, without further restarts.**  Once the processor has seen the supervisor context
cancelled (`kill`: every node's context is cancelled, the processor returns) no processor transition is enabled
any more — no `processSchedule`, no GC, no `processDied` — so along *any* continuation no goroutine is ever
started again (`nextIid` is frozen, the number of running goroutines only falls) and every context, including
those of groups started late by still-running services, stays cancelled. -/
theorem c18_cancel_stops_all (P : Params) (fixed : Bool) {s s₁ : Sys} (hkill : step P fixed s .kill = some s₁) :
    (∀ n ∈ s₁.tree, n.cancelled = true) ∧
    (∀ dn e, step P fixed s₁ (.sched dn) = none ∧ step P fixed s₁ .gc = none ∧ step P fixed s₁ (.died dn e) = none ∧
      step P fixed s₁ .kill = none) ∧
    ∀ acts s₂, run P fixed s₁ acts = some s₂ →
      s₂.killed = true ∧ s₂.nextIid = s.nextIid ∧ s₂.live.length ≤ s.live.length ∧ ∀ n ∈ s₂.tree, n.cancelled = true := by
  simp only [step] at hkill
  split at hkill
  · cases hkill
  · cases hkill
    have hc : ∀ n ∈ (processKill s.tree), n.cancelled = true := by
      intro n hn
      obtain ⟨m, _, rfl⟩ := List.mem_map.1 hn
      rfl
    refine ⟨hc, fun dn e => by simp [step], ?_⟩
    have key : ∀ acts (a b : Sys), a.killed = true → (∀ n ∈ a.tree, n.cancelled = true) → run P fixed a acts = some b →
        b.killed = true ∧ b.nextIid = a.nextIid ∧ b.live.length ≤ a.live.length ∧ ∀ n ∈ b.tree, n.cancelled = true := by
      intro acts
      induction acts with
      | nil => intro a b hk hc h; simp only [run, Option.some.injEq] at h; subst h; exact ⟨hk, rfl, Nat.le_refl _, hc⟩
      | cons x xs ih =>
        intro a b hk hc h
        simp only [run] at h
        split at h
        · rename_i a' ha'
          obtain ⟨k1, c1, i1, l1⟩ := killed_step hk hc ha'
          obtain ⟨k2, i2, l2, c2⟩ := ih a' b k1 c1 h
          exact ⟨k2, by omega, by omega, c2⟩
        · cases h
    intro acts s₂ h
    exact key acts { s with tree := processKill s.tree, killed := true } s₂ rfl hc h

example : ∃ s, run {} true (init {}) (exRun ++ [.kill, .ret 3 .ctx, .ret 2 .ctx]) = some s ∧ s.killed = true ∧ s.live = [] ∧
    s.nextIid = 4 ∧ step {} true s (.died ["c"] .ctx) = none := by decide

/-- **Cancel reaches every running service, also below a completed one.**  "cancelling the supervisor's context
stops every service": at the `kill` step and along any continuation, *every* goroutine that is still running
holds a cancelled context — whatever the states of the nodes above it.  In particular a service whose parent (or
the root runnable itself) has signalled `DONE` and returned `nil` — the set-up-only pattern, whose node is `DONE`
with `exited = true` and whose own context is never cancelled while the supervisor lives — is reached too:
`processKill` walks the whole tree, it does not stop at nodes whose runnable has returned.  (What a service does
once its context is cancelled — its exit latency — is the service's business; the statement's "stops" is this
cancellation plus `c18_cancel_stops_all`'s "nothing is started any more".) -/
theorem c18_cancel_reaches_every_instance (P : Params) (fixed : Bool) {s s₁ : Sys} (hkill : step P fixed s .kill = some s₁) :
    ∀ acts s₂, run P fixed s₁ acts = some s₂ → ∀ i ∈ s₂.live, instCancelled s₂.tree i = true := by
  intro acts s₂ h i _
  have hc := ((c18_cancel_stops_all P fixed hkill).2.2 acts s₂ h).2.2.2
  unfold instCancelled
  cases hf : find s₂.tree i.dn with
  | none => rfl
  | some n =>
    simp only
    split
    · exact hc n (find_some hf).1
    · rfl

/-- the root runnable starts `root.a`, signals Healthy and Done and returns nil (processed: the root node is `DONE`
and marked as returned, its context live); `root.a` keeps running.  The supervisor context is then cancelled. -/
def completedRootRun : List Act :=
  [.sched [], .run 0 ["a"], .sig 0 .healthy, .sig 0 .done, .sched ["a"], .sig 1 .healthy, .ret 0 .nil, .died [] .nil]

example : ∃ s, run {} true (init {}) completedRootRun = some s ∧
    (∃ n ∈ s.tree, n.dn = [] ∧ n.state = .done ∧ n.exited = true ∧ n.cancelled = false) ∧
    s.live.map (·.dn) = [["a"]] ∧ s.live.all (instCancelled s.tree) = false ∧
    ∃ s₁, step {} true s .kill = some s₁ ∧ s₁.live.map (·.dn) = [["a"]] ∧ s₁.live.all (instCancelled s₁.tree) = true := by
  decide

/-! ## a refused RunGroup / Run call -/

/-- `names` is a batch `RunGroup` has to refuse: one of its names has no character of `[a-z0-9_]`, or is already
the name of a child of the caller. -/
def Refused (t : Tree) (dn : DN) (names : List String) : Prop :=
  ∃ nm ∈ names, validName nm = false ∨ (find t (dn ++ [nm])).isSome = true

/-- **A refused batch has no effect.**  When a running service calls `RunGroup` (or `Run`) with a batch that contains
an invalid name or a name already in use under it, the call returns an error and NOTHING changes: no child node is
created for any of the other names of the batch, no group is recorded, no request is sent, nobody's context is
touched, the caller keeps running.  (The names are checked in a pass of their own before the first child is made.) -/
theorem c18_rejected_group_no_effect (P : Params) (fixed : Bool) {s s' : Sys} {iid : Nat} {i : Inst} {names : List String}
    (hi : s.live.find? (fun j => j.iid = iid) = some i) (hnode : (find s.tree i.dn).isSome = true)
    (hbad : Refused s.tree i.dn names) (h : step P fixed s (.run iid names) = some s') :
    s' = s ∧ runGroup P s.tree i.dn names s.nextInc = .ok none := by
  have hr : runGroup P s.tree i.dn names s.nextInc = .ok none := by
    unfold runGroup
    cases hf : find s.tree i.dn with
    | none => rw [hf] at hnode; cases hnode
    | some n =>
      simp only
      split
      · rfl
      · have : names.any (fun nm => !validName nm || (find s.tree (i.dn ++ [nm])).isSome) = true := by
          obtain ⟨nm, hm, hb⟩ := hbad
          refine List.any_eq_true.2 ⟨nm, hm, ?_⟩
          rcases hb with hb | hb <;> simp [hb]
        rw [if_pos this]
  refine ⟨?_, hr⟩
  simp only [step, hi] at h
  split at h
  · cases h
  · rw [hr] at h
    simp only [Option.some.injEq] at h
    exact h.symm

/-- `root` has started `a`; then asks for the batch `{b, a, c}` (`a` is taken) and for `{b, "A-B"}` (invalid name) -/
example : ∃ s, run {} true (init {}) [.sched [], .run 0 ["a"]] = some s ∧
    Refused s.tree [] ["b", "a", "c"] ∧ Refused s.tree [] ["b", "A-B"] ∧
    step {} true s (.run 0 ["b", "a", "c"]) = some s ∧ step {} true s (.run 0 ["b", "A-B"]) = some s := by
  refine ⟨_, rfl, ⟨"a", by decide, Or.inr (by decide)⟩, ⟨"A-B", by decide, Or.inl (by decide)⟩, by decide, by decide⟩

/-- **A service that fails on a refused batch is restarted like any other.**  The caller gets the error and returns it
(`ret .other`, its own context live or not); the processor handles that exit (`processDied`: `DEAD`, its context and
its group cancelled).  The refused call has left nothing behind, so once everything the caller had started EARLIER
has stopped (`ready`) and its parent's context is live, the next GC pass puts the schedule request of the caller
(or of an ancestor that died as well) in flight and `processSchedule` starts it again — `c18_restart_sys` applies
unchanged. -/
theorem c18_rejected_caller_restarted (P : Params) (fixed : Bool) {s : Sys} (hk : s.killed = false) {iid : Nat} {i : Inst}
    {names : List String} {n : Node} (hi : s.live.find? (fun j => j.iid = iid) = some i) (hf : find s.tree i.dn = some n)
    (hnd : names.Nodup) (hbad : Refused s.tree i.dn names)
    {t' : Tree} (hd : processDied s.tree i.dn .other = .ok t')
    (hpar : parentLive t' i.dn = true) (hsub : ready fixed t' i.dn = true) :
    ∃ s₃, run P fixed s [.run iid names, .ret iid .other, .died i.dn .other] = some s₃ ∧ s₃.tree = t' ∧
      ∃ s₄ r, step P fixed s₃ .gc = some s₄ ∧ under r i.dn = true ∧ Req.sched r ∈ s₄.pend ∧
        ∃ s₅, step P fixed s₄ (.sched r) = some s₅ ∧ ∃ j ∈ s₅.live, j.dn = r := by
  have hrun : step P fixed s (.run iid names) = some s := by
    have hr : runGroup P s.tree i.dn names s.nextInc = .ok none := by
      cases hs : step P fixed s (.run iid names) with
      | none => simp [step, hi, hnd] at hs; split at hs <;> simp_all
      | some s' => exact (c18_rejected_group_no_effect P fixed hi (by rw [hf]; rfl) hbad hs).2
    simp [step, hi, hnd, hr]
  let s₂ : Sys := { s with live := s.live.erase i, pend := s.pend ++ [.died i.dn .other] }
  have hret : step P fixed s (.ret iid .other) = some s₂ := by simp [step, hi, s₂]
  let s₃ : Sys := { s₂ with pend := s₂.pend.erase (.died i.dn .other), tree := t' }
  have hdied : step P fixed s₂ (.died i.dn .other) = some s₃ := by
    have hm : Req.died i.dn .other ∈ s₂.pend := List.mem_append.2 (Or.inr (List.mem_singleton.2 rfl))
    have hk2 : s₂.killed = false := hk
    have hd2 : processDied s₂.tree i.dn .other = .ok t' := hd
    simp [step, hk2, hm, hd2, s₃]
  obtain ⟨g, rfl, hkeep, hst, _, _, _⟩ := processDied_dead hf (by simp) (by simp) hd
  have hn := (find_some hf)
  have hmem : g n ∈ s₃.tree := List.mem_map.2 ⟨n, hn.1, rfl⟩
  have hdn : (g n).dn = i.dn := by rw [(hkeep n).1]; exact hn.2
  have hk3 : s₃.killed = false := hk
  obtain ⟨s₄, r, h4, hu, hp, h5⟩ := c18_restart_sys P fixed hk3 hmem (Or.inl (hst n hn.2).1) (by rw [hdn]; exact hpar) (by rw [hdn]; exact hsub)
  refine ⟨s₃, ?_, rfl, s₄, r, h4, by rw [← hdn]; exact hu, hp, h5⟩
  simp only [run, hrun, hret, hdied]

/-- `root` starts `a`, is refused `{b, a, c}`, returns the error; `a` is cancelled and returns; the GC restarts `root` -/
example : ∃ s, run {} true (init {}) [.sched [], .run 0 ["a"], .sched ["a"], .sig 1 .healthy, .run 0 ["b", "a", "c"], .ret 0 .other,
      .died [] .other, .ret 1 .ctx, .died ["a"] .ctx] = some s ∧ s.killed = false ∧ s.tree.map (fun n => (n.dn, n.state)) = [([], .dead), (["a"], .canceled)] ∧
    parentLive s.tree [] = true ∧ ready true s.tree [] = true ∧
    ∃ s', run {} true s [.gc, .sched []] = some s' ∧ s'.live.map (·.dn) = [[]] ∧ s'.tree.map (fun n => (n.dn, n.state, n.cancelled)) = [([], .new, false)] := by
  decide

/-! ## the supervisor option `WithPropagatePanic` (the configuration `guardiand` runs)

`stepO pp` / `runO pp` (Model/Supervisor.lean) is the system whose supervisor was built with `propagatePanic = pp`:
the option is consulted in one place only, by the goroutine `processSchedule` starts, and only when a panic unwinds
the runnable.  The statement of C18 speaks of a service that "returns or panics (with panic capture on)": with the
option on a panic ends the process (`Outcome.crashed`, an explicit result) and is outside the statement; everything
the statement says about services that RETURN holds in that configuration too, because for those the two systems
are the same system. -/

/-- **A return is reported whatever the option says.**  When the runnable of a running instance returns `e` (`nil`,
a context error, any other error) the goroutine started by `processSchedule` sends `died{dn, e}` to the processor,
with `propagatePanic` on exactly as with it off: the instance is gone and the request is pending. -/
theorem c18_propagate_panic_return_reported (pp : Bool) (P : Params) (fixed : Bool) {s : Sys} {iid : Nat} {i : Inst}
    (hi : s.live.find? (fun j => j.iid = iid) = some i) (e : ErrKind) :
    stepO pp P fixed s (.act (.ret iid e)) = .next { s with live := s.live.erase i, pend := s.pend ++ [.died i.dn e] } ∧
    reportOf pp (.returned e) = .died e := by
  constructor
  · simp only [stepO, hi, endInst, reportOf]
  · rfl

/-- `root` runs under `propagatePanic`, has started `a`; `a` returns an error: the `died` request is pending and the
processor's `processDied` marks `a` DEAD - with the option on and off alike -/
example : ∀ pp, ∃ s, runO pp {} true (init {}) [.act (.sched []), .act (.run 0 ["a"]), .act (.sched ["a"]), .act (.sig 1 .healthy),
      .act (.ret 1 .other)] = .next s ∧ s.pend = [.died ["a"] .other] ∧ s.live.map (·.dn) = [[]] ∧
    ∃ s', stepO pp {} true s (.act (.died ["a"] .other)) = .next s' ∧ s'.tree.map (fun n => (n.dn, n.state)) = [([], .new), (["a"], .dead)] := by
  decide

/-- **The option only matters for panics.**  (1) With the option off the configured system is the base system `step`
(a panic being the death `other`).  (2) With the option on the process ends exactly when an action makes a runnable
panic — its own code, or the `Signal` / `RunGroup` call it makes.  (3) An action that makes no runnable panic has the
same outcome under both settings, and (4) so has every sequence of such actions: for services that return — whatever
they return, whenever, in whatever order, with the processor's steps interleaved in any way — the runs of the system
with `WithPropagatePanic` are exactly the runs of `step`. -/
theorem c18_propagate_panic_returning_same (P : Params) (fixed : Bool) (s : Sys) :
    (∀ a, stepO false P fixed s a = Outcome.ofOption (step P fixed s a.toAct)) ∧
    (∀ a, stepO true P fixed s a = .crashed ↔ raises P s a = true) ∧
    (∀ pp a, raises P s a = false → stepO pp P fixed s a = Outcome.ofOption (step P fixed s a.toAct)) ∧
    (∀ pp acts, panicFree P fixed s acts = true →
      runO pp P fixed s acts = Outcome.ofOption (run P fixed s (acts.map OAct.toAct))) := by
  refine ⟨stepO_false P fixed s, stepO_true_crashed_iff P fixed s, fun pp a h => ?_, fun pp acts h => ?_⟩
  · rw [stepO_of_not_raises pp P fixed s a h, stepO_false]
  · rw [runO_panicFree pp P fixed acts s h, runO_false]

/-- `exRun` (a failing root, a Done child returning late, the restart) contains no panic: it is a run under either
setting, ending in the same state; one panic in it, and the process ends under `WithPropagatePanic` while the panic
is a death like any other without it -/
example : panicFree {} true (init {}) (exRun.map .act) = true ∧
    (∀ pp, runO pp {} true (init {}) (exRun.map .act) = Outcome.ofOption (run {} true (init {}) exRun)) ∧
    runO true {} true (init {}) ((exRun.take 5).map .act ++ [.panic 0]) = .crashed ∧
    (∃ s, runO false {} true (init {}) ((exRun.take 5).map .act ++ [.panic 0]) = .next s ∧ s.pend = [.died [] .other]) ∧
    runO true {} true (init {}) [.act (.sched []), .act (.sig 0 .done)] = .crashed := by
  decide

/-- **Everything proved about reachable states carries over to `guardiand`'s configuration.**  A state the system
with `WithPropagatePanic` (or without) reaches while the process is alive is a reachable state of `step`; so on the
repaired code no service has two running instances (`c18_mutex`) and every pending request and every running
goroutine refers to a node that exists and is its own (`c18_requests_find_node`: the processor never panics). -/
theorem c18_propagate_panic_reach (pp : Bool) (P : Params) {acts : List OAct} {s : Sys}
    (h : runO pp P true (init P) acts = .next s) :
    Reach P true (fun _ => True) s ∧ Mutex s ∧
    (∀ r ∈ s.pend, ∃ n ∈ s.tree, n.dn = r.dn ∧ n.exited = false) ∧
    (∀ i ∈ s.live, ∃ n ∈ s.tree, n.dn = i.dn ∧ n.exited = false) := by
  have hr : Reach P true (fun _ => True) s := Reach.of_run _ Reach.init (runO_next acts h)
  exact ⟨hr, c18_mutex P hr, c18_requests_find_node P hr⟩

example : ∃ s, runO true {} true (init {}) (exRun.map .act) = .next s ∧ liveCount s ["c"] = 1 ∧ liveCount s [] = 1 := by
  decide

/-- **A service that returns is restarted under `WithPropagatePanic` as well.**  A running service returns `e` and
that is a failure (it had not signalled Done and returned nil; it is not answering a cancellation of its own
context with the context error).  Under either setting of the option: the return is reported, `processDied` makes
the node `DEAD` and cancels it, everything below it and the members of its group (`c18_died_cancels_group` speaks
about this very `t'`), and once everything below has stopped (`ready`) and the parent context is live, the next GC
pass puts the schedule request of the service (or of an ancestor that died too) in flight and `processSchedule`
starts it again. -/
theorem c18_propagate_panic_returning_restarted (pp : Bool) (P : Params) (fixed : Bool) {s : Sys} (hk : s.killed = false)
    {iid : Nat} {i : Inst} {n : Node} {e : ErrKind} (hi : s.live.find? (fun j => j.iid = iid) = some i)
    (hf : find s.tree i.dn = some n) (h1 : ¬(n.state = .done ∧ e = .nil)) (h2 : ¬(n.cancelled = true ∧ e = .ctx))
    {t' : Tree} (hd : processDied s.tree i.dn e = .ok t')
    (hpar : parentLive t' i.dn = true) (hsub : ready fixed t' i.dn = true) :
    ∃ s₃, runO pp P fixed s [.act (.ret iid e), .act (.died i.dn e)] = .next s₃ ∧ s₃.tree = t' ∧
      (∀ m ∈ t', under i.dn m.dn = true → m.cancelled = true) ∧
      ∃ s₄ r, stepO pp P fixed s₃ (.act .gc) = .next s₄ ∧ under r i.dn = true ∧ Req.sched r ∈ s₄.pend ∧
        ∃ s₅, stepO pp P fixed s₄ (.act (.sched r)) = .next s₅ ∧ ∃ j ∈ s₅.live, j.dn = r := by
  let s₂ : Sys := { s with live := s.live.erase i, pend := s.pend ++ [.died i.dn e] }
  have hret : step P fixed s (.ret iid e) = some s₂ := by simp [step, hi, s₂]
  let s₃ : Sys := { s₂ with pend := s₂.pend.erase (.died i.dn e), tree := t' }
  have hdied : step P fixed s₂ (.died i.dn e) = some s₃ := by
    have hm : Req.died i.dn e ∈ s₂.pend := List.mem_append.2 (Or.inr (List.mem_singleton.2 rfl))
    have hk2 : s₂.killed = false := hk
    have hd2 : processDied s₂.tree i.dn e = .ok t' := hd
    simp [step, hk2, hm, hd2, s₃]
  have hcanc := (c18_died_cancels_group hf h1 h2 hd).2.1
  obtain ⟨g, rfl, hkeep, hst, _, _, _⟩ := processDied_dead hf h1 h2 hd
  have hn := (find_some hf)
  have hmem : g n ∈ s₃.tree := List.mem_map.2 ⟨n, hn.1, rfl⟩
  have hdn : (g n).dn = i.dn := by rw [(hkeep n).1]; exact hn.2
  have hk3 : s₃.killed = false := hk
  obtain ⟨s₄, r, h4, hu, hp, s₅, h5, hj⟩ := c18_restart_sys P fixed hk3 hmem (Or.inl (hst n hn.2).1) (by rw [hdn]; exact hpar) (by rw [hdn]; exact hsub)
  have same := fun (x : Sys) => (c18_propagate_panic_returning_same P fixed x).2.2.1 pp
  refine ⟨s₃, ?_, rfl, hcanc, s₄, r, ?_, by rw [← hdn]; exact hu, hp, s₅, ?_, hj⟩
  · simp only [runO]
    rw [same s _ rfl]
    simp only [OAct.toAct, hret, Outcome.ofOption]
    rw [same s₂ _ rfl]
    simp only [OAct.toAct, hdied, Outcome.ofOption]
  · rw [same s₃ _ rfl]; simp only [OAct.toAct, h4, Outcome.ofOption]
  · rw [same s₄ _ rfl]; simp only [OAct.toAct, h5, Outcome.ofOption]

/-- under `WithPropagatePanic`: `root` starts the group `{a, b}`, all three signal Healthy -/
def ppGroupRun : List OAct :=
  [.act (.sched []), .act (.run 0 ["a", "b"]), .act (.sig 0 .healthy), .act (.sched ["a"]), .act (.sched ["b"]), .act (.sig 2 .healthy)]

/-- `a` returns nil without having signalled Done (a failure): the hypotheses of the theorem hold; `a` is DEAD, `b` -
still running - holds a cancelled context -/
example : ∃ s, runO true {} true (init {}) ppGroupRun = .next s ∧ s.killed = false ∧ s.live.find? (fun j => j.iid = 1) = some ⟨1, ["a"], 1⟩ ∧
    ∃ s₃, runO true {} true s [.act (.ret 1 .nil), .act (.died ["a"] .nil)] = .next s₃ ∧
      s₃.tree.map (fun n => (n.dn, n.state, n.cancelled)) = [([], .healthy, false), (["a"], .dead, true), (["b"], .healthy, true)] ∧
      s₃.live.map (fun j => (j.dn, instCancelled s₃.tree j)) = [([], false), (["b"], true)] ∧
      parentLive s₃.tree ["a"] = true ∧ ready true s₃.tree ["a"] = true := by
  decide

/-- `b` answers the cancellation with the context error; the GC then restarts both (`a` after its back-off, `b` at once) -/
example : ∃ s₅, runO true {} true (init {}) (ppGroupRun ++ [.act (.ret 1 .nil), .act (.died ["a"] .nil), .act (.ret 2 .ctx),
      .act (.died ["b"] .ctx), .act .gc, .act (.sched ["a"]), .act (.sched ["b"])]) = .next s₅ ∧
    s₅.live.map (·.dn) = [[], ["a"], ["b"]] ∧
    s₅.tree.map (fun n => (n.dn, n.state, n.cancelled)) = [([], .healthy, false), (["a"], .new, false), (["b"], .new, false)] := by
  decide

end Whv.C18
