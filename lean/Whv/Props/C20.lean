import Whv.Model.Spy
/-!
# C20 — spy subscribers receive exactly the VAAs matching their filters, independently

Model: `Whv/Model/Spy.lean` follows the pinned `node/cmd/spy/spy.go`.  The statement has two halves.

**Delivery** (holds): `c20_delivery_set_partial` — for a decodable VAA the channel sends of one `Publish` are, for
every subscription, `copies` many, which is positive exactly for the matching subscriptions (`c20_copies_pos_iff`)
and is one when the filters are distinct (`c20_copies_le_one`; the code sends one copy *per matching filter*, so a
subscription that lists the same filter twice receives the VAA twice); `c20_log_exact` — in every history, every
`Publish` that returned performed exactly those sends; `c20_reader_unblocks` — a send can only wait on a
subscriber that is not reading: if all subscribers keep reading, `Publish` goes through.  An undecodable VAA
(outside the statement) is characterised by `c20_undecodable`.

**Isolation** (fails on the pinned code — `Publish` holds `subsMu` across a blocking channel send):
`c20_deadlock_witness` — a reachable state in which, as long as one subscriber's client does not read (whether it
stays connected or disconnects), `Publish` never returns, no subscription can be registered or removed, and the
other subscriber never receives the pending VAA; `c20_isolation_fails` — the formal negation of the isolation half.
The theorem for the delivery half therefore carries the suffix `_partial`.
-/
namespace Whv.C20
open Whv Whv.Spy

/-! ## Delivery set (function level) -/

/-- A subscription is sent the VAA at least once iff it matches (no filters, or some filter with equal chain and address). -/
theorem c20_copies_pos_iff (fs : List Filter) (c : Nat) (a : Bytes) : 0 < copies fs c a ↔ subMatches fs c a = true := by
  unfold copies subMatches
  cases fs with
  | nil => simp
  | cons f rest =>
    simp only [List.isEmpty_cons, Bool.false_eq_true, if_false, Bool.false_or, List.length_pos_iff, ne_eq]
    rw [List.any_eq_true]
    constructor
    · intro h
      cases hl : (f :: rest).filter (·.hit c a) with
      | nil => exact absurd hl h
      | cons x xs =>
        have : x ∈ (f :: rest).filter (·.hit c a) := by rw [hl]; simp
        exact ⟨x, (List.mem_filter.1 this).1, (List.mem_filter.1 this).2⟩
    · intro ⟨x, hx, hh⟩ he
      have : x ∈ (f :: rest).filter (·.hit c a) := List.mem_filter.2 ⟨hx, hh⟩
      rw [he] at this
      cases this

private theorem hit_eq {f : Filter} {c : Nat} {a : Bytes} (h : f.hit c a = true) : f = ⟨c, a⟩ := by
  unfold Filter.hit at h
  simp only [Bool.and_eq_true, beq_iff_eq] at h
  cases f
  simp_all

/-- With pairwise distinct filters at most one filter matches a given VAA: **each matching subscriber is sent
the VAA exactly once**.  (With a repeated filter the code sends it once per repetition.) -/
theorem c20_copies_le_one (fs : List Filter) (c : Nat) (a : Bytes) (hnd : fs.Nodup) : copies fs c a ≤ 1 := by
  unfold copies
  split
  · exact Nat.le_refl 1
  · have hnd' : (fs.filter (·.hit c a)).Nodup := hnd.sublist List.filter_sublist
    cases hl : fs.filter (·.hit c a) with
    | nil => simp
    | cons x xs =>
      cases xs with
      | nil => simp
      | cons y ys =>
        rw [hl] at hnd'
        have hx : x ∈ fs.filter (·.hit c a) := by rw [hl]; simp
        have hy : y ∈ fs.filter (·.hit c a) := by rw [hl]; simp
        have ex := hit_eq (List.mem_filter.1 hx).2
        have ey := hit_eq (List.mem_filter.1 hy).2
        have : x ≠ y := by
          intro e
          rw [e] at hnd'
          simp at hnd'
        exact absurd (ex.trans ey.symm) this

/-- and with a repeated matching filter it is not once: the model (like the code) sends two copies. -/
example : copies [⟨2, [7]⟩, ⟨2, [7]⟩] 2 [7] = 2 := by decide

/-- **Delivery set.** For a decodable VAA and any iteration order of the map (`subs`, distinct ids), `Publish`
returns no error and the number of channel sends to each subscription is `copies` of its filters — so exactly the
matching subscriptions are served (`c20_copies_pos_iff`), once each when filters are distinct. -/
theorem c20_delivery_set_partial (c : Nat) (a : Bytes) (subs : List (SubId × List Filter))
    (hnd : (subs.map (·.1)).Nodup) :
    (sends (some (c, a)) subs).2 = false ∧
    (∀ id fs, (id, fs) ∈ subs → (sends (some (c, a)) subs).1.count id = copies fs c a) ∧
    (∀ id, id ∉ subs.map (·.1) → (sends (some (c, a)) subs).1.count id = 0) := by
  induction subs with
  | nil => simp [sends]
  | cons p rest ih =>
    obtain ⟨pid, pfs⟩ := p
    simp only [List.map_cons, List.nodup_cons] at hnd
    obtain ⟨ih1, ih2, ih3⟩ := ih hnd.2
    have hnotin : (sends (some (c, a)) rest).1.count pid = 0 := ih3 pid hnd.1
    by_cases he : pfs.isEmpty = true
    · have hs : sends (some (c, a)) ((pid, pfs) :: rest) = (pid :: (sends (some (c, a)) rest).1, (sends (some (c, a)) rest).2) := by
        simp [sends, he]
      rw [hs]
      refine ⟨ih1, ?_, ?_⟩
      · intro id fs hm
        simp only [List.mem_cons, Prod.mk.injEq] at hm
        rcases hm with ⟨rfl, rfl⟩ | hm
        · simp [hnotin, copies, he]
        · have hne : pid ≠ id := by
            intro e; subst e
            exact hnd.1 (List.mem_map.2 ⟨(pid, fs), hm, rfl⟩)
          simp only [List.count_cons, beq_iff_eq, hne, if_false, Nat.add_zero]
          exact ih2 id fs hm
      · intro id hid
        simp only [List.map_cons, List.mem_cons, not_or] at hid
        have hne : pid ≠ id := fun e => hid.1 e.symm
        simp only [List.count_cons, beq_iff_eq, hne, if_false, Nat.add_zero]
        exact ih3 id hid.2
    · have hs : sends (some (c, a)) ((pid, pfs) :: rest) =
          (List.replicate (copies pfs c a) pid ++ (sends (some (c, a)) rest).1, (sends (some (c, a)) rest).2) := by
        simp [sends, he]
      rw [hs]
      refine ⟨ih1, ?_, ?_⟩
      · intro id fs hm
        simp only [List.mem_cons, Prod.mk.injEq] at hm
        rcases hm with ⟨rfl, rfl⟩ | hm
        · simp [List.count_append, hnotin]
        · have hne : pid ≠ id := by
            intro e; subst e
            exact hnd.1 (List.mem_map.2 ⟨(pid, fs), hm, rfl⟩)
          simp only [List.count_append, List.count_replicate, beq_iff_eq, hne, if_false, Nat.zero_add]
          exact ih2 id fs hm
      · intro id hid
        simp only [List.map_cons, List.mem_cons, not_or] at hid
        have hne : pid ≠ id := fun e => hid.1 e.symm
        simp only [List.count_append, List.count_replicate, beq_iff_eq, hne, if_false, Nat.zero_add]
        exact ih3 id hid.2

/-- What the code does with an **undecodable** VAA (e.g. what `Marshal` writes for an empty payload): it returns an error
iff some subscription has filters, and it serves exactly the subscriptions without filters, once each, whatever the map
order. -/
theorem c20_undecodable (subs : List (SubId × List Filter)) :
    (sends none subs).1 = (subs.filter (·.2.isEmpty)).map (·.1) ∧
    (sends none subs).2 = subs.any (fun p => !p.2.isEmpty) := by
  induction subs with
  | nil => simp [sends]
  | cons p rest ih =>
    obtain ⟨pid, pfs⟩ := p
    by_cases he : pfs.isEmpty = true
    · simp [sends, he, ih.1, ih.2]
    · simp [sends, he, ih.1]

/-- The statement's first sentence for subscribers **without filters** needs no decoding: whatever `vaa.Unmarshal` makes of
the published bytes, one `Publish` sends exactly one copy to every filter-less subscription (distinct ids = map keys). -/
theorem c20_unfiltered_always_served (d : Decoded) (subs : List (SubId × List Filter))
    (hnd : (subs.map (·.1)).Nodup) (id : SubId) (h : (id, []) ∈ subs) :
    (sends d subs).1.count id = 1 := by
  cases d with
  | some ca =>
    obtain ⟨c, a⟩ := ca
    have := (c20_delivery_set_partial c a subs hnd).2.1 id [] h
    simpa [copies] using this
  | none =>
    rw [(c20_undecodable subs).1]
    induction subs with
    | nil => simp at h
    | cons p rest ih =>
      obtain ⟨pid, pfs⟩ := p
      simp only [List.map_cons, List.nodup_cons] at hnd
      simp only [List.mem_cons] at h
      rcases h with h | h
      · have e1 : pid = id := (Prod.mk.inj h).1.symm
        have e2 : pfs = [] := (Prod.mk.inj h).2.symm
        subst e1 e2
        have hnot : pid ∉ (rest.filter (·.2.isEmpty)).map (·.1) := by
          intro hm
          apply hnd.1
          simp only [List.mem_map, List.mem_filter] at hm ⊢
          obtain ⟨x, hx, hxe⟩ := hm
          exact ⟨x, hx.1, hxe⟩
        simp [List.count_eq_zero_of_not_mem hnot]
      · have hne : pid ≠ id := by
          intro e
          apply hnd.1
          simp only [List.mem_map]
          exact ⟨(id, []), h, e.symm⟩
        by_cases he : pfs.isEmpty = true
        · simp [he, hne, ih hnd.2 h]
        · simp [he, ih hnd.2 h]

example : (sends none [(0, [⟨1, [7]⟩]), (1, []), (2, [⟨2, [8]⟩]), (3, [])]) = ([1, 3], true) := by decide

/-! ## Histories -/

/-- channel sends the publisher still has to do -/
def pending (s : State) : List (SubId × Bytes) :=
  match s.pub with
  | .idle => []
  | .sending v todo => todo.map (·, v)

/-- the channel sends a step decides on: those of a `Publish` at its start (with the subscriptions present then) -/
def contrib (s : State) : Step → List (SubId × Bytes)
  | .pubStart v d order => (sends d (ordered s.subs order)).1.map (·, v)
  | _ => []

/-- … summed over a trace -/
def planned : State → List Step → List (SubId × Bytes)
  | _, [] => []
  | s, st :: rest =>
    match step s st with
    | none => []
    | some s' => contrib s st ++ planned s' rest

private theorem step_log (s s' : State) (st : Step) (h : step s st = some s') :
    s'.log ++ pending s' = s.log ++ pending s ++ contrib s st := by
  cases st with
  | subscribe id fs =>
    simp only [step] at h
    split at h
    · cases h
    · split at h
      · cases h
      · cases h; simp [pending, contrib]
  | pubStart v d order =>
    simp only [step] at h
    split at h
    · cases h
    · split at h
      · cases h
      · rename_i hp
        cases h
        simp [pending, hp, contrib]
  | pubSend =>
    simp only [step] at h
    split at h
    · rename_i v id rest hp
      split at h
      · cases h
      · split at h
        · cases h; simp [pending, hp, contrib]
        · cases h
    · cases h
  | pubEnd =>
    simp only [step] at h
    split at h
    · rename_i hp
      cases h; simp [pending, hp, contrib]
    · cases h
  | recv id =>
    simp only [step] at h
    split at h
    · split at h
      · cases h; simp [pending, contrib]
      · cases h
    · cases h
  | sendDone id =>
    simp only [step] at h
    split at h
    · split at h
      · cases h; simp [pending, contrib]
      · cases h
    · cases h
  | leave id =>
    simp only [step] at h
    split at h
    · split at h
      · cases h
      · cases h; simp [pending, contrib]
    · cases h
  | remove id =>
    simp only [step] at h
    split at h
    · cases h
    · split at h
      · split at h
        · cases h; simp [pending, contrib]
        · cases h
      · cases h

/-- **Every history**: what has been sent on subscription channels plus what the running `Publish` still has to
send equals what the `Publish` calls of the history decided at their start — nothing else is ever sent, nothing
is dropped, order is kept.  In particular (`c20_returned_publishes_exact`) when no `Publish` is running, the
sends performed are exactly the planned ones. -/
theorem c20_log_exact (tr : List Step) : ∀ (s s' : State), exec s tr = some s' →
    s'.log ++ pending s' = s.log ++ pending s ++ planned s tr := by
  induction tr with
  | nil => intro s s' h; simp only [exec, Option.some.injEq] at h; subst h; simp [planned]
  | cons st rest ih =>
    intro s s' h
    simp only [exec] at h
    cases hs : step s st with
    | none => simp [hs] at h
    | some s1 =>
      simp only [hs] at h
      have h1 := step_log s s1 st hs
      have h2 := ih s1 s' h
      rw [h2, h1]
      simp only [planned, hs, List.append_assoc]

theorem c20_returned_publishes_exact (tr : List Step) (s s' : State) (h : exec s tr = some s')
    (hi : s.pub = .idle) (hi' : s'.pub = .idle) : s'.log = s.log ++ planned s tr := by
  have := c20_log_exact tr s s' h
  simpa [pending, hi, hi'] using this

/-! ### Progress when subscribers keep reading -/

private theorem findSub_id {subs : List Sub} {id : SubId} {sub : Sub} (h : findSub subs id = some sub) : sub.id = id := by
  unfold findSub at h
  have := List.find?_some h
  simpa using this

private theorem findSub_setSub (subs : List Sub) (s' : Sub) (id : SubId) :
    findSub (setSub subs s') id = if id = s'.id then (findSub subs id).map (fun _ => s') else findSub subs id := by
  unfold findSub setSub
  induction subs with
  | nil => simp
  | cons x rest ih =>
    simp only [List.map_cons, List.find?_cons]
    by_cases hx : x.id = s'.id
    · by_cases hi : id = s'.id
      · subst hi; simp [hx]
      · have : ¬ x.id = id := fun e => hi (e.symm.trans hx)
        simp only [hx, beq_self_eq_true, if_true, hi, if_false] at ih ⊢
        have h1 : (s'.id == id) = false := by simpa using fun e : s'.id = id => hi e.symm
        simp only [h1]
        exact ih
    · have hxb : (x.id == s'.id) = false := by simpa using hx
      simp only [hxb, Bool.false_eq_true, if_false]
      by_cases hxi : x.id = id
      · have : ¬ id = s'.id := fun e => hx (hxi.trans e)
        simp [hxi, this]
      · have hxib : (x.id == id) = false := by simpa using hxi
        simp only [hxib]
        exact ih

/-- **A send waits only for a subscriber that does not read.** If `Publish` is about to send to subscription
`id` whose handler has not left, then after at most two steps of that subscriber's own reader (`resp.Send`
returning, the next receive from the channel) the send is enabled.  So in every history in which all
subscribers keep reading, every `Publish` runs to completion, and by `c20_returned_publishes_exact` /
`c20_delivery_set_partial` it has then served exactly the matching subscriptions. -/
theorem c20_reader_unblocks (s : State) (v : Bytes) (id : SubId) (rest : List SubId) (sub : Sub)
    (hp : s.pub = .sending v (id :: rest)) (hf : findSub s.subs id = some sub)
    (hq : sub.queue.length ≤ chanCap) (hr : sub.reader ≠ .leaving) :
    ∃ tr s', (∀ st ∈ tr, st = .sendDone id ∨ st = .recv id) ∧ tr.length ≤ 2 ∧ exec s tr = some s' ∧ (step s' .pubSend).isSome := by
  have hid := findSub_id hf
  by_cases hfull : sub.queue.length < chanCap
  · exact ⟨[], s, by simp, by simp, rfl, by simp [step, hp, hf, hfull]⟩
  · -- the channel holds one message
    have hlen : sub.queue.length = 1 := by unfold chanCap at hq hfull; omega
    obtain ⟨m, hm⟩ : ∃ m, sub.queue = [m] := by
      cases hq' : sub.queue with
      | nil => simp [hq'] at hlen
      | cons m q => cases q with
        | nil => exact ⟨m, rfl⟩
        | cons _ _ => simp [hq'] at hlen
    cases hrd : sub.reader with
    | leaving => exact absurd hrd hr
    | selecting =>
      -- one receive empties the channel
      refine ⟨[.recv id], { s with subs := setSub s.subs { sub with queue := [], reader := .sending m } }, by simp, by simp, ?_, ?_⟩
      · simp only [exec, step, hf, hrd, hm]
      · simp only [step, hp, findSub_setSub, hid, if_true, hf, Option.map_some]
        simp [chanCap]
    | sending m0 =>
      -- the client takes the message in flight, the handler receives the queued one
      obtain ⟨sub1, hs1⟩ : ∃ x : Sub, x = { sub with reader := .selecting, delivered := sub.delivered ++ [m0] } := ⟨_, rfl⟩
      have hid1 : sub1.id = id := by rw [hs1]; exact hid
      have hq1 : sub1.queue = [m] := by rw [hs1]; exact hm
      have hr1 : sub1.reader = .selecting := by rw [hs1]
      have hf1 : findSub (setSub s.subs sub1) id = some sub1 := by rw [findSub_setSub]; simp [hid1, hf]
      have e1 : step s (.sendDone id) = some { s with subs := setSub s.subs sub1 } := by
        simp only [step, hf, hrd, hs1]
      obtain ⟨sub2, hs2⟩ : ∃ x : Sub, x = { sub1 with queue := [], reader := .sending m } := ⟨_, rfl⟩
      have hid2 : sub2.id = id := by rw [hs2]; exact hid1
      have e2 : step { s with subs := setSub s.subs sub1 } (.recv id) =
          some { s with subs := setSub (setSub s.subs sub1) sub2 } := by
        simp only [step, hf1, hr1, hq1, hs2]
      have hf2 : findSub (setSub (setSub s.subs sub1) sub2) id = some sub2 := by
        rw [findSub_setSub]; simp [hid2, hf1]
      have hq2 : sub2.queue = [] := by rw [hs2]
      refine ⟨[.sendDone id, .recv id], { s with subs := setSub (setSub s.subs sub1) sub2 }, by simp, by simp, ?_, ?_⟩
      · simp only [exec, e1, e2]
      · simp [step, hp, hf2, hq2, chanCap]

private theorem mem_setSub {subs : List Sub} {s' x : Sub} (h : x ∈ setSub subs s') : x ∈ subs ∨ x = s' := by
  unfold setSub at h
  obtain ⟨y, hy, rfl⟩ := List.mem_map.1 h
  by_cases e : (y.id == s'.id) = true
  · right; simp [e]
  · left; simpa [e] using hy

private theorem findSub_mem {subs : List Sub} {id : SubId} {sub : Sub} (h : findSub subs id = some sub) : sub ∈ subs := by
  unfold findSub at h
  exact List.mem_of_find?_eq_some h

private theorem step_bounded (s s' : State) (st : Step) (hb : ∀ x ∈ s.subs, x.queue.length ≤ chanCap)
    (h : step s st = some s') : ∀ x ∈ s'.subs, x.queue.length ≤ chanCap := by
  cases st with
  | subscribe id fs =>
    simp only [step] at h
    split at h
    · cases h
    · split at h
      · cases h
      · cases h
        intro x hx
        simp only [List.mem_append, List.mem_singleton] at hx
        rcases hx with hx | rfl
        · exact hb x hx
        · simp
  | pubStart v d order =>
    simp only [step] at h
    split at h
    · cases h
    · split at h
      · cases h
      · cases h; exact hb
  | pubSend =>
    simp only [step] at h
    split at h
    · split at h
      · cases h
      · rename_i sub hf
        split at h
        · rename_i hlt
          cases h
          intro x hx
          rcases mem_setSub hx with hx | rfl
          · exact hb x hx
          · simp only [List.length_append, List.length_singleton]; omega
        · cases h
    · cases h
  | pubEnd =>
    simp only [step] at h
    split at h
    · cases h; exact hb
    · cases h
  | recv id =>
    simp only [step] at h
    split at h
    · rename_i sub hf
      split at h
      · rename_i m q hr hq
        cases h
        intro x hx
        rcases mem_setSub hx with hx | rfl
        · exact hb x hx
        · have := hb sub (findSub_mem hf)
          rw [hq] at this
          simp only [List.length_cons] at this ⊢
          omega
      · cases h
    · cases h
  | sendDone id =>
    simp only [step] at h
    split at h
    · rename_i sub hf
      split at h
      · cases h
        intro x hx
        rcases mem_setSub hx with hx | rfl
        · exact hb x hx
        · exact hb sub (findSub_mem hf)
      · cases h
    · cases h
  | leave id =>
    simp only [step] at h
    split at h
    · rename_i sub hf
      split at h
      · cases h
      · cases h
        intro x hx
        rcases mem_setSub hx with hx | rfl
        · exact hb x hx
        · exact hb sub (findSub_mem hf)
    · cases h
  | remove id =>
    simp only [step] at h
    split at h
    · cases h
    · split at h
      · split at h
        · cases h
          intro x hx
          exact hb x (List.mem_filter.1 hx).1
        · cases h
      · cases h

/-- The channel capacity is respected in every reachable state (the hypothesis of `c20_reader_unblocks`). -/
theorem c20_queue_bounded (s : State) (hr : Reachable s) : ∀ x ∈ s.subs, x.queue.length ≤ chanCap := by
  obtain ⟨tr, h⟩ := hr
  have key : ∀ (tr : List Step) (s0 s1 : State), (∀ x ∈ s0.subs, x.queue.length ≤ chanCap) → exec s0 tr = some s1 →
      ∀ x ∈ s1.subs, x.queue.length ≤ chanCap := by
    intro tr
    induction tr with
    | nil => intro s0 s1 hb h; simp only [exec, Option.some.injEq] at h; subst h; exact hb
    | cons st rest ih =>
      intro s0 s1 hb h
      simp only [exec] at h
      cases hs : step s0 st with
      | none => simp [hs] at h
      | some s2 =>
        simp only [hs] at h
        exact ih s2 s1 (step_bounded s0 s2 st hb hs) h
  exact key tr init s (by simp [init]) h

/-- A send needs nothing but a free slot: with the one-slot channel of the pinned code, a subscriber that has read
everything (empty channel) and is leaving — woken on `ctx.Done()`, not yet removed — does **not** make `Publish` wait:
the send is enabled whatever its handler is doing.  (With an unbuffered channel it would not be; the harness checks
this window on the real code, clause `departing-subscriber-blocks-publish`.) -/
theorem c20_send_enabled_of_room (s : State) (v : Bytes) (id : SubId) (rest : List SubId) (sub : Sub)
    (hp : s.pub = .sending v (id :: rest)) (hf : findSub s.subs id = some sub) (hroom : sub.queue.length < chanCap) :
    (step s .pubSend).isSome := by
  simp [step, hp, hf, hroom]

/-! ## Isolation fails: the deadlock -/

def vA : Bytes := [1]
def vB : Bytes := [2]
def vC : Bytes := [3]

/-- Two unfiltered subscribers 0 and 1. Three VAAs are published; the client of subscriber 0 never completes
its first `Send` (it has stopped reading), subscriber 1 reads everything it is given. -/
def dTrace : List Step :=
  [ .subscribe 0 [], .subscribe 1 [],
    .pubStart vA (some (2, [9])) [0, 1], .pubSend, .pubSend, .pubEnd,
    .recv 0,                                   -- handler 0 is now inside resp.Send(vA) — and stays there
    .recv 1, .sendDone 1,
    .pubStart vB (some (2, [9])) [0, 1], .pubSend, .pubSend, .pubEnd,   -- vB sits in subscriber 0's channel
    .recv 1, .sendDone 1,
    .pubStart vC (some (2, [9])) [0, 1] ]      -- the send to subscriber 0 can not proceed

/-- the state `dTrace` leads to -/
def dState : State :=
  { subs := [⟨0, [], [vB], .sending vA, []⟩, ⟨1, [], [], .selecting, [vA, vB]⟩],
    locked := true, pub := .sending vC [0, 1], log := [(0, vA), (1, vA), (0, vB), (1, vB)] }

/-- The publisher holds the mutex and waits on subscriber 0's full channel, whose handler is not receiving. -/
def Stuck (s : State) : Prop :=
  s.locked = true ∧ s.pub = .sending vC [0, 1] ∧ (1, vC) ∉ s.log ∧
  ∃ sub, findSub s.subs 0 = some sub ∧ sub.queue = [vB] ∧ sub.reader ≠ .selecting

private theorem stuck_step (s s' : State) (st : Step) (hS : Stuck s) (hne : st ≠ .sendDone 0)
    (h : step s st = some s') : Stuck s' := by
  obtain ⟨hl, hp, hlog, sub, hf, hq, hr⟩ := hS
  have hid := findSub_id hf
  cases st with
  | subscribe id fs => simp [step, hl] at h
  | pubStart v d order => simp [step, hl] at h
  | pubSend => simp [step, hp, hf, hq, chanCap] at h
  | pubEnd => simp [step, hp] at h
  | remove id => simp [step, hl] at h
  | recv id =>
    simp only [step] at h
    cases hf' : findSub s.subs id with
    | none => simp [hf'] at h
    | some sb =>
      simp only [hf'] at h
      have hid' := findSub_id hf'
      by_cases h0 : id = 0
      · subst h0
        rw [hf] at hf'; cases hf'
        cases hrd : sub.reader with
        | selecting => exact absurd hrd hr
        | sending m => simp [hrd] at h
        | leaving => simp [hrd] at h
      · split at h
        · cases h
          refine ⟨hl, hp, hlog, sub, ?_, hq, hr⟩
          rw [findSub_setSub]
          simp only [hid']
          rw [if_neg (fun e => h0 e.symm)]
          exact hf
        · cases h
  | sendDone id =>
    simp only [step] at h
    cases hf' : findSub s.subs id with
    | none => simp [hf'] at h
    | some sb =>
      simp only [hf'] at h
      have hid' := findSub_id hf'
      have h0 : id ≠ 0 := fun e => hne (by rw [e])
      split at h
      · cases h
        refine ⟨hl, hp, hlog, sub, ?_, hq, hr⟩
        rw [findSub_setSub]
        simp only [hid']
        rw [if_neg (fun e => h0 e.symm)]
        exact hf
      · cases h
  | leave id =>
    simp only [step] at h
    cases hf' : findSub s.subs id with
    | none => simp [hf'] at h
    | some sb =>
      simp only [hf'] at h
      have hid' := findSub_id hf'
      split at h
      · cases h
      · cases h
        by_cases h0 : id = 0
        · subst h0
          rw [hf] at hf'; cases hf'
          refine ⟨hl, hp, hlog, { sub with reader := .leaving }, ?_, hq, by simp⟩
          rw [findSub_setSub]
          simp [hid, hf]
        · refine ⟨hl, hp, hlog, sub, ?_, hq, hr⟩
          rw [findSub_setSub]
          simp only [hid']
          rw [if_neg (fun e => h0 e.symm)]
          exact hf

/-- **Deadlock witness.** The state after `dTrace` is reachable, and from it, along *every* continuation in
which subscriber 0's client does not take its message — it may stay connected, or disconnect (`leave 0`), the
others may do whatever they can — the system stays `Stuck`: `Publish` can neither send nor return, no
subscription can be registered, none removed (not even the departed subscriber 0's own), no new `Publish` can
start, and subscriber 1, who keeps reading, is never sent the third VAA. -/
theorem c20_deadlock_witness :
    (∃ d, exec init dTrace = some d ∧ Stuck d) ∧
    ∀ d, Stuck d → ∀ tr, (∀ st ∈ tr, st ≠ Step.sendDone 0) → ∀ s', exec d tr = some s' →
      Stuck s' ∧ step s' .pubSend = none ∧ step s' .pubEnd = none ∧
      (∀ id fs, step s' (.subscribe id fs) = none) ∧ (∀ id, step s' (.remove id) = none) ∧
      (∀ v dd o, step s' (.pubStart v dd o) = none) ∧ (1, vC) ∉ s'.log := by
  constructor
  · refine ⟨dState, by decide, rfl, rfl, by decide, ?_⟩
    exact ⟨⟨0, [], [vB], .sending vA, []⟩, by decide, rfl, by decide⟩
  · intro d hd tr
    induction tr generalizing d with
    | nil =>
      intro _ s' h
      simp only [exec, Option.some.injEq] at h
      subst h
      obtain ⟨hl, hp, hlog, sub, hf, hq, hr⟩ := hd
      refine ⟨⟨hl, hp, hlog, sub, hf, hq, hr⟩, ?_, ?_, ?_, ?_, ?_, hlog⟩
      · simp [step, hp, hf, hq, chanCap]
      · simp [step, hp]
      · intro id fs; simp [step, hl]
      · intro id; simp [step, hl]
      · intro v dd o; simp [step, hl]
    | cons st rest ih =>
      intro hall s' h
      simp only [exec] at h
      cases hs : step d st with
      | none => simp [hs] at h
      | some d1 =>
        simp only [hs] at h
        exact ih d1 (stuck_step d d1 st hd (hall st (by simp)) hs) (fun x hx => hall x (by simp [hx])) s' h

/-- The isolation half of the statement, for the model: whichever subscriber `a` stops taking messages (stalls
for good or departs), the rest of the system can always reach a state in which the mutex is free again — i.e.
publishing, registering and removing are possible again. -/
def Isolation : Prop :=
  ∀ (s : State) (a : SubId), Reachable s →
    ∃ tr, (∀ st ∈ tr, st ≠ Step.sendDone a) ∧ ∃ s', exec s tr = some s' ∧ s'.locked = false

/-- **The pinned code does not have it.** -/
theorem c20_isolation_fails : ¬ Isolation := by
  intro hI
  obtain ⟨⟨d, hd, hS⟩, hstay⟩ := c20_deadlock_witness
  obtain ⟨tr, hno, s', he, hfree⟩ := hI d 0 ⟨dTrace, hd⟩
  have := (hstay d hS tr hno s' he).1.1
  rw [hfree] at this
  cases this

end Whv.C20
