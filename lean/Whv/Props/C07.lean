import Whv.Gen.C07
/-!
# C07 — quorum threshold = ⌊2n/3⌋+1 in the node and both contracts, and BFT-safe

`Whv.Gen.C07` is regenerated from `/repo` on every run (Go `CalculateQuorum`, Solidity `quorum`,
Ralph `quorumSize`).  Every theorem below is stated for **all** `n : Nat`, not for a table.
-/
namespace Whv.C07
open Whv.Gen.C07

/-- The specification's threshold. -/
def q (n : Nat) : Nat := 2 * n / 3 + 1

theorem go_quorum_eq (n : Nat) : goQuorum n = q n := by
  unfold goQuorum q; omega

theorem sol_quorum_eq (n : Nat) : solQuorum n = q n := by
  unfold solQuorum q; omega

theorem ral_quorum_eq (n : Nat) : ralQuorum n = q n := by
  unfold ralQuorum q; omega

/-- Node and contracts agree on *acceptance*: a signature count passes one threshold iff it passes the others. -/
theorem complete_iff_accepted (n sigs : Nat) :
    (goQuorum n ≤ sigs ↔ solQuorum n ≤ sigs) ∧ (goQuorum n ≤ sigs ↔ ralQuorum n ≤ sigs) := by
  rw [go_quorum_eq, sol_quorum_eq, ral_quorum_eq]; exact ⟨Iff.rfl, Iff.rfl⟩

/-- The threshold exceeds two thirds of `n` … -/
theorem exceeds_two_thirds (n : Nat) : 2 * n < 3 * goQuorum n := by
  rw [go_quorum_eq]; unfold q; omega

/-- … and never exceeds `n` (for a non-empty set). -/
theorem at_most_n (n : Nat) (h : 0 < n) : goQuorum n ≤ n := by
  rw [go_quorum_eq]; unfold q; omega

/-- Any two quorums (sets of at least `goQuorum n` of `n` guardians; by inclusion–exclusion their
intersection has at least `a + b - n` members) share more than a third of the guardians. -/
theorem two_quorums_intersect (n a b : Nat) (ha : goQuorum n ≤ a) (hb : goQuorum n ≤ b)
    (han : a ≤ n) (hbn : b ≤ n) : n < 3 * (a + b - n) := by
  rw [go_quorum_eq] at ha hb; unfold q at ha hb; omega

/-- Non-vacuity: 13 of 19 is a quorum and two such quorums meet in ≥ 7 > 19/3 guardians. -/
example : goQuorum 19 = 13 ∧ 19 < 3 * (13 + 13 - 19) := by decide

end Whv.C07
