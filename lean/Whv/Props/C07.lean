import Whv.Gen.C07
import Whv.Model.Contract
import Whv.Props.C06
/-!
# C07 — quorum threshold = ⌊2n/3⌋+1 in the node and both contracts, and BFT-safe

`Whv.Gen.C07` is regenerated from `/repo` on every run (Go `CalculateQuorum`, Solidity `quorum`,
Ralph `quorumSize`).  Every theorem below is stated for **all** `n : Nat`, not for a table.
-/
namespace Whv.C07
open Whv.Gen.C07

/-- The specification's threshold. -/
def q (n : Nat) : Nat := 2 * n / 3 + 1

theorem go_quorum_eq (n : Nat) : goQuorum n = q n := by
  unfold goQuorum q; omega

theorem sol_quorum_eq (n : Nat) : solQuorum n = q n := by
  unfold solQuorum q; omega

theorem ral_quorum_eq (n : Nat) : ralQuorum n = q n := by
  unfold ralQuorum q; omega

-- which simp lemmas fire depends on the shape of the guard in the source (if / require, one or several)
set_option linter.unusedSimpArgs false in
/-- **The guard `verifyVM` applies is the threshold.** `solAcceptsCount n k` is the comparison(s) between the signature count and
the key count as they stand in `verifyVM` (a call of `quorum()` inlined by `quorum()`'s own return expression, a local holding
it, or a comparison written out in place - re-extracted on every run): it lets `k` signatures for `n` keys through exactly when
`k` reaches `floor(2n/3)+1`.  A correct `quorum()` that `verifyVM` does not use proves nothing; this does. -/
theorem sol_verifyvm_guard (n k : Nat) : solAcceptsCount n k = true ↔ q n ≤ k := by
  unfold solAcceptsCount q
  simp only [Bool.not_eq_true', Bool.and_eq_true, decide_eq_true_eq, decide_eq_false_iff_not]
  omega

/-- … so it is the count guard of the hand model of `verifyVM` (`Contract.solAccepts`: `sigs.length < quorumF keys.length`
rejects) instantiated with the translated `quorum()`. -/
theorem sol_model_guard_is_verifyvm_guard (n k : Nat) : (¬ k < solQuorum n) ↔ solAcceptsCount n k = true := by
  rw [sol_verifyvm_guard, sol_quorum_eq]; omega

/-- Non-vacuity: 2 of 3 is refused, 3 of 3 accepted; 12 of 18 refused, 13 of 18 accepted (the sizes divisible by three are
where `3k < 2n` and `k < floor(2n/3)+1` part). -/
example : solAcceptsCount 3 2 = false ∧ solAcceptsCount 3 3 = true ∧ solAcceptsCount 18 12 = false ∧ solAcceptsCount 18 13 = true := by
  decide

/-- Node and contracts agree on *acceptance*: a signature count passes one threshold iff it passes the others. -/
theorem complete_iff_accepted (n sigs : Nat) :
    (goQuorum n ≤ sigs ↔ solQuorum n ≤ sigs) ∧ (goQuorum n ≤ sigs ↔ ralQuorum n ≤ sigs) := by
  rw [go_quorum_eq, sol_quorum_eq, ral_quorum_eq]; exact ⟨Iff.rfl, Iff.rfl⟩

/-- The threshold exceeds two thirds of `n` … -/
theorem exceeds_two_thirds (n : Nat) : 2 * n < 3 * goQuorum n := by
  rw [go_quorum_eq]; unfold q; omega

/-- … and never exceeds `n` (for a non-empty set). -/
theorem at_most_n (n : Nat) (h : 0 < n) : goQuorum n ≤ n := by
  rw [go_quorum_eq]; unfold q; omega

/-- Any two quorums (sets of at least `goQuorum n` of `n` guardians; by inclusion–exclusion their
intersection has at least `a + b - n` members) share more than a third of the guardians. -/
theorem two_quorums_intersect (n a b : Nat) (ha : goQuorum n ≤ a) (hb : goQuorum n ≤ b)
    (_han : a ≤ n) (_hbn : b ≤ n) : n < 3 * (a + b - n) := by
  rw [go_quorum_eq] at ha hb; unfold q at ha hb; omega

/-- Non-vacuity: 13 of 19 is a quorum and two such quorums meet in ≥ 7 > 19/3 guardians. -/
example : goQuorum 19 = 13 ∧ 19 < 3 * (13 + 13 - 19) := by decide

/-! ## "complete for the node" ⇔ "accepted on chain" (signature section)

The node calls a signature list complete for a guardian set when `verifySignatures` holds and there are at least
`goQuorum` signatures (C01: that is what it stores and broadcasts). The contracts' checks are modelled in
`Whv/Model/Contract.lean`; their quorum formulas are the translated `solQuorum` / `ralQuorum`. -/

open Whv Whv.Contract

private theorem ral_loop_iff (recover : Bytes → Option Addr) (keys : List Addr) :
    ∀ (sigs : List Sig) (last : Int),
      ralSigLoop recover keys sigs last = true ↔ (∀ s ∈ sigs, SigOk recover keys s) ∧ Ascending sigs last := by
  intro sigs
  induction sigs with
  | nil => intro last; simp [ralSigLoop, Ascending]
  | cons s rest ih =>
    intro last
    unfold ralSigLoop
    by_cases h1 : (s.idx : Int) > last
    · rw [if_neg (fun hn => hn h1)]
      cases hk : keys[s.idx]? with
      | none =>
        simp only [Bool.false_eq_true, false_iff]
        intro ⟨h, _⟩
        have := (h s (by simp)).1
        rw [List.getElem?_eq_getElem this] at hk
        cases hk
      | some k =>
        simp only
        have hlt : s.idx < keys.length := by
          by_cases hl : s.idx < keys.length
          · exact hl
          · rw [List.getElem?_eq_none (by omega)] at hk; cases hk
        by_cases h2 : recover s.sig = some k
        · rw [if_neg (by simpa using h2), ih]
          constructor
          · intro ⟨a, b⟩
            refine ⟨?_, ⟨by omega, b⟩⟩
            intro x hx
            simp at hx
            rcases hx with rfl | hx
            · exact ⟨hlt, by rw [h2, hk]⟩
            · exact a x hx
          · intro ⟨a, b⟩
            exact ⟨fun x hx => a x (by simp [hx]), b.2⟩
        · rw [if_pos h2]
          simp only [Bool.false_eq_true, false_iff]
          intro ⟨h, _⟩
          have := (h s (by simp)).2
          rw [hk] at this
          exact h2 this
    · rw [if_pos h1]
      simp only [Bool.false_eq_true, false_iff]
      intro ⟨_, h⟩
      exact h1 (by have := h.1; omega)

private theorem sol_loop_iff (recover : Bytes → Option Addr) (keys : List Addr) :
    ∀ (sigs : List Sig) (first : Bool) (last : Nat),
      solSigLoop recover keys sigs first last = true ↔
        (∀ s ∈ sigs, SigOk recover keys s) ∧ Ascending sigs (if first then -1 else (last : Int)) := by
  intro sigs
  induction sigs with
  | nil => intro first last; simp [solSigLoop, Ascending]
  | cons s rest ih =>
    intro first last
    unfold solSigLoop
    by_cases h1 : first = true ∨ s.idx > last
    · rw [if_neg (fun hn => hn h1)]
      have hasc : (if first = true then (-1 : Int) else (last : Int)) < (s.idx : Int) := by
        rcases h1 with h | h
        · simp [h]; omega
        · split <;> omega
      cases hk : keys[s.idx]? with
      | none =>
        simp only [Bool.false_eq_true, false_iff]
        intro ⟨h, _⟩
        have := (h s (by simp)).1
        rw [List.getElem?_eq_getElem this] at hk
        cases hk
      | some k =>
        simp only
        have hlt : s.idx < keys.length := by
          by_cases hl : s.idx < keys.length
          · exact hl
          · rw [List.getElem?_eq_none (by omega)] at hk; cases hk
        by_cases h2 : recover s.sig = some k
        · rw [if_neg (by simpa using h2), ih]
          simp only [Bool.false_eq_true, if_false]
          constructor
          · intro ⟨a, b⟩
            refine ⟨?_, ⟨hasc, b⟩⟩
            intro x hx
            simp at hx
            rcases hx with rfl | hx
            · exact ⟨hlt, by rw [h2, hk]⟩
            · exact a x hx
          · intro ⟨a, b⟩
            exact ⟨fun x hx => a x (by simp [hx]), b.2⟩
        · rw [if_pos h2]
          simp only [Bool.false_eq_true, false_iff]
          intro ⟨h, _⟩
          have := (h s (by simp)).2
          rw [hk] at this
          exact h2 this
    · rw [if_pos h1]
      simp only [Bool.false_eq_true, false_iff]
      intro ⟨_, h⟩
      have hf : first = false := by
        cases first with
        | true => exact absurd (Or.inl rfl) h1
        | false => rfl
      have hle : ¬ s.idx > last := fun hh => h1 (Or.inr hh)
      have := h.1
      rw [hf] at this
      simp at this
      omega

/-- **Complete for the node ⇒ accepted by both contracts.** A signature list that the node's verification accepts for a
non-empty guardian set and that reaches the node's quorum passes the Ralph and the Solidity signature checks — for every
guardian list (repeated keys included) and every recovery oracle. -/
theorem node_complete_accepted_on_chain (recover : Bytes → Option Addr) (sigs : List Sig) (keys : List Addr)
    (hne : keys.length ≠ 0) (hv : verifySignatures recover sigs keys = true) (hq : goQuorum keys.length ≤ sigs.length) :
    ralAccepts ralQuorum recover sigs keys = true ∧ solAccepts solQuorum recover sigs keys = true := by
  have hV := (C06.verify_iff _ _ _).1 hv
  have hasc : Ascending sigs (-1) := (C06.ascending_iff _ _).2 ⟨fun s _ => by omega, hV.2.1⟩
  have hok : ∀ s ∈ sigs, SigOk recover keys s := hV.1
  rw [go_quorum_eq] at hq
  constructor
  · unfold ralAccepts
    rw [if_neg hne, if_neg (by rw [ral_quorum_eq]; omega)]
    exact (ral_loop_iff _ _ _ _).2 ⟨hok, hasc⟩
  · unfold solAccepts
    rw [if_neg hne, if_neg (by rw [sol_quorum_eq]; omega)]
    exact (sol_loop_iff _ _ _ _ _).2 ⟨hok, by simpa using hasc⟩

/-- **Accepted on chain ⇒ complete for the node** (guardian sets with distinct keys): whatever either contract accepts, the
node's verification accepts too and it reaches the node's quorum — so an incomplete VAA is not accepted on chain. -/
theorem accepted_on_chain_is_node_complete (recover : Bytes → Option Addr) (sigs : List Sig) (keys : List Addr)
    (hnd : keys.Nodup)
    (h : ralAccepts ralQuorum recover sigs keys = true ∨ solAccepts solQuorum recover sigs keys = true) :
    verifySignatures recover sigs keys = true ∧ goQuorum keys.length ≤ sigs.length ∧ keys.length ≠ 0 := by
  have key : (∀ s ∈ sigs, SigOk recover keys s) → Ascending sigs (-1) → verifySignatures recover sigs keys = true := by
    intro hok hasc
    have hp := ((C06.ascending_iff _ _).1 hasc).2
    exact (C06.verify_iff _ _ _).2 ⟨hok, hp, C06.nodup_implied _ _ _ hnd hok hp⟩
  rcases h with h | h
  · unfold ralAccepts at h
    by_cases h0 : keys.length = 0
    · rw [if_pos h0] at h; cases h
    · rw [if_neg h0] at h
      by_cases hq : ralQuorum keys.length ≤ sigs.length
      · rw [if_neg (by simpa using hq)] at h
        obtain ⟨a, b⟩ := (ral_loop_iff _ _ _ _).1 h
        exact ⟨key a b, by rw [go_quorum_eq]; rw [ral_quorum_eq] at hq; exact hq, h0⟩
      · rw [if_pos hq] at h; cases h
  · unfold solAccepts at h
    by_cases h0 : keys.length = 0
    · rw [if_pos h0] at h; cases h
    · rw [if_neg h0] at h
      by_cases hq : sigs.length < solQuorum keys.length
      · rw [if_pos hq] at h; cases h
      · rw [if_neg hq] at h
        obtain ⟨a, b⟩ := (sol_loop_iff _ _ _ _ _).1 h
        exact ⟨key a (by simpa using b), by rw [go_quorum_eq]; rw [sol_quorum_eq] at hq; omega, h0⟩

/-- The two contract loops have, in the sources, the shape the model gives them (textual facts, re-extracted every run). -/
theorem contract_loops_as_modelled : solLoopShape = true ∧ ralLoopShape = true := by decide

/-- The Solidity `quorum()` computes in full-width `uint` (no narrower parameter type or call-site cast that would make the
checked multiplication revert for large sets). -/
theorem sol_quorum_full_width : solQuorumWidth = 256 := by decide

/-! ## "for the guardian set of size n": the n is the size of the set the VAA names -/

/-- **`verifyVM`'s count guard reads the key count of the set the VAA names** - the set stored under the VAA's own
`guardianSetIndex`, not the current one (fact re-extracted on every run: every `<set>.keys.length` operand of the guard resolved
through `verifyVM`'s straight-line locals and the two `Getters.sol` getters). -/
theorem sol_guard_reads_named_set : solGuardSet = "named" := by decide

/-- **`parseAndVerifyVAA`'s `guardianSize` is the size of the set the VAA names** (`getGuardiansInfo` of bytes 1..5 of the VAA,
resolved through the function's `let`s; `getGuardiansInfo` hands out slot `i` for `guardianSetIndexes[i]`). -/
theorem ral_guard_reads_named_set : ralGuardSet = "named" := by decide

/-- … so on the contracts' stored sets - whatever the current set is, in particular after a rotation that changed the size - a
VAA is judged exactly as `solAccepts` / `ralAccepts` judge it against the set it names: the theorems above
(`node_complete_accepted_on_chain`, `accepted_on_chain_is_node_complete`) speak about what the contracts do. -/
theorem verify_on_stored_sets_judges_named_set (recover : Bytes → Option Addr) (st : ChainSets) (i : Nat) (sigs : List Sig) :
    solVerifyVM solGuardSet solQuorum recover st i sigs = solAccepts solQuorum recover sigs (st.sets i) ∧
    ralVerifyVAA ralGuardSet ralQuorum recover st i sigs = ralAccepts ralQuorum recover sigs (st.sets i) := by
  rw [sol_guard_reads_named_set, ral_guard_reads_named_set]
  exact ⟨rfl, rfl⟩

/-- Why the fact matters (the model with the guard reading the CURRENT set's size): after a rotation from four guardians to one,
a VAA naming the four-key set with ONE valid signature passes (`q 4 = 3`); after a rotation from one guardian to four, the
complete one-signature VAA naming the one-key set is refused. -/
theorem guard_on_current_set_witness :
    let rec1 : Bytes → Option Addr := fun s => match s with | [10] => some [1] | _ => none
    let shrunk : ChainSets := ⟨fun i => if i = 0 then [[1], [2], [3], [4]] else if i = 1 then [[9]] else [], 1⟩
    let grown : ChainSets := ⟨fun i => if i = 0 then [[1]] else if i = 1 then [[1], [2], [3], [4]] else [], 1⟩
    (solVerifyVM "current" solQuorum rec1 shrunk 0 [⟨0, [10]⟩] = true ∧ ralVerifyVAA "current" ralQuorum rec1 shrunk 0 [⟨0, [10]⟩] = true ∧
      [(⟨0, [10]⟩ : Sig)].length < q (shrunk.sets 0).length) ∧
    (solVerifyVM "current" solQuorum rec1 grown 0 [⟨0, [10]⟩] = false ∧ ralVerifyVAA "current" ralQuorum rec1 grown 0 [⟨0, [10]⟩] = false ∧
      verifySignatures rec1 [⟨0, [10]⟩] (grown.sets 0) = true ∧ goQuorum (grown.sets 0).length ≤ [(⟨0, [10]⟩ : Sig)].length) := by
  decide

/-- Non-vacuity of `verify_on_stored_sets_judges_named_set`: the same two states, guard on the named set - the one-signature VAA
is refused for the four-key set and accepted for the one-key set, whatever the current set. -/
example :
    let rec1 : Bytes → Option Addr := fun s => match s with | [10] => some [1] | _ => none
    let shrunk : ChainSets := ⟨fun i => if i = 0 then [[1], [2], [3], [4]] else if i = 1 then [[9]] else [], 1⟩
    let grown : ChainSets := ⟨fun i => if i = 0 then [[1]] else if i = 1 then [[1], [2], [3], [4]] else [], 1⟩
    solVerifyVM solGuardSet solQuorum rec1 shrunk 0 [⟨0, [10]⟩] = false ∧ ralVerifyVAA ralGuardSet ralQuorum rec1 shrunk 0 [⟨0, [10]⟩] = false ∧
    solVerifyVM solGuardSet solQuorum rec1 grown 0 [⟨0, [10]⟩] = true ∧ ralVerifyVAA ralGuardSet ralQuorum rec1 grown 0 [⟨0, [10]⟩] = true := by
  decide

/-- Non-vacuity: 3 of 4 guardians, signatures at indices 0, 2, 3 — complete for the node and accepted by both contracts. -/
example :
    let rec4 : Bytes → Option Addr := fun s => match s with | [10] => some [1] | [30] => some [3] | [40] => some [4] | _ => none
    verifySignatures rec4 [⟨0, [10]⟩, ⟨2, [30]⟩, ⟨3, [40]⟩] [[1], [2], [3], [4]] = true ∧
    ralAccepts ralQuorum rec4 [⟨0, [10]⟩, ⟨2, [30]⟩, ⟨3, [40]⟩] [[1], [2], [3], [4]] = true ∧
    solAccepts solQuorum rec4 [⟨0, [10]⟩, ⟨2, [30]⟩, ⟨3, [40]⟩] [[1], [2], [3], [4]] = true ∧
    ralAccepts ralQuorum rec4 [⟨0, [10]⟩, ⟨2, [30]⟩] [[1], [2], [3], [4]] = false := by decide

end Whv.C07
