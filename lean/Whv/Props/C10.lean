import Whv.Lemmas.Evm
/-!
# C10 — EVM messages reach the signer only from the core contract and when final

Model: `Whv/Model/Evm.lean` (per-head loop `classify`/`processHead` following `watcher.go` as repaired by
`fixes/C10-head-jump-and-transient-error.diff`, re-observation `messageEvents`/`reobserve` following
`by_transaction.go` + `watcher.go:225-312`, poller `pollBlocks`, `restart` = the supervisor calling `Run` again on the same
`Watcher` after it returned with an error).  Event sequences (`Ev`, `run`) are in
`Whv/Lemmas/Evm.lean`; heads in a sequence are arbitrary naturals, so every sequence theorem covers every head increment.

Node answers are inputs (`rc : tx ↦ (receipt, err)`), so "final" is relative to them, as in the statement.
`NoOverflow` excludes block heights within 315 of 2^64 (uint64 wrap-around is modelled, not assumed away).
-/
namespace Whv.C10
open Whv Whv.Evm

private def tx1 : Bytes := [0xaa, 1]
private def bh1 : Bytes := [0xbb, 1]
private def bh2 : Bytes := [0xbb, 2]
private def cfgBsc : Cfg := { contract := [0xc0], chainId := 4, dev := false, wait := true }
private def cfgEth : Cfg := { contract := [0xc0], chainId := 2, dev := false, wait := false }
private def ev1 : Event := { sender := [7], targetChain := 0, seq := 5, nonce := 9, payload := [1, 2], cl := 2, rawTx := tx1, rawBh := bh1, rawBn := 101 }
private def p1 : Pend := mkPend cfgBsc ev1 1700000000
private def good1 : Bytes → RcAns := fun _ => goodRc p1
private def topic1 : Bytes := [0xcd]
private def log1 : ChainLog := { addr := [0xc0], topics := [topic1, [7]], ev := ev1, bt := 1700000000 }

example : NoOverflow cfgBsc p1 ∧ UniqueKeys [p1] := by unfold NoOverflow UniqueKeys; decide

/-! ## Safety of the primary path -/

/-- **Forwarded ⇒ final.** Whatever one processed head hands to the signing pipeline was pending, its receipt lookup
succeeded with status 1 and the block hash the log was seen in *at that moment*, and `height + conf ≤ head`. -/
theorem c10_forwarded (cfg : Cfg) (safe : Bool) (H : Nat) (rc : Bytes → RcAns) (s : List Pend) (q : Pend)
    (hq : q ∈ (processHead cfg safe H rc s).forwarded) (hno : NoOverflow cfg q) :
    q ∈ s ∧ rc q.msg.tx = goodRc q ∧ q.height + expConf cfg safe q ≤ H % U64 ∧ q.height + expConf cfg safe q ≤ H := by
  unfold processHead processHeadWith at hq
  simp only [List.mem_filter, decide_eq_true_eq] at hq
  obtain ⟨hs, hc⟩ := hq
  have hcases := classify_cases cfg safe (H % U64) (rc q.msg.tx) q hno
  generalize rc q.msg.tx = a at hc hcases ⊢
  rcases hcases with ⟨h, _⟩ | ⟨hr, h⟩
  · rw [hc] at h; cases h
  · rcases h with ⟨h, _⟩ | ⟨h, _⟩ | ⟨h, _⟩ | ⟨r, htx, herr, h⟩
    · rw [hc] at h; cases h
    · rw [hc] at h; cases h
    · rw [hc] at h; cases h
    · rcases h with ⟨h, _⟩ | ⟨h, _⟩ | ⟨_, h1, h2⟩
      · rw [hc] at h; cases h
      · rw [hc] at h; cases h
      · refine ⟨hs, ?_, hr, Nat.le_trans hr (Nat.mod_le _ _)⟩
        obtain ⟨tx, err⟩ := a
        obtain ⟨st, bh⟩ := r
        simp only at htx herr h1 h2
        subst htx herr h1 h2
        rfl

example : p1 ∈ (processHead cfgBsc false 171 good1 [p1]).forwarded := by decide

/-- **Confirmation rule.** The required depth is the message's consistency level iff the watcher honours consistency
levels and the head is not a "safe" head; otherwise zero. -/
theorem c10_conf_rule (cfg : Cfg) (safe : Bool) (p : Pend) :
    expConf cfg safe p = if cfg.wait = true ∧ safe = false then p.msg.cl else 0 := by
  unfold expConf
  cases cfg.wait <;> cases safe <;> simp

example : expConf cfgBsc false p1 = 2 ∧ expConf cfgBsc true p1 = 0 ∧ expConf cfgEth false p1 = 0 := by decide

/-- **Dropped.** At a head that has reached the message's depth, a transaction that is not found (orphaned), failed, or
sits in another block (re-mined) is removed from pending and not forwarded. -/
theorem c10_dropped (cfg : Cfg) (safe : Bool) (H : Nat) (rc : Bytes → RcAns) (s : List Pend) (p : Pend)
    (hno : NoOverflow cfg p) (hready : p.height + expConf cfg safe p ≤ H % U64)
    (hbad : ((rc p.msg.tx).tx = none ∧ (rc p.msg.tx).err = .none) ∨ (rc p.msg.tx).err = .noResult ∨ (rc p.msg.tx).err = .notFound ∨
            (∃ r, (rc p.msg.tx).tx = some r ∧ (rc p.msg.tx).err = .none ∧ (r.status ≠ 1 ∨ r.bh ≠ p.key.bh))) :
    p ∉ (processHead cfg safe H rc s).pending ∧ p ∉ (processHead cfg safe H rc s).forwarded := by
  have hcases := classify_cases cfg safe (H % U64) (rc p.msg.tx) p hno
  unfold processHead processHeadWith
  simp only [List.mem_filter, decide_eq_true_eq, not_and]
  generalize rc p.msg.tx = a at hbad hcases ⊢
  have key : classify cfg safe (H % U64) a p = .orphaned ∨ classify cfg safe (H % U64) a p = .failed ∨
      classify cfg safe (H % U64) a p = .mismatch := by
    rcases hcases with ⟨_, h⟩ | ⟨_, h⟩
    · exact absurd hready h
    · rcases h with ⟨h, _⟩ | ⟨_, he, _⟩ | ⟨_, he, _⟩ | ⟨r, htx, herr, h⟩
      · exact Or.inl h
      · rcases hbad with ⟨_, h⟩ | h | h | ⟨_, _, h, _⟩ <;> rw [he] at h <;> cases h
      · rcases hbad with ⟨_, h⟩ | h | h | ⟨_, _, h, _⟩ <;> rw [he] at h <;> cases h
      · rcases h with ⟨h, _⟩ | ⟨h, _⟩ | ⟨_, h1, h2⟩
        · exact Or.inr (Or.inl h)
        · exact Or.inr (Or.inr h)
        · rcases hbad with ⟨h, _⟩ | h | h | ⟨r', htx', _, h⟩
          · rw [htx] at h; cases h
          · rw [herr] at h; cases h
          · rw [herr] at h; cases h
          · rw [htx] at htx'; cases htx'
            rcases h with h | h
            · exact absurd h1 h
            · exact absurd h2 h
  constructor
  · intro _ hk
    rcases key with k | k | k <;> rw [k] at hk <;> cases hk
  · intro _ hk
    rcases key with k | k | k <;> rw [k] at hk <;> cases hk

example : (processHead cfgBsc false 110 (fun _ => ⟨some ⟨1, bh2⟩, .none⟩) [p1]).pending = [] ∧
          (processHead cfgBsc false 110 (fun _ => ⟨some ⟨1, bh2⟩, .none⟩) [p1]).forwarded = [] := by decide

/-- **Nothing leaves the pending set without cause.** An entry that one processed head removes had reached its depth, and
was either forwarded, or the node answered conclusively against it (not found / failed / another block), or the lookup failed
transiently at a head beyond the abandonment window. -/
theorem c10_removed_only_for_cause (cfg : Cfg) (safe : Bool) (H : Nat) (rc : Bytes → RcAns) (s : List Pend) (p : Pend)
    (hp : p ∈ s) (hno : NoOverflow cfg p) (hgone : p ∉ (processHead cfg safe H rc s).pending) :
    p.height + expConf cfg safe p ≤ H % U64 ∧
    (p ∈ (processHead cfg safe H rc s).forwarded ∨
     (((rc p.msg.tx).tx = none ∧ (rc p.msg.tx).err = .none) ∨ (rc p.msg.tx).err = .noResult ∨ (rc p.msg.tx).err = .notFound) ∨
     (∃ r, (rc p.msg.tx).tx = some r ∧ (rc p.msg.tx).err = .none ∧ (r.status ≠ 1 ∨ r.bh ≠ p.key.bh)) ∨
     ((rc p.msg.tx).err = .other ∧ p.height + expConf cfg safe p + cfg.maxWait ≤ H % U64)) := by
  unfold processHead processHeadWith at hgone ⊢
  simp only [List.mem_filter, decide_eq_true_eq, not_and] at hgone ⊢
  have hk := hgone hp
  rcases classify_cases cfg safe (H % U64) (rc p.msg.tx) p hno with ⟨h, _⟩ | ⟨hr, h⟩
  · rw [h] at hk; exact absurd rfl hk
  · refine ⟨hr, ?_⟩
    rcases h with ⟨_, h⟩ | ⟨_, h1, h2⟩ | ⟨h, _⟩ | ⟨r, htx, herr, h⟩
    · exact Or.inr (Or.inl h)
    · exact Or.inr (Or.inr (Or.inr ⟨h1, h2⟩))
    · rw [h] at hk; exact absurd rfl hk
    · rcases h with ⟨_, h⟩ | ⟨_, _, h⟩ | ⟨h, _⟩
      · exact Or.inr (Or.inr (Or.inl ⟨r, htx, herr, Or.inl h⟩))
      · exact Or.inr (Or.inr (Or.inl ⟨r, htx, herr, Or.inr h⟩))
      · exact Or.inl ⟨hp, h⟩

example : p1 ∉ (processHead cfgBsc false 163 (fun _ => ⟨none, .other⟩) [p1]).pending ∧
          p1 ∈ (processHead cfgBsc false 162 (fun _ => ⟨none, .other⟩) [p1]).pending := by decide

/-- **Only observed messages of the core contract.** Anything ever forwarded in a run was either pending at the start or
is exactly the message built from a chain log that the node delivered under the watcher's subscription filter: emitted by the
configured contract with the message-published topic. -/
theorem c10_only_from_core_contract (cfg : Cfg) (topic : Bytes) (evs : List Ev) :
    ∀ s : List Pend, ∀ f ∈ (run cfg topic s evs).2, ∀ q ∈ f,
      q ∈ s ∨ ∃ l, Ev.log l ∈ evs ∧ l.addr = cfg.contract ∧ l.topics.head? = some topic ∧ q = mkPend cfg l.ev l.bt := by
  induction evs with
  | nil => intro s f hf; simp [run] at hf
  | cons e es ih =>
    intro s f hf q hq
    unfold run at hf
    simp only [List.mem_cons] at hf
    have back : ∀ q, q ∈ (stepEv cfg topic s e).1 →
        q ∈ s ∨ ∃ l, Ev.log l ∈ e :: es ∧ l.addr = cfg.contract ∧ l.topics.head? = some topic ∧ q = mkPend cfg l.ev l.bt := by
      intro q hq
      rcases mem_stepEv cfg topic s e q hq with h | ⟨l, he, hm, hql⟩
      · exact Or.inl h
      · right
        refine ⟨l, by simp [he], ?_, ?_, hql⟩
        · unfold nodeMatches at hm; simp at hm; exact hm.1
        · unfold nodeMatches at hm; simp at hm; exact hm.2
    rcases hf with hf | hf
    · subst hf
      exact Or.inl (fwd_stepEv cfg topic s e q hq).1
    · rcases ih _ f hf q hq with h | ⟨l, hl, h1, h2, h3⟩
      · exact back q h
      · exact Or.inr ⟨l, by simp [hl], h1, h2, h3⟩

example : (run cfgBsc topic1 [] [.log log1, .head 103 false good1]).2 = [[], [p1]] := by decide

/-! ## Exactly once, for every head increment -/

private theorem filter_key_eq {s : List Pend} (h : UniqueKeys s) {p : Pend} (hp : p ∈ s) :
    s.filter (fun q => q.key = p.key) = [p] := by
  induction s with
  | nil => cases hp
  | cons a t ih =>
    have h' := h
    unfold UniqueKeys at h'
    simp only [List.map_cons, List.nodup_cons] at h'
    simp only [List.mem_cons] at hp
    by_cases hap : a = p
    · subst hap
      have : t.filter (fun q => q.key = a.key) = [] := by
        rw [List.filter_eq_nil_iff]
        intro q hq
        have : q.key ≠ a.key := fun hk => h'.1 (List.mem_map.2 ⟨q, hq, hk⟩)
        simp [this]
      simp [this]
    · have hpt : p ∈ t := by
        rcases hp with hp | hp
        · exact absurd hp.symm hap
        · exact hp
      have hk : a.key ≠ p.key := fun hk => h'.1 (by rw [hk]; exact List.mem_map.2 ⟨p, hpt, rfl⟩)
      simp only [List.filter_cons, hk, decide_false]
      exact ih h'.2 hpt

private theorem count_key_filter {s : List Pend} (h : UniqueKeys s) {p : Pend} (hp : p ∈ s) (f : Pend → Bool) :
    ((s.filter f).filter (fun q => q.key = p.key)).length = if f p then 1 else 0 := by
  have : (s.filter f).filter (fun q => q.key = p.key) = (s.filter (fun q => q.key = p.key)).filter f := by
    rw [List.filter_filter, List.filter_filter]
    congr 1
    funext q
    exact Bool.and_comm _ _
  rw [this, filter_key_eq h hp]
  cases hf : f p <;> simp [hf]

/-- **Exactly once.** Let `p` be pending, let its key not be delivered again, and let every processed head find a
successful receipt pointing at `p`'s block. Then over *any* sequence of events — heads may advance by any amount — `p` is
forwarded exactly once if some processed head reaches `height + conf`, never otherwise, and it stays pending exactly as
long as no such head has been processed. -/
theorem c10_exactly_once (cfg : Cfg) (topic : Bytes) (evs : List Ev) :
    ∀ (s : List Pend) (p : Pend), UniqueKeys s → p ∈ s → NoOverflow cfg p → (∀ e ∈ evs, Stable cfg topic p e) →
      fwdCount p.key (run cfg topic s evs).2 = (if evs.any (readyAt cfg p) then 1 else 0) ∧
      (p ∈ (run cfg topic s evs).1 ↔ evs.any (readyAt cfg p) = false) := by
  induction evs with
  | nil => intro s p _ hp _ _; simp [run, fwdCount, hp]
  | cons e es ih =>
    intro s p hu hp hno hst
    have hst' : ∀ e' ∈ es, Stable cfg topic p e' := fun e' he' => hst e' (by simp [he'])
    have hse := hst e (by simp)
    unfold run
    rw [fwdCount_cons]
    cases e with
    | log l =>
      have hready : readyAt cfg p (.log l) = false := rfl
      simp only [List.any_cons, hready, Bool.false_or]
      by_cases hm : nodeMatches cfg topic l = true
      · have hk := hse hm
        rw [stepEv_log_match cfg topic s l hm]
        obtain ⟨h1, h2⟩ := ih _ p (uniqueKeys_insert _ hu) (mem_insert_of_ne hk hp) hno hst'
        simp only [List.filter_nil, List.length_nil, Nat.zero_add]
        exact ⟨h1, h2⟩
      · rw [stepEv_log_nomatch cfg topic s l hm]
        obtain ⟨h1, h2⟩ := ih _ p hu hp hno hst'
        simp only [List.filter_nil, List.length_nil, Nat.zero_add]
        exact ⟨h1, h2⟩
    | head H safe rc =>
      have hrc : rc p.msg.tx = goodRc p := hse
      rw [stepEv_head]
      simp only
      rw [count_key_filter hu hp]
      by_cases hr : p.height + expConf cfg safe p ≤ H % U64
      · -- first head at or beyond the depth: forwarded now, gone afterwards
        have hc : classify cfg safe (H % U64) (rc p.msg.tx) p = .confirmed := by rw [hrc]; exact classify_good cfg safe _ p hno hr
        have hready : readyAt cfg p (.head H safe rc) = true := by simp [readyAt, hr]
        have habs : ∀ q ∈ s.filter (fun p => (classify cfg safe (H % U64) (rc p.msg.tx) p).keeps), q.key ≠ p.key := by
          intro q hq hk
          rw [List.mem_filter] at hq
          have := eq_of_key_eq hu hp hq.1 hk
          subst this
          rw [hc] at hq
          exact absurd hq.2 (by decide)
        obtain ⟨h1, h2⟩ := absent_run cfg topic p.key es _ habs (by
          intro e' he' l hl hm
          have := hst' e' he'
          subst hl
          exact this hm)
        simp only [List.any_cons, hready, Bool.true_or, if_true, hc, decide_true]
        refine ⟨by omega, ?_⟩
        constructor
        · intro hin; exact absurd rfl (h2 p hin)
        · intro hf; cases hf
      · -- not deep enough yet: stays pending, not forwarded
        have hc : classify cfg safe (H % U64) (rc p.msg.tx) p = .wait := classify_not_ready cfg safe _ _ p hno hr
        have hready : readyAt cfg p (.head H safe rc) = false := by simp [readyAt, hr]
        have hp' : p ∈ s.filter (fun p => (classify cfg safe (H % U64) (rc p.msg.tx) p).keeps) := by
          rw [List.mem_filter]; exact ⟨hp, by rw [hc]; rfl⟩
        obtain ⟨h1, h2⟩ := ih _ p (uniqueKeys_filter _ hu) hp' hno hst'
        simp only [List.any_cons, hready, Bool.false_or, hc]
        refine ⟨by simp [h1], h2⟩

example : fwdCount p1.key (run cfgBsc topic1 [p1] [.head 102 false good1, .head 171 false good1, .head 172 false good1]).2 = 1 := by decide

/-- **At the first head that is deep enough, whatever the increment.** If no earlier processed head had reached the depth and
the head processed now has — by one block or by ten thousand — the message is forwarded at this very event. -/
theorem c10_forwarded_at_first_ready (cfg : Cfg) (topic : Bytes) (s : List Pend) (p : Pend) (pre : List Ev)
    (H : Nat) (safe : Bool) (rc : Bytes → RcAns)
    (hu : UniqueKeys s) (hp : p ∈ s) (hno : NoOverflow cfg p) (hst : ∀ e ∈ pre, Stable cfg topic p e)
    (hpre : pre.any (readyAt cfg p) = false) (hrc : rc p.msg.tx = goodRc p)
    (hready : p.height + expConf cfg safe p ≤ H % U64) :
    p ∈ (stepEv cfg topic (run cfg topic s pre).1 (.head H safe rc)).2 := by
  have hin := ((c10_exactly_once cfg topic pre s p hu hp hno hst).2).2 hpre
  rw [stepEv_head]
  simp only [List.mem_filter, decide_eq_true_eq]
  exact ⟨hin, by rw [hrc]; exact classify_good cfg safe _ p hno hready⟩

example : p1 ∈ (stepEv cfgBsc topic1 (run cfgBsc topic1 [p1] [.head 102 false good1]).1 (.head 100000 false good1)).2 := by decide

/-- **Every head increment**, spelled out for one step: a pending message whose receipt is fine is forwarded by a head that
is `d` blocks beyond its depth, for every `d` (in particular `d ≥ 60`, where the pinned code abandoned it). -/
theorem c10_any_head_increment (cfg : Cfg) (safe : Bool) (rc : Bytes → RcAns) (s : List Pend) (p : Pend) (d : Nat)
    (hp : p ∈ s) (hno : NoOverflow cfg p) (hrc : rc p.msg.tx = goodRc p)
    (hH : p.height + expConf cfg safe p + d < U64) :
    p ∈ (processHead cfg safe (p.height + expConf cfg safe p + d) rc s).forwarded := by
  unfold processHead processHeadWith
  simp only [List.mem_filter, decide_eq_true_eq]
  refine ⟨hp, ?_⟩
  rw [hrc, Nat.mod_eq_of_lt hH]
  exact classify_good cfg safe _ p hno (by omega)

example : p1 ∈ (processHead cfgBsc false (101 + 2 + 68) good1 [p1]).forwarded := by decide

/-- The loop body of the pinned tree (`classifyOrig`: timeout test first) violates the previous theorem: log at block 101,
consistency level 2, head 171, receipt fine — discarded as timed out, nothing forwarded. This is the input the check reports
on the unrepaired tree (clause `final-not-forwarded`). -/
theorem c10_orig_head_jump_witness :
    ¬ (∀ d, p1 ∈ (processHeadWith classifyOrig cfgBsc false (p1.height + expConf cfgBsc false p1 + d) good1 [p1]).forwarded) := by
  intro h
  exact absurd (h 68) (by decide)

/-- The pinned loop body also abandons a message on the first transient RPC error (`tx == nil` is classified as orphaned):
a lookup that failed with an unrelated error at the first ready head removes the message (clause `transient-error-dropped`). -/
theorem c10_orig_transient_witness :
    (processHeadWith classifyOrig cfgBsc false 103 (fun _ => ⟨none, .other⟩) [p1]).pending = [] ∧
    (processHead cfgBsc false 103 (fun _ => ⟨none, .other⟩) [p1]).pending = [p1] := by decide

/-! ## Abandonment -/

private theorem survives (cfg : Cfg) (topic : Bytes) (p : Pend) (evs : List Ev) :
    ∀ s : List Pend, (∀ e ∈ evs, NoRelog cfg topic p e) → p ∈ (run cfg topic s evs).1 →
      p ∈ s ∧ ∀ e ∈ evs, ∀ H safe rc, e = .head H safe rc → (classify cfg safe (H % U64) (rc p.msg.tx) p).keeps = true := by
  induction evs with
  | nil => intro s _ hp; exact ⟨hp, by simp⟩
  | cons e es ih =>
    intro s hnr hp
    unfold run at hp
    obtain ⟨h1, h2⟩ := ih _ (fun e' he' => hnr e' (by simp [he'])) hp
    have hps : p ∈ s := by
      rcases mem_stepEv cfg topic s e p h1 with h | ⟨l, he, hm, hq⟩
      · exact h
      · have := hnr e (by simp)
        subst he
        exact absurd (by rw [← hq]) (this hm)
    refine ⟨hps, ?_⟩
    intro e' he' H safe rc heq
    simp only [List.mem_cons] at he'
    rcases he' with he' | he'
    · subst he' heq
      rw [stepEv_head] at h1
      exact (List.mem_filter.1 h1).2
    · exact h2 e' he' H safe rc heq

/-- **Abandoned only after the whole window.** If a message that survived a sequence of events is removed as "timed out" at
head `H`, then `H` is at least `height + conf + 60`, the receipt lookup made at `H` failed with a transient error, and at
every earlier processed head that had reached its depth the lookup had also failed with a transient error (no head of the
window was processed with a conclusive answer): the node failed to confirm it for the whole abandonment window. -/
theorem c10_abandon_only_after_window (cfg : Cfg) (topic : Bytes) (s : List Pend) (p : Pend) (evs : List Ev)
    (H : Nat) (safe : Bool) (rc : Bytes → RcAns)
    (hno : NoOverflow cfg p) (hnr : ∀ e ∈ evs, NoRelog cfg topic p e) (hp : p ∈ (run cfg topic s evs).1)
    (hto : classify cfg safe (H % U64) (rc p.msg.tx) p = .timeout) :
    p.height + expConf cfg safe p + cfg.maxWait ≤ H % U64 ∧ (rc p.msg.tx).err = .other ∧
    ∀ e ∈ evs, ∀ H' safe' rc', e = .head H' safe' rc' → p.height + expConf cfg safe' p ≤ H' % U64 →
      (rc' p.msg.tx).err = .other ∧ H' % U64 < p.height + expConf cfg safe' p + cfg.maxWait := by
  have hsurv := (survives cfg topic p evs s hnr hp).2
  refine ⟨?_, ?_, ?_⟩
  · rcases classify_cases cfg safe (H % U64) (rc p.msg.tx) p hno with ⟨h, _⟩ | ⟨_, h⟩
    · rw [hto] at h; cases h
    · rcases h with ⟨h, _⟩ | ⟨_, _, h⟩ | ⟨h, _⟩ | ⟨_, _, _, h⟩
      · rw [hto] at h; cases h
      · exact h
      · rw [hto] at h; cases h
      · rcases h with ⟨h, _⟩ | ⟨h, _⟩ | ⟨h, _⟩ <;> rw [hto] at h <;> cases h
  · rcases classify_cases cfg safe (H % U64) (rc p.msg.tx) p hno with ⟨h, _⟩ | ⟨_, h⟩
    · rw [hto] at h; cases h
    · rcases h with ⟨h, _⟩ | ⟨_, h, _⟩ | ⟨h, _⟩ | ⟨_, _, _, h⟩
      · rw [hto] at h; cases h
      · exact h
      · rw [hto] at h; cases h
      · rcases h with ⟨h, _⟩ | ⟨h, _⟩ | ⟨h, _⟩ <;> rw [hto] at h <;> cases h
  · intro e he H' safe' rc' heq hready
    have hk := hsurv e he H' safe' rc' heq
    rcases classify_cases cfg safe' (H' % U64) (rc' p.msg.tx) p hno with ⟨_, h⟩ | ⟨_, h⟩
    · exact absurd hready h
    · rcases h with ⟨h, _⟩ | ⟨h, _⟩ | ⟨_, h1, h2⟩ | ⟨_, _, _, h⟩
      · rw [h] at hk; cases hk
      · rw [h] at hk; cases hk
      · exact ⟨h1, by omega⟩
      · rcases h with ⟨h, _⟩ | ⟨h, _⟩ | ⟨h, _⟩ <;> rw [h] at hk <;> cases hk

private def flaky : Bytes → RcAns := fun _ => ⟨none, .other⟩

example : p1 ∈ (run cfgBsc topic1 [p1] [.head 103 false flaky, .head 162 false flaky]).1 ∧
          classify cfgBsc false (163 % U64) (flaky p1.msg.tx) p1 = .timeout := by decide

/-! ## Re-observation path -/

private theorem evtLoop_sound (contract topic : Bytes) (chainId t : Nat) (logs : List (Option RLog)) :
    ∀ (acc msgs : List Msg), evtLoop contract topic chainId t logs acc = .ok msgs →
      ∀ m ∈ msgs, m ∈ acc ∨ ∃ l ev, some l ∈ logs ∧ l.addr = contract ∧ l.topics.head? = some topic ∧
        l.parse = some ev ∧ m = mkMsg chainId ev t := by
  induction logs with
  | nil =>
    intro acc msgs h m hm
    simp only [evtLoop, LoopRes.ok.injEq] at h
    subst h
    exact Or.inl (List.mem_reverse.1 hm)
  | cons x rest ih =>
    intro acc msgs h m hm
    have lift : (m ∈ acc ∨ ∃ l ev, some l ∈ rest ∧ l.addr = contract ∧ l.topics.head? = some topic ∧ l.parse = some ev ∧ m = mkMsg chainId ev t) →
        (m ∈ acc ∨ ∃ l ev, some l ∈ x :: rest ∧ l.addr = contract ∧ l.topics.head? = some topic ∧ l.parse = some ev ∧ m = mkMsg chainId ev t) := by
      rintro (h | ⟨l, ev, h1, h2⟩)
      · exact Or.inl h
      · exact Or.inr ⟨l, ev, by simp [h1], h2⟩
    cases x with
    | none =>
      simp only [evtLoop] at h
      exact lift (ih acc msgs h m hm)
    | some l =>
      simp only [evtLoop] at h
      split at h
      · exact lift (ih acc msgs h m hm)
      · rename_i haddr
        split at h
        · cases h
        · rename_i t0 ts htop
          split at h
          · exact lift (ih acc msgs h m hm)
          · rename_i ht0
            split at h
            · cases h
            · rename_i ev hparse
              rcases ih _ msgs h m hm with h' | h'
              · simp only [List.mem_cons] at h'
                rcases h' with h' | h'
                · right
                  refine ⟨l, ev, by simp, ?_, ?_, hparse, h'⟩
                  · simpa using haddr
                  · rw [htop]; simp; simpa using ht0
                · exact Or.inl h'
              · exact lift (Or.inr h')

/-- **The re-observation path applies the contract, topic, status and depth checks.** Every message it forwards comes from a
log of the receipt it was given that was emitted by the configured contract with the message-published topic, in a
transaction whose receipt has status 1, and `block number + conf ≤` the block number that was read *before* the receipt was
requested (`conf` = the message's consistency level iff `waitForConfirmations`), which was not 0. -/
theorem c10_reobserve_checks (cfg : Cfg) (topic : Bytes) (bnAns : Option Nat) (rc : Option Receipt) (rcErr : Bool)
    (bt : Option Nat) (m : Msg)
    (hm : m ∈ reobsForwarded cfg bnAns (messageEvents cfg.contract topic cfg.chainId rc rcErr bt)) :
    ∃ r t n bn l ev, rc = some r ∧ rcErr = false ∧ r.status = 1 ∧ bt = some t ∧ bnAns = some n ∧ r.bn = some bn ∧
      some l ∈ r.logs ∧ l.addr = cfg.contract ∧ l.topics.head? = some topic ∧ l.parse = some ev ∧
      m = mkMsg cfg.chainId ev t ∧ n % U64 ≠ 0 ∧
      add64 (bn % U64) (if cfg.wait then m.cl else 0) ≤ n % U64 := by
  unfold reobsForwarded reobserve at hm
  cases bnAns with
  | none => simp at hm
  | some n =>
    simp only at hm
    unfold messageEvents at hm
    cases rcErr with
    | true => simp at hm
    | false =>
      cases rc with
      | none => simp at hm
      | some r =>
        simp only [Bool.false_eq_true, if_false] at hm
        by_cases hst : r.status = 1
        · simp only [hst, ne_eq, not_true_eq_false, if_false] at hm
          cases bt with
          | none => simp at hm
          | some t =>
            simp only at hm
            cases hloop : evtLoop cfg.contract topic cfg.chainId t r.logs [] with
            | panic => rw [hloop] at hm; simp at hm
            | parseErr => rw [hloop] at hm; simp at hm
            | ok msgs =>
              rw [hloop] at hm
              cases hbn : r.bn with
              | none => rw [hbn] at hm; simp at hm
              | some bn =>
                rw [hbn] at hm
                simp only [List.mem_map, List.mem_filter, decide_eq_true_eq] at hm
                obtain ⟨⟨m', d⟩, ⟨hmem, hd⟩, hmm⟩ := hm
                simp only at hd hmm
                subst hmm
                obtain ⟨m'', hm'', heq⟩ := hmem
                simp only [Prod.mk.injEq] at heq
                obtain ⟨h1, h2⟩ := heq
                subst h1
                rw [hd] at h2
                unfold reobsDecide at h2
                rcases evtLoop_sound cfg.contract topic cfg.chainId t r.logs [] msgs hloop m'' hm'' with h | ⟨l, ev, hl, ha, htp, hp, hmk⟩
                · cases h
                · refine ⟨r, t, n, bn, l, ev, rfl, rfl, hst, rfl, rfl, hbn, hl, ha, htp, hp, hmk, ?_, ?_⟩
                  · intro hz; simp [hz] at h2
                  · by_cases hz : n % U64 = 0
                    · simp [hz] at h2
                    · by_cases hle : add64 (bn % U64) (if cfg.wait then m''.cl else 0) ≤ n % U64
                      · exact hle
                      · simp [hz, hle] at h2
        · simp [hst] at hm

private def rlog1 : RLog := { addr := [0xc0], topics := [topic1, [7]], parse := some ev1 }
private def rlogForeign : RLog := { addr := [0xc1], topics := [topic1, [7]], parse := some ev1 }
private def receipt1 : Receipt := { status := 1, bh := bh1, bn := some 101, logs := [some rlogForeign, none, some rlog1] }

example : reobsForwarded cfgBsc (some 103) (messageEvents cfgBsc.contract topic1 cfgBsc.chainId (some receipt1) false (some 1700000000))
    = [mkMsg 4 ev1 1700000000] := by decide
example : reobsForwarded cfgBsc (some 102) (messageEvents cfgBsc.contract topic1 cfgBsc.chainId (some receipt1) false (some 1700000000)) = [] := by decide

/-- **A re-observed message carries the time of the block its receipt points to in THIS request.** `bt` is what the node answers
for `receipt.BlockHash` during the request; nothing resolved by an earlier request (for the same transaction, the same height, the
same anything) enters.  So after a reorg that re-mines the transaction at the same height in a block with another time, the
message handed over has the new block's time — the one every other guardian signs. -/
theorem c10_reobserved_timestamp_is_block_time (cfg : Cfg) (topic : Bytes) (bnAns : Option Nat) (rc : Option Receipt)
    (rcErr : Bool) (bt : Option Nat) (m : Msg)
    (hm : m ∈ reobsForwarded cfg bnAns (messageEvents cfg.contract topic cfg.chainId rc rcErr bt)) : bt = some m.ts := by
  obtain ⟨r, t, n, bn, l, ev, _, _, _, hbt, _, _, _, _, _, _, hmk, _, _⟩ := c10_reobserve_checks cfg topic bnAns rc rcErr bt m hm
  rw [hbt, hmk]; rfl

-- the same transaction at the same height in two blocks (other hash, other time): each request yields its own block's time
example : (reobsForwarded cfgBsc (some 103) (messageEvents cfgBsc.contract topic1 cfgBsc.chainId (some receipt1) false (some 1700000000))).map (·.ts) = [1700000000] ∧
    (reobsForwarded cfgBsc (some 103) (messageEvents cfgBsc.contract topic1 cfgBsc.chainId (some { receipt1 with bh := [0xb2] }) false (some 1700000012))).map (·.ts) = [1700000012] := by
  decide

private theorem evtLoop_no_panic (contract topic : Bytes) (chainId t : Nat) (logs : List (Option RLog))
    (h : ∀ l, some l ∈ logs → l.addr = contract → l.topics ≠ []) :
    ∀ acc, evtLoop contract topic chainId t logs acc ≠ .panic := by
  induction logs with
  | nil => intro acc; simp [evtLoop]
  | cons x rest ih =>
    have h' : ∀ l, some l ∈ rest → l.addr = contract → l.topics ≠ [] := fun l hl => h l (by simp [hl])
    intro acc
    cases x with
    | none => simp only [evtLoop]; exact ih h' acc
    | some l =>
      simp only [evtLoop]
      split
      · exact ih h' acc
      · rename_i haddr
        split
        · rename_i htop
          exact absurd htop (h l (by simp) (by simpa using haddr))
        · split
          · exact ih h' acc
          · split
            · simp
            · exact ih h' _

/-- **Where `MessageEventsForTransaction` can panic.** With a non-nil receipt that carries a block number, and no topic-less
log at the core contract's address, it does not panic — whatever else the node answers. (The three excluded shapes do
panic: `EvtRes.panic`, confirmed against the implementation on the direct layer; none arises with a standard node.) -/
theorem c10_reobserve_no_panic (contract topic : Bytes) (chainId : Nat) (r : Receipt) (rcErr : Bool) (bt : Option Nat)
    (hlogs : ∀ l, some l ∈ r.logs → l.addr = contract → l.topics ≠ []) (hbn : r.bn ≠ none) :
    messageEvents contract topic chainId (some r) rcErr bt ≠ .panic := by
  unfold messageEvents
  cases rcErr with
  | true => simp
  | false =>
    simp only [Bool.false_eq_true, if_false]
    split
    · simp
    · cases bt with
      | none => simp
      | some t =>
        simp only
        have := evtLoop_no_panic contract topic chainId t r.logs hlogs []
        cases hl : evtLoop contract topic chainId t r.logs [] with
        | panic => exact absurd hl this
        | parseErr => simp
        | ok msgs =>
          simp only
          cases hb : r.bn with
          | none => exact absurd hb hbn
          | some bn => simp

example : messageEvents [0xc0] topic1 4 (some { receipt1 with logs := [some { rlog1 with topics := [] }] }) false (some 1) = .panic := by decide

/-! ## Poller: which heads the watcher gets to see -/

/-- **The poller publishes only a strictly newer head, and only the newest one** — which is why the per-head loop has to be
correct for every increment. `settle` processes a head only when the poller is enabled and the head is above the last one. -/
theorem c10_poller_newest_only (last : Nat) (ans : BlockAns) (safe : Bool) :
    (∀ n s, (pollBlocks last ans safe).2.1 = some (n, s) → ans = .ok n ∧ last < n ∧ (pollBlocks last ans safe).1 = n ∧ s = safe) ∧
    ((pollBlocks last ans safe).2.1 = none → (pollBlocks last ans safe).1 = last) := by
  unfold pollBlocks getBlock
  cases ans with
  | ok n =>
    simp only
    by_cases h : last ≥ n
    · simp [h]
    · simp only [h, if_false]
      refine ⟨?_, by simp⟩
      intro n' s' heq
      simp only [Option.some.injEq, Prod.mk.injEq] at heq
      obtain ⟨h1, h2⟩ := heq
      subst h1 h2
      refine ⟨?_, ?_, ?_, ?_⟩ <;> first | rfl | omega | trivial
  | noNum => simp
  | err => simp

example : pollBlocks 101 (.ok 171) false = (171, some (171, false), false) ∧ pollBlocks 171 (.ok 171) false = (171, none, false) := by decide

theorem c10_settle_head_seen (cfg : Cfg) (st : St) (W : Nat) (rc : Bytes → RcAns) (r : HeadRes)
    (h : (settle cfg st W rc).2 = some r) :
    st.enabled = true ∧ st.last < W ∧ (settle cfg st W rc).1.last = W ∧
    r.forwarded = (processHead cfg false W rc st.pending).forwarded := by
  unfold settle settleWith at h ⊢
  by_cases hc : (st.enabled && decide (W > st.last)) = true
  · simp only [hc, if_true] at h ⊢
    simp only [Option.some.injEq] at h
    subst h
    simp only [Bool.and_eq_true, decide_eq_true_eq] at hc
    refine ⟨hc.1, hc.2, ?_, ?_⟩ <;> first | rfl | trivial
  · simp [hc] at h

example : ((settle cfgBsc { pending := [p1], enabled := true, last := 101 } 171 good1).2.map (·.forwarded)) = some [p1] := by decide

/-- The poller is enabled whenever something is pending (so a pending message always gets the next head). -/
def PollerInv (st : St) : Prop := st.pending ≠ [] → st.enabled = true

theorem c10_poller_enabled_while_pending :
    (∀ cfg st ev bt, PollerInv (onLog cfg st ev bt)) ∧
    (∀ cfg st W rc, PollerInv st → PollerInv (settle cfg st W rc).1) := by
  constructor
  · intro cfg st ev bt _; rfl
  · intro cfg st W rc hinv
    unfold settle settleWith
    by_cases hc : (st.enabled && decide (W > st.last)) = true
    · simp only [hc, if_true]
      intro hne
      simp only at hne ⊢
      cases h : (processHeadWith classify cfg false W rc st.pending).pending with
      | nil => exact absurd h hne
      | cons a t => simp
    · simp only [hc]
      exact hinv

example : PollerInv (onLog cfgBsc { pending := [], enabled := false, last := 100 } ev1 1700000000) := fun _ => rfl

/-- **Watcher and poller together, any increment.** From a state reached by log deliveries and earlier heads (`PollerInv`), a
pending message whose receipt is fine is forwarded by the very next head the node reports above the poller's last block, if
that head is at or beyond `height + conf` — by however much. -/
theorem c10_settle_forwards (cfg : Cfg) (st : St) (W : Nat) (rc : Bytes → RcAns) (p : Pend)
    (hinv : PollerInv st) (hp : p ∈ st.pending) (hW : st.last < W) (hlt : W < U64) (hno : NoOverflow cfg p)
    (hrc : rc p.msg.tx = goodRc p) (hready : p.height + expConf cfg false p ≤ W) :
    ∃ r, (settle cfg st W rc).2 = some r ∧ p ∈ r.forwarded ∧ p ∉ (settle cfg st W rc).1.pending := by
  have hen : st.enabled = true := hinv (List.ne_nil_of_mem hp)
  unfold settle settleWith
  have hc : (st.enabled && decide (W > st.last)) = true := by simp [hen, hW]
  simp only [hc, if_true]
  refine ⟨_, rfl, ?_, ?_⟩
  · unfold processHeadWith
    simp only [List.mem_filter, decide_eq_true_eq]
    refine ⟨hp, ?_⟩
    rw [hrc, Nat.mod_eq_of_lt hlt]
    exact classify_good cfg false _ p hno hready
  · unfold processHeadWith
    simp only [List.mem_filter, not_and]
    intro _
    rw [hrc, Nat.mod_eq_of_lt hlt, classify_good cfg false _ p hno hready]
    decide

example : PollerInv { pending := [p1], enabled := true, last := 101 } ∧ (101 : Nat) < 100000 := ⟨fun _ => rfl, by decide⟩

/-! ## A log delivered while a head is being processed -/

private def ev2 : Event := { sender := [8], targetChain := 0, seq := 6, nonce := 3, payload := [4], cl := 1, rawTx := [0xaa, 2], rawBh := [0xbb, 9], rawBn := 104 }
private def p2 : Pend := mkPend cfgBsc ev2 1700000002
private def stRace : St := { pending := [p1], enabled := true, last := 101 }
private def goodAll : Bytes → RcAns := fun tx => if tx = p1.msg.tx then goodRc p1 else goodRc p2

/-- **A log that arrives during a head scan is kept.** The scan and the insertion are serialised by `pendingMu`
(`headThenLog`): the new message is pending afterwards and the poller is on, what the scan forwarded is what it would have
forwarded without the arrival, and every entry the scan kept (under another key) is still there. -/
theorem c10_log_during_head_kept (cfg : Cfg) (st : St) (W : Nat) (rc : Bytes → RcAns) (ev : Event) (bt : Nat) :
    mkPend cfg ev bt ∈ (headThenLog cfg st W rc ev bt).1.pending ∧
    (headThenLog cfg st W rc ev bt).1.enabled = true ∧
    (headThenLog cfg st W rc ev bt).2 = (settle cfg st W rc).2 ∧
    ∀ q ∈ (settle cfg st W rc).1.pending, q.key ≠ (mkPend cfg ev bt).key → q ∈ (headThenLog cfg st W rc ev bt).1.pending := by
  refine ⟨?_, rfl, rfl, ?_⟩
  · unfold headThenLog onLog
    exact mem_insertPend_self _ _
  · intro q hq hk
    unfold headThenLog onLog
    exact mem_insert_of_ne (Ne.symm hk) hq

example : (headThenLog cfgBsc stRace 103 goodAll ev2 1700000002).1.pending = [p2] ∧
          ((headThenLog cfgBsc stRace 103 goodAll ev2 1700000002).2.map (·.forwarded)) = some [p1] := by decide

/-- **... and is forwarded exactly once after its depth is reached.** After a head scan during which the log of `b` arrived,
over any further sequence of events (heads advancing by any amount) in which `b`'s key is not delivered again and every
processed head finds a successful receipt pointing at `b`'s block, `b` is forwarded exactly once if some processed head
reaches `height + conf`, and never otherwise. -/
theorem c10_log_during_head_forwarded_once (cfg : Cfg) (topic : Bytes) (st : St) (W : Nat) (rc : Bytes → RcAns) (ev : Event)
    (bt : Nat) (evs : List Ev)
    (hu : UniqueKeys st.pending) (hno : NoOverflow cfg (mkPend cfg ev bt))
    (hst : ∀ e ∈ evs, Stable cfg topic (mkPend cfg ev bt) e) :
    fwdCount (mkPend cfg ev bt).key (run cfg topic (headThenLog cfg st W rc ev bt).1.pending evs).2 =
      (if evs.any (readyAt cfg (mkPend cfg ev bt)) then 1 else 0) := by
  have hu' : UniqueKeys (headThenLog cfg st W rc ev bt).1.pending := by
    unfold headThenLog onLog
    exact uniqueKeys_insert _ (uniqueKeys_settle cfg st W rc hu)
  exact (c10_exactly_once cfg topic evs _ _ hu' (c10_log_during_head_kept cfg st W rc ev bt).1 hno hst).1

example : fwdCount p2.key (run cfgBsc topic1 (headThenLog cfgBsc stRace 103 goodAll ev2 1700000002).1.pending
    [.head 104 false goodAll, .head 105 false goodAll, .head 175 false goodAll]).2 = 1 := by decide

/-- A scan that works on a copy of the pending set and assigns the copy back (`headSnapshotWriteBack`, not the code) violates
both theorems: log of `p1` at block 101 (cl 2), head 103 being processed while the log of `p2` (block 104, cl 1) arrives —
`p2` is not pending afterwards, the poller is off, and no later head forwards it although its receipt stays fine. This is the
input the check reports for such a change (clauses `final-not-forwarded` / `pending-lost`, op `race`). -/
theorem c10_snapshot_writeback_witness :
    p2 ∉ (headSnapshotWriteBack cfgBsc stRace 103 goodAll ev2 1700000002).1.pending ∧
    (headSnapshotWriteBack cfgBsc stRace 103 goodAll ev2 1700000002).1.enabled = false ∧
    fwdCount p2.key (run cfgBsc topic1 (headSnapshotWriteBack cfgBsc stRace 103 goodAll ev2 1700000002).1.pending
      [.head 105 false goodAll, .head 175 false goodAll]).2 = 0 ∧
    fwdCount p2.key (run cfgBsc topic1 (headThenLog cfgBsc stRace 103 goodAll ev2 1700000002).1.pending
      [.head 105 false goodAll, .head 175 false goodAll]).2 = 1 := by decide

/-! ## Which head the re-observation path reads -/

/-- **The re-observation path reads the head the poller reads**: the finalized head on a chain read at finalized height
(Ethereum outside dev mode), the latest head otherwise — requested under the corresponding block tag. -/
theorem c10_reobserve_head_by_mode (cfg : Cfg) (lat fin : Nat) :
    (cfg.useFinalized = true ↔ (cfg.chainId = 2 ∧ cfg.dev = false)) ∧
    (cfg.useFinalized = true → reobsHeadTag cfg = "finalized" ∧ reobsHead cfg lat fin = fin) ∧
    (cfg.useFinalized = false → reobsHeadTag cfg = "latest" ∧ reobsHead cfg lat fin = lat) := by
  refine ⟨?_, ?_, ?_⟩
  · unfold Cfg.useFinalized
    cases cfg.dev <;> simp
  · intro h
    unfold reobsHeadTag reobsHead blockTag
    simp [h]
  · intro h
    unfold reobsHeadTag reobsHead blockTag
    simp [h]

example : reobsHeadTag cfgEth = "finalized" ∧ reobsHead cfgEth 132 100 = 100 ∧ reobsHeadTag cfgBsc = "latest" ∧ reobsHead cfgBsc 132 100 = 132 := by decide

/-- **Re-observation on a chain read at finalized height forwards only what is final.** With the head read as above, every
message the re-observation path forwards sits in a block whose number (plus the message's confirmations, when the watcher
honours them) is at most the *finalized* head — however far the latest head is ahead. -/
theorem c10_reobserve_final_on_finalized_chain (cfg : Cfg) (topic : Bytes) (lat fin : Nat) (rc : Option Receipt)
    (rcErr : Bool) (bt : Option Nat) (m : Msg) (hfin : cfg.useFinalized = true)
    (hm : m ∈ reobsForwarded cfg (some (reobsHead cfg lat fin)) (messageEvents cfg.contract topic cfg.chainId rc rcErr bt)) :
    ∃ r bn, rc = some r ∧ r.status = 1 ∧ r.bn = some bn ∧
      (bn % U64 + (if cfg.wait then m.cl else 0) < U64 → bn % U64 + (if cfg.wait then m.cl else 0) ≤ fin % U64) := by
  obtain ⟨r, t, n, bn, l, ev, hrc, _, hst, _, hn, hbn, _, _, _, _, _, _, hle⟩ :=
    c10_reobserve_checks cfg topic (some (reobsHead cfg lat fin)) rc rcErr bt m hm
  refine ⟨r, bn, hrc, hst, hbn, ?_⟩
  intro hlt
  have hn' : n = fin := by
    simp only [Option.some.injEq] at hn
    rw [← hn]
    unfold reobsHead
    simp [hfin]
  subst hn'
  unfold add64 at hle
  rw [Nat.mod_eq_of_lt hlt] at hle
  exact hle

private def receiptFin : Receipt := { status := 1, bh := bh1, bn := some 121, logs := [some rlog1] }

example : reobsForwarded cfgEth (some (reobsHead cfgEth 132 100)) (messageEvents cfgEth.contract topic1 cfgEth.chainId (some receiptFin) false (some 1700000000)) = [] ∧
          reobsForwarded cfgEth (some (reobsHead cfgEth 153 121)) (messageEvents cfgEth.contract topic1 cfgEth.chainId (some receiptFin) false (some 1700000000)) = [mkMsg 2 ev1 1700000000] := by decide

/-! ## `Run` returns with an error and the supervisor starts it again on the same `Watcher` -/

/-- **A restart keeps what is pending.** `Run` never assigns `w.pending`; the new incarnation starts with the pending set the
old one left behind, a poller that is switched off, and the head the node serves at that moment as the poller's last block. -/
theorem c10_restart_keeps_pending (st : St) (W : Nat) :
    (restart st W).pending = st.pending ∧ (restart st W).enabled = false ∧ (restart st W).last = W := ⟨rfl, rfl, rfl⟩

example : (restart stRace 102).pending = [p1] := by decide

/-- **... so a message that was pending when `Run` returned is still forwarded exactly once.** Over any sequence of events of
the new incarnation (heads advancing by any amount) in which its key is not delivered again and every processed head finds a
successful receipt pointing at its block, it is forwarded exactly once if some processed head reaches `height + conf`, never
otherwise, and it stays pending exactly as long as no such head has been processed - it is not abandoned by the restart. -/
theorem c10_restart_forwarded_once (cfg : Cfg) (topic : Bytes) (st : St) (W : Nat) (evs : List Ev) (p : Pend)
    (hu : UniqueKeys st.pending) (hp : p ∈ st.pending) (hno : NoOverflow cfg p) (hst : ∀ e ∈ evs, Stable cfg topic p e) :
    fwdCount p.key (run cfg topic (restart st W).pending evs).2 = (if evs.any (readyAt cfg p) then 1 else 0) ∧
    (p ∈ (run cfg topic (restart st W).pending evs).1 ↔ evs.any (readyAt cfg p) = false) :=
  c10_exactly_once cfg topic evs _ p (uniqueKeys_restart st W hu) hp hno hst

example : fwdCount p1.key (run cfgBsc topic1 (restart stRace 102).pending [.head 102 false good1, .head 171 false good1, .head 172 false good1]).2 = 1 := by decide

/-- **Nothing is forwarded a second time because of a restart.** A key that is not pending when `Run` returns (its message was
forwarded or dropped by an earlier head) and is not delivered again is never forwarded by the new incarnation. -/
theorem c10_restart_no_second_forward (cfg : Cfg) (topic : Bytes) (st : St) (W : Nat) (k : Key) (evs : List Ev)
    (habs : ∀ q ∈ st.pending, q.key ≠ k)
    (hl : ∀ e ∈ evs, ∀ l, e = .log l → nodeMatches cfg topic l = true → (mkPend cfg l.ev l.bt).key ≠ k) :
    fwdCount k (run cfg topic (restart st W).pending evs).2 = 0 :=
  (absent_run cfg topic k evs _ habs hl).1

example : fwdCount p2.key (run cfgBsc topic1 (restart stRace 102).pending [.head 171 false goodAll]).2 = 0 := by decide

/-- **The next log switches the new poller on, and the next head forwards.** After a restart the poller is off although
something is pending (see the witness below); the log of any other message restores `PollerInv`, and the first head the node
then reports above the restarted poller's first block forwards every pending message that has reached its depth and whose
receipt is fine - by however much that head is ahead. -/
theorem c10_restart_log_head_forwards (cfg : Cfg) (st : St) (W : Nat) (ev : Event) (bt : Nat) (W' : Nat) (rc : Bytes → RcAns)
    (p : Pend) (hp : p ∈ st.pending) (hk : (mkPend cfg ev bt).key ≠ p.key) (hW : W < W') (hlt : W' < U64)
    (hno : NoOverflow cfg p) (hrc : rc p.msg.tx = goodRc p) (hready : p.height + expConf cfg false p ≤ W') :
    PollerInv (onLog cfg (restart st W) ev bt) ∧
    ∃ r, (settle cfg (onLog cfg (restart st W) ev bt) W' rc).2 = some r ∧ p ∈ r.forwarded ∧
      p ∉ (settle cfg (onLog cfg (restart st W) ev bt) W' rc).1.pending := by
  refine ⟨fun _ => rfl, ?_⟩
  have hp' : p ∈ (onLog cfg (restart st W) ev bt).pending := by
    unfold onLog restart
    exact mem_insert_of_ne hk hp
  exact c10_settle_forwards cfg (onLog cfg (restart st W) ev bt) W' rc p (fun _ => rfl) hp' hW hlt hno hrc hready

example : ((settle cfgBsc (onLog cfgBsc (restart stRace 102) ev2 1700000002) 175 goodAll).2.map (·.forwarded)) = some [p2, p1] := by decide

/-- A `Run` that begins by re-creating the pending map (`restartFresh`, not the code) violates `c10_restart_keeps_pending` and
`c10_restart_forwarded_once`: `p1` (block 101, cl 2) is pending, `Run` returns and is restarted at head 102, the log of `p2`
switches the poller on, heads 105 and 175 are processed with every receipt fine - `p1` is never forwarded, although its
transaction stayed in its block and no receipt lookup for it ever failed. This is the input the check reports for such a change
(clauses `pending-lost` / `final-not-forwarded`, op `restart`). Last conjunct, about the code as it is: right after a restart
the poller is off although something is pending (`PollerInv` does not hold until the next log arrives). -/
theorem c10_restart_fresh_witness :
    p1 ∉ (restartFresh stRace 102).pending ∧
    fwdCount p1.key (run cfgBsc topic1 (onLog cfgBsc (restartFresh stRace 102) ev2 1700000002).pending
      [.head 105 false goodAll, .head 175 false goodAll]).2 = 0 ∧
    fwdCount p1.key (run cfgBsc topic1 (onLog cfgBsc (restart stRace 102) ev2 1700000002).pending
      [.head 105 false goodAll, .head 175 false goodAll]).2 = 1 ∧
    ¬ PollerInv (restart stRace 102) := by
  refine ⟨by decide, by decide, by decide, ?_⟩
  intro h
  exact absurd (h (by decide)) (by decide)

/-! ## The block poller's first query -/

/-- **The poller starts at the height the chain is read at - whatever fails.** Every first-block query of
`BlockPollConnector.run` (the first attempt and every re-run by the supervisor after a failed one) asks for the configured tag
(`finalized` on a chain read at finalized height, `latest` otherwise), and the block the poller starts from is one the node
served under that tag: a failing query never makes the poller (or `getBlockNumber`, which goes through the same connector)
read another height. -/
theorem c10_poller_start_height (uf : Bool) (attempts : List TagAns) :
    (∀ t ∈ (pollerStart uf attempts).1, t = blockTag none uf false) ∧
    (∀ n, (pollerStart uf attempts).2 = some n → ∃ a ∈ attempts, a (blockTag none uf false) = .ok n) := by
  induction attempts with
  | nil => simp [pollerStart]
  | cons a rest ih =>
    cases h : a (blockTag none uf false) with
    | ok n =>
      refine ⟨?_, ?_⟩
      · intro t ht
        simp [pollerStart, getBlock, h] at ht
        exact ht
      · intro n' hn'
        simp [pollerStart, getBlock, h] at hn'
        exact ⟨a, by simp, by rw [h, hn']⟩
    | noNum =>
      refine ⟨?_, ?_⟩
      · intro t ht
        simp [pollerStart, getBlock, h] at ht
        rcases ht with ht | ht
        · exact ht
        · exact ih.1 t ht
      · intro n' hn'
        simp [pollerStart, getBlock, h] at hn'
        obtain ⟨a', ha', hok⟩ := ih.2 n' hn'
        exact ⟨a', by simp [ha'], hok⟩
    | err =>
      refine ⟨?_, ?_⟩
      · intro t ht
        simp [pollerStart, getBlock, h] at ht
        rcases ht with ht | ht
        · exact ht
        · exact ih.1 t ht
      · intro n' hn'
        simp [pollerStart, getBlock, h] at hn'
        obtain ⟨a', ha', hok⟩ := ih.2 n' hn'
        exact ⟨a', by simp [ha'], hok⟩

/-- first attempt: the finalized query fails (the latest head is 105); second attempt: finalized head 101, latest 106 -/
private def startAttempts : List TagAns :=
  [fun t => if t = "finalized" then .err else .ok 105, fun t => if t = "finalized" then .ok 101 else .ok 106]

example : pollerStart cfgEth.useFinalized startAttempts = (["finalized", "finalized"], some 101) := by decide

private def ev105 : Event := { ev1 with rawBn := 105, cl := 1 }
private def p105 : Pend := mkPend cfgEth ev105 1700000105

/-- A poller that falls back to the latest block when its first finalized query fails (`pollerStartFallback`, not the code)
violates `c10_poller_start_height`: on the chain read at finalized height the first finalized query fails once; the code asks
again and starts at the finalized head 101, the variant starts at the latest head 105 with the finalized flag cleared for good -
and the watcher, which waits for zero confirmations on that chain, hands over the message logged in block 105 at head 105 while
the finalized head is 101 (at which the code keeps it pending). This is the input the check reports for such a change (start with
a failing first block query; clauses `forwarded-not-final` / `reobs-not-final`). -/
theorem c10_poller_start_fallback_witness :
    pollerStart cfgEth.useFinalized startAttempts = (["finalized", "finalized"], some 101) ∧
    pollerStartFallback cfgEth.useFinalized startAttempts = (["finalized", "latest"], some 105, false) ∧
    (processHead cfgEth false 105 (fun _ => goodRc p105) [p105]).forwarded = [p105] ∧
    (processHead cfgEth false 101 (fun _ => goodRc p105) [p105]).forwarded = [] ∧
    (processHead cfgEth false 101 (fun _ => goodRc p105) [p105]).pending = [p105] := by
  refine ⟨by decide, by decide, by decide, by decide, by decide⟩

/-! ## Re-observation while the node changes branch -/

/-- **The head that passes the depth test is never read after the receipt.** The node answers the first `k` RPC requests of a
re-observation in view `a` and the others in view `b` (any `k`: a reorg between any two consecutive requests, before the first
or after the last). Every message handed over comes from the receipt of the view the receipt request was answered in - core
contract, message-published topic, status 1 - and its block number plus confirmations is at most a head `n ≠ 0` that is the head
of the earlier view `a` or the head of that same view: never a head served only after the receipt had been read. -/
theorem c10_reobserve_across_checks (cfg : Cfg) (topic : Bytes) (k : Nat) (a b : NodeView) (m : Msg)
    (hm : m ∈ reobsForwardedAcross cfg topic k a b) :
    ∃ r t n bn l ev, (viewAt k a b 2).rc = some r ∧ (viewAt k a b 2).rcErr = false ∧ r.status = 1 ∧
      (viewAt k a b 1).head = some n ∧ (some n = a.head ∨ some n = (viewAt k a b 2).head) ∧
      r.bn = some bn ∧ some l ∈ r.logs ∧ l.addr = cfg.contract ∧ l.topics.head? = some topic ∧ l.parse = some ev ∧
      m = mkMsg cfg.chainId ev t ∧ n % U64 ≠ 0 ∧
      add64 (bn % U64) (if cfg.wait then m.cl else 0) ≤ n % U64 := by
  have hm' : m ∈ reobsForwarded cfg (viewAt k a b 1).head
      (messageEvents cfg.contract topic cfg.chainId (viewAt k a b 2).rc (viewAt k a b 2).rcErr
        ((viewAt k a b 2).rc.bind fun r => (viewAt k a b 3).bt r.bh)) := hm
  obtain ⟨r, t, n, bn, l, ev, hrc, herr, hst, _, hn, hbn, hl, ha, htp, hp, hmk, hz, hle⟩ :=
    c10_reobserve_checks cfg topic _ _ _ _ m hm'
  refine ⟨r, t, n, bn, l, ev, hrc, herr, hst, hn, ?_, hbn, hl, ha, htp, hp, hmk, hz, hle⟩
  unfold viewAt at hn ⊢
  by_cases h1 : 1 ≤ k
  · left; simp [h1] at hn; exact hn.symm
  · right
    have h2 : ¬ 2 ≤ k := by omega
    simp [h1] at hn
    simp [h2]
    exact hn.symm

private def viewDeep : NodeView := { head := some 110, rc := some receipt1, rcErr := false, bt := fun _ => some 1700000000 }
private def viewRemined : NodeView :=
  { head := some 104, rc := some { receipt1 with bh := bh2, bn := some 102 }, rcErr := false, bt := fun _ => some 1700000012 }

-- the change of branch falls between the head request and the receipt request: head 110 (old view), receipt of the new view
example : reobsForwardedAcross cfgBsc topic1 1 viewDeep viewRemined = [mkMsg 4 ev1 1700000012] ∧
          reobsForwardedAcross cfgBsc topic1 0 viewDeep viewRemined = [mkMsg 4 ev1 1700000012] ∧
          reobsForwardedAcross cfgBsc topic1 3 viewDeep viewRemined = [mkMsg 4 ev1 1700000000] := by decide

/-- **A transaction orphaned while it is being re-observed is handed over only if it was deep enough before.** If after the
change of branch the receipt lookup fails (the transaction is gone), then - wherever the change falls among the request's RPC
requests - a message is handed over only from the receipt of the earlier view and only if that view's own head had reached the
message's depth: a higher head on the new branch cannot make an orphaned message pass. -/
theorem c10_reobserve_orphaned_during_request (cfg : Cfg) (topic : Bytes) (k : Nat) (a b : NodeView) (m : Msg)
    (hb : b.rcErr = true) (hm : m ∈ reobsForwardedAcross cfg topic k a b) :
    ∃ r n bn, a.rc = some r ∧ a.rcErr = false ∧ r.status = 1 ∧ a.head = some n ∧ r.bn = some bn ∧
      add64 (bn % U64) (if cfg.wait then m.cl else 0) ≤ n % U64 := by
  obtain ⟨r, _, n, bn, _, _, hrc, herr, hst, hn, _, hbn, _, _, _, _, _, _, hle⟩ :=
    c10_reobserve_across_checks cfg topic k a b m hm
  unfold viewAt at hrc herr hn
  by_cases h2 : 2 ≤ k
  · have h1 : 1 ≤ k := by omega
    simp [h2] at hrc herr
    simp [h1] at hn
    exact ⟨r, n, bn, hrc, herr, hst, hn, hbn, hle⟩
  · simp [h2] at herr
    rw [hb] at herr
    cases herr

private def viewOld : NodeView := { head := some 101, rc := some receipt1, rcErr := false, bt := fun _ => some 1700000000 }
private def viewNew : NodeView := { head := some 104, rc := none, rcErr := true, bt := fun _ => some 1700000000 }

example : reobsForwardedAcross cfgBsc topic1 3 { viewOld with head := some 103 } viewNew = [mkMsg 4 ev1 1700000000] := by decide

/-- Reading the head AFTER `MessageEventsForTransaction` (`reobsForwardedAcrossHeadLast`, not the code) violates
`c10_reobserve_orphaned_during_request`: T (block 101, cl 2) is in its block at head 101; the reorg - T orphaned, the other
branch at 104 - lands after the receipt request (k = 1) or after the block-time request (k = 2): the variant pairs the old
receipt with the new head (101 + 2 ≤ 104) and hands the orphaned message over, although there never was a moment at which a head
≥ 103 had been seen while the receipt pointed to block 101. The code hands over nothing, wherever the reorg falls. This is the
input the check reports for such a change (op `rreobs`, clause `reobs-receipt-moved`). -/
theorem c10_reobserve_head_last_witness :
    reobsForwardedAcrossHeadLast cfgBsc topic1 1 viewOld viewNew = [mkMsg 4 ev1 1700000000] ∧
    reobsForwardedAcrossHeadLast cfgBsc topic1 2 viewOld viewNew = [mkMsg 4 ev1 1700000000] ∧
    (∀ k, reobsForwardedAcross cfgBsc topic1 k viewOld viewNew = []) := by
  refine ⟨by decide, by decide, ?_⟩
  intro k
  cases hl : reobsForwardedAcross cfgBsc topic1 k viewOld viewNew with
  | nil => rfl
  | cons m rest =>
    have hm : m ∈ reobsForwardedAcross cfgBsc topic1 k viewOld viewNew := by rw [hl]; simp
    obtain ⟨r, n, bn, hrc, _, _, hn, hbn, hle⟩ := c10_reobserve_orphaned_during_request cfgBsc topic1 k viewOld viewNew m rfl hm
    obtain ⟨_, _, _, _, _, ev, hrc2, _, _, _, _, _, hl2, ha2, _, hp2, hmk, _, _⟩ := c10_reobserve_across_checks cfgBsc topic1 k viewOld viewNew m hm
    exfalso
    simp only [viewOld, Option.some.injEq] at hrc hn
    subst hrc; subst hn
    simp only [receipt1, Option.some.injEq] at hbn
    subst hbn
    -- the message's consistency level is that of the receipt's only core-contract log (2): 101 + 2 ≤ 101 is false
    have hcl : m.cl = 2 := by
      unfold viewAt at hrc2
      split at hrc2
      · simp only [viewOld, Option.some.injEq] at hrc2
        subst hrc2
        simp only [receipt1, List.mem_cons, Option.some.injEq, List.mem_nil_iff, or_false, reduceCtorEq, false_or] at hl2
        rcases hl2 with h | h
        · subst h; simp [rlogForeign, cfgBsc] at ha2
        · subst h; simp only [rlog1, Option.some.injEq] at hp2; subst hp2; rw [hmk]; rfl
      · simp [viewNew] at hrc2
    rw [hcl] at hle
    revert hle
    decide

end Whv.C10
