import Whv.Lemmas.Verify
import Whv.Driver.Vaa
import Whv.Props.C05
/-!
# C06 — signature verification accepts exactly valid, ordered, in-set signatures

Model: `Whv.verifySignatures` (`Whv/Model/Verify.lean`) follows `(*VAA).VerifySignatures` statement by
statement; `recover` is the ecrecover-to-address oracle for the VAA's own digest (a parameter).
The Spec `Valid` mentions no loop state.
-/
namespace Whv.C06
open Whv

/-- What the statement says verification must accept, and nothing else:
every signature recovers to the address at the index it claims, every index is inside the list,
indices strictly increase, and — "so that no guardian is counted twice" — no address is recovered twice. -/
def Valid (recover : Bytes → Option Addr) (sigs : List Sig) (addrs : List Addr) : Prop :=
  (∀ s ∈ sigs, s.idx < addrs.length ∧ recover s.sig = addrs[s.idx]?) ∧
  sigs.Pairwise (fun a b => a.idx < b.idx) ∧
  sigs.Pairwise (fun a b => recover a.sig ≠ recover b.sig)

theorem ascending_iff (sigs : List Sig) (last : Int) :
    Ascending sigs last ↔ (∀ s ∈ sigs, last < (s.idx : Int)) ∧ sigs.Pairwise (fun a b => a.idx < b.idx) := by
  induction sigs generalizing last with
  | nil => simp [Ascending]
  | cons s rest ih =>
    simp only [Ascending, ih, List.pairwise_cons, List.mem_cons, forall_eq_or_imp]
    constructor
    · intro ⟨h1, h2, h3⟩
      exact ⟨⟨h1, fun x hx => by have := h2 x hx; omega⟩, fun x hx => by have := h2 x hx; omega, h3⟩
    · intro ⟨⟨h1, _⟩, h3, h4⟩
      exact ⟨h1, fun x hx => by have := h3 x hx; omega, h4⟩

theorem fresh_iff (recover : Bytes → Option Addr) (sigs : List Sig) (seen : List Addr)
    (hall : ∀ s ∈ sigs, ∃ a, recover s.sig = some a) :
    Fresh recover sigs seen ↔
      (∀ s ∈ sigs, ∀ a, recover s.sig = some a → a ∉ seen) ∧
      sigs.Pairwise (fun x y => recover x.sig ≠ recover y.sig) := by
  induction sigs generalizing seen with
  | nil => simp [Fresh]
  | cons s rest ih =>
    obtain ⟨a, ha⟩ := hall s (by simp)
    have hrest : ∀ t ∈ rest, ∃ b, recover t.sig = some b := fun t ht => hall t (by simp [ht])
    simp only [Fresh, ih _ hrest, List.pairwise_cons, List.mem_cons, forall_eq_or_imp, ha]
    constructor
    · intro h
      obtain ⟨h1, h2, h3⟩ := h a rfl
      refine ⟨⟨fun b hb => by cases hb; exact h1, fun t ht b hb => ?_⟩, fun t ht => ?_, h3⟩
      · have := h2 t ht b hb; simp at this; exact this.1
      · obtain ⟨b, hb⟩ := hrest t ht
        have := h2 t ht b hb
        simp at this
        rw [hb]; intro e; cases e; exact this.2 rfl
    · intro ⟨⟨h1, h2⟩, h3, h4⟩ b hb
      cases hb
      refine ⟨h1 a rfl, fun t ht b hb => ?_, h4⟩
      simp only [List.mem_append, List.mem_singleton, not_or]
      refine ⟨h2 t ht b hb, fun e => ?_⟩
      subst e
      exact h3 t ht hb.symm

/-- **Main theorem.** For guardian lists and signature lists of *any* length, verification succeeds
iff the signature list is `Valid`. -/
theorem verify_iff (recover : Bytes → Option Addr) (sigs : List Sig) (addrs : List Addr) :
    verifySignatures recover sigs addrs = true ↔ Valid recover sigs addrs := by
  unfold verifySignatures Valid
  have key : verifyLoop recover addrs sigs (-1) [] = true ↔
      (∀ s ∈ sigs, s.idx < addrs.length ∧ recover s.sig = addrs[s.idx]?) ∧
      sigs.Pairwise (fun a b => a.idx < b.idx) ∧ sigs.Pairwise (fun a b => recover a.sig ≠ recover b.sig) := by
    rw [verifyLoop_iff]
    constructor
    · intro ⟨h1, h2, h3⟩
      have hall : ∀ s ∈ sigs, ∃ a, recover s.sig = some a := fun s hs => by
        have := h1 s hs
        rw [this.2, List.getElem?_eq_getElem this.1]; exact ⟨_, rfl⟩
      exact ⟨h1, ((ascending_iff _ _).1 h2).2, ((fresh_iff _ _ _ hall).1 h3).2⟩
    · intro ⟨h1, h2, h3⟩
      have hall : ∀ s ∈ sigs, ∃ a, recover s.sig = some a := fun s hs => by
        have := h1 s hs
        rw [this.2, List.getElem?_eq_getElem this.1]; exact ⟨_, rfl⟩
      exact ⟨h1, (ascending_iff _ _).2 ⟨fun s _ => by omega, h2⟩,
        (fresh_iff _ _ _ hall).2 ⟨fun _ _ _ _ => by simp, h3⟩⟩
  by_cases hlen : addrs.length < sigs.length
  · rw [if_pos hlen]
    simp only [Bool.false_eq_true, false_iff]
    intro ⟨h1, h2, _⟩
    have hasc : Ascending sigs (-1) := (ascending_iff _ _).2 ⟨fun s _ => by omega, h2⟩
    rcases ascending_length_le addrs.length sigs (-1) (by omega) hasc (fun s hs => (h1 s hs).1) with h | h
    · omega
    · subst h; simp at hlen
  · rw [if_neg hlen]; exact key

/-- For guardian lists without repeated addresses the third conjunct is implied by the first two —
which is why the statement does not list it separately. -/
theorem nodup_implied (recover : Bytes → Option Addr) (sigs : List Sig) (addrs : List Addr)
    (hnd : addrs.Nodup)
    (h1 : ∀ s ∈ sigs, s.idx < addrs.length ∧ recover s.sig = addrs[s.idx]?)
    (h2 : sigs.Pairwise (fun a b => a.idx < b.idx)) :
    sigs.Pairwise (fun a b => recover a.sig ≠ recover b.sig) := by
  induction sigs with
  | nil => simp
  | cons s rest ih =>
    rw [List.pairwise_cons] at h2 ⊢
    refine ⟨fun t ht e => ?_, ih (fun x hx => h1 x (by simp [hx])) h2.2⟩
    have hs := h1 s (by simp)
    have ht' := h1 t (by simp [ht])
    rw [hs.2, ht'.2] at e
    have := (List.getElem?_inj hs.1 hnd).1 e
    have := h2.1 t ht
    omega

/-- Changing the body changes the digest, i.e. the `recover` oracle: validity is about *this* digest only.
Stated per signature — if under the other digest some signature no longer recovers to its claimed key, verification fails. -/
theorem other_digest_fails (recover' : Bytes → Option Addr) (sigs : List Sig) (addrs : List Addr)
    (s : Sig) (hs : s ∈ sigs) (hbad : recover' s.sig ≠ addrs[s.idx]?) :
    verifySignatures recover' sigs addrs = false := by
  apply Bool.eq_false_iff.mpr
  intro h
  exact hbad (((verify_iff _ _ _).1 h).1 s hs).2

/-- A signer outside the list (recovered address is not the one at the claimed index) makes it fail. -/
theorem outsider_fails (recover : Bytes → Option Addr) (sigs : List Sig) (addrs : List Addr)
    (s : Sig) (hs : s ∈ sigs) (a : Addr) (hr : recover s.sig = some a) (hout : a ∉ addrs) :
    verifySignatures recover sigs addrs = false := by
  apply Bool.eq_false_iff.mpr
  intro h
  have := (((verify_iff _ _ _).1 h).1 s hs)
  rw [hr, List.getElem?_eq_getElem this.1] at this
  have e : a = addrs[s.idx] := Option.some.inj this.2
  exact hout (e ▸ List.getElem_mem _)

/-- Duplicating a signature (same index twice, anywhere) makes it fail. -/
theorem duplicate_fails (recover : Bytes → Option Addr) (pre mid post : List Sig) (s : Sig) (addrs : List Addr) :
    verifySignatures recover (pre ++ s :: mid ++ s :: post) addrs = false := by
  apply Bool.eq_false_iff.mpr
  intro h
  have h2 := ((verify_iff _ _ _).1 h).2.1
  rw [List.append_assoc, List.pairwise_append] at h2
  have := h2.2.1
  rw [List.cons_append, List.pairwise_cons] at this
  have := this.1 s (by simp)
  omega

/-- Swapping two adjacent signatures of an accepted list makes it fail. -/
theorem swap_fails (recover : Bytes → Option Addr) (pre post : List Sig) (a b : Sig) (addrs : List Addr)
    (h : verifySignatures recover (pre ++ a :: b :: post) addrs = true) :
    verifySignatures recover (pre ++ b :: a :: post) addrs = false := by
  apply Bool.eq_false_iff.mpr
  intro h'
  have h2 := ((verify_iff _ _ _).1 h).2.1
  have h2' := ((verify_iff _ _ _).1 h').2.1
  rw [List.pairwise_append] at h2 h2'
  have x := (List.pairwise_cons.1 h2.2.1).1 b (by simp)
  have y := (List.pairwise_cons.1 h2'.2.1).1 a (by simp)
  omega

/-- An index outside the guardian list makes it fail (and, the model being total, cannot panic). -/
theorem out_of_range_fails (recover : Bytes → Option Addr) (sigs : List Sig) (addrs : List Addr)
    (s : Sig) (hs : s ∈ sigs) (h : addrs.length ≤ s.idx) : verifySignatures recover sigs addrs = false := by
  apply Bool.eq_false_iff.mpr
  intro hv
  have := (((verify_iff _ _ _).1 hv).1 s hs).1
  omega

/-- Every accepted list has at most as many signatures as there are guardians, hence counting
signatures counts distinct guardians (used by C01). -/
theorem accepted_length_le (recover : Bytes → Option Addr) (sigs : List Sig) (addrs : List Addr)
    (h : verifySignatures recover sigs addrs = true) : sigs.length ≤ addrs.length := by
  unfold verifySignatures at h
  by_cases hlen : addrs.length < sigs.length
  · rw [if_pos hlen] at h; cases h
  · omega

private theorem pairwiseB_iff (r : Sig → Sig → Bool) (l : List Sig) :
    Whv.Driver.VaaFam.validB.pairwiseB r l = true ↔ l.Pairwise (fun a b => r a b = true) := by
  induction l with
  | nil => simp [Whv.Driver.VaaFam.validB.pairwiseB]
  | cons a l ih =>
    simp only [Whv.Driver.VaaFam.validB.pairwiseB, Bool.and_eq_true, List.all_eq_true, ih, List.pairwise_cons]

/-- The Boolean Spec the driver evaluates on the implementation's results (`validB`, compiled code) is exactly `Valid`. -/
theorem validB_iff (recover : Bytes → Option Addr) (sigs : List Sig) (addrs : List Addr) :
    Whv.Driver.VaaFam.validB recover sigs addrs = true ↔ Valid recover sigs addrs := by
  unfold Whv.Driver.VaaFam.validB Valid
  simp only [Bool.and_eq_true, List.all_eq_true, pairwiseB_iff, decide_eq_true_eq, beq_iff_eq, bne_iff_ne, ne_eq]
  constructor
  · intro ⟨⟨h1, h2⟩, h3⟩
    exact ⟨h1, h2, h3⟩
  · intro ⟨h1, h2, h3⟩
    exact ⟨⟨h1, h2⟩, h3⟩

/-- Non-vacuity: a 3-guardian list, signatures by guardians 0 and 2 — accepted; re-indexed — rejected. -/
def rec3 : Bytes → Option Addr := fun s => match s with
  | [10] => some [0xA] | [12] => some [0xC] | _ => none
example : verifySignatures rec3 [⟨0, [10]⟩, ⟨2, [12]⟩] [[0xA], [0xB], [0xC]] = true := by decide
example : verifySignatures rec3 [⟨0, [10]⟩, ⟨1, [12]⟩] [[0xA], [0xB], [0xC]] = false := by decide

/-! ## The wire path and guardian lists with repeated addresses -/

private theorem marshal_split (v : Vaa) :
    marshal v = (be 1 v.version ++ be 4 v.gsIndex) ++ (be 1 v.sigs.length ++ (sigsBytes v.sigs ++ serializeBody v.body)) := by
  simp [marshal, List.append_assoc]

/-- The Spec's reading of the wire (`Whv.Driver.VaaFam.wireSigs`, used by the driver on `wver` lines) is the signature list of the encoded VAA,
in the order of the records. -/
theorem wireSigs_marshal (v : Vaa) (hn : v.sigs.length ≤ 255) (hs : ∀ s ∈ v.sigs, s.WF) :
    Whv.Driver.VaaFam.wireSigs (marshal v) = some v.sigs := by
  unfold Whv.Driver.VaaFam.wireSigs
  rw [marshal_split, takeN_append_of_length (by simp [be_length])]
  simp only [takeN_append_of_length (be_length 1 _)]
  rw [unbe_be1 (by omega), readSigs_sigsBytes _ _ hs]; rfl

/-- … and of whatever the decoder accepts: the decoded list is the wire's list, record for record, in wire order. -/
theorem wireSigs_of_unmarshal (wire : Bytes) (v : Vaa) (h : unmarshal wire = some v) : Whv.Driver.VaaFam.wireSigs wire = some v.sigs := by
  obtain ⟨e, wf⟩ := Whv.C05.encode_decode wire v h
  rw [← e]; exact wireSigs_marshal v wf.2.2.1 wf.2.2.2.1

/-- The wire path (`Unmarshal` then `VerifySignatures`) accepts exactly the decodable strings whose signature records, in wire
order, are `Valid`. -/
theorem decodeVerify_iff (recover : Bytes → Option Addr) (wire : Bytes) (addrs : List Addr) :
    Whv.Driver.VaaFam.decodeVerify recover wire addrs = true ↔
      ∃ v sigs, unmarshal wire = some v ∧ Whv.Driver.VaaFam.wireSigs wire = some sigs ∧ Valid recover sigs addrs := by
  unfold Whv.Driver.VaaFam.decodeVerify
  cases h : unmarshal wire with
  | none => simp
  | some v =>
    simp only [verify_iff, wireSigs_of_unmarshal wire v h]
    constructor
    · intro hv; exact ⟨v, v.sigs, rfl, rfl, hv⟩
    · rintro ⟨_, sigs, _, e, hv⟩; cases e; exact hv

/-- Serialized with two neighbouring signature records out of order (equal or descending indices), a VAA is rejected on the wire
path even when every signature is individually valid: the decoder must not re-order what it reads. -/
theorem wire_out_of_order_rejected (recover : Bytes → Option Addr) (v : Vaa) (h : v.WF) (addrs : List Addr)
    (pre post : List Sig) (a b : Sig) (e : v.sigs = pre ++ a :: b :: post) (hab : b.idx ≤ a.idx) :
    Whv.Driver.VaaFam.decodeVerify recover (marshal v) addrs = false := by
  unfold Whv.Driver.VaaFam.decodeVerify
  rw [Whv.C05.decode_encode v h]
  apply Bool.eq_false_iff.mpr
  intro hv
  have h2 := ((verify_iff _ _ _).1 hv).2.1
  rw [e, List.pairwise_append] at h2
  have := (List.pairwise_cons.1 h2.2.1).1 b (by simp)
  omega

/-- A `Valid` signature list survives serialization: the wire path accepts it. -/
theorem wire_valid_accepted (recover : Bytes → Option Addr) (v : Vaa) (h : v.WF) (addrs : List Addr)
    (hv : Valid recover v.sigs addrs) : Whv.Driver.VaaFam.decodeVerify recover (marshal v) addrs = true := by
  unfold Whv.Driver.VaaFam.decodeVerify
  rw [Whv.C05.decode_encode v h]
  exact (verify_iff _ _ _).2 hv

/-- Guardian lists with repeated addresses: a signature is accepted at EVERY position that holds the address it recovers to —
the first as well as the last. -/
theorem claimed_position_accepted (recover : Bytes → Option Addr) (addrs : List Addr) (i : Nat) (sg : Bytes) (a : Addr)
    (hr : recover sg = some a) (hi : addrs[i]? = some a) :
    verifySignatures recover [⟨i, sg⟩] addrs = true := by
  apply (verify_iff _ _ _).2
  have hlt : i < addrs.length := by
    rcases Nat.lt_or_ge i addrs.length with h | h
    · exact h
    · rw [List.getElem?_eq_none h] at hi; cases hi
  refine ⟨?_, by simp, by simp⟩
  intro s hs
  simp at hs; subst hs
  exact ⟨hlt, by simp [hr, hi]⟩

/-- … but claiming two positions of one address counts that guardian twice and is rejected. -/
theorem repeated_address_twice_rejected (recover : Bytes → Option Addr) (addrs : List Addr) (i j : Nat) (s₁ s₂ : Bytes)
    (h : recover s₁ = recover s₂) : verifySignatures recover [⟨i, s₁⟩, ⟨j, s₂⟩] addrs = false := by
  apply Bool.eq_false_iff.mpr
  intro hv
  have h3 := ((verify_iff _ _ _).1 hv).2.2
  simp at h3
  exact h3 h

def recA : Bytes → Option Addr := fun s => match s with
  | [10] => some [0xA] | [11] => some [0xB] | _ => none
example : verifySignatures recA [⟨0, [10]⟩] [[0xA], [0xB], [0xA]] = true := claimed_position_accepted recA _ 0 [10] [0xA] rfl rfl
example : verifySignatures recA [⟨2, [10]⟩] [[0xA], [0xB], [0xA]] = true := claimed_position_accepted recA _ 2 [10] [0xA] rfl rfl
example : verifySignatures recA [⟨0, [10]⟩, ⟨1, [11]⟩] [[0xA], [0xB], [0xA]] = true := by decide
example : verifySignatures recA [⟨0, [10]⟩, ⟨2, [10]⟩] [[0xA], [0xB], [0xA]] = false := repeated_address_twice_rejected recA _ 0 2 [10] [10] rfl

/-! ## Signature encodings -/

private def ValidP (l : List (Nat × Option Addr)) (addrs : List Addr) : Prop :=
  (∀ p ∈ l, p.1 < addrs.length ∧ p.2 = addrs[p.1]?) ∧
  l.Pairwise (fun a b => a.1 < b.1) ∧ l.Pairwise (fun a b => a.2 ≠ b.2)

private theorem valid_iff_map (recover : Bytes → Option Addr) (sigs : List Sig) (addrs : List Addr) :
    Valid recover sigs addrs ↔ ValidP (sigs.map fun s => (s.idx, recover s.sig)) addrs := by
  simp [Valid, ValidP, List.pairwise_map]

/-- Verification looks at a signature only through the index it claims and the address it recovers to: two signature lists that
agree on those, record for record, get the same verdict — whatever the 65 bytes are (in particular `(r, s, v)` and the second
encoding `(r, N − s, v ⊕ 1)` of the same ECDSA signature, which the recovery oracle maps to the same address). -/
theorem encoding_irrelevant (recover : Bytes → Option Addr) (sigs sigs' : List Sig) (addrs : List Addr)
    (h : sigs.map (fun s => (s.idx, recover s.sig)) = sigs'.map (fun s => (s.idx, recover s.sig))) :
    verifySignatures recover sigs addrs = verifySignatures recover sigs' addrs := by
  apply Bool.eq_iff_iff.mpr
  rw [verify_iff, verify_iff, valid_iff_map, valid_iff_map, h]

/-- Replacing the bytes of one signature, anywhere in the list, by other bytes that recover to the same address changes nothing:
an accepted list stays accepted (and a rejected one rejected). -/
theorem same_signer_other_bytes (recover : Bytes → Option Addr) (pre post : List Sig) (i : Nat) (sg sg' : Bytes) (addrs : List Addr)
    (h : recover sg = recover sg') :
    verifySignatures recover (pre ++ ⟨i, sg⟩ :: post) addrs = verifySignatures recover (pre ++ ⟨i, sg'⟩ :: post) addrs :=
  encoding_irrelevant recover _ _ addrs (by simp [h])

/-- … and so does replacing all of them. -/
theorem same_signers_other_bytes (recover : Bytes → Option Addr) (sigs : List Sig) (tw : Bytes → Bytes) (addrs : List Addr)
    (h : ∀ s ∈ sigs, recover (tw s.sig) = recover s.sig) :
    verifySignatures recover (sigs.map fun s => ⟨s.idx, tw s.sig⟩) addrs = verifySignatures recover sigs addrs := by
  apply encoding_irrelevant
  rw [List.map_map]
  apply List.map_congr_left
  intro s hs
  simp [h s hs]

def recT : Bytes → Option Addr := fun s => match s with
  | [10] => some [0xA] | [20] => some [0xA] | [12] => some [0xC] | [22] => some [0xC] | _ => none
example : verifySignatures recT [⟨0, [20]⟩, ⟨2, [12]⟩] [[0xA], [0xB], [0xC]] = true :=
  (same_signer_other_bytes recT [] [⟨2, [12]⟩] 0 [10] [20] _ rfl).symm.trans (by decide)
example : verifySignatures recT (([⟨0, [10]⟩, ⟨2, [12]⟩] : List Sig).map fun s => ⟨s.idx, s.sig.map (· + 10)⟩) [[0xA], [0xB], [0xC]] = true :=
  (same_signers_other_bytes recT [⟨0, [10]⟩, ⟨2, [12]⟩] (fun b => b.map (· + 10)) _ (by decide)).trans (by decide)
example : verifySignatures recT [⟨0, [10]⟩, ⟨1, [20]⟩] [[0xA], [0xA], [0xC]] = false :=
  repeated_address_twice_rejected recT _ 0 1 [10] [20] rfl

end Whv.C06
