import Whv.Props.C08
/-!
# C09 — every final Alephium token-bridge message is eventually observed

Model: `Whv/Model/AlphWatch.lean` (`pageLoop`, `fetchTick`, `handleUnconfirmed`, `process`, `handleConfirmed`),
following watcher.go / client.go with the repairs of `/verif/fixes/C09-*.diff`.  The node is a parameter; the
fetch theorems assume only that it serves one append-only event log consistently (`Consistent`), for *every*
page size and *every* growth of the log between the count request and the page requests.  Liveness is relative
to ticks continuing and to the node's answers (no API error, block reported canonical).
-/
namespace Whv.C09
open Whv Whv.Alph

/-! ## the count-then-pages loop -/

private theorem vis_mono_le {log : List Event} {vis size : Nat → Nat} {page : Nat → Int → Option Page}
    (hc : Consistent log vis size page) (k : Nat) : vis 0 ≤ vis k := by
  induction k with
  | zero => exact Nat.le_refl _
  | succ k ih => exact Nat.le_trans ih (hc.vis_mono k)

private theorem pageLoop_inv {log : List Event} {vis size : Nat → Nat} {page : Nat → Int → Option Page}
    (hc : Consistent log vis size page) (f c : Nat) (hcv : c ≤ vis 0) :
    ∀ (fuel k s : Nat), f ≤ s → s < c → c - s ≤ fuel →
      ∃ n r, pageLoop page c fuel k s ((log.drop f).take (s - f)) = .done (n : Nat) ((log.drop f).take (n - f)) r ∧
        c ≤ n ∧ n ≤ log.length ∧ k < r ∧ r ≤ k + (c - s) := by
  intro fuel
  induction fuel with
  | zero => intro k s _ h2 h3; omega
  | succ fuel ih =>
    intro k s hfs hsc hfuel
    have hv0 := vis_mono_le hc k
    have hsv : s ≤ vis k := by omega
    have hsz := hc.size_pos k
    have hans := hc.answer k s hsv
    have hnx : s < min (s + size k) (vis k) := by omega
    simp only [pageLoop, hans]
    split
    · rename_i hge
      refine ⟨min (s + size k) (vis k), k + 1, ?_, by omega, ?_, by omega, by omega⟩
      · rw [drop_take_append log f s _ hfs (by omega)]
      · have := hc.vis_le k; omega
    · rename_i hlt
      have hlt' : min (s + size k) (vis k) < c := by omega
      have hvk := hc.vis_mono k
      obtain ⟨n, r, hres, h1, h2, h3, h4⟩ := ih (k + 1) (min (s + size k) (vis k)) (by omega) hlt' (by omega)
      refine ⟨n, r, ?_, h1, h2, by omega, by omega⟩
      rw [drop_take_append log f s _ hfs (by omega)]
      exact hres

/-- **Pages partition the log.** Against a node that serves one append-only log consistently — whatever the
page sizes, however the log grows between the count request and each page request — the loop started at
`fromIndex = f` with a polled count `c > f` ends after at most `c - f` page requests with `nextStart = n ≥ c`,
having fetched exactly the events `[f, n)`, each once and in order.  It never runs out of fuel `≥ c - f`. -/
theorem pages_partition {log : List Event} {vis size : Nat → Nat} {page : Nat → Int → Option Page}
    (hc : Consistent log vis size page) (f c fuel : Nat) (hfc : f < c) (hcv : c ≤ vis 0) (hfuel : c - f ≤ fuel) :
    ∃ n r, pageLoop page c fuel 0 f [] = .done (n : Nat) ((log.drop f).take (n - f)) r ∧
      c ≤ n ∧ n ≤ log.length ∧ 1 ≤ r ∧ r ≤ c - f := by
  obtain ⟨n, r, h, h1, h2, h3, h4⟩ := pageLoop_inv hc f c hcv fuel 0 f (Nat.le_refl _) hfc hfuel
  refine ⟨n, r, ?_, h1, h2, by omega, by omega⟩
  simpa using h

/-- **Bound on page requests per tick** (no spinning): the number of requests is between 1 and `c - fromIndex`. -/
theorem tick_terminates {log : List Event} {vis size : Nat → Nat} {page : Nat → Int → Option Page}
    (hc : Consistent log vis size page) (f c : Nat) (hfc : f < c) (hcv : c ≤ vis 0) :
    ∀ fuel, c - f ≤ fuel → ∃ n evs r, pageLoop page c fuel 0 f [] = .done n evs r ∧ r ≤ c - f := by
  intro fuel hfuel
  obtain ⟨n, r, h, _, _, _, h4⟩ := pages_partition hc f c fuel hfc hcv hfuel
  exact ⟨_, _, r, h, h4⟩

/-- a consistent node whose log grows from 1 to 2 events right after the count request; pages of up to 2 events -/
private def exLog : List Event := [⟨0, "b", "t0", 0, "-", none⟩, ⟨1, "b", "t1", 0, "-", none⟩]
private def exPage : Nat → Int → Option Page := fun _ s =>
  some ⟨(exLog.drop s.toNat).take (min (s.toNat + 2) 2 - s.toNat), (min (s.toNat + 2) 2 : Nat)⟩
example : Consistent exLog (fun _ => 2) (fun _ => 2) exPage :=
  { size_pos := fun _ => by decide, vis_mono := fun _ => Nat.le_refl _, vis_le := fun _ => by decide,
    answer := fun k s _ => by simp [exPage] }
example : pageLoop exPage 1 5 0 0 [] = .done 2 exLog 1 := by decide

/-- The loop as it was before the repair (`NextStart == count` as the only exit). -/
def pageLoopEq (page : Nat → Int → Option Page) (count : Int) : Nat → Nat → Int → List Event → LoopRes
  | 0, _, _, _ => .outOfFuel
  | fuel + 1, k, start, acc =>
    match page k start with
    | none => .apiErr
    | some p =>
      if p.next = count then .done p.next (acc ++ p.events) (k + 1)
      else pageLoopEq page count fuel (k + 1) p.next (acc ++ p.events)

/-- Why the repair was needed: on the node above (one event appended between the count request and the first
page request) the unrepaired loop is still asking for pages after any number of requests. -/
theorem unrepaired_loop_spins (fuel : Nat) : pageLoopEq exPage 1 fuel 0 0 [] = .outOfFuel := by
  have key : ∀ fuel k acc, pageLoopEq exPage 1 fuel k 2 acc = .outOfFuel := by
    intro fuel
    induction fuel with
    | zero => intro k acc; rfl
    | succ fuel ih =>
      intro k acc
      simp only [pageLoopEq, exPage]
      have : ((min ((2 : Int).toNat + 2) 2 : Nat) : Int) = 2 := by decide
      rw [if_neg (by rw [this]; decide), this]
      exact ih _ _
  cases fuel with
  | zero => rfl
  | succ fuel =>
    simp only [pageLoopEq, exPage]
    have : ((min ((0 : Int).toNat + 2) 2 : Nat) : Int) = 2 := by decide
    rw [if_neg (by rw [this]; decide), this]
    exact key _ _ _

/-- One tick of the fetch loop against a consistent node: the watcher stays alive, `fromIndex` moves to the
returned `nextStart`, and what is delivered to the event loop is exactly the admissible part of `[f, n)`. -/
theorem fetch_tick {log : List Event} {vis size : Nat → Nat} {page : Nat → Int → Option Page}
    (hc : Consistent log vis size page) (ans : Bytes → TiAns) (s : WState) (f c fuel : Nat)
    (hf : s.fromIndex = f) (hfc : f < c) (hcv : c ≤ vis 0) (hfuel : c - f ≤ fuel) :
    ∃ n : Nat, c ≤ n ∧ n ≤ log.length ∧
      (fetchTick ans (some c) page fuel s).2 = some (handleUnconfirmed ans ((log.drop f).take (n - f))) ∧
      (fetchTick ans (some c) page fuel s).1.fromIndex = n ∧
      (fetchTick ans (some c) page fuel s).1.alive = s.alive := by
  obtain ⟨n, r, h, h1, h2, _, _⟩ := pages_partition hc f c fuel hfc hcv hfuel
  refine ⟨n, h1, h2, ?_⟩
  have hne : ((c : Nat) : Int) ≠ (f : Int) := by omega
  simp [fetchTick, hf, hne, h, stepBatch]

/-! ## malformed and foreign events are isolated -/

/-- An event is let through by the fetch loop iff it is well-formed: index 0, converts, and (if attestation-shaped)
its metadata matches what the token contract reports.  In particular a well-formed event is never dropped. -/
theorem acceptEv_iff (ans : Bytes → TiAns) (e : Event) (u : Unconf) :
    acceptEv ans e = some u ↔
      (u.ev = e ∧ e.idx = 0 ∧ e.conv = some u.msg ∧ (isAttest u.msg = true → validateAttest ans u.msg = true)) := by
  constructor
  · exact acceptEv_some
  · rintro ⟨rfl, hidx, hconv, hval⟩
    obtain ⟨ev, msg⟩ := u
    simp only at hidx hconv hval
    simp only [acceptEv, toUnconfirmed, hidx, hconv, ne_eq, not_true_eq_false, if_false, Option.map_some]
    cases ha : isAttest msg
    · simp
    · simp [hval ha]

/-- **Isolation at the fetch loop.** An event that is not let through — wrong event index, fields that do not
convert, attestation-shaped with failing / mis-shaped / mismatching metadata — changes nothing about what is
delivered for the events before and after it on the page. -/
theorem malformed_isolated (ans : Bytes → TiAns) (before after : List Event) (bad : Event)
    (hbad : acceptEv ans bad = none) :
    handleUnconfirmed ans (before ++ bad :: after) = handleUnconfirmed ans (before ++ after) := by
  simp [handleUnconfirmed, List.filterMap_append, hbad]

/-- … and such an event is every event with a wrong index, without a conversion, or failing attestation validation. -/
theorem acceptEv_none_of_malformed (ans : Bytes → TiAns) (e : Event)
    (h : e.idx ≠ 0 ∨ e.conv = none ∨ (∃ m, e.conv = some m ∧ isAttest m = true ∧ validateAttest ans m = false)) :
    acceptEv ans e = none := by
  unfold acceptEv toUnconfirmed
  rcases h with h | h | ⟨m, hm, ha, hv⟩
  · simp [h]
  · simp [h]
  · by_cases hi : e.idx = 0 <;> simp [hi, hm, ha, hv]

example : handleUnconfirmed (fun _ => .apiErr) [⟨0, "b", "t", 0, "-", some ⟨[7], 2, 0, 0, 1, [1]⟩⟩, ⟨1, "b", "t", 0, "-", none⟩,
    ⟨2, "b", "t", 1, "-", some ⟨[7], 2, 0, 0, 1, [1]⟩⟩, ⟨3, "b", "t", 0, "-", some ⟨[7], 2, 0, 0, 1, [2]⟩⟩,
    ⟨4, "b", "t", 0, "-", some ⟨[8], 2, 0, 0, 1, [3]⟩⟩]
    = [⟨⟨0, "b", "t", 0, "-", some ⟨[7], 2, 0, 0, 1, [1]⟩⟩, ⟨[7], 2, 0, 0, 1, [1]⟩⟩,
       ⟨⟨4, "b", "t", 0, "-", some ⟨[8], 2, 0, 0, 1, [3]⟩⟩, ⟨[8], 2, 0, 0, 1, [3]⟩⟩] := by decide

/-- every pending event has event index 0 (true of everything the fetch loop delivers) -/
def AllIdx0 (pending : List PBlock) : Prop := ∀ pb ∈ pending, ∀ u ∈ pb.evs, u.ev.idx = 0

/-- **Exactly which messages one height tick forwards.** When the node answers (no API error) the forwarded
entries are precisely the pending events that are confirmed, in a block reported canonical, with the token bridge
as sender — each judged on its own block and fields only, whatever else is pending: a foreign or odd neighbour
neither suppresses nor adds a forward, and the watcher stays alive. -/
theorem forwarded_iff {cfg : Cfg} {o : Oracle} {height now : Int} {s : WState} (hidx : AllIdx0 s.pending)
    (hok : ∀ pb ∈ s.pending, (o.main pb.block).isSome ∧ (headerOf o pb).isSome) (u : Unconf) (h : Header) :
    ((u, h) ∈ (stepHeight cfg o height now s).2 ↔
      ∃ pb ∈ s.pending, u ∈ pb.evs ∧ headerOf o pb = some h ∧ o.main pb.block = some true ∧
        isEventConfirmed u.msg h now height cfg.mainnet = true ∧ u.msg.sender = cfg.bridge) ∧
    (stepHeight cfg o height now s).1.alive = s.alive := by
  obtain ⟨r, hp⟩ := Option.isSome_iff_exists.1 (process_isSome (cfg := cfg) (height := height) (now := now) hok)
  obtain ⟨pend, conf⟩ := r
  obtain ⟨_, h2, h3, _⟩ := stepHeight_some hp
  have hconf0 : ∀ c ∈ conf, c.1.ev.idx = 0 := by
    intro c hc
    obtain ⟨pb, hpb, hu, _⟩ := (mem_conf_iff hp c.1 c.2).1 hc
    exact hidx pb hpb c.1 hu
  rw [h2, h3, handleConfirmed_of_idx0 cfg conf hconf0]
  refine ⟨?_, by simp⟩
  simp only [List.mem_filter, decide_eq_true_eq, mem_conf_iff hp u h, confirmedIn]
  constructor
  · rintro ⟨⟨pb, hpb, hu, hh, hm, hcf⟩, hs⟩; exact ⟨pb, hpb, hu, hh, hm, hcf, hs⟩
  · rintro ⟨pb, hpb, hu, hh, hm, hcf, hs⟩; exact ⟨⟨pb, hpb, hu, hh, hm, hcf⟩, hs⟩

/-! ## restarts of `Run` on the same `Watcher` value -/

/-- **A restarted watcher fetches afresh.** Whatever the previous incarnations did (`s0` is arbitrary), the incarnation
started by `restartW` with polled count `c0` fetches, at its first tick with a count `c > c0`, exactly the log positions
`[c0, n)` of a consistent node — nothing below `c0` a second time — and stays alive; while the count stays `c0` it asks
for no page and delivers nothing. -/
theorem restart_fetches_fresh {log : List Event} {vis size : Nat → Nat} {page : Nat → Int → Option Page}
    (hc : Consistent log vis size page) (ans : Bytes → TiAns) (s0 : WState) (c0 c fuel : Nat)
    (hfc : c0 < c) (hcv : c ≤ vis 0) (hfuel : c - c0 ≤ fuel) :
    (∃ n : Nat, c ≤ n ∧ n ≤ log.length ∧
      (fetchTick ans (some c) page fuel (restartW s0 (some c0))).2 = some (handleUnconfirmed ans ((log.drop c0).take (n - c0))) ∧
      (∀ u ∈ handleUnconfirmed ans ((log.drop c0).take (n - c0)), u.ev ∈ log.drop c0) ∧
      (fetchTick ans (some c) page fuel (restartW s0 (some c0))).1.fromIndex = n ∧
      (fetchTick ans (some c) page fuel (restartW s0 (some c0))).1.alive = true) ∧
    (fetchTick ans (some c0) page fuel (restartW s0 (some c0))).2 = none := by
  constructor
  · obtain ⟨n, h1, h2, h3, h4, h5⟩ := fetch_tick hc ans (restartW s0 (some c0)) c0 c fuel rfl hfc hcv hfuel
    refine ⟨n, h1, h2, h3, ?_, h4, by rw [h5]; rfl⟩
    intro u hu
    exact List.mem_of_mem_take (C08.fetched_attest_valid ans _ u hu).1
  · simp [fetchTick, restartW]

private def exLog3 : List Event := exLog ++ [⟨2, "b", "t2", 0, "-", some ⟨[7], 2, 0, 0, 1, [1]⟩⟩]
private def exPage3 : Nat → Int → Option Page := fun _ s =>
  some ⟨(exLog3.drop s.toNat).take (min (s.toNat + 2) 3 - s.toNat), (min (s.toNat + 2) 3 : Nat)⟩
example : Consistent exLog3 (fun _ => 3) (fun _ => 2) exPage3 :=
  { size_pos := fun _ => by decide, vis_mono := fun _ => Nat.le_refl _, vis_le := fun _ => by decide,
    answer := fun k s _ => by simp [exPage3] }
-- an incarnation that had reached index 1 is restarted when the count is 2: only position 2 is fetched afterwards
example : (fetchTick (fun _ => .apiErr) (some 3) exPage3 5 (restartW { fromIndex := 1 } (some 2))).2
    = some [⟨⟨2, "b", "t2", 0, "-", some ⟨[7], 2, 0, 0, 1, [1]⟩⟩, ⟨[7], 2, 0, 0, 1, [1]⟩⟩] := by decide

/-! ## metadata lookups leave no trace

The token-metadata answers are a parameter of every single tick (`ans`) and of every single re-observation request
(`node.ti`): nothing about an earlier lookup — that it happened, for which id, that it failed — is part of the watcher's state. -/

/-- Where a tick leaves the fetch index, and whether the watcher is still alive, does not depend on what the token
contracts answered during the tick. -/
theorem lookups_leave_no_trace (ans₁ ans₂ : Bytes → TiAns) (cnt : Option Int) (page : Nat → Int → Option Page) (fuel : Nat) (s : WState) :
    (fetchTick ans₁ cnt page fuel s).1.fromIndex = (fetchTick ans₂ cnt page fuel s).1.fromIndex ∧
    (fetchTick ans₁ cnt page fuel s).1.alive = (fetchTick ans₂ cnt page fuel s).1.alive := by
  unfold fetchTick
  cases cnt with
  | none => exact ⟨rfl, rfl⟩
  | some c =>
    simp only
    split
    · exact ⟨rfl, rfl⟩
    · split <;> exact ⟨rfl, rfl⟩

/-- What a tick delivers depends on the state it starts from through the fetch index only. -/
theorem delivery_depends_on_index_only (ans : Bytes → TiAns) (cnt : Option Int) (page : Nat → Int → Option Page) (fuel : Nat)
    (s s' : WState) (h : s.fromIndex = s'.fromIndex) :
    (fetchTick ans cnt page fuel s).2 = (fetchTick ans cnt page fuel s').2 := by
  unfold fetchTick
  cases cnt with
  | none => rfl
  | some c =>
    simp only [h]
    split
    · rfl
    · split <;> rfl

/-- **A genuine attestation after failed lookups.** Against a consistent node, a tick started at fetch index `f` — in whatever
state `s` earlier ticks, with whatever metadata answers, have left the watcher — delivers every event below the polled
count that has index 0, converts, and (if attestation-shaped) equals what the token contract reports *in this tick*. -/
theorem genuine_attest_delivered {log : List Event} {vis size : Nat → Nat} {page : Nat → Int → Option Page}
    (hc : Consistent log vis size page) (ans : Bytes → TiAns) (s : WState) (f c fuel : Nat)
    (hf : s.fromIndex = f) (hfc : f < c) (hcv : c ≤ vis 0) (hfuel : c - f ≤ fuel)
    (e : Event) (he : e ∈ (log.drop f).take (c - f)) (m : Msg) (hidx : e.idx = 0) (hconv : e.conv = some m)
    (hval : isAttest m = true → validateAttest ans m = true) :
    ∃ batch, (fetchTick ans (some c) page fuel s).2 = some batch ∧ (⟨e, m⟩ : Unconf) ∈ batch := by
  obtain ⟨n, h1, _, h3, _, _⟩ := fetch_tick hc ans s f c fuel hf hfc hcv hfuel
  refine ⟨_, h3, ?_⟩
  have hsub : e ∈ (log.drop f).take (n - f) := by
    have e1 : (log.drop f).take (c - f) = ((log.drop f).take (n - f)).take (c - f) := by
      rw [List.take_take]; congr 1; omega
    rw [e1] at he
    exact List.mem_of_mem_take he
  exact List.mem_filterMap.2 ⟨e, hsub, (acceptEv_iff ans e ⟨e, m⟩).2 ⟨rfl, hidx, hconv, hval⟩⟩

private def exTok : Bytes := List.replicate 31 0 ++ [9]
private def exAttest : Bytes := [2] ++ exTok ++ [0, 255, 8] ++ (List.replicate 31 0 ++ [65]) ++ (List.replicate 31 0 ++ [66])
private def exAttMsg (sender : Bytes) : Msg := ⟨sender, 0, 0, 1, 0, exAttest⟩
private def exTiOk : Bytes → TiAns := fun _ => .results [.ok [.bytes (some [65])], .ok [.bytes (some [66])], .ok [.u256 (some 8)]]
private def exTiFail : Bytes → TiAns := fun _ => .results [.ok [.bytes (some [65])], .failed, .ok [.u256 (some 8)]]
private def exLogA : List Event := [⟨0, "b", "t0", 0, "-", some (exAttMsg [8])⟩, ⟨1, "b", "t1", 0, "-", some (exAttMsg [7])⟩]
private def exPageA : Nat → Int → Option Page := fun _ s => some ⟨(exLogA.drop s.toNat).take 1, (min (s.toNat + 1) 2 : Nat)⟩
-- tick 1: a foreign sender's attestation-shaped event names the token while its `name` call fails: nothing is delivered;
-- tick 2: the contract answers, the token bridge's attestation of the same id is delivered
example : (fetchTick exTiFail (some 1) exPageA 3 {}).2 = some [] := by decide
example : (fetchTick exTiOk (some 2) exPageA 3 (fetchTick exTiFail (some 1) exPageA 3 {}).1).2
    = some [⟨⟨1, "b", "t1", 0, "-", some (exAttMsg [7])⟩, exAttMsg [7]⟩] := by decide

/-- **After the token contract has begun to answer differently.** Two ticks of one watcher: an earlier one under the answers
`ans₁` — whatever was looked up, validated and delivered then — and a tick under `ans₂` against a consistent node.  The later tick
delivers every event below the polled count that has index 0, converts and (if attestation-shaped) equals what the token
contract reports *now*, and it delivers no attestation that differs from what the contract reports now. -/
theorem current_attest_delivered_after_change {log : List Event} {vis size : Nat → Nat} {page : Nat → Int → Option Page}
    (hc : Consistent log vis size page) (ans₁ ans₂ : Bytes → TiAns) (cnt₁ : Option Int) (page₁ : Nat → Int → Option Page)
    (fuel₁ : Nat) (s : WState) (f c fuel : Nat)
    (hf : (fetchTick ans₁ cnt₁ page₁ fuel₁ s).1.fromIndex = f) (hfc : f < c) (hcv : c ≤ vis 0) (hfuel : c - f ≤ fuel) :
    ∃ batch, (fetchTick ans₂ (some c) page fuel (fetchTick ans₁ cnt₁ page₁ fuel₁ s).1).2 = some batch ∧
      (∀ e ∈ (log.drop f).take (c - f), ∀ m, e.idx = 0 → e.conv = some m →
        (isAttest m = true → validateAttest ans₂ m = true) → (⟨e, m⟩ : Unconf) ∈ batch) ∧
      (∀ u ∈ batch, isAttest u.msg = true → validateAttest ans₂ u.msg = true) := by
  obtain ⟨n, _, _, h3, _, _⟩ := fetch_tick hc ans₂ (fetchTick ans₁ cnt₁ page₁ fuel₁ s).1 f c fuel hf hfc hcv hfuel
  refine ⟨_, h3, fun e he m hidx hconv hval => ?_, fun u hu ha => ?_⟩
  · obtain ⟨batch, hb, hin⟩ := genuine_attest_delivered hc ans₂ (fetchTick ans₁ cnt₁ page₁ fuel₁ s).1 f c fuel hf hfc hcv hfuel
      e he m hidx hconv hval
    rw [h3] at hb
    cases hb
    exact hin
  · obtain ⟨e, _, hacc⟩ := List.mem_filterMap.1 hu
    exact (acceptEv_some hacc).2.2.2 ha

-- the token contract first reports (A, B, 8), then its `name` answers C: an attestation of the earlier values is not
-- delivered by the later tick, one of the current values is
private def exTiNew : Bytes → TiAns := fun _ => .results [.ok [.bytes (some [65])], .ok [.bytes (some [67])], .ok [.u256 (some 8)]]
private def exAttestNew : Bytes := [2] ++ exTok ++ [0, 255, 8] ++ (List.replicate 31 0 ++ [65]) ++ (List.replicate 31 0 ++ [67])
private def exLogC : List Event := [⟨0, "b", "t0", 0, "-", some (exAttMsg [7])⟩, ⟨1, "b", "t1", 0, "-", some (exAttMsg [7])⟩,
  ⟨2, "b", "t2", 0, "-", some ⟨[7], 0, 0, 2, 0, exAttestNew⟩⟩]
private def exPageC : Nat → Int → Option Page := fun _ s => some ⟨(exLogC.drop s.toNat).take 2, (min (s.toNat + 2) 3 : Nat)⟩
example : (fetchTick exTiOk (some 1) (fun _ _ => some ⟨exLogC.take 1, 1⟩) 3 {}).2 = some [⟨⟨0, "b", "t0", 0, "-", some (exAttMsg [7])⟩, exAttMsg [7]⟩] := by decide
example : (fetchTick exTiNew (some 3) exPageC 3 (fetchTick exTiOk (some 1) (fun _ _ => some ⟨exLogC.take 1, 1⟩) 3 {}).1).2
    = some [⟨⟨2, "b", "t2", 0, "-", some ⟨[7], 0, 0, 2, 0, exAttestNew⟩⟩, ⟨[7], 0, 0, 2, 0, exAttestNew⟩⟩] := by decide

example : Consistent exLogC (fun _ => 3) (fun _ => 2) exPageC ∧ (fetchTick exTiOk (some 1) (fun _ _ => some ⟨exLogC.take 1, 1⟩) 3 {}).1.fromIndex = 1 :=
  ⟨{ size_pos := fun _ => by decide, vis_mono := fun _ => Nat.le_refl _, vis_le := fun _ => by decide, answer := fun k s _ => by
      simp only [exPageC, Int.toNat_natCast, Option.some.injEq, Page.mk.injEq, List.take_eq_take_iff, and_true]
      have : exLogC.length = 3 := by decide
      simp only [List.length_drop, this]; omega }, by decide⟩

private theorem govEvents_complete {cfg : Cfg} {node : ReobsNode} {bh : Hash} {evs : List Event}
    {cands : List (Unconf × Header)} (hg : govEvents cfg node bh evs = some cands)
    {e : Event} (he : e ∈ evs) (hidx : e.idx = 0) (hgov : e.contract = cfg.gov) (hb : e.block = bh)
    {h : Header} (hh : node.hdr bh = some h) {m : Msg} (hm : e.conv = some m)
    (hatt : isAttest m = true → validateAttest node.ti m = true) :
    ((⟨e, m⟩ : Unconf), h) ∈ cands := by
  induction evs generalizing cands with
  | nil => simp at he
  | cons e' rest ih =>
    rcases List.mem_cons.1 he with rfl | hin
    · have hav : (isAttest m && !validateAttest node.ti m) = false := by
        cases ha : isAttest m
        · simp
        · simp [hatt ha]
      simp only [govEvents, hidx, ne_eq, not_true_eq_false, if_false, hb, hh, hm, hav, Bool.false_eq_true] at hg
      cases hr : govEvents cfg node bh rest with
      | none => simp [hr, hgov] at hg
      | some l =>
        simp only [hr, Option.map_some, hgov, not_true_eq_false, or_self, if_false, Option.some.injEq] at hg
        subst hg
        simp
    · simp only [govEvents] at hg
      split at hg
      · exact ih hg hin
      · split at hg
        · exact ih hg hin
        · split at hg
          · cases hg
          · split at hg
            · cases hg
            · split at hg
              · exact ih hg hin
              · cases hr : govEvents cfg node bh rest with
                | none => simp [hr] at hg
                | some l =>
                  simp only [hr, Option.map_some, Option.some.injEq] at hg
                  subst hg
                  exact List.mem_cons_of_mem _ (ih hr hin)

/-- **Re-observation hands over what is final** — and it is a function of the answers of *this* request only (`node`): a
re-observation request for a transaction confirmed in a block the node calls canonical, all of whose governance-contract
events in that block have a header and convert, forwards every such event that comes from the token bridge, is final at the
height answered, and — for an attestation — equals what the token contract reports now; whatever earlier requests or ticks
looked up about the same token id, and with whatever result. -/
theorem reobserve_forwards (cfg : Cfg) (node : ReobsNode) (now : Int) (tx : Hash) {bh : Hash} {evs : List Event}
    {cands : List (Unconf × Header)} {height : Int}
    (hst : node.status = some (.confirmed bh)) (hev : node.txEvents = some evs) (hg : govEvents cfg node bh evs = some cands)
    (hmain : node.main bh = some true) (hheight : node.height = some height)
    {e : Event} (he : e ∈ evs) (hidx : e.idx = 0) (hgov : e.contract = cfg.gov) (hb : e.block = bh)
    {h : Header} (hh : node.hdr bh = some h) {m : Msg} (hm : e.conv = some m) (hs : m.sender = cfg.bridge)
    (hc : isEventConfirmed m h now height cfg.mainnet = true)
    (hatt : isAttest m = true → validateAttest node.ti m = true) :
    toPub tx m h ∈ reobserve cfg node now ChainIdAlephium 32 tx := by
  have hin := govEvents_complete hg he hidx hgov hb hh hm hatt
  simp only [reobserve, ne_eq, not_true_eq_false, if_false, hst, hev, hg, hmain, hheight]
  exact List.mem_map.2 ⟨(⟨e, m⟩, h), List.mem_filter.2 ⟨List.mem_filter.2 ⟨hin, hc⟩, by simpa using hs⟩, rfl⟩

private def exReNode (ti : Bytes → TiAns) : ReobsNode :=
  { status := some (.confirmed "b"), txEvents := some [⟨0, "b", "t1", 0, "gov", some (exAttMsg [7])⟩],
    hdr := fun _ => some ⟨100, 0⟩, main := fun _ => some true, height := some 100, ti := ti }
example : reobserve ⟨false, [7], "gov"⟩ (exReNode exTiFail) 0 255 32 "t1" = [] := by decide
example : reobserve ⟨false, [7], "gov"⟩ (exReNode exTiOk) 0 255 32 "t1" = [toPub "t1" (exAttMsg [7]) ⟨100, 0⟩] := by decide

/-! ## eventual, exactly-once forwarding -/

/-- `u` is filed under its block, whose header is either not fetched yet or is `h` -/
def Held (s : WState) (u : Unconf) (h : Header) : Prop :=
  ∃ pb ∈ s.pending, pb.block = u.ev.block ∧ u ∈ pb.evs ∧ (pb.hdr = none ∨ pb.hdr = some h)

private theorem addEvent_held (pend : List PBlock) (v u : Unconf) (h : Header)
    (hh : ∃ pb ∈ pend, pb.block = u.ev.block ∧ u ∈ pb.evs ∧ (pb.hdr = none ∨ pb.hdr = some h)) :
    ∃ pb ∈ addEvent pend v, pb.block = u.ev.block ∧ u ∈ pb.evs ∧ (pb.hdr = none ∨ pb.hdr = some h) := by
  induction pend with
  | nil => obtain ⟨pb, hpb, _⟩ := hh; simp at hpb
  | cons pb0 rest ih =>
    obtain ⟨pb, hpb, hb, hu, hd⟩ := hh
    simp only [addEvent]
    split
    · rcases List.mem_cons.1 hpb with rfl | hin
      · exact ⟨{ pb with evs := pb.evs ++ [v] }, by simp, hb, by simp [hu], hd⟩
      · exact ⟨pb, by simp [hin], hb, hu, hd⟩
    · rcases List.mem_cons.1 hpb with rfl | hin
      · exact ⟨pb, by simp, hb, hu, hd⟩
      · obtain ⟨pb', hpb', rest'⟩ := ih ⟨pb, hin, hb, hu, hd⟩
        exact ⟨pb', by simp [hpb'], rest'⟩

private theorem addEvent_self (pend : List PBlock) (u : Unconf) (h : Header)
    (hc : ∀ pb ∈ pend, pb.block = u.ev.block → (pb.hdr = none ∨ pb.hdr = some h)) :
    ∃ pb ∈ addEvent pend u, pb.block = u.ev.block ∧ u ∈ pb.evs ∧ (pb.hdr = none ∨ pb.hdr = some h) := by
  induction pend with
  | nil => exact ⟨{ block := u.ev.block, hdr := none, evs := [u] }, by simp [addEvent], rfl, by simp, Or.inl rfl⟩
  | cons pb0 rest ih =>
    simp only [addEvent]
    split
    · rename_i hb
      exact ⟨{ pb0 with evs := pb0.evs ++ [u] }, by simp, hb, by simp, hc pb0 (by simp) hb⟩
    · obtain ⟨pb', hpb', rest'⟩ := ih fun pb hpb => hc pb (by simp [hpb])
      exact ⟨pb', by simp [hpb'], rest'⟩

/-- a batch never removes a held event -/
theorem held_batch {s : WState} {u : Unconf} {h : Header} (us : List Unconf) (hh : Held s u h) :
    Held (stepBatch s us) u h := by
  unfold Held stepBatch addBatch at *
  simp only
  induction us generalizing s with
  | nil => simpa using hh
  | cons v rest ih =>
    simp only [List.foldl_cons]
    exact ih (s := { s with pending := addEvent s.pending v }) (addEvent_held s.pending v u h hh)

/-- **Waiting.** A height tick at which the node answers, and at which the held event is not yet confirmed,
keeps it held (now with its header cached) — whatever the node says about canonicity at that moment. -/
theorem held_wait {cfg : Cfg} {o : Oracle} {height now : Int} {s : WState} {u : Unconf} {h : Header}
    (hh : Held s u h) (hhdr : o.hdr u.ev.block = some h)
    (hok : ∀ pb ∈ s.pending, (o.main pb.block).isSome ∧ (headerOf o pb).isSome)
    (hnc : isEventConfirmed u.msg h now height cfg.mainnet = false) :
    Held (stepHeight cfg o height now s).1 u h := by
  obtain ⟨r, hp⟩ := Option.isSome_iff_exists.1 (process_isSome (cfg := cfg) (height := height) (now := now) hok)
  obtain ⟨pend, conf⟩ := r
  obtain ⟨h1, _⟩ := stepHeight_some hp
  obtain ⟨pb, hpb, hb, hu, hd⟩ := hh
  have hho : headerOf o pb = some h := by
    unfold headerOf
    rcases hd with hd | hd
    · rw [hd, hb]; exact hhdr
    · rw [hd]
  have hmem : u ∈ pb.evs.filter fun v => !confirmedIn cfg h height now v :=
    List.mem_filter.2 ⟨hu, by simp [confirmedIn, hnc]⟩
  refine ⟨{ pb with hdr := some h, evs := pb.evs.filter fun v => !confirmedIn cfg h height now v }, ?_, hb, hmem, Or.inr rfl⟩
  rw [h1]
  exact (mem_pend_iff hp _).2 ⟨pb, hpb, h, hho, List.ne_nil_of_mem hmem, rfl⟩

/-- **Forwarding.** At the first height tick at which the node answers, reports the block canonical, and
`isEventConfirmed` holds for this tick's height and clock, a held token-bridge event is handed to the signer. -/
theorem held_forwarded {cfg : Cfg} {o : Oracle} {height now : Int} {s : WState} {u : Unconf} {h : Header}
    (hh : Held s u h) (hhdr : o.hdr u.ev.block = some h) (hidx : AllIdx0 s.pending)
    (hok : ∀ pb ∈ s.pending, (o.main pb.block).isSome ∧ (headerOf o pb).isSome)
    (hmain : o.main u.ev.block = some true) (hs : u.msg.sender = cfg.bridge)
    (hc : isEventConfirmed u.msg h now height cfg.mainnet = true) :
    (u, h) ∈ (stepHeight cfg o height now s).2 := by
  obtain ⟨pb, hpb, hb, hu, hd⟩ := hh
  have hho : headerOf o pb = some h := by
    unfold headerOf
    rcases hd with hd | hd
    · rw [hd, hb]; exact hhdr
    · rw [hd]
  exact ((forwarded_iff hidx hok u h).1).2 ⟨pb, hpb, hu, hho, by rw [hb]; exact hmain, hc, hs⟩

/-- a height tick at which the node answers keeps `AllIdx0` -/
theorem allIdx0_height {cfg : Cfg} {o : Oracle} {height now : Int} {s : WState} (hidx : AllIdx0 s.pending) :
    AllIdx0 (stepHeight cfg o height now s).1.pending := by
  cases hp : process cfg o height now s.pending with
  | none => rw [stepHeight_none hp]; exact hidx
  | some r =>
    obtain ⟨pend, conf⟩ := r
    rw [(stepHeight_some hp).1]
    intro pb' hpb' u hu
    obtain ⟨pb, hpb, h, _, _, rfl⟩ := (mem_pend_iff hp pb').1 hpb'
    exact hidx pb hpb u (List.mem_filter.1 hu).1

/-- the height ticks the event has to sit through: the node answers, the event is not confirmed yet -/
def Waits (cfg : Cfg) (u : Unconf) (h : Header) (s : WState) : List (Oracle × Int × Int) → Prop
  | [] => True
  | (o, height, now) :: rest =>
    o.hdr u.ev.block = some h ∧ (∀ pb ∈ s.pending, (o.main pb.block).isSome ∧ (headerOf o pb).isSome) ∧
    isEventConfirmed u.msg h now height cfg.mainnet = false ∧
    Waits cfg u h (stepHeight cfg o height now s).1 rest

def afterTicks (cfg : Cfg) (s : WState) : List (Oracle × Int × Int) → WState
  | [] => s
  | (o, height, now) :: rest => afterTicks cfg (stepHeight cfg o height now s).1 rest

/-- **Eventually, exactly once** (relative to ticks continuing and the node's answers): a held, well-formed
token-bridge event survives any number of height ticks at which it is not yet confirmed (reorg flags may flip
in between) and is handed to the signer at the first tick at which the node reports its block canonical and the
finality conditions hold.  `C08.at_most_once` shows it is never handed over a second time. -/
theorem eventually_forwarded (cfg : Cfg) (u : Unconf) (h : Header) (ticks : List (Oracle × Int × Int)) (s : WState)
    (hh : Held s u h) (hidx : AllIdx0 s.pending) (hw : Waits cfg u h s ticks)
    (o : Oracle) (height now : Int) (hhdr : o.hdr u.ev.block = some h)
    (hok : ∀ pb ∈ (afterTicks cfg s ticks).pending, (o.main pb.block).isSome ∧ (headerOf o pb).isSome)
    (hmain : o.main u.ev.block = some true) (hs : u.msg.sender = cfg.bridge)
    (hc : isEventConfirmed u.msg h now height cfg.mainnet = true) :
    (u, h) ∈ (stepHeight cfg o height now (afterTicks cfg s ticks)).2 := by
  induction ticks generalizing s with
  | nil => exact held_forwarded hh hhdr hidx hok hmain hs hc
  | cons t rest ih =>
    obtain ⟨o', height', now'⟩ := t
    obtain ⟨w1, w2, w3, w4⟩ := hw
    exact ih (stepHeight cfg o' height' now' s).1 (held_wait hh w1 w2 w3) (allIdx0_height hidx) w4 hok

private def exBridge : Bytes := [7]
private def exCfg : Cfg := { mainnet := false, bridge := exBridge, gov := "gov" }
private def exMsg : Msg := ⟨exBridge, 2, 5, 9, 2, [1, 0]⟩
private def exU : Unconf := ⟨⟨0, "b1", "t1", 0, "-", some exMsg⟩, exMsg⟩
private def exS : WState := stepBatch {} [exU]
private def exO (canon : Bool) : Oracle := { main := fun _ => some canon, hdr := fun _ => some ⟨100, 0⟩ }
example : Held exS exU ⟨100, 0⟩ := ⟨⟨"b1", none, [exU]⟩, by decide, rfl, by decide, Or.inl rfl⟩
example : Waits exCfg exU ⟨100, 0⟩ exS [(exO false, 101, 40000), (exO true, 102, 31999)] := by
  refine ⟨rfl, by decide, by decide, rfl, by decide, by decide, trivial⟩
example : (stepHeight exCfg (exO true) 102 32000 (afterTicks exCfg exS [(exO false, 101, 40000), (exO true, 102, 31999)])).2
    = [(exU, ⟨100, 0⟩)] := by decide

/-! ## a failing request inside a round

The pinned loop ends the watcher on a failing page request (`fetchTick`: `alive := false`; the supervisor starts a new one,
`restart_fetches_fresh`).  A watcher may also carry on — then it stays bound by the statement.  `fetchTickKeep` (cursor
unchanged, the round is repeated) loses nothing; `fetchTickDrop` (cursor where the failed round stopped, its pages thrown
away) loses the pages fetched before the failing request. -/

/-- A round that hands nothing over leaves a `fetchTickKeep` watcher exactly as it was … -/
theorem keep_failed_round_is_noop (ans : Bytes → TiAns) (cnt : Option Int) (page : Nat → Int → Option Page) (fuel : Nat) (s : WState)
    (h : (fetchTickKeep ans cnt page fuel s).2 = none) : (fetchTickKeep ans cnt page fuel s).1 = s := by
  cases cnt with
  | none => simp [fetchTickKeep]
  | some c =>
    by_cases hcf : c = s.fromIndex
    · simp [fetchTickKeep, hcf]
    · cases hl : pageLoop page c fuel 0 s.fromIndex [] with
      | done next evs r => simp [fetchTickKeep, hcf, hl] at h
      | apiErr => simp [fetchTickKeep, hcf, hl]
      | outOfFuel => simp [fetchTickKeep, hcf, hl]

/-- … and a round that succeeds is the pinned loop's round. -/
theorem keep_agrees_when_delivering (ans : Bytes → TiAns) (cnt : Option Int) (page : Nat → Int → Option Page) (fuel : Nat) (s : WState)
    (us : List Unconf) (h : (fetchTick ans cnt page fuel s).2 = some us) :
    fetchTickKeep ans cnt page fuel s = fetchTick ans cnt page fuel s := by
  cases cnt with
  | none => simp [fetchTick] at h
  | some c =>
    by_cases hcf : c = s.fromIndex
    · simp [fetchTick, hcf] at h
    · cases hl : pageLoop page c fuel 0 s.fromIndex [] with
      | done next evs r => simp [fetchTick, fetchTickKeep, hcf, hl]
      | apiErr => simp [fetchTick, hcf, hl] at h
      | outOfFuel => simp [fetchTick, hcf, hl] at h

/-- **Carrying on with the cursor unchanged loses nothing**: after any number of rounds that handed nothing over (a failing
page request at any position, a failing count request), the first healthy round against a consistent node delivers the
admissible part of `[f, n)` — every position from where the watcher stood before the failures, each once. -/
theorem keep_survives_failures {log : List Event} {vis size : Nat → Nat} {page : Nat → Int → Option Page}
    (hc : Consistent log vis size page) (ans : Bytes → TiAns) (s : WState) (f c fuel : Nat)
    (failed : List (Option Int × (Nat → Int → Option Page) × Nat))
    (hfail : ∀ r ∈ failed, (fetchTickKeep ans r.1 r.2.1 r.2.2 s).2 = none)
    (hf : s.fromIndex = f) (hfc : f < c) (hcv : c ≤ vis 0) (hfuel : c - f ≤ fuel) :
    let s' := failed.foldl (fun st r => (fetchTickKeep ans r.1 r.2.1 r.2.2 st).1) s
    ∃ n : Nat, c ≤ n ∧ n ≤ log.length ∧
      (fetchTickKeep ans (some c) page fuel s').2 = some (handleUnconfirmed ans ((log.drop f).take (n - f))) := by
  intro s'
  have hs : s' = s := by
    show failed.foldl _ s = s
    induction failed with
    | nil => rfl
    | cons r rest ih =>
      simp only [List.foldl_cons]
      rw [keep_failed_round_is_noop ans r.1 r.2.1 r.2.2 s (hfail r (by simp))]
      exact ih (fun r' hr' => hfail r' (by simp [hr']))
  obtain ⟨n, h1, h2, h3, _, _⟩ := fetch_tick hc ans s f c fuel hf hfc hcv hfuel
  refine ⟨n, h1, h2, ?_⟩
  rw [hs, keep_agrees_when_delivering ans (some c) page fuel s _ h3]
  exact h3

/-- a consistent three-event log served one event per page; the second page request of the first round fails once -/
private def exLogF : List Event :=
  [⟨0, "b", "t0", 0, "-", some ⟨[7], 2, 0, 10, 1, [1]⟩⟩, ⟨1, "b", "t1", 0, "-", some ⟨[7], 2, 0, 11, 1, [1]⟩⟩, ⟨2, "b", "t2", 0, "-", some ⟨[7], 2, 0, 12, 1, [1]⟩⟩]
private def exPageF (failAt : Option Nat) : Nat → Int → Option Page := fun k s =>
  if failAt = some k then none else some ⟨(exLogF.drop s.toNat).take 1, (min (s.toNat + 1) 3 : Nat)⟩
private def seqsOf (r : WState × Option (List Unconf)) : Option (List Nat) := r.2.map fun us => us.map (·.msg.seq)

/-- **Dropping the fetched pages of a failed round loses messages** — the witness: three token-bridge messages, pages of one
event, the second page request fails once.  The watcher that moves on from where the failed round stopped hands over
nothing in that round and sequences 11 and 12 in the next: sequence 10, fetched in the first page, is never handed over
and never asked for again (the cursor is past it).  The watcher that repeats the round hands over all three. -/
theorem dropped_pages_are_lost :
    seqsOf (fetchTickDrop (fun _ => .apiErr) (some 3) (exPageF (some 1)) 5 {}) = none ∧
    (fetchTickDrop (fun _ => .apiErr) (some 3) (exPageF (some 1)) 5 {}).1.fromIndex = 1 ∧
    seqsOf (fetchTickDrop (fun _ => .apiErr) (some 3) (exPageF none) 5 (fetchTickDrop (fun _ => .apiErr) (some 3) (exPageF (some 1)) 5 {}).1) = some [11, 12] ∧
    seqsOf (fetchTickKeep (fun _ => .apiErr) (some 3) (exPageF none) 5 (fetchTickKeep (fun _ => .apiErr) (some 3) (exPageF (some 1)) 5 {}).1) = some [10, 11, 12] := by
  decide

example : (fetchTick (fun _ => .apiErr) (some 3) (exPageF (some 1)) 5 {}).1.alive = false := by decide
-- the hypotheses of `keep_survives_failures`: a failing second page request, then a failing count request, from index 0
example : ∀ r ∈ [(some (3 : Int), exPageF (some 1), 5), (none, exPageF none, 5)], (fetchTickKeep (fun _ => .apiErr) r.1 r.2.1 r.2.2 {}).2 = none := by decide
example : (fetchTickKeep (fun _ => .apiErr) (some 3) (exPageF (some 0)) 5 {}).2 = none
    ∧ (fetchTickKeep (fun _ => .apiErr) (some 3) (exPageF (some 0)) 5 {}).1.fromIndex = 0 := by decide
example : seqsOf (fetchTick (fun _ => .apiErr) (some 3) (exPageF none) 5 {}) = some [10, 11, 12] := by decide

/-! ## a count that moves backwards ("no matter … how the event count moves between requests")

A count poll may answer lower than an earlier one.  The pinned loop starts its page requests at its own cursor whatever the
count says, and a node never answers a page request with a `nextStart` below the `start` asked for — so the cursor never moves
back, a lagging backend that has nothing at the cursor changes nothing, and a healthy one serves exactly the positions from the
cursor on.  Letting the cursor follow the lower count (`fetchTickFollow`) hands positions over twice. -/

/-- the node never sends a client back: every page answer's `nextStart` is at least the `start` it was asked with -/
def NeverBack (page : Nat → Int → Option Page) : Prop := ∀ k s p, page k s = some p → s ≤ p.next

private theorem pageLoop_from_cursor {page : Nat → Int → Option Page} (hp : NeverBack page) (count : Int) :
    ∀ (fuel k : Nat) (s : Int) (acc : List Event) (n : Int) (evs : List Event) (r : Nat),
      pageLoop page count fuel k s acc = .done n evs r → s ≤ n := by
  intro fuel
  induction fuel with
  | zero => intro k s acc n evs r h; simp [pageLoop] at h
  | succ fuel ih =>
    intro k s acc n evs r h
    simp only [pageLoop] at h
    cases hpg : page k s with
    | none => simp [hpg] at h
    | some p =>
      have hsp := hp k s p hpg
      simp only [hpg] at h
      split at h
      · simp only [LoopRes.done.injEq] at h
        omega
      · have := ih (k + 1) p.next _ n evs r h
        omega

/-- **The cursor never moves back**, whatever the count request answers — lower than the cursor, zero, an error — and whatever
the pages hold, as long as the node never answers a page request with a `nextStart` below the `start` asked for. -/
theorem cursor_never_moves_back {page : Nat → Int → Option Page} (hp : NeverBack page) (ans : Bytes → TiAns) (cnt : Option Int)
    (fuel : Nat) (s : WState) : s.fromIndex ≤ (fetchTick ans cnt page fuel s).1.fromIndex := by
  cases cnt with
  | none => simp [fetchTick]
  | some c =>
    by_cases hcf : c = s.fromIndex
    · simp [fetchTick, hcf]
    · cases hl : pageLoop page c fuel 0 s.fromIndex [] with
      | done next evs r =>
        have := pageLoop_from_cursor hp c fuel 0 s.fromIndex [] next evs r hl
        simpa [fetchTick, hcf, hl, stepBatch] using this
      | apiErr => simp [fetchTick, hcf, hl]
      | outOfFuel => simp [fetchTick, hcf, hl]

/-- … over any history of ticks: count answers and page functions of every kind, in any order. -/
theorem cursor_monotone_over_history (ans : Bytes → TiAns) (ticks : List (Option Int × (Nat → Int → Option Page) × Nat))
    (hp : ∀ t ∈ ticks, NeverBack t.2.1) (s : WState) :
    s.fromIndex ≤ (ticks.foldl (fun st t => (fetchTick ans t.1 t.2.1 t.2.2 st).1) s).fromIndex := by
  induction ticks generalizing s with
  | nil => exact Int.le_refl _
  | cons t rest ih =>
    simp only [List.foldl_cons]
    have h1 := cursor_never_moves_back (hp t (by simp)) ans t.1 t.2.2 s
    have h2 := ih (fun t' ht' => hp t' (by simp [ht'])) (fetchTick ans t.1 t.2.1 t.2.2 s).1
    omega

/-- **A dip served by the lagging backend changes nothing.**  The count is below the cursor and the page request reaches the same
backend, which holds nothing at the cursor (no events, `nextStart = start`): the watcher is exactly as before and an empty
batch goes to the event loop. -/
theorem dip_tick_lagging (ans : Bytes → TiAns) (c : Int) (page : Nat → Int → Option Page) (fuel : Nat) (s : WState)
    (hc : c < s.fromIndex) (hpg : page 0 s.fromIndex = some ⟨[], s.fromIndex⟩) :
    fetchTick ans (some c) page (fuel + 1) s = (s, some []) := by
  have hne : c ≠ s.fromIndex := by omega
  have hge : s.fromIndex ≥ c := by omega
  simp [fetchTick, hne, pageLoop, hpg, hge, handleUnconfirmed, stepBatch, addBatch]

/-- **A dip whose page request reaches a healthy backend** (one that serves the append-only log consistently): one page request,
and what is handed over is the admissible part of the positions `[f, n)` from the cursor `f` on — nothing before the cursor,
however far below it the count was. -/
theorem dip_tick_healthy {log : List Event} {vis size : Nat → Nat} {page : Nat → Int → Option Page}
    (hc : Consistent log vis size page) (ans : Bytes → TiAns) (s : WState) (f : Nat) (c : Int) (fuel : Nat)
    (hf : s.fromIndex = f) (hcf : c < f) (hfv : f ≤ vis 0) :
    ∃ n : Nat, f ≤ n ∧ n ≤ log.length ∧
      (fetchTick ans (some c) page (fuel + 1) s).2 = some (handleUnconfirmed ans ((log.drop f).take (n - f))) ∧
      (fetchTick ans (some c) page (fuel + 1) s).1.fromIndex = n := by
  have hans := hc.answer 0 f hfv
  have hv := hc.vis_le 0
  refine ⟨min (f + size 0) (vis 0), by omega, by omega, ?_⟩
  have hne : c ≠ (f : Int) := by omega
  have hge : ((min (f + size 0) (vis 0) : Nat) : Int) ≥ c := by omega
  simp [fetchTick, hf, hne, pageLoop, hans, hge, stepBatch]

/-- After any number of dips served by the lagging backend, the first tick with a right count against a consistent node hands
over the admissible part of `[f, n)` from where the cursor stood before the dips: every position once, none again. -/
theorem dips_then_recovery {log : List Event} {vis size : Nat → Nat} {page : Nat → Int → Option Page}
    (hc : Consistent log vis size page) (ans : Bytes → TiAns) (s : WState) (f c fuel : Nat)
    (dips : List (Int × (Nat → Int → Option Page) × Nat))
    (hdip : ∀ d ∈ dips, d.1 < s.fromIndex ∧ d.2.1 0 s.fromIndex = some ⟨[], s.fromIndex⟩)
    (hf : s.fromIndex = f) (hfc : f < c) (hcv : c ≤ vis 0) (hfuel : c - f ≤ fuel) :
    let s' := dips.foldl (fun st d => (fetchTick ans (some d.1) d.2.1 (d.2.2 + 1) st).1) s
    ∃ n : Nat, c ≤ n ∧ n ≤ log.length ∧
      (fetchTick ans (some c) page fuel s').2 = some (handleUnconfirmed ans ((log.drop f).take (n - f))) := by
  intro s'
  have hs : s' = s := by
    show dips.foldl _ s = s
    induction dips with
    | nil => rfl
    | cons d rest ih =>
      simp only [List.foldl_cons]
      rw [dip_tick_lagging ans d.1 d.2.1 d.2.2 s (hdip d (by simp)).1 (hdip d (by simp)).2]
      exact ih (fun d' hd' => hdip d' (by simp [hd']))
  obtain ⟨n, h1, h2, h3, _, _⟩ := fetch_tick hc ans s f c fuel hf hfc hcv hfuel
  exact ⟨n, h1, h2, by rw [hs]; exact h3⟩

/-- the lagging backend of `exPageF`'s node: it holds the first `have` of the three events and nothing beyond -/
private def exPageLag (have_ : Nat) : Nat → Int → Option Page := fun _ s =>
  if s.toNat ≥ have_ then some ⟨[], s⟩ else some ⟨(exLogF.drop s.toNat).take 1, (min (s.toNat + 1) have_ : Nat)⟩

/-- **Letting the cursor follow a lower count hands messages over twice** — the witness: three token-bridge messages fetched
(sequences 10, 11, 12; cursor 3), one count poll answers 1, the next one 3 again.  The watcher whose cursor follows the count
fetches and hands over sequences 11 and 12 a second time; the pinned loop asks the lagging backend for a page at its cursor,
gets nothing, stays at 3 and hands over nothing again. -/
theorem following_the_count_refetches :
    seqsOf (fetchTickFollow (fun _ => .apiErr) (some 3) (exPageF none) 5 {}) = some [10, 11, 12] ∧
    (fetchTickFollow (fun _ => .apiErr) (some 1) (exPageLag 1) 5 (fetchTickFollow (fun _ => .apiErr) (some 3) (exPageF none) 5 {}).1).1.fromIndex = 1 ∧
    seqsOf (fetchTickFollow (fun _ => .apiErr) (some 3) (exPageF none) 5
      (fetchTickFollow (fun _ => .apiErr) (some 1) (exPageLag 1) 5 (fetchTickFollow (fun _ => .apiErr) (some 3) (exPageF none) 5 {}).1).1) = some [11, 12] ∧
    seqsOf (fetchTick (fun _ => .apiErr) (some 1) (exPageLag 1) 5 (fetchTick (fun _ => .apiErr) (some 3) (exPageF none) 5 {}).1) = some [] ∧
    (fetchTick (fun _ => .apiErr) (some 1) (exPageLag 1) 5 (fetchTick (fun _ => .apiErr) (some 3) (exPageF none) 5 {}).1).1.fromIndex = 3 ∧
    seqsOf (fetchTick (fun _ => .apiErr) (some 3) (exPageF none) 5
      (fetchTick (fun _ => .apiErr) (some 1) (exPageLag 1) 5 (fetchTick (fun _ => .apiErr) (some 3) (exPageF none) 5 {}).1).1) = none := by
  decide

-- the hypotheses of the dip theorems on the example node: it never sends a client back; the lagging backend has nothing at cursor 3
example : NeverBack (exPageLag 1) := by
  intro k s p h
  simp only [exPageLag] at h
  split at h
  · cases h; exact Int.le_refl _
  · cases h; simp only; omega
example : exPageLag 1 0 3 = some ⟨[], 3⟩ := by simp [exPageLag]
example : fetchTick (fun _ => .apiErr) (some 1) (exPageLag 1) 5 { fromIndex := 3 } = ({ fromIndex := 3 }, some []) :=
  dip_tick_lagging _ 1 (exPageLag 1) 4 { fromIndex := 3 } (by decide) (by simp [exPageLag])
example : Consistent exLog3 (fun _ => 3) (fun _ => 2) exPage3 ∧ ((0 : Int) < (2 : Nat)) ∧ 2 ≤ (fun _ : Nat => 3) 0 := ⟨by
  exact { size_pos := fun _ => by decide, vis_mono := fun _ => Nat.le_refl _, vis_le := fun _ => by decide, answer := fun k s _ => by simp [exPage3] }, by decide, by decide⟩

/-! ## token metadata is asked for in the token's own group

`ans` — the answers of the token contracts — is indexed by the token id alone: the model asks for the metadata of token `t`
where `t` lives (the group is the last byte of the id), whatever group the bridge is configured for.  So a genuine attestation
is delivered whatever the two groups are: `genuine_attest_delivered` above has no hypothesis about them. -/

end Whv.C09
