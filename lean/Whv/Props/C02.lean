import Whv.Lemmas.ProcC01
/-!
# C02 — a VAA is published exactly when the node saw the message and quorum signed

Model: `Whv.Proc` (`Whv/Model/Processor.lean`). "Publish" = the step emits `Out.vaa b` (broadcast) and writes `b` to the
store. "Observed" = a `message` / `injection` event produced a signed observation (created `ourVAA`). The gate of an
observation is the entry's snapshot set if it has one, else the current set (`gateSet`) — the code's rule, and the only
reading under which "valid observation" is well defined across guardian-set updates.
-/
namespace Whv.C02
open Whv Whv.Proc

/-- An observation passes the gate: its signature recovers to the address it claims, and that address is a member of
the applicable guardian set. -/
def Accepted (O : Oracle) (s : PState) (o : Obs) : Prop :=
  ∃ g, O.recover o.hash o.sig = some (bytesToAddress o.addr) ∧ gateSet s o.hash = some g ∧
    g.keys.contains (bytesToAddress o.addr) = true

/-- **Soundness.** If a step publishes, it is the handling of an observation for a digest the node has itself observed
(the entry holds `ourVAA`), the published body is exactly that observation's body, the entry was not yet submitted, and
at least `quorum` members of the snapshot set have signed — in particular never for a message the node has not observed
and never below quorum. -/
theorem publish_sound (O : Oracle) (cfg : Config) (s : PState) (e : Event) (s' : PState) (outs : List Out) (b : Bytes)
    (hr : step O cfg s e = .ok s' outs) (hb : Out.vaa b ∈ outs) :
    ∃ o now g st1 v0, e = .observation o now ∧ gateSet s o.hash = some g ∧
      st1 = recordSig (entryOrFresh s o.hash now) (bytesToAddress o.addr) o.sig ∧
      st1.ourVAA = some v0 ∧ st1.submitted = false ∧
      quorum g.keys.length ≤ (assemble g.keys st1.signatures).length ∧
      b = marshal { v0 with sigs := assemble g.keys st1.signatures } ∧
      outs = [Out.vaa b] := by
  cases e with
  | setUpdate g => simp only [step] at hr; cases hr; simp at hb
  | message m now =>
    exfalso
    unfold step handleMessage at hr
    simp only at hr
    split at hr
    · cases hr; simp at hb
    · split at hr
      · cases hr; simp at hb
      · split at hr
        · split at hr
          · cases hr; simp at hb
          · split at hr
            · cases hr; simp at hb
            · split at hr
              · cases hr
              · cases hr; simp [broadcastSignature] at hb
        · split at hr
          · cases hr
          · cases hr; simp [broadcastSignature] at hb
  | injection v now =>
    exfalso
    unfold step handleInjection at hr
    simp only at hr
    split at hr
    · cases hr; simp at hb
    · split at hr
      · cases hr
      · cases hr; simp [broadcastSignature] at hb
  | inbound bytes =>
    exfalso
    unfold step handleInbound at hr
    simp only at hr
    repeat' (split at hr)
    all_goals (first | (cases hr; simp at hb) | cases hr)
  | cleanup now room =>
    exfalso
    unfold step handleCleanup at hr
    simp only at hr
    split at hr
    · cases hr
    · rename_i agg' o hc
      cases hr
      exact cleanupAll_no_vaa _ _ _ _ _ _ _ hc b hb
  | observation o now =>
    unfold step handleObservation at hr
    simp only at hr
    split at hr
    · cases hr; simp at hb
    · split at hr
      · cases hr; simp at hb
      · split at hr
        · cases hr; simp at hb
        · rename_i g hg
          split at hr
          · cases hr; simp at hb
          · unfold obsFinish at hr
            split at hr
            · cases hr
            · split at hr
              · cases hr; simp at hb
              · rename_i v0 hv0
                simp only at hr
                split at hr
                · rename_i hq
                  split at hr
                  · cases hr
                  · cases hr
                    simp at hb
                    subst hb
                    exact ⟨o, now, g, _, v0, rfl, hg, rfl, hv0, hq.2, hq.1, rfl, rfl⟩
                · cases hr; simp at hb

/-- **Completeness ("as soon as").** When an accepted observation is delivered for a digest the node has observed and
not yet published, and with it at least `quorum` members of the snapshot set have signed, this very step publishes:
exactly one broadcast of the assembled VAA, the same bytes go to the store, and the entry is marked submitted. With
the node's own key in the set and a correct signer, the loopback of its own observation is such a delivery — so
publication happens no later than the delivery of the last of the quorum's observations, own included. -/
theorem publish_complete (O : Oracle) (hO : OracleOk O) (cfg : Config) (s : PState) (o : Obs) (now : Int)
    (hacc : Accepted O s o) (st1 : VState)
    (hst1 : st1 = recordSig (entryOrFresh s o.hash now) (bytesToAddress o.addr) o.sig) :
    ∀ g v0, gateSet s o.hash = some g → st1.ourVAA = some v0 → st1.submitted = false →
      (∀ p ∈ (entryOrFresh s o.hash now).signatures, p.2.length = 65) →
      quorum g.keys.length ≤ (assemble g.keys st1.signatures).length →
      ∃ s', step O cfg s (.observation o now) =
          .ok s' [Out.vaa (marshal { v0 with sigs := assemble g.keys st1.signatures })] ∧
        s'.db = alInsert v0.body.id (marshal { v0 with sigs := assemble g.keys st1.signatures }) s.db ∧
        s'.agg = alInsert o.hash { st1 with submitted := true } s.agg := by
  intro g v0 hg hv0 hsub hlen hq
  obtain ⟨g', hrec, hg', hmem⟩ := hacc
  rw [hg] at hg'; cases hg'
  have hslen : o.sig.length = 65 := hO.recover_len _ _ _ hrec
  have hbad : badSigLen g.keys st1.signatures = false := by
    apply badSigLen_false
    intro p hp
    rw [hst1] at hp
    rcases mem_alInsert hp with rfl | hp
    · exact hslen
    · exact hlen p hp
  have hne : (assemble g.keys st1.signatures).length ≠ 0 := by
    have := quorum_pos g.keys.length; omega
  refine ⟨{ s with agg := alInsert o.hash { st1 with submitted := true } s.agg,
                   db := alInsert v0.body.id (marshal { v0 with sigs := assemble g.keys st1.signatures }) s.db }, ?_, rfl, rfl⟩
  unfold step handleObservation
  simp only [hrec, hg, ne_eq, not_true_eq_false, if_false, hmem, Bool.true_eq_false]
  rw [← hst1]
  unfold obsFinish
  simp only [hbad, Bool.false_eq_true, if_false, hv0]
  rw [if_pos ⟨hq, hsub⟩, storeSigned_some _ _ (by simpa using hne)]

/-- **At most once per aggregation lifetime.** Once an entry is marked submitted, no observation publishes again … -/
theorem submitted_never_republished (O : Oracle) (cfg : Config) (s : PState) (o : Obs) (now : Int) (st : VState)
    (hl : s.agg.lookup o.hash = some st) (hsub : st.submitted = true) (s' : PState) (outs : List Out)
    (hr : step O cfg s (.observation o now) = .ok s' outs) : ∀ b, Out.vaa b ∉ outs := by
  intro b hb
  obtain ⟨o', now', g, st1, v0, he, _, hst1, _, hns, _⟩ := publish_sound O cfg s _ s' outs b hr hb
  cases he
  rw [hst1] at hns
  unfold recordSig entryOrFresh at hns
  rw [hl] at hns
  simp only at hns
  rw [hsub] at hns
  cases hns

/-- … and re-observing the message (or injecting again) never resets the flag: `broadcastSignature` keeps `submitted`,
the recorded signatures and the first-seen time. -/
theorem reobserve_keeps_submitted (cfg : Config) (s : PState) (d : Bytes) (v : Vaa) (sig tx : Bytes) (now : Int) (st : VState)
    (hl : s.agg.lookup d = some st) :
    ∃ st', (broadcastSignature cfg s d v sig tx now).1.agg = alInsert d st' s.agg ∧
      st'.submitted = st.submitted ∧ st'.signatures = st.signatures ∧ st'.firstObserved = st.firstObserved ∧
      st'.retryCount = st.retryCount := by
  unfold broadcastSignature entryOrFresh
  rw [hl]
  exact ⟨_, rfl, rfl, rfl, rfl, rfl⟩

/-- **Invalid traffic is a no-op.** An observation that is not `Accepted` — signature does not recover, recovers to
another address than claimed, no guardian set is known, or the signer is not a member of the applicable set — leaves
the whole node state unchanged and emits nothing (shared with C03). -/
theorem invalid_observation_noop (O : Oracle) (cfg : Config) (s : PState) (o : Obs) (now : Int)
    (h : ¬ Accepted O s o) : step O cfg s (.observation o now) = .ok s [] := by
  unfold step handleObservation
  simp only
  cases hrec : O.recover o.hash o.sig with
  | none => rfl
  | some signer =>
    simp only
    by_cases haddr : bytesToAddress o.addr = signer
    · rw [if_neg (by simpa using haddr)]
      cases hg : gateSet s o.hash with
      | none => rfl
      | some g =>
        simp only
        cases hm : g.keys.contains (bytesToAddress o.addr) with
        | false => simp
        | true =>
          exfalso
          exact h ⟨g, by rw [hrec, haddr], hg, hm⟩
    · rw [if_pos (by simpa using haddr)]

/-- **The governance emitter is never signed from chain**: a chain message naming the governance emitter changes
nothing and emits nothing — no observation, no signature, no aggregation entry. -/
theorem governance_message_never_signed (O : Oracle) (cfg : Config) (s : PState) (m : Msg) (now : Int)
    (h : m.emitter = cfg.govEmitter ∧ m.emitterChain = cfg.govChain) :
    step O cfg s (.message m now) = .ok s [] := by
  unfold step handleMessage
  simp only
  cases hg : s.gs with
  | none => rfl
  | some g =>
    simp only
    rw [if_pos (by simpa [vaaOfMsg] using h)]

/-- A chain message (or an injection) that arrives before the first guardian-set update is dropped: never signed, so it
never counts as observed. -/
theorem before_first_set_dropped (O : Oracle) (cfg : Config) (s : PState) (hgs : s.gs = none) (m : Msg) (v : Vaa) (now : Int) :
    step O cfg s (.message m now) = .ok s [] ∧ step O cfg s (.injection v now) = .ok s [] := by
  constructor
  · unfold step handleMessage; simp only [hgs]
  · unfold step handleInjection; simp only [hgs]

/-- A message whose quorum VAA is already stored with a timestamp more than the settlement time older is dropped. -/
theorem settled_message_dropped (O : Oracle) (cfg : Config) (s : PState) (g : GSet) (hgs : s.gs = some g) (m : Msg) (now : Int)
    (hng : ¬ (m.emitter = cfg.govEmitter ∧ m.emitterChain = cfg.govChain)) (vb : Bytes) (ex : Vaa)
    (hdb : s.db.lookup (vaaOfMsg g.index m).body.id = some vb) (hun : unmarshal vb = some ex)
    (hlate : (m.tsSec * 1000000000 + m.tsNsec) - (ex.body.ts : Int) * 1000000000 > settlementTime) :
    step O cfg s (.message m now) = .ok s [] := by
  unfold step handleMessage
  simp only [hgs]
  rw [if_neg (by simpa [vaaOfMsg] using hng)]
  simp only [hdb, hun]
  rw [if_pos hlate]

/-- **What a local observation does**: it signs the digest of exactly the VAA built from the message, broadcasts that
observation, loops it back, and files the VAA as the node's own under that digest with the current set as snapshot. -/
theorem local_observation (O : Oracle) (cfg : Config) (s : PState) (g : GSet) (hgs : s.gs = some g) (m : Msg) (now : Int)
    (hng : ¬ (m.emitter = cfg.govEmitter ∧ m.emitterChain = cfg.govChain))
    (hdb : s.db.lookup (vaaOfMsg g.index m).body.id = none) (sig : Bytes)
    (hsig : O.sign (O.digestOf (vaaOfMsg g.index m).body) = some sig) :
    let v := vaaOfMsg g.index m
    let d := O.digestOf v.body
    let ob : Obs := { addr := cfg.ourAddr, hash := d, sig := sig, txHash := m.txHash }
    ∃ s', step O cfg s (.message m now) = .ok s' [Out.obs ob, Out.loopback ob] ∧ s'.db = s.db ∧ s'.gs = s.gs ∧
      ∃ st, s'.agg.lookup d = some st ∧ st.ourVAA = some v ∧ st.gs = some g ∧ st.ourMsg = some ob := by
  intro v d ob
  unfold step handleMessage
  simp only [hgs]
  rw [if_neg (by simpa [vaaOfMsg] using hng)]
  simp only [hdb, hsig]
  refine ⟨_, rfl, rfl, hgs ▸ rfl, ?_⟩
  unfold broadcastSignature
  simp only
  exact ⟨_, lookup_alInsert_self _ _ _, rfl, hgs, rfl⟩

end Whv.C02
