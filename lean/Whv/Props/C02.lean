import Whv.Lemmas.ProcC01
import Whv.Lemmas.Confluence
import Whv.Lemmas.Frame
/-!
# C02 — a VAA is published exactly when the node saw the message and quorum signed

Model: `Whv.Proc` (`Whv/Model/Processor.lean`). "Publish" = the step emits `Out.vaa b` (broadcast) and writes `b` to the
store. "Observed" = a `message` / `injection` event produced a signed observation (created `ourVAA`). The gate of an
observation is the entry's snapshot set if it has one, else the current set (`gateSet`) — the code's rule, and the only
reading under which "valid observation" is well defined across guardian-set updates.
-/
namespace Whv.C02
open Whv Whv.Proc

/-- An observation passes the gate: its signature recovers to the address it claims, and that address is a member of
the applicable guardian set. -/
def Accepted (O : Oracle) (s : PState) (o : Obs) : Prop :=
  ∃ g, O.recover o.hash o.sig = some (bytesToAddress o.addr) ∧ gateSet s o.hash = some g ∧
    g.keys.contains (bytesToAddress o.addr) = true

/-- **Soundness.** If a step publishes, it is the handling of an observation for a digest the node has itself observed
(the entry holds `ourVAA`), the published body is exactly that observation's body, the entry was not yet submitted, and
at least `quorum` members of the snapshot set have signed — in particular never for a message the node has not observed
and never below quorum. -/
theorem publish_sound (O : Oracle) (cfg : Config) (s : PState) (e : Event) (s' : PState) (outs : List Out) (b : Bytes)
    (hr : step O cfg s e = .ok s' outs) (hb : Out.vaa b ∈ outs) :
    ∃ o now g st1 v0, e = .observation o now ∧ gateSet s o.hash = some g ∧
      st1 = recordSig (entryOrFresh s o.hash now) (bytesToAddress o.addr) o.sig ∧
      st1.ourVAA = some v0 ∧ st1.submitted = false ∧
      quorum g.keys.length ≤ (assemble g.keys st1.signatures).length ∧
      b = marshal { v0 with sigs := assemble g.keys st1.signatures } ∧
      outs = [Out.vaa b] := by
  cases e with
  | setUpdate g => simp only [step] at hr; cases hr; simp at hb
  | message m now =>
    exfalso
    unfold step handleMessage at hr
    simp only at hr
    split at hr
    · cases hr; simp at hb
    · split at hr
      · cases hr; simp at hb
      · split at hr
        · split at hr
          · cases hr; simp at hb
          · split at hr
            · cases hr; simp at hb
            · split at hr
              · cases hr
              · cases hr; simp [broadcastSignature] at hb
        · split at hr
          · cases hr
          · cases hr; simp [broadcastSignature] at hb
  | injection v now =>
    exfalso
    unfold step handleInjection at hr
    simp only at hr
    split at hr
    · cases hr; simp at hb
    · split at hr
      · cases hr
      · cases hr; simp [broadcastSignature] at hb
  | inbound bytes =>
    exfalso
    unfold step handleInbound at hr
    simp only at hr
    repeat' (split at hr)
    all_goals (first | (cases hr; simp at hb) | cases hr)
  | cleanup now room =>
    exfalso
    unfold step handleCleanup at hr
    simp only at hr
    split at hr
    · cases hr
    · rename_i agg' o hc
      cases hr
      exact cleanupAll_no_vaa _ _ _ _ _ _ _ hc b hb
  | observation o now =>
    unfold step handleObservation at hr
    simp only at hr
    split at hr
    · cases hr; simp at hb
    · split at hr
      · cases hr; simp at hb
      · split at hr
        · cases hr; simp at hb
        · rename_i g hg
          split at hr
          · cases hr; simp at hb
          · unfold obsFinish at hr
            split at hr
            · cases hr
            · split at hr
              · cases hr; simp at hb
              · rename_i v0 hv0
                simp only at hr
                split at hr
                · rename_i hq
                  split at hr
                  · cases hr
                  · cases hr
                    simp at hb
                    subst hb
                    exact ⟨o, now, g, _, v0, rfl, hg, rfl, hv0, hq.2, hq.1, rfl, rfl⟩
                · cases hr; simp at hb

/-- **Completeness ("as soon as").** When an accepted observation is delivered for a digest the node has observed and
not yet published, and with it at least `quorum` members of the snapshot set have signed, this very step publishes:
exactly one broadcast of the assembled VAA, the same bytes go to the store, and the entry is marked submitted. With
the node's own key in the set and a correct signer, the loopback of its own observation is such a delivery — so
publication happens no later than the delivery of the last of the quorum's observations, own included. -/
theorem publish_complete (O : Oracle) (hO : OracleOk O) (cfg : Config) (s : PState) (o : Obs) (now : Int)
    (hacc : Accepted O s o) (st1 : VState)
    (hst1 : st1 = recordSig (entryOrFresh s o.hash now) (bytesToAddress o.addr) o.sig) :
    ∀ g v0, gateSet s o.hash = some g → st1.ourVAA = some v0 → st1.submitted = false →
      (∀ p ∈ (entryOrFresh s o.hash now).signatures, p.2.length = 65) →
      quorum g.keys.length ≤ (assemble g.keys st1.signatures).length →
      ∃ s', step O cfg s (.observation o now) =
          .ok s' [Out.vaa (marshal { v0 with sigs := assemble g.keys st1.signatures })] ∧
        s'.db = alInsert v0.body.id (marshal { v0 with sigs := assemble g.keys st1.signatures }) s.db ∧
        s'.agg = alInsert o.hash { st1 with submitted := true } s.agg := by
  intro g v0 hg hv0 hsub hlen hq
  obtain ⟨g', hrec, hg', hmem⟩ := hacc
  rw [hg] at hg'; cases hg'
  have hslen : o.sig.length = 65 := hO.recover_len _ _ _ hrec
  have hbad : badSigLen g.keys st1.signatures = false := by
    apply badSigLen_false
    intro p hp
    rw [hst1] at hp
    rcases mem_alInsert hp with rfl | hp
    · exact hslen
    · exact hlen p hp
  have hne : (assemble g.keys st1.signatures).length ≠ 0 := by
    have := quorum_pos g.keys.length; omega
  refine ⟨{ s with agg := alInsert o.hash { st1 with submitted := true } s.agg,
                   db := alInsert v0.body.id (marshal { v0 with sigs := assemble g.keys st1.signatures }) s.db }, ?_, rfl, rfl⟩
  unfold step handleObservation
  simp only [hrec, hg, ne_eq, not_true_eq_false, if_false, hmem, Bool.true_eq_false]
  rw [← hst1]
  unfold obsFinish
  simp only [hbad, Bool.false_eq_true, if_false, hv0]
  rw [if_pos ⟨hq, hsub⟩, storeSigned_some _ _ (by simpa using hne)]

/-- **At most once per aggregation lifetime.** Once an entry is marked submitted, no observation publishes again … -/
theorem submitted_never_republished (O : Oracle) (cfg : Config) (s : PState) (o : Obs) (now : Int) (st : VState)
    (hl : s.agg.lookup o.hash = some st) (hsub : st.submitted = true) (s' : PState) (outs : List Out)
    (hr : step O cfg s (.observation o now) = .ok s' outs) : ∀ b, Out.vaa b ∉ outs := by
  intro b hb
  obtain ⟨o', now', g, st1, v0, he, _, hst1, _, hns, _⟩ := publish_sound O cfg s _ s' outs b hr hb
  cases he
  rw [hst1] at hns
  unfold recordSig entryOrFresh at hns
  rw [hl] at hns
  simp only at hns
  rw [hsub] at hns
  cases hns

/-- … and re-observing the message (or injecting again) never resets the flag: `broadcastSignature` keeps `submitted`,
the recorded signatures and the first-seen time. -/
theorem reobserve_keeps_submitted (cfg : Config) (s : PState) (d : Bytes) (v : Vaa) (sig tx : Bytes) (now : Int) (st : VState)
    (hl : s.agg.lookup d = some st) :
    ∃ st', (broadcastSignature cfg s d v sig tx now).1.agg = alInsert d st' s.agg ∧
      st'.submitted = st.submitted ∧ st'.signatures = st.signatures ∧ st'.firstObserved = st.firstObserved ∧
      st'.retryCount = st.retryCount := by
  unfold broadcastSignature entryOrFresh
  rw [hl]
  exact ⟨_, rfl, rfl, rfl, rfl, rfl⟩

/-- **Invalid traffic is a no-op.** An observation that is not `Accepted` — signature does not recover, recovers to
another address than claimed, no guardian set is known, or the signer is not a member of the applicable set — leaves
the whole node state unchanged and emits nothing (shared with C03). -/
theorem invalid_observation_noop (O : Oracle) (cfg : Config) (s : PState) (o : Obs) (now : Int)
    (h : ¬ Accepted O s o) : step O cfg s (.observation o now) = .ok s [] := by
  unfold step handleObservation
  simp only
  cases hrec : O.recover o.hash o.sig with
  | none => rfl
  | some signer =>
    simp only
    by_cases haddr : bytesToAddress o.addr = signer
    · rw [if_neg (by simpa using haddr)]
      cases hg : gateSet s o.hash with
      | none => rfl
      | some g =>
        simp only
        cases hm : g.keys.contains (bytesToAddress o.addr) with
        | false => simp
        | true =>
          exfalso
          exact h ⟨g, by rw [hrec, haddr], hg, hm⟩
    · rw [if_pos (by simpa using haddr)]

/-- **The governance emitter is never signed from chain**: a chain message naming the governance emitter changes
nothing and emits nothing — no observation, no signature, no aggregation entry. -/
theorem governance_message_never_signed (O : Oracle) (cfg : Config) (s : PState) (m : Msg) (now : Int)
    (h : m.emitter = cfg.govEmitter ∧ m.emitterChain = cfg.govChain) :
    step O cfg s (.message m now) = .ok s [] := by
  unfold step handleMessage
  simp only
  cases hg : s.gs with
  | none => rfl
  | some g =>
    simp only
    rw [if_pos (by simpa [vaaOfMsg] using h)]

/-- A chain message (or an injection) that arrives before the first guardian-set update is dropped: never signed, so it
never counts as observed. -/
theorem before_first_set_dropped (O : Oracle) (cfg : Config) (s : PState) (hgs : s.gs = none) (m : Msg) (v : Vaa) (now : Int) :
    step O cfg s (.message m now) = .ok s [] ∧ step O cfg s (.injection v now) = .ok s [] := by
  constructor
  · unfold step handleMessage; simp only [hgs]
  · unfold step handleInjection; simp only [hgs]

/-- A message whose quorum VAA is already stored with a timestamp more than the settlement time older is dropped. -/
theorem settled_message_dropped (O : Oracle) (cfg : Config) (s : PState) (g : GSet) (hgs : s.gs = some g) (m : Msg) (now : Int)
    (hng : ¬ (m.emitter = cfg.govEmitter ∧ m.emitterChain = cfg.govChain)) (vb : Bytes) (ex : Vaa)
    (hdb : s.db.lookup (vaaOfMsg g.index m).body.id = some vb) (hun : unmarshal vb = some ex)
    (hlate : (m.tsSec * 1000000000 + m.tsNsec) - (ex.body.ts : Int) * 1000000000 > settlementTime) :
    step O cfg s (.message m now) = .ok s [] := by
  unfold step handleMessage
  simp only [hgs]
  rw [if_neg (by simpa [vaaOfMsg] using hng)]
  simp only [hdb, hun]
  rw [if_pos hlate]

/-- **What a local observation does**: it signs the digest of exactly the VAA built from the message, broadcasts that
observation, loops it back, and files the VAA as the node's own under that digest with the current set as snapshot. -/
theorem local_observation (O : Oracle) (cfg : Config) (s : PState) (g : GSet) (hgs : s.gs = some g) (m : Msg) (now : Int)
    (hng : ¬ (m.emitter = cfg.govEmitter ∧ m.emitterChain = cfg.govChain))
    (hdb : s.db.lookup (vaaOfMsg g.index m).body.id = none) (sig : Bytes)
    (hsig : O.sign (O.digestOf (vaaOfMsg g.index m).body) = some sig) :
    let v := vaaOfMsg g.index m
    let d := O.digestOf v.body
    let ob : Obs := { addr := cfg.ourAddr, hash := d, sig := sig, txHash := m.txHash }
    ∃ s', step O cfg s (.message m now) = .ok s' [Out.obs ob, Out.loopback ob] ∧ s'.db = s.db ∧ s'.gs = s.gs ∧
      ∃ st, s'.agg.lookup d = some st ∧ st.ourVAA = some v ∧ st.gs = some g ∧ st.ourMsg = some ob := by
  intro v d ob
  unfold step handleMessage
  simp only [hgs]
  rw [if_neg (by simpa [vaaOfMsg] using hng)]
  simp only [hdb, hsig]
  refine ⟨_, rfl, rfl, hgs ▸ rfl, ?_⟩
  unfold broadcastSignature
  simp only
  exact ⟨_, lookup_alInsert_self _ _ _, rfl, hgs, rfl⟩

/-! ## Order independence (`c02_confluence`)

One chain message `m`, one guardian set `g`, and any list of deliveries made of `message m _` events and observations
for the digest of `m` — valid ones by members, forged ones, duplicates, by non-members, the node's own loopback — in any
order. Whether and when the node publishes is characterised by the list alone, and, once the own loopback is known to come
after the message (causality), by the *set* of events alone. Proofs: `Whv/Lemmas/Confluence.lean`. -/

/-- The digest under which the chain message `m` is aggregated while `g` is the current set. -/
def digestOfMsg (O : Oracle) (g : GSet) (m : Msg) : Bytes := O.digestOf (vaaOfMsg g.index m).body

/-- The setting: a well-behaved crypto oracle, a guardian set with distinct keys which is the node's current set, a chain
message not from the governance emitter, and a start state that has neither an aggregation entry for its digest nor a
stored VAA for its id. -/
structure Window (O : Oracle) (cfg : Config) (g : GSet) (m : Msg) (s0 : PState) : Prop where
  oracle : OracleOk O
  gset : GSetOk g
  notGov : ¬ (m.emitter = cfg.govEmitter ∧ m.emitterChain = cfg.govChain)
  cur : s0.gs = some g
  noEntry : s0.agg.lookup (digestOfMsg O g m) = none
  noStore : s0.db.lookup (vaaOfMsg g.index m).body.id = none

/-- The deliveries considered: the message `m` itself (at any time), and arbitrary observations for its digest. -/
def WindowEvents (O : Oracle) (g : GSet) (m : Msg) (es : List Event) : Prop :=
  ∀ e ∈ es, (∃ now, e = .message m now) ∨ (∃ o now, e = .observation o now ∧ o.hash = digestOfMsg O g m)

/-- A valid observation by a member of `g` (inside a window this is `Accepted` at every state, see `Proc.pre_gate`). -/
def AcceptedObs (O : Oracle) (g : GSet) (m : Msg) (o : Obs) : Prop :=
  O.recover (digestOfMsg O g m) o.sig = some (bytesToAddress o.addr) ∧ bytesToAddress o.addr ∈ g.keys

/-- The distinct members of `g` from which `es` contains a valid observation (in guardian-set order). -/
def acceptedSigners (O : Oracle) (g : GSet) (m : Msg) (es : List Event) : List Addr :=
  Proc.acceptedSigners O g (digestOfMsg O g m) es

/-- The run over `es` broadcasts the signed VAA `b` at some step. -/
def PublishedBytes (O : Oracle) (cfg : Config) (s0 : PState) (es : List Event) (b : Bytes) : Prop :=
  ∃ sf outs, run O cfg s0 es = .ok (sf, outs) ∧ ∃ os ∈ outs, Out.vaa b ∈ os

def Published (O : Oracle) (cfg : Config) (s0 : PState) (es : List Event) : Prop := ∃ b, PublishedBytes O cfg s0 es b

/-- Delivered after the events `pre`, `e` completes the quorum: it is a valid observation by a member, the message has
been seen before it, and with it at least `quorum` distinct members have signed. -/
def CompletesQuorum (O : Oracle) (g : GSet) (m : Msg) (pre : List Event) (e : Event) : Prop :=
  ∃ o now, e = .observation o now ∧ AcceptedObs O g m o ∧ (∃ now', Event.message m now' ∈ pre) ∧
    quorum g.keys.length ≤ (acceptedSigners O g m (pre ++ [e])).length

/-- Position `k` of `es` completes the quorum. -/
def CompletesAt (O : Oracle) (g : GSet) (m : Msg) (es : List Event) (k : Nat) : Prop :=
  ∃ e, es[k]? = some e ∧ CompletesQuorum O g m (es.take k) e

/-- Causality: a valid observation by a member — the node's own loopback, when its key is in the set — is delivered
after a `message` event (the loopback is *caused* by the message event). -/
def LoopbackAfterMessage (O : Oracle) (g : GSet) (m : Msg) (es : List Event) : Prop :=
  ∃ es1 o now es2, es = es1 ++ Event.observation o now :: es2 ∧ AcceptedObs O g m o ∧ ∃ now', Event.message m now' ∈ es1

/-- `acceptedSigners` is what its name says. -/
theorem mem_acceptedSigners (O : Oracle) (g : GSet) (m : Msg) (es : List Event) (a : Addr) :
    a ∈ acceptedSigners O g m es ↔
      a ∈ g.keys ∧ ∃ o now, Event.observation o now ∈ es ∧ O.recover (digestOfMsg O g m) o.sig = some a ∧
        bytesToAddress o.addr = a := by
  unfold acceptedSigners Proc.acceptedSigners
  rw [List.mem_filter, List.contains_iff_mem, mem_accAddrs]
  constructor
  · rintro ⟨hk, o, now, he, hacc, rfl⟩
    exact ⟨hk, o, now, he, ((isAcc_iff _ _ _ _).1 hacc).1, rfl⟩
  · rintro ⟨hk, o, now, he, hrec, rfl⟩
    exact ⟨hk, o, now, he, (isAcc_iff _ _ _ _).2 ⟨hrec, hk⟩, rfl⟩

theorem acceptedSigners_nodup (O : Oracle) {g : GSet} (hg : GSetOk g) (m : Msg) (es : List Event) :
    (acceptedSigners O g m es).Nodup :=
  Proc.acceptedSigners_nodup hg _ es

/-- The own loopback is such an observation when the node's key is a member and its signer is correct. -/
theorem own_loopback_accepted (O : Oracle) (cfg : Config) (g : GSet) (m : Msg) (sig tx : Bytes)
    (hrec : O.recover (digestOfMsg O g m) sig = some (bytesToAddress cfg.ourAddr))
    (hmem : bytesToAddress cfg.ourAddr ∈ g.keys) :
    AcceptedObs O g m { addr := cfg.ourAddr, hash := digestOfMsg O g m, sig := sig, txHash := tx } :=
  ⟨hrec, hmem⟩

private theorem msg_mem_iff {O : Oracle} {g : GSet} {m : Msg} {pre : List Event}
    (hpre : ∀ x ∈ pre, EvOk m (digestOfMsg O g m) x) :
    hasMsg pre = true ↔ ∃ now', Event.message m now' ∈ pre := by
  rw [hasMsg_iff]
  constructor
  · rintro ⟨x, hx, hm⟩
    rcases hpre x hx with ⟨now, rfl⟩ | ⟨o, now, rfl, _⟩
    · exact ⟨now, hx⟩
    · simp [isMsg] at hm
  · rintro ⟨now, h⟩; exact ⟨_, h, rfl⟩

private theorem acc_iff {O : Oracle} {g : GSet} {m : Msg} (o : Obs) (now : Int) :
    (accAddr O g (digestOfMsg O g m) (.observation o now)).isSome = true ↔ AcceptedObs O g m o := by
  unfold AcceptedObs
  rw [← isAcc_iff]
  by_cases h : isAcc O g (digestOfMsg O g m) o = true <;> simp [accAddr, h]

private theorem completes_iff_trigger {O : Oracle} {g : GSet} {m : Msg} {pre : List Event} {e : Event}
    (hpre : ∀ x ∈ pre, EvOk m (digestOfMsg O g m) x) :
    CompletesQuorum O g m pre e ↔ Trigger O g (digestOfMsg O g m) pre e := by
  constructor
  · rintro ⟨o, now, rfl, hacc, hm, hq⟩
    exact ⟨(acc_iff o now).2 hacc, (msg_mem_iff hpre).2 hm, hq⟩
  · rintro ⟨h1, h2, h3⟩
    cases e with
    | observation o now => exact ⟨o, now, rfl, (acc_iff o now).1 h1, (msg_mem_iff hpre).1 h2, h3⟩
    | _ => simp [accAddr] at h1

private theorem at_iff_split {α : Type} (P : List α → α → Prop) (es : List α) :
    (∃ k e, es[k]? = some e ∧ P (es.take k) e) ↔ ∃ es1 e es2, es = es1 ++ e :: es2 ∧ P es1 e := by
  constructor
  · rintro ⟨k, e, hk, hp⟩
    refine ⟨es.take k, e, es.drop (k + 1), ?_, hp⟩
    obtain ⟨hlt, he⟩ := List.getElem?_eq_some_iff.1 hk
    rw [← he, List.getElem_cons_drop, List.take_append_drop]
  · rintro ⟨es1, e, es2, rfl, hp⟩
    exact ⟨es1.length, e, by simp, by simpa using hp⟩

private theorem loopback_afterMsg {O : Oracle} {g : GSet} {m : Msg} {es : List Event}
    (h : LoopbackAfterMessage O g m es) : AfterMsg O g (digestOfMsg O g m) es := by
  obtain ⟨es1, o, now, es2, rfl, hacc, now', hm⟩ := h
  exact ⟨es1, _, es2, rfl, hasMsg_iff.2 ⟨_, hm, rfl⟩, (acc_iff o now).2 hacc⟩

private theorem window_describe {O : Oracle} {cfg : Config} {g : GSet} {m : Msg} {s0 : PState}
    (hW : Window O cfg g m s0) {es : List Event} (hev : WindowEvents O g m es) :
    (NoTrig O g (digestOfMsg O g m) [] es ∧
      ∃ sf outs, run O cfg s0 es = .ok (sf, outs) ∧ Pre O g m (digestOfMsg O g m) es sf ∧ NoVaa outs) ∨
    (∃ es1 o now es2 s1 outs1 sf outs2,
      es = es1 ++ Event.observation o now :: es2 ∧ NoTrig O g (digestOfMsg O g m) [] es1 ∧
      Trigger O g (digestOfMsg O g m) es1 (.observation o now) ∧
      run O cfg s0 es1 = .ok (s1, outs1) ∧ NoVaa outs1 ∧
      run O cfg s0 es = .ok (sf, outs1 ++ [Out.vaa (marshal { vaaOfMsg g.index m with
          sigs := assemble g.keys
            (recordSig (entryOrFresh s1 (digestOfMsg O g m) now) (bytesToAddress o.addr) o.sig).signatures })] :: outs2) ∧
      NoVaa outs2 ∧ Post (digestOfMsg O g m) sf ∧
      C06.Valid (O.recover (digestOfMsg O g m))
        (assemble g.keys
          (recordSig (entryOrFresh s1 (digestOfMsg O g m) now) (bytesToAddress o.addr) o.sig).signatures) g.keys ∧
      (assemble g.keys
          (recordSig (entryOrFresh s1 (digestOfMsg O g m) now) (bytesToAddress o.addr) o.sig).signatures).length =
        (Proc.acceptedSigners O g (digestOfMsg O g m) (es1 ++ [.observation o now])).length) :=
  run_describe hW.oracle cfg hW.gset (d := digestOfMsg O g m) rfl hW.notGov
    (pre_init hW.cur hW.noEntry hW.noStore) es hev

private theorem published_of_shape {O : Oracle} {cfg : Config} {s0 sf : PState} {es : List Event} {o1 o2 : List (List Out)}
    {b : Bytes} (hr : run O cfg s0 es = .ok (sf, o1 ++ [Out.vaa b] :: o2)) : Published O cfg s0 es :=
  ⟨b, sf, _, hr, [Out.vaa b], by simp, by simp⟩

/-- Inside a window the run never panics. -/
theorem window_runs {O : Oracle} {cfg : Config} {g : GSet} {m : Msg} {s0 : PState}
    (hW : Window O cfg g m s0) {es : List Event} (hev : WindowEvents O g m es) :
    ∃ sf outs, run O cfg s0 es = .ok (sf, outs) := by
  rcases window_describe hW hev with ⟨_, sf, outs, hr, _⟩ | ⟨_, _, _, _, _, _, sf, _, _, _, _, _, _, hr, _⟩
  · exact ⟨sf, outs, hr⟩
  · exact ⟨sf, _, hr⟩

private theorem published_iff_trigger {O : Oracle} {cfg : Config} {g : GSet} {m : Msg} {s0 : PState}
    (hW : Window O cfg g m s0) {es : List Event} (hev : WindowEvents O g m es) :
    Published O cfg s0 es ↔ ∃ es1 e es2, es = es1 ++ e :: es2 ∧ Trigger O g (digestOfMsg O g m) es1 e := by
  rcases window_describe hW hev with ⟨hn, sf, outs, hr, _, hnv⟩ |
    ⟨es1, o, now, es2, s1, outs1, sf, outs2, rfl, _, ht, _, _, hr, _⟩
  · constructor
    · rintro ⟨b, sf', outs', hr', os, hos, hb⟩
      rw [hr] at hr'
      simp only [Except.ok.injEq, Prod.mk.injEq] at hr'
      obtain ⟨_, rfl⟩ := hr'
      exact absurd hb (hnv os hos b)
    · rintro ⟨es1, e, es2, he, ht⟩
      exact absurd (by simpa using ht) ((noTrig_iff _ _ _ _ _).1 hn es1 e es2 he)
  · constructor
    · intro _; exact ⟨es1, _, es2, rfl, ht⟩
    · intro _; exact published_of_shape hr

/-- **Characterisation.** The node publishes iff some position of the list completes the quorum: a valid observation by
a member, delivered after a `message` event, with which at least `quorum` distinct members have signed. -/
theorem published_iff_completes {O : Oracle} {cfg : Config} {g : GSet} {m : Msg} {s0 : PState}
    (hW : Window O cfg g m s0) {es : List Event} (hev : WindowEvents O g m es) :
    Published O cfg s0 es ↔ ∃ k, CompletesAt O g m es k := by
  rw [published_iff_trigger hW hev]
  unfold CompletesAt
  rw [at_iff_split (fun pre e => CompletesQuorum O g m pre e) es]
  constructor
  · rintro ⟨es1, e, es2, rfl, ht⟩
    exact ⟨es1, e, es2, rfl, (completes_iff_trigger (fun x hx => hev x (by simp [hx]))).2 ht⟩
  · rintro ⟨es1, e, es2, rfl, ht⟩
    exact ⟨es1, e, es2, rfl, (completes_iff_trigger (fun x hx => hev x (by simp [hx]))).1 ht⟩

/-- **Equivalently**: the final entry for the digest is marked submitted. -/
theorem published_iff_submitted {O : Oracle} {cfg : Config} {g : GSet} {m : Msg} {s0 : PState}
    (hW : Window O cfg g m s0) {es : List Event} (hev : WindowEvents O g m es) (sf : PState) (outs : List (List Out))
    (hr : run O cfg s0 es = .ok (sf, outs)) :
    Published O cfg s0 es ↔ ∃ st, sf.agg.lookup (digestOfMsg O g m) = some st ∧ st.submitted = true := by
  rcases window_describe hW hev with ⟨hn, sf', outs', hr', hpre, hnv⟩ |
    ⟨es1, o, now, es2, s1, outs1, sf', outs2, rfl, _, ht, _, _, hr', _, hpost, _⟩
  · rw [hr] at hr'
    simp only [Except.ok.injEq, Prod.mk.injEq] at hr'
    obtain ⟨rfl, rfl⟩ := hr'
    constructor
    · rintro ⟨b, sf', outs', hr', os, hos, hb⟩
      rw [hr] at hr'
      simp only [Except.ok.injEq, Prod.mk.injEq] at hr'
      obtain ⟨_, rfl⟩ := hr'
      exact absurd hb (hnv os hos b)
    · rintro ⟨st, hl, hsub⟩
      have := hpre.sub 0
      unfold entryOrFresh at this
      rw [hl] at this
      simp only at this
      rw [hsub] at this
      cases this
  · rw [hr] at hr'
    simp only [Except.ok.injEq, Prod.mk.injEq] at hr'
    obtain ⟨rfl, rfl⟩ := hr'
    obtain ⟨st, hl, hsub, _⟩ := hpost
    constructor
    · intro _; exact ⟨st, hl, hsub⟩
    · intro _; exact published_of_shape hr

/-- **At most once.** The whole run broadcasts at most one signed VAA — exactly one iff it publishes. -/
theorem published_at_most_once {O : Oracle} {cfg : Config} {g : GSet} {m : Msg} {s0 : PState}
    (hW : Window O cfg g m s0) {es : List Event} (hev : WindowEvents O g m es) (sf : PState) (outs : List (List Out))
    (hr : run O cfg s0 es = .ok (sf, outs)) :
    vaaCount outs ≤ 1 ∧ (Published O cfg s0 es ↔ vaaCount outs = 1) := by
  rcases window_describe hW hev with ⟨hn, sf', outs', hr', hpre, hnv⟩ |
    ⟨es1, o, now, es2, s1, outs1, sf', outs2, rfl, _, ht, _, n1, hr', n2, _⟩
  · rw [hr] at hr'
    simp only [Except.ok.injEq, Prod.mk.injEq] at hr'
    obtain ⟨rfl, rfl⟩ := hr'
    rw [vaaCount_noVaa hnv]
    refine ⟨by omega, ?_⟩
    constructor
    · rintro ⟨b, sf', outs', hr', os, hos, hb⟩
      rw [hr] at hr'
      simp only [Except.ok.injEq, Prod.mk.injEq] at hr'
      obtain ⟨_, rfl⟩ := hr'
      exact absurd hb (hnv os hos b)
    · intro h; cases h
  · rw [hr] at hr'
    simp only [Except.ok.injEq, Prod.mk.injEq] at hr'
    obtain ⟨rfl, rfl⟩ := hr'
    rw [vaaCount_shape _ n1 n2]
    refine ⟨by omega, ?_⟩
    constructor
    · intro _; rfl
    · intro _; exact published_of_shape hr

/-- **What is published, and when.** A step that broadcasts a signed VAA broadcasts nothing else; it is the *first*
position `k` that completes the quorum; and the bytes are the marshalled VAA built from the observed message `m` (so its
body is exactly the node's own observation) carrying the signatures recorded at that moment, assembled in guardian-set
order — a `C06.Valid` list for `g.keys`, one signature per distinct accepted signer among `es[0..k]`, at least `quorum`. -/
theorem published_shape {O : Oracle} {cfg : Config} {g : GSet} {m : Msg} {s0 : PState}
    (hW : Window O cfg g m s0) {es : List Event} (hev : WindowEvents O g m es) (sf : PState) (outs : List (List Out))
    (hr : run O cfg s0 es = .ok (sf, outs)) (os : List Out) (hos : os ∈ outs) (b : Bytes) (hb : Out.vaa b ∈ os) :
    os = [Out.vaa b] ∧
    ∃ k o now s1 outs1, es[k]? = some (.observation o now) ∧ CompletesAt O g m es k ∧ (∀ j < k, ¬ CompletesAt O g m es j) ∧
      run O cfg s0 (es.take k) = .ok (s1, outs1) ∧
      ∃ sigs, sigs = assemble g.keys
            (recordSig (entryOrFresh s1 (digestOfMsg O g m) now) (bytesToAddress o.addr) o.sig).signatures ∧
        b = marshal { vaaOfMsg g.index m with sigs := sigs } ∧
        C06.Valid (O.recover (digestOfMsg O g m)) sigs g.keys ∧
        sigs.length = (acceptedSigners O g m (es.take (k + 1))).length ∧
        quorum g.keys.length ≤ sigs.length := by
  rcases window_describe hW hev with ⟨hn, sf', outs', hr', hpre, hnv⟩ |
    ⟨es1, o, now, es2, s1, outs1, sf', outs2, rfl, hn, ht, r1, n1, hr', n2, _, hval, hlen⟩
  · rw [hr] at hr'
    simp only [Except.ok.injEq, Prod.mk.injEq] at hr'
    obtain ⟨rfl, rfl⟩ := hr'
    exact absurd hb (hnv os hos b)
  · rw [hr] at hr'
    simp only [Except.ok.injEq, Prod.mk.injEq] at hr'
    obtain ⟨rfl, rfl⟩ := hr'
    obtain ⟨hos', rfl⟩ := mem_shape n1 n2 hos hb
    refine ⟨hos', es1.length, o, now, s1, outs1, by simp, ?_, ?_, by simpa using r1, _, rfl, rfl, hval, ?_, ?_⟩
    · refine ⟨Event.observation o now, by simp, ?_⟩
      have : (es1 ++ Event.observation o now :: es2).take es1.length = es1 := by simp
      rw [this]
      exact (completes_iff_trigger (fun x hx => hev x (by simp [hx]))).2 ht
    · rintro j hj ⟨e, hje, hc⟩
      rw [List.getElem?_append_left hj] at hje
      rw [List.take_append_of_le_length (by omega)] at hc
      have hev1 : ∀ x ∈ es1.take j, EvOk m (digestOfMsg O g m) x :=
        fun x hx => hev x (by simp [List.mem_of_mem_take hx])
      have htj := (completes_iff_trigger hev1).1 hc
      obtain ⟨hlt, he⟩ := List.getElem?_eq_some_iff.1 hje
      have hsplit : es1 = es1.take j ++ e :: es1.drop (j + 1) := by
        rw [← he, List.getElem_cons_drop, List.take_append_drop]
      exact (noTrig_iff _ _ _ _ _).1 hn _ _ _ hsplit (by simpa using htj)
    · have : (es1 ++ Event.observation o now :: es2).take (es1.length + 1) = es1 ++ [Event.observation o now] := by
        rw [List.take_append, List.take_of_length_le (by omega)]
        simp
      rw [this]; exact hlen
    · rw [hlen]; exact ht.2.2

/-- **Never without the message, never below quorum** (no causality hypothesis needed). -/
theorem published_needs_message_and_quorum {O : Oracle} {cfg : Config} {g : GSet} {m : Msg} {s0 : PState}
    (hW : Window O cfg g m s0) {es : List Event} (hev : WindowEvents O g m es) (h : Published O cfg s0 es) :
    (∃ now, Event.message m now ∈ es) ∧ quorum g.keys.length ≤ (acceptedSigners O g m es).length := by
  obtain ⟨es1, e, es2, rfl, ht⟩ := (published_iff_trigger hW hev).1 h
  obtain ⟨h1, h2⟩ := trigger_quorum (es2 := es2) ht
  exact ⟨(msg_mem_iff hev).1 h1, h2⟩

/-- **Publication depends only on the set of events.** When a valid observation by a member (the own loopback) comes
after the message, the node publishes iff the list contains the message and valid observations of at least `quorum`
distinct members — a condition that mentions neither order nor multiplicity nor rejected traffic. -/
theorem published_iff_quorum {O : Oracle} {cfg : Config} {g : GSet} {m : Msg} {s0 : PState}
    (hW : Window O cfg g m s0) {es : List Event} (hev : WindowEvents O g m es) (hlb : LoopbackAfterMessage O g m es) :
    Published O cfg s0 es ↔
      (∃ now, Event.message m now ∈ es) ∧ quorum g.keys.length ≤ (acceptedSigners O g m es).length := by
  constructor
  · exact published_needs_message_and_quorum hW hev
  · rintro ⟨_, hq⟩
    exact (published_iff_trigger hW hev).2 (quorum_trigger (loopback_afterMsg hlb) hq)

/-- The accepted signers do not depend on the order of the deliveries … -/
theorem acceptedSigners_perm (O : Oracle) (g : GSet) (m : Msg) {es es' : List Event} (h : es.Perm es') :
    acceptedSigners O g m es = acceptedSigners O g m es' :=
  Proc.acceptedSigners_perm h

/-- … a rejected observation (forged, mis-addressed, by a non-member) contributes nothing … -/
theorem rejected_contributes_nothing (O : Oracle) (g : GSet) (m : Msg) (es1 es2 : List Event) (o : Obs) (now : Int)
    (h : ¬ AcceptedObs O g m o) :
    acceptedSigners O g m (es1 ++ Event.observation o now :: es2) = acceptedSigners O g m (es1 ++ es2) := by
  apply acceptedSigners_congr
  intro a
  have hn : accAddr O g (digestOfMsg O g m) (Event.observation o now) = none := by
    cases hx : accAddr O g (digestOfMsg O g m) (Event.observation o now) with
    | none => rfl
    | some x => exact absurd ((acc_iff o now).1 (by simp [hx])) h
  have e1 : es1 ++ Event.observation o now :: es2 = (es1 ++ [Event.observation o now]) ++ es2 := by simp
  rw [e1, accAddrs_append, accAddrs_single_none hn, ← accAddrs_append]

/-- … neither does a `message` event … -/
theorem message_contributes_nothing (O : Oracle) (g : GSet) (m : Msg) (es1 es2 : List Event) (m' : Msg) (now : Int) :
    acceptedSigners O g m (es1 ++ Event.message m' now :: es2) = acceptedSigners O g m (es1 ++ es2) := by
  apply acceptedSigners_congr
  intro a
  have e1 : es1 ++ Event.message m' now :: es2 = (es1 ++ [Event.message m' now]) ++ es2 := by simp
  rw [e1, accAddrs_append, accAddrs_single_none (by rfl), ← accAddrs_append]

/-- … and a duplicate — the same event again, or any further observation of a member already counted — changes nothing. -/
theorem duplicate_contributes_nothing (O : Oracle) (g : GSet) (m : Msg) (es1 es2 : List Event) (o : Obs) (now : Int)
    (h : bytesToAddress o.addr ∈ acceptedSigners O g m (es1 ++ es2)) :
    acceptedSigners O g m (es1 ++ Event.observation o now :: es2) = acceptedSigners O g m (es1 ++ es2) := by
  apply acceptedSigners_congr
  intro a
  have e1 : es1 ++ Event.observation o now :: es2 = (es1 ++ [Event.observation o now]) ++ es2 := by simp
  cases hx : accAddr O g (digestOfMsg O g m) (Event.observation o now) with
  | none => rw [e1, accAddrs_append, accAddrs_single_none hx, ← accAddrs_append]
  | some x =>
    have hxa : x = bytesToAddress o.addr := by
      simp only [accAddr] at hx
      by_cases hacc : isAcc O g (digestOfMsg O g m) o = true
      · rw [if_pos hacc] at hx; exact (Option.some.inj hx).symm
      · rw [if_neg hacc] at hx; cases hx
    have hin : x ∈ accAddrs O g (digestOfMsg O g m) (es1 ++ es2) := by
      unfold acceptedSigners Proc.acceptedSigners at h
      rw [List.mem_filter, List.contains_iff_mem] at h
      rw [hxa]; exact h.2
    rw [e1, accAddrs_append, accAddrs_single_some hx]
    rw [accAddrs_append] at hin ⊢
    simp only [List.mem_append, List.mem_singleton] at hin ⊢
    constructor
    · rintro ((h | rfl) | h)
      · exact Or.inl h
      · exact hin
      · exact Or.inr h
    · rintro (h | h)
      · exact Or.inl (Or.inl h)
      · exact Or.inr h

/-- The accepted signers depend only on *which* events occur, not on how often or in which order. -/
theorem acceptedSigners_same_events (O : Oracle) (g : GSet) (m : Msg) {es es' : List Event}
    (h : ∀ e, e ∈ es ↔ e ∈ es') : acceptedSigners O g m es = acceptedSigners O g m es' := by
  apply acceptedSigners_congr
  intro a
  rw [mem_accAddrs, mem_accAddrs]
  constructor
  · rintro ⟨o, now, he, hx⟩; exact ⟨o, now, (h _).1 he, hx⟩
  · rintro ⟨o, now, he, hx⟩; exact ⟨o, now, (h _).2 he, hx⟩

/-- **Order and multiplicity independence.** Two causally valid delivery lists with the same *set* of events (any order,
any duplication): the node publishes in one iff it publishes in the other, and what it publishes is in both cases the VAA
of the observed message `m` (same version, guardian-set index and body) with a `C06.Valid` signature list of at least
`quorum` signatures of members of `g`. (The signature subsets themselves may differ: an order that completes the quorum
early publishes fewer signatures.) -/
theorem c02_confluence_same_events {O : Oracle} {cfg : Config} {g : GSet} {m : Msg} {s0 : PState}
    (hW : Window O cfg g m s0) {es es' : List Event} (hev : WindowEvents O g m es) (hsame : ∀ e, e ∈ es ↔ e ∈ es')
    (hlb : LoopbackAfterMessage O g m es) (hlb' : LoopbackAfterMessage O g m es') :
    (Published O cfg s0 es ↔ Published O cfg s0 es') ∧
    ∀ b b', PublishedBytes O cfg s0 es b → PublishedBytes O cfg s0 es' b' →
      ∃ sigs sigs', b = marshal { vaaOfMsg g.index m with sigs := sigs } ∧
        b' = marshal { vaaOfMsg g.index m with sigs := sigs' } ∧
        C06.Valid (O.recover (digestOfMsg O g m)) sigs g.keys ∧ C06.Valid (O.recover (digestOfMsg O g m)) sigs' g.keys ∧
        quorum g.keys.length ≤ sigs.length ∧ quorum g.keys.length ≤ sigs'.length := by
  have hev' : WindowEvents O g m es' := fun e he => hev e ((hsame e).2 he)
  constructor
  · rw [published_iff_quorum hW hev hlb, published_iff_quorum hW hev' hlb', acceptedSigners_same_events O g m hsame]
    constructor
    · rintro ⟨⟨now, h1⟩, h2⟩; exact ⟨⟨now, (hsame _).1 h1⟩, h2⟩
    · rintro ⟨⟨now, h1⟩, h2⟩; exact ⟨⟨now, (hsame _).2 h1⟩, h2⟩
  · rintro b b' ⟨sf, outs, hr, os, hos, hb⟩ ⟨sf', outs', hr', os', hos', hb'⟩
    obtain ⟨_, _, _, _, _, _, _, _, _, _, sigs, _, h1, h2, _, h3⟩ := published_shape hW hev sf outs hr os hos b hb
    obtain ⟨_, _, _, _, _, _, _, _, _, _, sigs', _, h1', h2', _, h3'⟩ := published_shape hW hev' sf' outs' hr' os' hos' b' hb'
    exact ⟨sigs, sigs', h1, h1', h2, h2', h3, h3'⟩

/-- **Order independence** (`c02_confluence`): the same for two causally valid permutations of one multiset of deliveries. -/
theorem c02_confluence {O : Oracle} {cfg : Config} {g : GSet} {m : Msg} {s0 : PState}
    (hW : Window O cfg g m s0) {es es' : List Event} (hev : WindowEvents O g m es) (hperm : es.Perm es')
    (hlb : LoopbackAfterMessage O g m es) (hlb' : LoopbackAfterMessage O g m es') :
    (Published O cfg s0 es ↔ Published O cfg s0 es') ∧
    ∀ b b', PublishedBytes O cfg s0 es b → PublishedBytes O cfg s0 es' b' →
      ∃ sigs sigs', b = marshal { vaaOfMsg g.index m with sigs := sigs } ∧
        b' = marshal { vaaOfMsg g.index m with sigs := sigs' } ∧
        C06.Valid (O.recover (digestOfMsg O g m)) sigs g.keys ∧ C06.Valid (O.recover (digestOfMsg O g m)) sigs' g.keys ∧
        quorum g.keys.length ≤ sigs.length ∧ quorum g.keys.length ≤ sigs'.length :=
  c02_confluence_same_events hW hev (fun _ => hperm.mem_iff) hlb hlb'

/-! Non-vacuity: three guardians (quorum 3), a toy oracle; a parked early signature, a non-member, a duplicate, the own
loopback after the message. The hypotheses hold and the node publishes. -/
namespace Example
def O1 : Oracle :=
  { recover := fun _ s => if s.length = 65 then some (s.take 20) else none, digestOf := fun _ => [7],
    sign := fun _ => some (List.replicate 65 1) }
def cfg1 : Config := { ourAddr := List.replicate 20 1, govChain := 1, govEmitter := [9] }
def g1 : GSet := { index := 0, keys := [List.replicate 20 1, List.replicate 20 2, List.replicate 20 3] }
def m1 : Msg :=
  { txHash := [], tsSec := 0, tsNsec := 0, nonce := 0, sequence := 0, consistency := 0, emitterChain := 2,
    targetChain := 0, emitter := [5], payload := [] }
def ob (k : UInt8) : Obs := { addr := List.replicate 20 k, hash := [7], sig := List.replicate 65 k, txHash := [] }
def s1 : PState := { gs := some g1 }
def es1 : List Event :=
  [.observation (ob 2) 0, .message m1 0, .observation (ob 4) 1, .observation (ob 1) 1, .observation (ob 3) 1,
   .observation (ob 3) 2]

private theorem window1 : Window O1 cfg1 g1 m1 s1 :=
  ⟨⟨fun _ => rfl, fun h s a hr => by
      simp only [O1] at hr
      by_cases hl : s.length = 65
      · exact hl
      · rw [if_neg hl] at hr; cases hr⟩,
   ⟨by decide, by decide⟩, by decide, rfl, rfl, rfl⟩

private theorem events1 : WindowEvents O1 g1 m1 es1 := by
  intro e he
  simp only [es1, List.mem_cons, List.not_mem_nil, or_false] at he
  rcases he with rfl | rfl | rfl | rfl | rfl | rfl
  · exact Or.inr ⟨_, _, rfl, rfl⟩
  · exact Or.inl ⟨_, rfl⟩
  · exact Or.inr ⟨_, _, rfl, rfl⟩
  · exact Or.inr ⟨_, _, rfl, rfl⟩
  · exact Or.inr ⟨_, _, rfl, rfl⟩
  · exact Or.inr ⟨_, _, rfl, rfl⟩

private theorem loopback1 : LoopbackAfterMessage O1 g1 m1 es1 :=
  ⟨[.observation (ob 2) 0, .message m1 0, .observation (ob 4) 1], ob 1, 1, _, rfl, ⟨by decide, by decide⟩, 0, by simp⟩

example : acceptedSigners O1 g1 m1 es1 = g1.keys := by decide

example : Published O1 cfg1 s1 es1 :=
  (published_iff_quorum window1 events1 loopback1).2 ⟨⟨0, by simp [es1]⟩, by decide⟩
end Example

/-! ## Interleaving with traffic about other messages (frame theorem, `Whv/Lemmas/Frame.lean`) -/

/-- What the node broadcast as complete at the steps that handled events about `m`, inside a longer run. -/
def PublishedAtWindowSteps (O : Oracle) (g : GSet) (m : Msg) (es : List Event) (outs : List (List Out)) (b : Bytes) : Prop :=
  ∃ os ∈ pick (digestOfMsg O g m) m es outs, Out.vaa b ∈ os

/-- **Interleaving with other traffic.** Let `es` be *any* event list in which each event is about `m` (the message, observations
for its digest) or about something else (observations for other digests; chain messages, injections, inbound VAAs with another
digest and another message id — valid, forged, duplicated, in any number and order). If the run does not panic, then at the steps
that handle events about `m` the node publishes exactly what it publishes when those events are delivered alone: other traffic can
neither cause, prevent, delay nor alter the publication of `m`'s VAA. Together with `published_iff_quorum`, `published_shape`,
`published_at_most_once` and `c02_confluence` (which speak about the events of `m` alone) this extends them to every such
interleaving. -/
theorem c02_other_traffic {O : Oracle} {cfg : Config} {g : GSet} {m : Msg} {s0 : PState}
    (hsep : Sep (digestOfMsg O g m) (vaaOfMsg g.index m).body.id s0)
    (es : List Event)
    (hall : ∀ e ∈ es, isWin (digestOfMsg O g m) m e = true ∨ Foreign O (digestOfMsg O g m) (vaaOfMsg g.index m).body.id e)
    (sf : PState) (outs : List (List Out)) (hrun : run O cfg s0 es = .ok (sf, outs)) (b : Bytes) :
    PublishedAtWindowSteps O g m es outs b ↔ PublishedBytes O cfg s0 (es.filter (isWin (digestOfMsg O g m) m)) b := by
  obtain ⟨sf', outs', hr', _, hp⟩ :=
    run_frame O cfg (digestOfMsg O g m) (vaaOfMsg g.index m).body.id m (fun _ => rfl) (fun _ => rfl) es s0 s0 hall
      (Same.refl ..) hsep sf outs hrun
  unfold PublishedAtWindowSteps PublishedBytes
  constructor
  · rintro ⟨os, hos, hb⟩
    exact ⟨sf', outs', hr', os, by rw [hp]; exact hos, hb⟩
  · rintro ⟨sf2, outs2, hr2, os, hos, hb⟩
    rw [hr'] at hr2
    cases hr2
    exact ⟨os, by rw [← hp]; exact hos, hb⟩

/-- The events about `m` picked out of an interleaving are window events in the sense of the theorems above. -/
theorem filter_isWin_windowEvents (O : Oracle) (g : GSet) (m : Msg) (es : List Event) :
    WindowEvents O g m (es.filter (isWin (digestOfMsg O g m) m)) := by
  intro e he
  have := (List.mem_filter.1 he).2
  exact (isWin_iff _ m e).1 this

/-- … hence: in any interleaving with other traffic, starting in a window state, `m`'s VAA is published (at a step about `m`) iff
the message and valid observations by a quorum of distinct members are among the events — whatever else is delivered in between. -/
theorem c02_published_iff_quorum_any_traffic {O : Oracle} {cfg : Config} {g : GSet} {m : Msg} {s0 : PState}
    (hW : Window O cfg g m s0) (hsep : Sep (digestOfMsg O g m) (vaaOfMsg g.index m).body.id s0) (es : List Event)
    (hall : ∀ e ∈ es, isWin (digestOfMsg O g m) m e = true ∨ Foreign O (digestOfMsg O g m) (vaaOfMsg g.index m).body.id e)
    (hlb : LoopbackAfterMessage O g m (es.filter (isWin (digestOfMsg O g m) m)))
    (sf : PState) (outs : List (List Out)) (hrun : run O cfg s0 es = .ok (sf, outs)) :
    (∃ b, PublishedAtWindowSteps O g m es outs b) ↔
      (∃ now, Event.message m now ∈ es) ∧
        quorum g.keys.length ≤ (acceptedSigners O g m (es.filter (isWin (digestOfMsg O g m) m))).length := by
  have hiff := published_iff_quorum hW (filter_isWin_windowEvents O g m es) hlb
  have hmem : (∃ now, Event.message m now ∈ es.filter (isWin (digestOfMsg O g m) m)) ↔ (∃ now, Event.message m now ∈ es) := by
    constructor
    · rintro ⟨now, h⟩; exact ⟨now, (List.mem_filter.1 h).1⟩
    · rintro ⟨now, h⟩; exact ⟨now, List.mem_filter.2 ⟨h, by simp [isWin]⟩⟩
  rw [← hmem, ← hiff]
  unfold Published
  constructor
  · rintro ⟨b, hb⟩; exact ⟨b, (c02_other_traffic hsep es hall sf outs hrun b).1 hb⟩
  · rintro ⟨b, hb⟩; exact ⟨b, (c02_other_traffic hsep es hall sf outs hrun b).2 hb⟩

/-- Non-vacuity of `Sep`: the initial state (and any state without other aggregation entries) satisfies it. -/
theorem sep_of_no_entries (d : Bytes) (k : VaaId) (s : PState) (h : s.agg = []) : Sep d k s := by
  intro d' st v _ hl _
  rw [h] at hl
  simp at hl

end Whv.C02
