import Whv.Lemmas.ProcC01
import Whv.Props.C07
/-!
# C01 — only quorum-signed, verifiable VAAs are ever stored or broadcast

Model: `Whv.Proc.step` / `run` (`Whv/Model/Processor.lean`). "Learned from chain" = delivered by a guardian-set
update event (`learnAll`). Hypotheses on the environment (`EventOk`): sets delivered by the chain watcher have
distinct keys and at most 256 of them; injected VAAs come from the governance emitter (the only thing the admin RPC
injects). Crypto is an arbitrary `Oracle`.
-/
namespace Whv.C01
open Whv Whv.Proc

/-- What the statement demands, unfolded through `C06.verify_iff`: every signature recovers — over the VAA's own
digest — to the key at the index it claims, indices lie inside the set and strictly ascend (hence distinct members),
and there are at least `quorum` of them. -/
theorem good_unfold (O : Oracle) (g : GSet) (v : Vaa) (h : Good O g v) :
    (∀ s ∈ v.sigs, s.idx < g.keys.length ∧ O.recover (O.digestOf v.body) s.sig = g.keys[s.idx]?) ∧
    v.sigs.Pairwise (fun a b => a.idx < b.idx) ∧
    quorum g.keys.length ≤ v.sigs.length ∧ v.sigs.length ≤ g.keys.length := by
  have hv := (C06.verify_iff _ _ _).1 h.1
  exact ⟨hv.1, hv.2.1, h.2, C06.accepted_length_le _ _ _ h.1⟩

/-- **Broadcast.** In every run from the initial state — any interleaving of local observations, loopbacks, gossiped
observations (valid, forged, duplicated, by non-members, over other digests), inbound signed VAAs, injections,
guardian-set updates and cleanup ticks — every `SignedVAAWithQuorum` the node broadcasts is the encoding of a VAA that
is `Good` for a guardian set learned from chain. -/
theorem broadcast_good (O : Oracle) (cfg : Config) (es : List Event) (hev : ∀ e ∈ es, EventOk cfg e)
    (sf : PState) (outs : List (List Out)) (hr : run O cfg {} es = .ok (sf, outs)) :
    ∀ os ∈ outs, ∀ b, Out.vaa b ∈ os → ∃ v g, b = marshal v ∧ g ∈ learnAll [] es ∧ Good O g v :=
  (run_inv1 es [] {} (by intro g hg; simp at hg) (inv1_init O cfg) hev sf outs hr).2

/-- **Store.** After every run, every entry of the store is the encoding of a `Good` VAA filed under its own id. -/
theorem store_good (O : Oracle) (cfg : Config) (es : List Event) (hev : ∀ e ∈ es, EventOk cfg e)
    (sf : PState) (outs : List (List Out)) (hr : run O cfg {} es = .ok (sf, outs)) :
    ∀ p ∈ sf.db, ∃ v g, p.2 = marshal v ∧ p.1 = v.body.id ∧ g ∈ learnAll [] es ∧ Good O g v :=
  (run_inv1 es [] {} (by intro g hg; simp at hg) (inv1_init O cfg) hev sf outs hr).1.db

/-- **Assembled VAAs**: what the node publishes from its own observation is `Good` for the set *in force when it
observed the message* (the entry's snapshot), carries exactly the observed body, names that set (chain messages), and
is what gets stored. Stated for any state satisfying the invariant, i.e. any reachable state. -/
theorem assembled_uses_observation_set (O : Oracle) (cfg : Config) (L : List GSet) (hL : ∀ g ∈ L, GSetOk g)
    (s : PState) (h : Inv1 O cfg L s) (o : Obs) (now : Int) (s' : PState) (outs : List Out)
    (hr : step O cfg s (.observation o now) = .ok s' outs) :
    ∀ b, Out.vaa b ∈ outs → ∃ v g, b = marshal v ∧ g ∈ L ∧ Good O g v ∧
      (∃ st, s.agg.lookup o.hash = some st ∧ st.gs = some g ∧ ∃ v0, st.ourVAA = some v0 ∧ v.body = v0.body) ∧
      (¬ isGov cfg v.body → v.gsIndex = g.index) ∧ s'.db = alInsert v.body.id b s.db :=
  (handleObservation_inv1 hL h o now s' outs hr).2

/-- **Peers and backfill**: an inbound VAA is stored only if it is `Good` for the node's *current* set, an already
stored VAA is never replaced by a peer's copy, and nothing is broadcast. -/
theorem inbound_current_set_no_overwrite (O : Oracle) (cfg : Config) (L : List GSet) (s : PState) (h : Inv1 O cfg L s)
    (bytes : Bytes) (s' : PState) (outs : List Out) (hr : step O cfg s (.inbound bytes) = .ok s' outs) :
    outs = [] ∧ (∀ id b, s.db.lookup id = some b → s'.db.lookup id = some b) ∧
    (s'.db = s.db ∨ ∃ v g, unmarshal bytes = some v ∧ s.gs = some g ∧ Good O g v ∧
        s.db.lookup v.body.id = none ∧ s'.db = alInsert v.body.id (marshal v) s.db) :=
  (handleInbound_inv1 h bytes s' outs hr).2

/-- Only observations and inbound VAAs ever write the store: every other event leaves it untouched. -/
theorem other_events_leave_store (O : Oracle) (cfg : Config) (s : PState) (now : Int) (room : Nat) (g : GSet)
    (s' : PState) (outs : List Out) :
    (step O cfg s (.cleanup now room) = .ok s' outs → s'.db = s.db) ∧
    (step O cfg s (.setUpdate g) = .ok s' outs → s'.db = s.db) := by
  constructor
  · intro hr
    simp only [step, handleCleanup] at hr
    split at hr
    · cases hr
    · cases hr; rfl
  · intro hr
    simp only [step] at hr
    cases hr; rfl

/-- **End to end with C04–C07**: what the node publishes passes the signature section of both contracts' verification
(`Whv/Model/Contract.lean`) for the guardian set it was completed for — the quorum formulas being the ones translated from
the Solidity and Ralph sources on this run. Together with `C04.contract_digest_eq` (the contracts hash exactly the signing
body out of the wire form) and `C05.decode_encode` (the wire form carries the VAA unaltered) this is "a VAA the node considers
complete is accepted on chain". -/
theorem published_accepted_on_chain (O : Oracle) (g : GSet) (v : Vaa) (h : Good O g v) (hne : g.keys.length ≠ 0) :
    Whv.Contract.ralAccepts Whv.Gen.C07.ralQuorum (O.recover (O.digestOf v.body)) v.sigs g.keys = true ∧
    Whv.Contract.solAccepts Whv.Gen.C07.solQuorum (O.recover (O.digestOf v.body)) v.sigs g.keys = true := by
  apply Whv.C07.node_complete_accepted_on_chain _ _ _ hne h.1
  rw [Whv.C07.go_quorum_eq]
  exact h.2

/-- The precondition on guardian sets is needed: with a repeated key the node would assemble a list that
verification rejects (the same signer counted at two indices). -/
theorem repeated_key_breaks_assembly :
    let rec1 : Bytes → Option Addr := fun s => if s = [9] then some [0xA] else none
    verifySignatures rec1 (assemble [[0xA], [0xA]] [([0xA], [9])]) [[0xA], [0xA]] = false := by decide

/-- Non-vacuity: a set with distinct keys satisfies `GSetOk`, and three of four signatures, recorded out of order, assemble into a verifiable quorum. -/
example : GSetOk { index := 1, keys := [[1], [2], [3]] } := by
  constructor
  · decide
  · decide

example :
    let rec4 : Bytes → Option Addr := fun s => match s with | [10] => some [1] | [30] => some [3] | [40] => some [4] | _ => none
    verifySignatures rec4 (assemble [[1], [2], [3], [4]] [([3], [30]), ([4], [40]), ([1], [10])]) [[1], [2], [3], [4]] = true ∧
    quorum 4 ≤ (assemble [[1], [2], [3], [4]] [([3], [30]), ([4], [40]), ([1], [10])]).length := by decide

end Whv.C01
