import Whv.Model.Bytes
/-!
# Model of the EVM watcher (`node/pkg/ethereum`: watcher.go, by_transaction.go, poller.go) — property C10

The model follows the Go code branch by branch.  Everything the EVM node answers (receipts, block
times, block numbers, what a log parses to) is an *input*; the go-ethereum client, the ABI decoder and
the JSON-RPC transport are trusted base and appear only through `clientView` (what `ethclient` hands
the watcher for a given node answer — observed by the differential harness on every run).

`classify` is the body of the per-head loop of `Watcher.Run` **as repaired by
`/verif/fixes/C10-head-jump-and-transient-error.diff`** (readiness test and receipt lookup first; a
lookup that fails for another reason than "not found" is retried and the message is abandoned only
once the head is past the abandonment window).  `classifyOrig` is the loop body of the pinned tree
(timeout test first, `tx == nil` classified as orphaned) and is kept for the negation witnesses in
`Whv/Props/C10.lean` and for diagnostics in the driver.

uint64 arithmetic wraps (`add64`); `big.Int.Uint64()` keeps the low 64 bits (`% U64`).
-/
namespace Whv.Evm
open Whv

def U64 : Nat := 18446744073709551616

/-- Go `uint64 + uint64`. -/
def add64 (a b : Nat) : Nat := (a + b) % U64

/-- `common.MessagePublication` (Timestamp in Unix seconds). -/
structure Msg where
  tx : Bytes
  ts : Nat
  nonce : Nat
  seq : Nat
  emitterChain : Nat
  targetChain : Nat
  emitter : Bytes
  cl : Nat
  payload : Bytes
  deriving DecidableEq, Repr

/-- `pendingKey`. -/
structure Key where
  tx : Bytes
  bh : Bytes
  emitter : Bytes
  seq : Nat
  deriving DecidableEq, Repr

/-- One entry of `Watcher.pending`: key ↦ `pendingMessage{message, height}`. -/
structure Pend where
  key : Key
  msg : Msg
  height : Nat
  deriving DecidableEq, Repr

/-- The fields of `Watcher` the anchored code reads. `dev` = unsafeDevMode, `wait` = waitForConfirmations. -/
structure Cfg where
  contract : Bytes
  chainId : Nat
  dev : Bool
  wait : Bool
  maxWait : Nat := 60

/-- watcher.go:173 `useFinalizedBlocks := (w.chainID == vaa.ChainIDEthereum && (!w.unsafeDevMode))`. -/
def Cfg.useFinalized (c : Cfg) : Bool := c.chainId == 2 && !c.dev

/-- keccak256("LogMessagePublished(address,uint16,uint64,uint32,bytes,uint8)") as hard-coded in by_transaction.go:18
(the harness writes the Go constant into every `start` line and the driver compares). -/
def logTopicHex : String := "cd7b525350dfac7e06deb9b3a8f19ceb75cf6cd2914cd0b2d7bf9d9a3d9babff"

/-- utils.go `PadAddress`: left-pad to 32 bytes. -/
def padAddress (a : Bytes) : Bytes := List.replicate (32 - a.length) 0 ++ a

/-- `abi.AbiLogMessagePublished` as produced by the (trusted) ABI decoder, with the `Raw` log fields the code reads. -/
structure Event where
  sender : Bytes
  targetChain : Nat
  seq : Nat
  nonce : Nat
  payload : Bytes
  cl : Nat
  rawTx : Bytes
  rawBh : Bytes := []
  rawBn : Nat := 0
  deriving DecidableEq, Repr

/-- watcher.go:340-350 and by_transaction.go:76-86 build the same message. -/
def mkMsg (chainId : Nat) (ev : Event) (blockTime : Nat) : Msg :=
  { tx := ev.rawTx, ts := blockTime, nonce := ev.nonce, seq := ev.seq, emitterChain := chainId,
    targetChain := ev.targetChain, emitter := padAddress ev.sender, cl := ev.cl, payload := ev.payload }

/-- watcher.go:363-374. -/
def mkPend (cfg : Cfg) (ev : Event) (blockTime : Nat) : Pend :=
  { key := { tx := ev.rawTx, bh := ev.rawBh, emitter := padAddress ev.sender, seq := ev.seq },
    msg := mkMsg cfg.chainId ev blockTime, height := ev.rawBn }

/-- Go map assignment `w.pending[key] = ...` (iteration order of a Go map is unspecified, so only the set matters). -/
def insertPend (p : Pend) (l : List Pend) : List Pend := p :: l.filter (fun q => q.key ≠ p.key)

/-! ## Per-head loop -/

/-- How the loop classifies the Go `error` value. -/
inductive Err | none | noResult | notFound | other
  deriving DecidableEq, Repr

/-- The fields of `*types.Receipt` the loop reads. -/
structure RcView where
  status : Nat
  bh : Bytes
  deriving DecidableEq, Repr

/-- `(tx, err)` as returned by `w.ethConn.TransactionReceipt`. -/
structure RcAns where
  tx : Option RcView
  err : Err
  deriving DecidableEq, Repr

inductive Outcome | wait | timeout | orphaned | failed | retry | mismatch | confirmed
  deriving DecidableEq, Repr

/-- watcher.go:430-433. -/
def expConf (cfg : Cfg) (safe : Bool) (p : Pend) : Nat := if cfg.wait && !safe then p.msg.cl else 0

/-- Loop body for one pending entry, repaired order (see module doc). `H` is `ev.Number.Uint64()`. -/
def classify (cfg : Cfg) (safe : Bool) (H : Nat) (a : RcAns) (p : Pend) : Outcome :=
  let c := expConf cfg safe p
  if add64 p.height c ≤ H then
    match a.tx, a.err with
    | none, .none => .orphaned            -- `tx == nil && err == nil`
    | _, .noResult => .orphaned           -- `err == rpc.ErrNoResult`
    | _, .notFound => .orphaned           -- `err.Error() == "not found"`
    | _, .other =>                        -- any other error is transient ...
      if add64 (add64 p.height c) cfg.maxWait ≤ H then .timeout else .retry   -- ... until the window has passed
    | some r, .none =>
      if r.status ≠ 1 then .failed
      else if r.bh ≠ p.key.bh then .mismatch
      else .confirmed
  else .wait

/-- Loop body of the pinned (unrepaired) tree, watcher.go:429-548. -/
def classifyOrig (cfg : Cfg) (safe : Bool) (H : Nat) (a : RcAns) (p : Pend) : Outcome :=
  let c := expConf cfg safe p
  if add64 (add64 p.height c) cfg.maxWait ≤ H then .timeout
  else if add64 p.height c ≤ H then
    match a.tx with
    | none => .orphaned
    | some r =>
      if a.err = .noResult ∨ a.err = .notFound then .orphaned
      else if r.status ≠ 1 then .failed
      else if a.err ≠ .none then .retry
      else if r.bh ≠ p.key.bh then .mismatch
      else .confirmed
  else .wait

/-- Entries that stay in `w.pending` after the loop. -/
def Outcome.keeps : Outcome → Bool
  | .wait | .retry => true
  | _ => false

/-- Does the loop ask the node for the receipt of this entry at this head? -/
def looksUp (cfg : Cfg) (safe : Bool) (H : Nat) (p : Pend) : Bool := add64 p.height (expConf cfg safe p) ≤ H

structure HeadRes where
  pending : List Pend
  forwarded : List Pend
  outcomes : List (Pend × Outcome)
  lookups : List Bytes

/-- One head event (`case ev := <-headSink`), parameterised by the loop body. `rc tx` is what the node
answers for `tx` while this head is processed. -/
def processHeadWith (dec : Cfg → Bool → Nat → RcAns → Pend → Outcome) (cfg : Cfg) (safe : Bool) (Hraw : Nat)
    (rc : Bytes → RcAns) (pending : List Pend) : HeadRes :=
  let H := Hraw % U64
  let d := fun p => dec cfg safe H (rc p.msg.tx) p
  { pending := pending.filter (fun p => (d p).keeps),
    forwarded := pending.filter (fun p => d p = .confirmed),
    outcomes := pending.map (fun p => (p, d p)),
    lookups := (pending.filter (looksUp cfg safe H)).map (·.msg.tx) }

def processHead := processHeadWith classify

/-! ## Block poller (poller.go) -/

/-- poller.go:154-166: which block the poller / `getBlockNumber` ask for. -/
def blockTag (number : Option Nat) (useFinalized safe : Bool) : String :=
  match number with
  | some n => "0x" ++ String.ofList (Nat.toDigits 16 n)
  | none => if useFinalized then (if safe then "safe" else "finalized") else "latest"

/-- What `eth_getBlockByNumber` came back with. -/
inductive BlockAns | ok (n : Nat) | noNum | err
  deriving DecidableEq, Repr

/-- poller.go `getBlock`: `some (number, safe)` or an error. -/
def getBlock (ans : BlockAns) (safe : Bool) : Option (Nat × Bool) :=
  match ans with
  | .ok n => some (n, safe)
  | _ => none

/-- poller.go `pollBlocks`: (new lastBlock, published block, error?). Only the newest block is published. -/
def pollBlocks (last : Nat) (ans : BlockAns) (safe : Bool) : Nat × Option (Nat × Bool) × Bool :=
  match getBlock ans safe with
  | none => (last, none, true)
  | some (n, s) => if last ≥ n then (last, none, false) else (n, some (n, s), false)

/-- What the node answers to one `eth_getBlockByNumber` request, per block tag (the finalized and the latest head differ, and
one tag may fail while another is served). -/
abbrev TagAns := String → BlockAns

/-- poller.go:50-58, start-up of `BlockPollConnector.run`: the first block is requested with `b.getBlock(ctx, logger, nil, false)`,
i.e. under the tag `blockTag none b.useFinalized false`; when that fails `run` **returns the error** and the supervisor runs it
again on the same connector (`useFinalized` is assigned only by `NewBlockPollConnector`, poller.go:34). `attempts` = the node's
answers to the successive first queries. Result: the tags requested, in order, and the poller's first `lastBlock` (`none`: every
attempt so far failed - nothing is published and the re-observation path gets no block number from a failing query either). -/
def pollerStart (useFinalized : Bool) : List TagAns → List String × Option Nat
  | [] => ([], none)
  | a :: rest =>
    let tag := blockTag none useFinalized false
    match getBlock (a tag) false with
    | some (n, _) => ([tag], some n)
    | none => (tag :: (pollerStart useFinalized rest).1, (pollerStart useFinalized rest).2)

/-- NOT the code: the variant in which a failing first query on a chain read at finalized height clears `useFinalized` and asks
for the latest block instead ("not every provider knows the finalized tag"). Result as `pollerStart`, plus the flag the
connector keeps for its lifetime (the per-head scan and `getBlockNumber` both go through it). Kept only for the negation witness
`c10_poller_start_fallback_witness`. -/
def pollerStartFallback (useFinalized : Bool) : List TagAns → List String × Option Nat × Bool
  | [] => ([], none, useFinalized)
  | a :: rest =>
    let tag := blockTag none useFinalized false
    match getBlock (a tag) false with
    | some (n, _) => ([tag], some n, useFinalized)
    | none =>
      if useFinalized then
        match getBlock (a (blockTag none false false)) false with
        | some (n, _) => ([tag, blockTag none false false], some n, false)
        | none => let r := pollerStartFallback false rest
                  (tag :: blockTag none false false :: r.1, r.2.1, r.2.2)
      else let r := pollerStartFallback useFinalized rest
           (tag :: r.1, r.2.1, r.2.2)

/-- Watcher + poller state between events. -/
structure St where
  pending : List Pend
  enabled : Bool
  last : Nat

/-- Log subscription event (watcher.go:324-377) once the block time has been fetched. -/
def onLog (cfg : Cfg) (st : St) (ev : Event) (blockTime : Nat) : St :=
  { st with pending := insertPend (mkPend cfg ev blockTime) st.pending, enabled := true }

/-- What happens once things are quiet again: an enabled poller that sees a head above its last block publishes it
(`run` always polls with `safe = false`) and the watcher processes it; the poller is disabled when nothing is pending. -/
def settleWith (dec : Cfg → Bool → Nat → RcAns → Pend → Outcome) (cfg : Cfg) (st : St) (W : Nat) (rc : Bytes → RcAns) : St × Option HeadRes :=
  if st.enabled && decide (W > st.last) then
    let r := processHeadWith dec cfg false W rc st.pending
    ({ pending := r.pending, enabled := !r.pending.isEmpty, last := W }, some r)
  else (st, none)

def settle := settleWith classify

/-! ## A log notification that arrives while a head is being processed -/

/-- The header goroutine takes `pendingMu` before its loop over `w.pending` (watcher.go:425) and releases it after the loop and
the `DisablePoller` test (watcher.go:557); the log goroutine takes the same mutex around `w.pending[key] = …; EnablePoller()`
(watcher.go:370-376). A log notification that arrives while the scan is waiting for a receipt is therefore inserted when the
scan has ended: the head event first, then the log event. (The tie holds a receipt answer back at the node, delivers a log,
and observes that the log goroutine parks on the mutex: op `race`.) -/
def headThenLog (cfg : Cfg) (st : St) (W : Nat) (rc : Bytes → RcAns) (ev : Event) (blockTime : Nat) : St × Option HeadRes :=
  (onLog cfg (settle cfg st W rc).1 ev blockTime, (settle cfg st W rc).2)

/-- NOT the code: the variant in which the scan copies `w.pending` under the lock, works on the copy without the lock and
finally assigns the copy back (`w.pending = copy`). The entry inserted in between is overwritten (and the poller is switched
off if the copy ended up empty). Kept only for the negation witness `c10_snapshot_writeback_witness`. -/
def headSnapshotWriteBack (cfg : Cfg) (st : St) (W : Nat) (rc : Bytes → RcAns) (ev : Event) (blockTime : Nat) : St × Option HeadRes :=
  if st.enabled && decide (W > st.last) then
    let r := processHead cfg false W rc st.pending
    ({ pending := r.pending, enabled := !r.pending.isEmpty, last := W }, some r)
  else (onLog cfg st ev blockTime, none)

/-! ## `Run` returns and the supervisor starts it again -/

/-- `Run` has returned with an error (block-time lookup of a log, log / head subscription error, guardian-set poll) and the
supervisor calls `Run` again **on the same `Watcher` value**. `w.pending` is a field of the `Watcher`, initialised only by
`NewEthWatcher` (watcher.go:152) and never assigned by `Run`: what was pending stays pending. `Run` builds a new
`BlockPollConnector` (watcher.go:183): its `enabled` flag starts false (poller.go:33) - whatever is pending - and its
`lastBlock` is the head `W` the node serves when the new poller starts (poller.go:56). The poller is switched on again by the
next log insertion (watcher.go:375). -/
def restart (st : St) (W : Nat) : St := { pending := st.pending, enabled := false, last := W }

/-- NOT the code: the variant in which `Run` begins with `w.pending = make(map[pendingKey]*pendingMessage)` ("fresh
connection, fresh state"). Kept only for the negation witness `c10_restart_fresh_witness`. -/
def restartFresh (_st : St) (W : Nat) : St := { pending := [], enabled := false, last := W }

/-! ## Guardian-set fetch (watcher.go `fetchAndUpdateGuardianSet`) -/

/-- One call of `fetchAndUpdateGuardianSet`. `cur` = `w.currentGuardianSet` (`none` = nil: index 0 is a valid index),
`chain` = what the two contract calls `getCurrentGuardianSetIndex` / `getGuardianSet(index)` returned (`none` = one of them
failed). Result: the new `w.currentGuardianSet`, what is sent on `setC` (index and the key list exactly as read), error?. -/
def gsFetch (cur : Option Nat) (chain : Option (Nat × List Bytes)) : Option Nat × Option (Nat × List Bytes) × Bool :=
  match chain with
  | none => (cur, none, true)                              -- watcher.go:600-604
  | some (idx, keys) =>
    if cur = some idx then (cur, none, false)              -- watcher.go:608-610 already current
    else (some idx, some (idx, keys), false)               -- watcher.go:616-623

/-! ## Re-observation (by_transaction.go, watcher.go:225-312) -/

/-- A receipt log as the code sees it; `parse` is the (trusted) ABI decoder's verdict on it. -/
structure RLog where
  addr : Bytes
  topics : List Bytes
  parse : Option Event
  deriving DecidableEq, Repr

/-- `*types.Receipt` as read by `MessageEventsForTransaction`. `bn = none` is a nil `BlockNumber`; a `none` log is a nil pointer. -/
structure Receipt where
  status : Nat
  bh : Bytes
  bn : Option Nat
  logs : List (Option RLog)
  deriving DecidableEq, Repr

inductive EvtErr | receipt | status | blocktime | parse
  deriving DecidableEq, Repr

/-- Result of `MessageEventsForTransaction`; `panic` is a Go run-time panic (nil dereference / index out of range). -/
inductive EvtRes
  | panic
  | err (k : EvtErr)
  | ok (bn : Nat) (msgs : List Msg)
  deriving DecidableEq, Repr

inductive LoopRes | panic | parseErr | ok (msgs : List Msg)
  deriving DecidableEq, Repr

/-- by_transaction.go:57-89. -/
def evtLoop (contract : Bytes) (topic : Bytes) (chainId : Nat) (blockTime : Nat) : List (Option RLog) → List Msg → LoopRes
  | [], acc => .ok acc.reverse
  | none :: rest, acc => evtLoop contract topic chainId blockTime rest acc           -- `if l == nil { continue }`
  | some l :: rest, acc =>
    if l.addr ≠ contract then evtLoop contract topic chainId blockTime rest acc      -- SECURITY: skip logs of other contracts
    else match l.topics with
      | [] => .panic                                                                  -- `l.Topics[0]` on a topic-less log
      | t0 :: _ =>
        if t0 ≠ topic then evtLoop contract topic chainId blockTime rest acc
        else match l.parse with
          | none => .parseErr
          | some ev => evtLoop contract topic chainId blockTime rest (mkMsg chainId ev blockTime :: acc)

/-- by_transaction.go `MessageEventsForTransaction`. `rc`/`rcErr` = `(receipt, err)` of `TransactionReceipt`,
`bt` = result of `TimeOfBlockByHash(receipt.BlockHash)`. -/
def messageEvents (contract topic : Bytes) (chainId : Nat) (rc : Option Receipt) (rcErr : Bool) (bt : Option Nat) : EvtRes :=
  if rcErr then .err .receipt
  else match rc with
    | none => .panic                                  -- `receipt.Status` on a nil receipt
    | some r =>
      if r.status ≠ 1 then .err .status
      else match bt with
        | none => .err .blocktime
        | some t =>
          match evtLoop contract topic chainId t r.logs [] with
          | .panic => .panic
          | .parseErr => .err .parse
          | .ok msgs =>
            match r.bn with
            | none => .panic                          -- `receipt.BlockNumber.Uint64()` on a nil *big.Int
            | some bn => .ok (bn % U64) msgs

inductive ReDec | fwd | ign | zero
  deriving DecidableEq, Repr

/-- watcher.go:266-309, one decision per message, in order. -/
def reobsDecide (cfg : Cfg) (blockNumberU bn : Nat) (m : Msg) : ReDec :=
  if blockNumberU = 0 then .zero
  else
    let c := if cfg.wait then m.cl else 0
    if add64 bn c ≤ blockNumberU then .fwd else .ign

/-- watcher.go:230-311: `bnAns` is the block number read BEFORE the receipt is requested (none = error). `evt` is only
evaluated when the block number was obtained. -/
def reobserve (cfg : Cfg) (bnAns : Option Nat) (evt : EvtRes) : List (Msg × ReDec) :=
  match bnAns with
  | none => []
  | some n =>
    match evt with
    | .ok bn msgs => msgs.map (fun m => (m, reobsDecide cfg (n % U64) bn m))
    | _ => []

def reobsForwarded (cfg : Cfg) (bnAns : Option Nat) (evt : EvtRes) : List Msg :=
  ((reobserve cfg bnAns evt).filter (fun x => x.2 = .fwd)).map (·.1)

/-- watcher.go `getBlockNumber`: `w.ethConn.getBlock(ctx, logger, nil, false)` — the poller's own method, so the head the
re-observation path reads is requested under the tag the poller uses: "finalized" on a chain read at finalized height,
"latest" otherwise (never a raw `eth_blockNumber`, which is always the latest head). -/
def reobsHeadTag (cfg : Cfg) : String := blockTag none cfg.useFinalized false

/-- The head served under that tag by a node whose latest / finalized heads are `lat` / `fin`. -/
def reobsHead (cfg : Cfg) (lat fin : Nat) : Nat := if cfg.useFinalized then fin else lat

/-! ## Re-observation while the node changes branch -/

/-- What the node would answer to the re-observation's three RPC requests in one state of the chain: the head under the tag
the watcher reads, the transaction's receipt, and the time of the block with a given hash. -/
structure NodeView where
  head : Option Nat                -- `none`: the head query fails
  rc : Option Receipt
  rcErr : Bool
  bt : Bytes → Option Nat

/-- watcher.go:249-264: the re-observation goroutine issues its RPC requests in a fixed order - **the head first**
(`getBlockNumber`, request 1), then the receipt (request 2) and the block time of the receipt's block (request 3), both inside
`MessageEventsForTransaction`. The node answers the first `k` requests in view `a` and the others in view `b` (`k = 0`: the chain
changed before the request; `k ≥ 3`: after its last RPC request). -/
def viewAt (k : Nat) (a b : NodeView) (j : Nat) : NodeView := if j ≤ k then a else b

def reobserveAcross (cfg : Cfg) (topic : Bytes) (k : Nat) (a b : NodeView) : List (Msg × ReDec) :=
  let vr := viewAt k a b 2
  reobserve cfg (viewAt k a b 1).head
    (messageEvents cfg.contract topic cfg.chainId vr.rc vr.rcErr ((vr.rc.bind fun r => (viewAt k a b 3).bt r.bh)))

def reobsForwardedAcross (cfg : Cfg) (topic : Bytes) (k : Nat) (a b : NodeView) : List Msg :=
  ((reobserveAcross cfg topic k a b).filter (fun x => x.2 = .fwd)).map (·.1)

/-- NOT the code: the variant in which the head is read AFTER `MessageEventsForTransaction` (receipt = request 1, block time =
request 2, head = request 3). Kept only for the negation witness `c10_reobserve_head_last_witness`. -/
def reobsForwardedAcrossHeadLast (cfg : Cfg) (topic : Bytes) (k : Nat) (a b : NodeView) : List Msg :=
  let vr := viewAt k a b 1
  reobsForwarded cfg (viewAt k a b 3).head
    (messageEvents cfg.contract topic cfg.chainId vr.rc vr.rcErr ((vr.rc.bind fun r => (viewAt k a b 2).bt r.bh)))

/-! ## What go-ethereum's client hands the watcher for a node answer (trusted base, observed by the tie) -/

/-- Node-side answer to `eth_getTransactionReceipt`. `bad s` = a JSON object that lacks required receipt fields
(`s` = the status it carries, 0 if none): `ethclient` returns the partially filled receipt together with an error. -/
inductive NodeRc
  | null                    -- JSON null: ethclient turns it into `ethereum.NotFound` ("not found")
  | errNotFound             -- RPC error whose message is "not found"
  | errOther                -- any other RPC error
  | bad (status : Nat)
  | receipt (status : Nat) (bh : Bytes)
  deriving DecidableEq, Repr

def clientView : NodeRc → RcAns
  | .null => ⟨none, .notFound⟩
  | .errNotFound => ⟨none, .notFound⟩
  | .errOther => ⟨none, .other⟩
  | .bad s => ⟨some ⟨s, []⟩, .other⟩
  | .receipt s bh => ⟨some ⟨s, bh⟩, .none⟩

end Whv.Evm
