import Whv.Model.Bytes
import Whv.Gen.C03
/-!
# Model of the two gossip verifiers (`node/pkg/p2p/p2p.go:410-491`) and of the heartbeat table
# (`node/pkg/common/guardianset.go`: `SetHeartbeat`, `Cleanup`) — core-only, executable

Everything cryptographic or protobuf is a PARAMETER (`Oracles`): the digest function `H` (Keccak-256 in the code — never
modelled), `recover digest sig` (`crypto.Ecrecover` followed by the address derivation `Keccak(pub[1:])[12:]`), and the two
protobuf decoders.  What IS modelled is what the code does around them, statement by statement: the envelope address
(`common.BytesToAddress`: keep the LAST 20 bytes / left-pad with zeros), the membership lookup, the pre-image
`prefix ++ body`, the length floor, the signer comparison, and the table update with its per-guardian cap.

Constants (the two prefixes, the two floor tests, `MaxNodesPerGuardian`, `MaxStateAge`) are a `Cfg`; `Cfg.gen` is the one
extracted from the source on every run (`Whv.Gen.C03`).
-/
namespace Whv.Gossip

abbrev Addr := Bytes      -- `common.Address` (20 bytes)
abbrev Peer := Bytes      -- `peer.ID` (a Go string)

/-- `common.BytesToAddress(b)`: `if len(b) > 20 { b = b[len(b)-20:] }; copy(a[20-len(b):], b)`. -/
def bytesToAddress (b : Bytes) : Addr :=
  if b.length > 20 then b.drop (b.length - 20) else List.replicate (20 - b.length) 0 ++ b

def zeroAddr : Addr := List.replicate 20 0

/-- A decoded `gossipv1.Heartbeat`: its canonical re-encoding and the one field the table logic reads. -/
structure Hb where
  canon : Bytes
  ts : Int            -- `Timestamp` (ns since the epoch, `int64`)
deriving DecidableEq, Repr

/-- A decoded `gossipv1.ObservationRequest`. -/
structure ObsReq where
  chain : Nat
  tx : Bytes
deriving DecidableEq, Repr

structure Oracles where
  H : Bytes → Bytes                           -- `ethcrypto.Keccak256Hash`
  recover : Bytes → Bytes → Option Addr       -- digest → signature → signer address (`none`: `Ecrecover` failed)
  decodeHb : Bytes → Option Hb                -- `proto.Unmarshal(_, &gossipv1.Heartbeat{})`
  decodeReq : Bytes → Option ObsReq           -- `proto.Unmarshal(_, &gossipv1.ObservationRequest{})`

structure Cfg where
  hbPrefix : Bytes
  reqPrefix : Bytes
  hbTooShort : Nat → Nat → Bool     -- prefix length → body length → "too short"
  reqTooShort : Nat → Nat → Bool
  cap : Nat                          -- `MaxNodesPerGuardian`
  maxAge : Nat                       -- `MaxStateAge` (ns)

def Cfg.gen : Cfg :=
  { hbPrefix := Whv.Gen.C03.heartbeatPrefix, reqPrefix := Whv.Gen.C03.obsReqPrefix,
    hbTooShort := Whv.Gen.C03.hbTooShort, reqTooShort := Whv.Gen.C03.reqTooShort,
    cap := Whv.Gen.C03.maxNodesPerGuardian, maxAge := Whv.Gen.C03.maxStateAgeNs }

/-! ## the heartbeat table: `lastHeartbeats map[Address]map[peer.ID]*Heartbeat` -/

abbrev Table := List (Addr × List (Peer × Hb))

def Table.get (t : Table) (a : Addr) : Option (List (Peer × Hb)) := t.lookup a

/-- `m[k] = v` on an association list -/
def assocSet {κ ν : Type} [BEq κ] (l : List (κ × ν)) (k : κ) (v : ν) : List (κ × ν) :=
  (k, v) :: l.filter (fun e => !(e.1 == k))

/-- `SetHeartbeat` (guardianset.go:124-145): `none` = "too many nodes … cannot store entry".
Note the cap test is made only when the guardian already has an (inner) map, and BEFORE looking at the peer id — a
full guardian rejects updates from peers it already knows, too. -/
def setHeartbeat (cap : Nat) (t : Table) (a : Addr) (p : Peer) (hb : Hb) : Option Table :=
  match t.get a with
  | none => some (assocSet t a [(p, hb)])
  | some v => if v.length ≥ cap then none else some (assocSet t a (assocSet v p hb))

/-- `Cleanup` (guardianset.go:166-178): delete entries with `now - Timestamp > MaxStateAge`; emptied inner maps stay. -/
def cleanup (maxAge : Nat) (now : Int) (t : Table) : Table :=
  t.map fun (a, v) => (a, v.filter fun (_, hb) => !(decide (now - hb.ts > (maxAge : Int))))

/-! ## the verifiers -/

structure Signed where
  body : Bytes          -- `Heartbeat` / `ObservationRequest` (serialized protobuf)
  sig : Bytes           -- `Signature`
  addr : Bytes          -- `GuardianAddr` (envelope)
deriving DecidableEq, Repr

inductive Err where
  | notInSet | tooShort | recoverFailed | invalidSigner | unmarshal | tooMany
deriving DecidableEq, Repr

instance {ε α : Type} [DecidableEq ε] [DecidableEq α] : DecidableEq (Except ε α) := fun a b =>
  match a, b with
  | .ok x, .ok y => if h : x = y then isTrue (by rw [h]) else isFalse (fun h' => by injection h' with h'; exact h h')
  | .error x, .error y => if h : x = y then isTrue (by rw [h]) else isFalse (fun h' => by injection h' with h'; exact h h')
  | .ok _, .error _ => isFalse (fun h => by cases h)
  | .error _, .ok _ => isFalse (fun h => by cases h)

/-- `(*GuardianSet).KeyIndex` followed by `gs.Keys[idx]`: the first key equal to the address. -/
def keyOf (gs : List Addr) (a : Addr) : Option Addr := gs.find? (· == a)

/-- The head of `processSignedHeartbeat`: `idx, ok := gs.KeyIndex(envelopeAddr)`; not found ⇒ error unless
`disableVerify` (then `pk` stays the zero address); found ⇒ `pk = gs.Keys[idx]`. -/
def envelopeKey (disableVerify : Bool) (gs : List Addr) (a : Addr) : Option Addr :=
  match keyOf gs a with
  | none => if !disableVerify then none else some zeroAddr
  | some k => some k

/-- `processSignedHeartbeat`.  Returns the (possibly updated) table and the result. -/
def processHeartbeat (o : Oracles) (cfg : Cfg) (disableVerify : Bool) (gs : List Addr) (t : Table) (src : Peer)
    (s : Signed) : Table × Except Err Hb :=
  match envelopeKey disableVerify gs (bytesToAddress s.addr) with
  | none => (t, .error .notInSet)
  | some pk =>
    if cfg.hbTooShort cfg.hbPrefix.length s.body.length then (t, .error .tooShort)
    else match o.recover (o.H (cfg.hbPrefix ++ s.body)) s.sig with
      | none => (t, .error .recoverFailed)
      | some signerAddr =>
        if pk ≠ signerAddr ∧ !disableVerify then (t, .error .invalidSigner)
        else match o.decodeHb s.body with
          | none => (t, .error .unmarshal)
          | some h =>
            match setHeartbeat cfg.cap t signerAddr src h with
            | none => (t, .error .tooMany)
            | some t' => (t', .ok h)

/-- `processSignedObservationRequest`. -/
def processObsReq (o : Oracles) (cfg : Cfg) (gs : List Addr) (s : Signed) : Except Err ObsReq :=
  match keyOf gs (bytesToAddress s.addr) with
  | none => .error .notInSet
  | some pk =>
    if cfg.reqTooShort cfg.reqPrefix.length s.body.length then .error .tooShort
    else
      match o.recover (o.H (cfg.reqPrefix ++ s.body)) s.sig with
      | none => .error .recoverFailed
      | some signerAddr =>
        if pk ≠ signerAddr then .error .invalidSigner
        else match o.decodeReq s.body with
          | none => .error .unmarshal
          | some r => .ok r

/-! ## node state touched by gossip, and histories -/

/-- The heartbeat table and the requests handed to the re-observation dispatcher (`obsvReqC <- r` in `p2p.Run`,
executed only when `processSignedObservationRequest` returned no error). -/
structure Node where
  table : Table := []
  forwarded : List ObsReq := []

inductive Op where
  | heartbeat (gs : List Addr) (src : Peer) (s : Signed)       -- a gossiped heartbeat under the current set `gs`
  | obsReq (gs : List Addr) (s : Signed)                        -- a gossiped signed observation request
  | own (a : Addr) (p : Peer) (hb : Hb)                         -- the node's own heartbeat (`p2p.Run` → `SetHeartbeat`)
  | cleanup (now : Int)

def step (o : Oracles) (cfg : Cfg) (n : Node) : Op → Node
  | .heartbeat gs src s => { n with table := (processHeartbeat o cfg false gs n.table src s).1 }
  | .obsReq gs s =>
    match processObsReq o cfg gs s with
    | .ok r => { n with forwarded := n.forwarded ++ [r] }
    | .error _ => n
  | .own a p hb => { n with table := (setHeartbeat cfg.cap n.table a p hb).getD n.table }
  | .cleanup now => { n with table := cleanup cfg.maxAge now n.table }

def run (o : Oracles) (cfg : Cfg) (n : Node) : List Op → Node
  | [] => n
  | op :: ops => run o cfg (step o cfg n op) ops

end Whv.Gossip
