import Whv.Model.Bytes
/-!
# Model of `node/pkg/alephium/utils.go` (family `alphutil`, property C11)

Go strings are byte sequences (`len`, indexing, `hex.DecodeString`, `big.Int.SetString` all work on bytes), so a
Go `string` is a `Bytes` here (`GoStr`).  Every function follows the Go code branch by branch; errors carry the
*kind* of the Go error (the harness classifies `err.Error()` into the same kinds), a Go panic is an explicit result.

The model follows the code **with the repair `fixes/C11-narrow-uint-bounds.diff` applied** (`toUint8` / `toUint16`
test `IsUint64() && Uint64() <= Max`); the pinned code used `Cmp(Max) < 0`, which rejects 255 / 65535 and lets
negative numerals wrap.
-/
namespace Whv.AlphUtil
open Whv

abbrev GoStr := Bytes

/-- ASCII bytes of a Lean string (driver convenience; the model's constants are spelled out as byte lists). -/
def ascii (s : String) : GoStr := s.toList.map fun c => UInt8.ofNat c.toNat

/-! ## `big.Int.SetString(s, 10)` : `[+-]?[0-9]+`, nothing else (no blanks, no `_`, no prefix, no exponent) -/

def isDigit (c : UInt8) : Bool := decide (48 ≤ c.toNat) && decide (c.toNat ≤ 57)

/-- Value of a digit string, most significant first. -/
def digitsVal (ds : Bytes) : Nat := ds.foldl (fun a c => a * 10 + (c.toNat - 48)) 0

/-- The unsigned part: at least one digit, only digits (`nat.scan` with base 10, then `ReadByte` must hit EOF). -/
def parseNat (s : GoStr) : Option Nat :=
  if s ≠ [] ∧ s.all isDigit = true then some (digitsVal s) else none

/-- `new(big.Int).SetString(s, 10)`; `none` = `(nil, false)`.  "-0" is 0 (`z.neg = len(z.abs) > 0 && neg`). -/
def parseInt (s : GoStr) : Option Int :=
  match s with
  | [] => none
  | c :: rest =>
    if c.toNat = 45 then (parseNat rest).map fun (n : Nat) => -(Int.ofNat n)
    else if c.toNat = 43 then (parseNat rest).map Int.ofNat
    else (parseNat s).map Int.ofNat

/-- Canonical decimal rendering (what the Alephium node reports for a `U256`); the first argument is recursion fuel. -/
def decDigits : Nat → Nat → GoStr
  | 0, _ => []
  | fuel + 1, n => if n < 10 then [UInt8.ofNat (48 + n)] else decDigits fuel (n / 10) ++ [UInt8.ofNat (48 + n % 10)]

def decBytes (n : Nat) : GoStr := decDigits (n + 1) n

/-! ## `encoding/hex` -/

def hexVal (c : UInt8) : Option Nat :=
  let n := c.toNat
  if 48 ≤ n ∧ n ≤ 57 then some (n - 48)
  else if 97 ≤ n ∧ n ≤ 102 then some (n - 87)
  else if 65 ≤ n ∧ n ≤ 70 then some (n - 55)
  else none

def hexDigit (n : Nat) : UInt8 := if n < 10 then UInt8.ofNat (48 + n) else UInt8.ofNat (87 + n)

/-- `hex.EncodeToString` / `hex.Encode` (lower case). -/
def encodeHex (bs : Bytes) : GoStr := bs.flatMap fun b => [hexDigit (b.toNat / 16), hexDigit (b.toNat % 16)]

/-- Lower-casing of the hex letters `A`–`F` (what `ToHex` yields for an upper-case input). -/
def lowerHex (s : GoStr) : GoStr := s.map fun c => if 65 ≤ c.toNat ∧ c.toNat ≤ 70 then UInt8.ofNat (c.toNat + 32) else c

inductive HexErr | invalidByte | oddLength
  deriving DecidableEq, Repr

/-- `hex.DecodeString`: the bytes decoded before the first problem, and the problem if any
(`InvalidByteError` is reported before `ErrLength`). -/
def decodeHex : GoStr → Bytes × Option HexErr
  | [] => ([], none)
  | [c] => if (hexVal c).isNone then ([], some .invalidByte) else ([], some .oddLength)
  | a :: b :: rest =>
    match hexVal a, hexVal b with
    | some x, some y =>
      let r := decodeHex rest
      (UInt8.ofNat (x * 16 + y) :: r.1, r.2)
    | _, _ => ([], some .invalidByte)

/-! ## errors -/

inductive Variant | byteVec | u256 | i256 | bool | address
  deriving DecidableEq, Repr

inductive Err
  | nilVariant (v : Variant)   -- "`ValXxx` is nil"
  | badType (v : Variant)      -- "invalid xxx type"
  | badNumeral (v : Variant)   -- "invalid u256 value" / "invalid i256 value"
  | hexByte | hexLen           -- encoding/hex errors
  | byte32                     -- "invalid byte32"
  | uint8 | uint16 | uint64    -- "invalid uintN"
  | fieldCount                 -- "invalid wormhole message field size"
  | nonceSize                  -- "invalid nonce size"
  | hexFixedLen                -- "invalid hex string %s, expect %d bytes"
  | address                    -- "invalid contract address"
  | attestLen | attestChain    -- parseAttestToken
  deriving DecidableEq, Repr

abbrev R (α : Type) := Except Err α

instance {α : Type} [DecidableEq α] : DecidableEq (Except Err α) := fun a b =>
  match a, b with
  | .ok x, .ok y => if h : x = y then isTrue (by rw [h]) else isFalse (fun e => h (by cases e; rfl))
  | .error x, .error y => if h : x = y then isTrue (by rw [h]) else isFalse (fun e => h (by cases e; rfl))
  | .ok _, .error _ => isFalse (fun e => by cases e)
  | .error _, .ok _ => isFalse (fun e => by cases e)

/-! ## `sdk.Val` (the pointer fields the package reads; `ValArray` is never read) -/

structure Tagged where
  typ : GoStr
  value : GoStr
  deriving DecidableEq, Repr

structure TaggedBool where
  typ : GoStr
  value : Bool
  deriving DecidableEq, Repr

structure Val where
  byteVec : Option Tagged := none
  u256 : Option Tagged := none
  i256 : Option Tagged := none
  address : Option Tagged := none
  bool : Option TaggedBool := none
  deriving DecidableEq, Repr

def tagByteVec : GoStr := [66, 121, 116, 101, 86, 101, 99]   -- "ByteVec"
def tagU256 : GoStr := [85, 50, 53, 54]                      -- "U256"
def tagI256 : GoStr := [73, 50, 53, 54]                      -- "I256"
def tagBool : GoStr := [66, 111, 111, 108]                   -- "Bool"
def tagAddress : GoStr := [65, 100, 100, 114, 101, 115, 115] -- "Address"

/-- What the node reports for a `ByteVec` / `U256` event field. -/
def Val.ofByteVec (hex : GoStr) : Val := { byteVec := some ⟨tagByteVec, hex⟩ }
def Val.ofU256 (num : GoStr) : Val := { u256 := some ⟨tagU256, num⟩ }

/-! ## field converters -/

def toBool (f : Val) : R Bool :=
  match f.bool with
  | none => .error (.nilVariant .bool)
  | some t => if t.typ ≠ tagBool then .error (.badType .bool) else .ok t.value

def toAddress (f : Val) : R GoStr :=
  match f.address with
  | none => .error (.nilVariant .address)
  | some t => if t.typ ≠ tagAddress then .error (.badType .address) else .ok t.value

def toByteVec (f : Val) : R Bytes :=
  match f.byteVec with
  | none => .error (.nilVariant .byteVec)
  | some t =>
    if t.typ ≠ tagByteVec then .error (.badType .byteVec) else
    match decodeHex t.value with
    | (r, none) => .ok r
    | (_, some .invalidByte) => .error .hexByte
    | (_, some .oddLength) => .error .hexLen

def toByte32 (f : Val) : R Bytes :=
  match toByteVec f with
  | .error e => .error e
  | .ok bs => if bs.length ≠ 32 then .error .byte32 else .ok bs

def toU256 (f : Val) : R Int :=
  match f.u256 with
  | none => .error (.nilVariant .u256)
  | some t =>
    if t.typ ≠ tagU256 then .error (.badType .u256) else
    match parseInt t.value with
    | none => .error (.badNumeral .u256)
    | some v => .ok v

def toI256 (f : Val) : R Int :=
  match f.i256 with
  | none => .error (.nilVariant .i256)
  | some t =>
    if t.typ ≠ tagI256 then .error (.badType .i256) else
    match parseInt t.value with
    | none => .error (.badNumeral .i256)
    | some v => .ok v

/-- `(*big.Int).IsUint64` -/
def isUint64 (v : Int) : Bool := decide (0 ≤ v) && decide (v < 2 ^ 64)

/-- `(*big.Int).Uint64`: the low 64 bits of `|v|` ("undefined" outside the range = what the implementation does). -/
def uint64Of (v : Int) : Nat := v.natAbs % 2 ^ 64

def toUint64 (f : Val) : R Nat :=
  match toU256 f with
  | .error e => .error e
  | .ok v => if isUint64 v then .ok (uint64Of v) else .error .uint64

/-- repaired: `if value.IsUint64() && value.Uint64() <= math.MaxUint8 { v := uint8(value.Uint64()) ...` -/
def toUint8 (f : Val) : R Nat :=
  match toU256 f with
  | .error e => .error e
  | .ok v => if isUint64 v && decide (uint64Of v ≤ 255) then .ok (uint64Of v % 2 ^ 8) else .error .uint8

/-- repaired: `if value.IsUint64() && value.Uint64() <= math.MaxUint16 { v := uint16(value.Uint64()) ...` -/
def toUint16 (f : Val) : R Nat :=
  match toU256 f with
  | .error e => .error e
  | .ok v => if isUint64 v && decide (uint64Of v ≤ 65535) then .ok (uint64Of v % 2 ^ 16) else .error .uint16

/-! ## `ToWormholeMessage` -/

structure Msg where
  txId : GoStr
  sender : Bytes        -- Byte32
  target : Nat          -- uint16
  nonce : Nat           -- uint32
  payload : Bytes
  sequence : Nat        -- uint64
  cl : Nat              -- uint8
  deriving DecidableEq, Repr

def wormholeMessageFieldSize : Nat := 6

def toWormholeMessage (fields : List Val) (txId : GoStr) : R Msg :=
  match fields with
  | [f0, f1, f2, f3, f4, f5] =>
    match toByte32 f0 with
    | .error e => .error e
    | .ok emitter =>
    match toUint16 f1 with
    | .error e => .error e
    | .ok target =>
    match toUint64 f2 with
    | .error e => .error e
    | .ok sequence =>
    match toByteVec f3 with
    | .error e => .error e
    | .ok nonceBytes =>
    if nonceBytes.length ≠ 4 then .error .nonceSize else
    match toByteVec f4 with
    | .error e => .error e
    | .ok payload =>
    match toUint8 f5 with
    | .error e => .error e
    | .ok cl =>
      .ok { txId := txId, sender := emitter, target := target, nonce := unbe nonceBytes, payload := payload,
            sequence := sequence, cl := cl }
  | _ => .error .fieldCount

/-! ## `toMessagePublication` -/

/-- `time.Unix(sec, nsec)`: normalises `nsec` into `[0, 1e9)`.  Go `/` and `%` truncate toward zero. -/
def goUnix (sec nsec : Int) : Int × Int :=
  if nsec < 0 ∨ nsec ≥ 1000000000 then
    let n := Int.tdiv nsec 1000000000
    let sec := sec + n
    let nsec := nsec - n * 1000000000
    if nsec < 0 then (sec - 1, nsec + 1000000000) else (sec, nsec)
  else (sec, nsec)

/-- go-ethereum `common.HexToHash`: optional `0x`, odd length is left-padded with `0`, decoding errors are *ignored*
(the bytes before the first bad character are kept), more than 32 bytes keep the last 32, fewer are right-aligned. -/
def hexToHash (s : GoStr) : Bytes :=
  let s := match s with
    | a :: b :: rest => if a.toNat = 48 ∧ (b.toNat = 120 ∨ b.toNat = 88) then rest else s
    | _ => s
  let s := if s.length % 2 = 1 then (48 : UInt8) :: s else s
  let b := (decodeHex s).1
  let b := if b.length > 32 then b.drop (b.length - 32) else b
  List.replicate (32 - b.length) 0 ++ b

def chainIDAlephium : Nat := 255

structure Pub where
  txHash : Bytes
  sec : Int
  nsec : Int
  nonce : Nat
  sequence : Nat
  cl : Nat
  emitterChain : Nat
  targetChain : Nat
  emitter : Bytes
  payload : Bytes
  deriving DecidableEq, Repr

/-- `header.Timestamp` is an `int64` number of milliseconds. -/
def toMessagePublication (w : Msg) (timestampMs : Int) : Pub :=
  let second := Int.tdiv timestampMs 1000
  let milli := Int.tmod timestampMs 1000
  let ts := goUnix second (milli * 1000000)
  { txHash := hexToHash w.txId, sec := ts.1, nsec := ts.2, nonce := w.nonce, sequence := w.sequence, cl := w.cl,
    emitterChain := chainIDAlephium, targetChain := w.target, emitter := w.sender, payload := w.payload }

/-- `Time.UnixMilli()` of the published timestamp. -/
def Pub.unixMilli (p : Pub) : Int := p.sec * 1000 + p.nsec / 1000000

def attestTokenPayloadId : Nat := 2
def transferTokenPayloadId : Nat := 1

def Msg.isAttestTokenVAA (w : Msg) : Bool :=
  match w.payload with | b :: _ => b.toNat == attestTokenPayloadId | [] => false
def Msg.isTransferTokenVAA (w : Msg) : Bool :=
  match w.payload with | b :: _ => b.toNat == transferTokenPayloadId | [] => false

/-- `GetID`: (emitter chain, emitter address, target chain, sequence). -/
def Msg.getID (w : Msg) : Nat × Bytes × Nat × Nat := (chainIDAlephium, w.sender, w.target, w.sequence)

/-! ## `parseAttestToken` -/

structure TokenInfo where
  tokenId : Bytes
  decimals : Nat
  symbol : GoStr
  name : GoStr
  deriving DecidableEq, Repr

/-- `bytes.Trim(bs, "\x00")`: NUL bytes removed from both ends. -/
def trimNul (bs : Bytes) : Bytes :=
  ((bs.dropWhile (· == 0)).reverse.dropWhile (· == 0)).reverse

def attestTokenPayloadLength : Nat := 100
/-- start offsets of token id, token chain, decimals, symbol, name in the Go parser -/
def attestOffsets : List Nat := [1, 33, 35, 36, 68]

def slice (bs : Bytes) (a b : Nat) : Bytes := (bs.drop a).take (b - a)

def parseAttestToken (payload : Bytes) : R TokenInfo :=
  if payload.length ≠ attestTokenPayloadLength then .error .attestLen else
  let tokenId := slice payload 1 33
  let tokenChainId := unbe (slice payload 33 35)
  if tokenChainId ≠ chainIDAlephium then .error .attestChain else
  .ok { tokenId := tokenId, decimals := unbe (slice payload 35 36),
        symbol := trimNul (slice payload 36 68), name := trimNul (slice payload 68 100) }

/-- The contract side (`TokenBridge.attestToken` in token_bridge.ral):
`PayloadId.AttestToken ++ localTokenId ++ u256To2Byte!(localChainId) ++ u256To1Byte!(decimals) ++ symbol ++ name`
with the `assert!`s on the sizes; `u256ToNByte!` aborts when the value does not fit. `none` = the transaction aborts. -/
def ralphAttestPayload (tokenId : Bytes) (localChainId decimals : Nat) (symbol name : Bytes) : Option Bytes :=
  if symbol.length = 32 ∧ name.length = 32 ∧ tokenId.length = 32 ∧ localChainId < 2 ^ 16 ∧ decimals < 2 ^ 8 then
    some (be 1 attestTokenPayloadId ++ tokenId ++ be 2 localChainId ++ be 1 decimals ++ symbol ++ name)
  else none

/-- field widths of that concatenation, in order (compared with the widths extracted from the .ral source) -/
def attestLayout : List Nat := [1, 32, 2, 1, 32, 32]

/-! ## hex ↔ Byte32 -/

/-- `HexToFixedSizeBytes(str, length)` -/
def hexToFixedSizeBytes (s : GoStr) (length : Nat) : R Bytes :=
  if s.length ≠ length * 2 then .error .hexFixedLen else
  match decodeHex s with
  | (r, none) => .ok r
  | (_, some .invalidByte) => .error .hexByte
  | (_, some .oddLength) => .error .hexLen

def hexToByte32 (s : GoStr) : R Bytes := hexToFixedSizeBytes s 32

/-- `Byte32.ToHex` -/
def toHex32 (b : Bytes) : GoStr := encodeHex b

/-! ## base58 (btcsuite/btcutil v1.0.3 `base58.Encode` / `base58.Decode`) -/

def b58Alphabet : Bytes :=
  [49, 50, 51, 52, 53, 54, 55, 56, 57,                                 -- 1-9
   65, 66, 67, 68, 69, 70, 71, 72, 74, 75, 76, 77, 78, 80, 81, 82, 83, 84, 85, 86, 87, 88, 89, 90,   -- A-Z without I O
   97, 98, 99, 100, 101, 102, 103, 104, 105, 106, 107, 109, 110, 111, 112, 113, 114, 115, 116, 117, 118, 119, 120, 121, 122] -- a-z without l

def b58Char (d : Nat) : UInt8 := b58Alphabet.getD d 0

def b58Index (c : UInt8) : Option Nat :=
  let i := b58Alphabet.idxOf c
  if i < 58 then some i else none

/-- base-58 digits of `n`, least significant first; `0` has no digits (first argument: recursion fuel). -/
def digits58F : Nat → Nat → List Nat
  | 0, _ => []
  | fuel + 1, n => if n = 0 then [] else (n % 58) :: digits58F fuel (n / 58)

def digits58 (n : Nat) : List Nat := digits58F n n

def leadingZeros (b : Bytes) : Nat := (b.takeWhile (· == 0)).length

def b58Encode (b : Bytes) : GoStr :=
  List.replicate (leadingZeros b) 49 ++ ((digits58 (unbe b)).reverse.map b58Char)

/-- minimal big-endian bytes of `n` (`big.Int.Bytes`), `0` ↦ `[]` (first argument: recursion fuel). -/
def natBytesF : Nat → Nat → Bytes
  | 0, _ => []
  | fuel + 1, n => if n = 0 then [] else natBytesF fuel (n / 256) ++ [UInt8.ofNat (n % 256)]

def natBytes (n : Nat) : Bytes := natBytesF n n

inductive B58Res
  | ok (b : Bytes)
  | panic          -- `b58[v]` with a rune ≥ 256 (non-Latin-1 or invalid UTF-8): index out of range
  deriving DecidableEq, Repr

/-- One ≤10-byte chunk, scanned as Go's `for _, v := range t[:n]` does (runes!): `some none` = invalid character
(Decode returns the empty slice), `none` = panic, `some (some acc)` = value so far. -/
def b58Chunk : Bytes → Nat → Option (Option Nat)
  | [], acc => some (some acc)
  | c :: rest, acc =>
    if c.toNat < 128 then
      match b58Index c with
      | none => some none
      | some d => b58Chunk rest (acc * 58 + d)
    else if c.toNat = 0xC2 ∨ c.toNat = 0xC3 then
      -- a two-byte rune in U+0080..U+00FF indexes the table (entry 255 = invalid) – if the continuation byte is in this chunk
      match rest with
      | c2 :: _ => if 0x80 ≤ c2.toNat ∧ c2.toNat ≤ 0xBF then some none else none
      | [] => none
    else none

def b58Chunks (fuel : Nat) (t : Bytes) (acc : Nat) : Option (Option Nat) :=
  match fuel with
  | 0 => some (some acc)
  | fuel + 1 =>
    if t = [] then some (some acc) else
    match b58Chunk (t.take 10) 0 with
    | none => none
    | some none => some none
    | some (some total) => b58Chunks fuel (t.drop 10) (acc * 58 ^ (t.take 10).length + total)

def b58Decode (s : GoStr) : B58Res :=
  match b58Chunks (s.length + 1) s 0 with
  | none => .panic
  | some none => .ok []
  | some (some n) => .ok (List.replicate ((s.takeWhile (· == 49)).length) 0 ++ natBytes n)

/-! ## contract id ↔ address (base58 as a parameter; the concrete instances below use the btcutil model) -/

inductive CidRes
  | ok (id : Bytes)
  | err
  | panic
  deriving DecidableEq, Repr

/-- `ToContractAddress(contractId string)`: hex of 32 bytes → base58 (0x03 ‖ id). -/
def toContractAddressWith (enc : Bytes → GoStr) (idHex : GoStr) : R GoStr :=
  match hexToFixedSizeBytes idHex 32 with
  | .error e => .error e
  | .ok b => .ok (enc ((3 : UInt8) :: b))

/-- `ToContractId(address string)`: base58-decode, must be 33 bytes, drop the first (NOT checked to be 0x03). -/
def toContractIdWith (dec : GoStr → B58Res) (address : GoStr) : CidRes :=
  match dec address with
  | .panic => .panic
  | .ok b => if b.length ≠ 33 then .err else .ok (b.drop 1)

def toContractAddress : GoStr → R GoStr := toContractAddressWith b58Encode
def toContractId : GoStr → CidRes := toContractIdWith b58Decode

/-! ## Spec: the property evaluated on an observed result (used by the driver on the implementation's output,
and proved of the model in `Whv/Props/C11.lean`) -/

/-- What the node reports: lower-case hex without anything else. -/
def isLowerHex (s : GoStr) : Bool := s.all fun c => (hexVal c).isSome && !(decide (65 ≤ c.toNat) && decide (c.toNat ≤ 70))

/-- What the node reports: a canonical decimal numeral (digits only, no leading zero except for "0"). -/
def isCanonicalNumeral (s : GoStr) : Bool :=
  !s.isEmpty && s.all isDigit && (s.length == 1 || s.head? != some 48)

/-- The value a node-reported field denotes, read independently of the converter: a `ByteVec` field denotes the bytes
its (even-length, lower-case hex) value spells; a `U256` field denotes the natural number its canonical decimal
numeral spells.  A fit event MUST be accepted with exactly these values. -/
def denotesBytes (f : Val) : Option Bytes :=
  match f.byteVec with
  | some t => if t.typ = tagByteVec ∧ isLowerHex t.value = true then (match decodeHex t.value with | (r, none) => some r | _ => none) else none
  | none => none

def denotesNat (f : Val) : Option Nat :=
  match f.u256 with
  | some t => if t.typ = tagU256 ∧ isCanonicalNumeral t.value = true then parseNat t.value else none
  | none => none

/-- The event a six-field list denotes, if every field is well-typed and every value fits the VAA format. -/
def fitEvent (fields : List Val) (txId : GoStr) : Option Msg :=
  match fields with
  | [f0, f1, f2, f3, f4, f5] =>
    match denotesBytes f0, denotesNat f1, denotesNat f2, denotesBytes f3, denotesBytes f4, denotesNat f5 with
    | some s, some t, some q, some n, some p, some c =>
      if s.length = 32 ∧ t < 2 ^ 16 ∧ q < 2 ^ 64 ∧ n.length = 4 ∧ c < 2 ^ 8 then
        some { txId := txId, sender := s, target := t, nonce := unbe n, payload := p, sequence := q, cl := c }
      else none
    | _, _, _, _, _, _ => none
  | _ => none

/-- The grey zone: upper-case hex, leading zeros, `+ddd` and `-0…0` denote a value too, although the node never
reports them; accepting them (with exactly that value) or rejecting them are both faithful.  `Lenient` reads those. -/
def denotesBytesLenient (f : Val) : Option Bytes :=
  match f.byteVec with
  | some t => if t.typ = tagByteVec then (match decodeHex t.value with | (r, none) => some r | _ => none) else none
  | none => none

def denotesNatLenient (f : Val) : Option Nat :=
  match f.u256 with
  | some t => if t.typ = tagU256 then (match parseInt t.value with | some v => if 0 ≤ v then some v.toNat else none | none => none) else none
  | none => none

def fitEventLenient (fields : List Val) (txId : GoStr) : Option Msg :=
  match fields with
  | [f0, f1, f2, f3, f4, f5] =>
    match denotesBytesLenient f0, denotesNatLenient f1, denotesNatLenient f2, denotesBytesLenient f3, denotesBytesLenient f4, denotesNatLenient f5 with
    | some s, some t, some q, some n, some p, some c =>
      if s.length = 32 ∧ t < 2 ^ 16 ∧ q < 2 ^ 64 ∧ n.length = 4 ∧ c < 2 ^ 8 then
        some { txId := txId, sender := s, target := t, nonce := unbe n, payload := p, sequence := q, cl := c }
      else none
    | _, _, _, _, _, _ => none
  | _ => none

/-- The values the statement speaks of (everything but the transaction id, which is not an event field). -/
def Msg.sameValues (a b : Msg) : Bool :=
  a.sender == b.sender && a.target == b.target && a.nonce == b.nonce && a.payload == b.payload && a.sequence == b.sequence && a.cl == b.cl

/-- Spec verdict on an observed `ToWormholeMessage` result (`none` = the call returned an error):
`none` = fine, `some clause` = which part of the statement is violated. -/
def specMsg (fields : List Val) (txId : GoStr) (observed : Option Msg) : Option String :=
  match fitEvent fields txId, observed with
  | some _, none => some "fit-rejected"
  | some m, some o => if o.sameValues m then none else some "value-altered"
  | none, none => none
  | none, some o =>
    match fitEventLenient fields txId with
    | some m => if o.sameValues m then none else some "value-altered"
    | none => some "unfit-accepted"

/-- Spec verdict on an observed publication for message `w` and header timestamp `ts` (ms). -/
def specPub (w : Msg) (ts : Int) (p : Pub) : Option String :=
  if p.emitterChain ≠ 255 then some "chain-id-wrong"
  else if p.unixMilli ≠ ts ∨ p.nsec < 0 ∨ p.nsec ≥ 1000000000 ∨ p.nsec % 1000000 ≠ 0 then some "timestamp-altered"
  else if p.nonce ≠ w.nonce ∨ p.sequence ≠ w.sequence ∨ p.cl ≠ w.cl ∨ p.targetChain ≠ w.target ∨ p.emitter ≠ w.sender
       ∨ p.payload ≠ w.payload then some "pub-field-altered"
  else none

end Whv.AlphUtil
