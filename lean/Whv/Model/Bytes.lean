/-!
# Byte strings, big-endian integers, hex and decimal rendering (core-only, executable)
-/
namespace Whv

abbrev Bytes := List UInt8

/-- Big-endian encoding of `n` in exactly `w` bytes (`n` is reduced modulo `256^w`, like a Go
narrowing conversion followed by `binary.Write(BigEndian)`). -/
def be : Nat → Nat → Bytes
  | 0, _ => []
  | w + 1, n => be w (n / 256) ++ [UInt8.ofNat (n % 256)]

/-- Big-endian decoding. -/
def unbe (bs : Bytes) : Nat := bs.foldl (fun a b => a * 256 + b.toNat) 0

@[simp] theorem be_length (w n : Nat) : (be w n).length = w := by
  induction w generalizing n with
  | zero => rfl
  | succ w ih => simp [be, ih]

theorem unbe_append_singleton (bs : Bytes) (b : UInt8) : unbe (bs ++ [b]) = unbe bs * 256 + b.toNat := by
  simp [unbe, List.foldl_append]

@[simp] theorem unbe_nil : unbe [] = 0 := rfl

theorem unbe_be (w n : Nat) : unbe (be w n) = n % 256 ^ w := by
  induction w generalizing n with
  | zero => simp [be, Nat.mod_one]
  | succ w ih =>
    simp only [be, unbe_append_singleton, ih]
    have h : (UInt8.ofNat (n % 256)).toNat = n % 256 := by
      simp [UInt8.toNat_ofNat']
    rw [h, Nat.pow_succ, Nat.mul_comm (256 ^ w) 256, Nat.mod_mul, Nat.mul_comm]
    omega

theorem unbe_be_of_lt {w n : Nat} (h : n < 256 ^ w) : unbe (be w n) = n := by
  rw [unbe_be, Nat.mod_eq_of_lt h]

theorem snoc_induction {α : Type} {p : List α → Prop} (hnil : p [])
    (hsnoc : ∀ l a, p l → p (l ++ [a])) : ∀ l, p l := by
  intro l
  have h : ∀ r : List α, p r.reverse := by
    intro r
    induction r with
    | nil => exact hnil
    | cons a r ih => simpa using hsnoc _ a ih
  simpa using h l.reverse

theorem unbe_lt (bs : Bytes) : unbe bs < 256 ^ bs.length := by
  induction bs using snoc_induction with
  | hnil => simp
  | hsnoc bs b ih =>
    rw [unbe_append_singleton]
    have hb : b.toNat < 256 := b.toNat_lt
    simp only [List.length_append, List.length_singleton, Nat.pow_succ]
    omega

theorem be_unbe (bs : Bytes) : be bs.length (unbe bs) = bs := by
  induction bs using snoc_induction with
  | hnil => rfl
  | hsnoc bs b ih =>
    have hb : b.toNat < 256 := b.toNat_lt
    simp only [List.length_append, List.length_singleton, be, unbe_append_singleton]
    have h1 : (unbe bs * 256 + b.toNat) / 256 = unbe bs := by omega
    have h2 : (unbe bs * 256 + b.toNat) % 256 = b.toNat := by omega
    rw [h1, h2, ih]
    simp

/-- Two values have the same `w`-byte encoding iff they agree modulo `256^w`. -/
theorem be_eq_iff (w a b : Nat) : be w a = be w b ↔ a % 256 ^ w = b % 256 ^ w := by
  constructor
  · intro h; rw [← unbe_be, ← unbe_be, h]
  · intro h
    have ha := be_unbe (be w a)
    have hb := be_unbe (be w b)
    simp only [be_length, unbe_be] at ha hb
    rw [← ha, ← hb, h]

theorem be_inj_of_lt {w a b : Nat} (ha : a < 256 ^ w) (hb : b < 256 ^ w) (h : be w a = be w b) : a = b := by
  have := (be_eq_iff w a b).1 h
  rwa [Nat.mod_eq_of_lt ha, Nat.mod_eq_of_lt hb] at this

/-! ## splitting -/

/-- `bytes.Reader`-style fixed read: `none` when fewer than `k` bytes remain. -/
def takeN (k : Nat) (bs : Bytes) : Option (Bytes × Bytes) :=
  if bs.length < k then none else some (bs.take k, bs.drop k)

theorem takeN_append_of_length {k : Nat} {a b : Bytes} (h : a.length = k) : takeN k (a ++ b) = some (a, b) := by
  subst h
  simp [takeN]

theorem takeN_some {k : Nat} {bs a b : Bytes} (h : takeN k bs = some (a, b)) : bs = a ++ b ∧ a.length = k := by
  unfold takeN at h
  split at h
  · cases h
  · rename_i hlt
    cases h
    constructor
    · simp
    · simp; omega

/-! ## hex -/

def hexDigit (n : Nat) : Char :=
  if n < 10 then Char.ofNat (48 + n) else Char.ofNat (87 + n)

def hexOfByte (b : UInt8) : List Char := [hexDigit (b.toNat / 16), hexDigit (b.toNat % 16)]

def hexChars (bs : Bytes) : List Char := bs.flatMap hexOfByte

def toHex (bs : Bytes) : String := String.ofList (hexChars bs)

def hexVal (c : Char) : Option Nat :=
  if '0' ≤ c ∧ c ≤ '9' then some (c.toNat - 48)
  else if 'a' ≤ c ∧ c ≤ 'f' then some (c.toNat - 87)
  else if 'A' ≤ c ∧ c ≤ 'F' then some (c.toNat - 55)
  else none

def unhexChars : List Char → Option Bytes
  | [] => some []
  | [_] => none
  | a :: b :: rest =>
    match hexVal a, hexVal b, unhexChars rest with
    | some x, some y, some r => some (UInt8.ofNat (x * 16 + y) :: r)
    | _, _, _ => none

def ofHex (s : String) : Option Bytes := unhexChars s.toList

/-! ## decimal -/

def decChars (n : Nat) : List Char := (Nat.repr n).toList

end Whv
