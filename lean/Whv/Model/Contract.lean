import Whv.Model.Verify
/-!
# Contract-side signature verification (hand model)

`Messages.sol` `verifyVM` + `verifySignatures` and `governance.ral` `parseAndVerifyVAA`, after parsing. The byte layout they
parse is tied to the Go encoder by C04 (`Whv.Gen.C04`, `wire_body`, `header_offsets`); the quorum formulas are the translated
`Whv.Gen.C07` terms; the loop shapes below are hand-modelled and their presence in the sources is checked textually
(`Whv.Gen.C07.solLoopShape` / `ralLoopShape`). `recover` is the contract's ecrecover over the double-Keccak body hash:
`ecrecover(hash, v+27, r, s)` resp. `ethEcRecover!(hash, r ‖ s ‖ v+27)`, assumed to agree with go-ethereum's
`Ecrecover(hash, r ‖ s ‖ v)` (trusted).
-/
namespace Whv.Contract
open Whv

/-- Ralph: `lastGuardianIndex` starts at -1; each index must exceed it; the key is sliced out of the guardian blob
(an index beyond the set makes `byteVecSlice!` abort); the recovered address must equal it. -/
def ralSigLoop (recover : Bytes → Option Addr) (keys : List Addr) : List Sig → Int → Bool
  | [], _ => true
  | s :: rest, last =>
    if ¬ ((s.idx : Int) > last) then false
    else match keys[s.idx]? with
      | none => false
      | some k => if recover s.sig ≠ some k then false else ralSigLoop recover keys rest s.idx

/-- Ralph `parseAndVerifyVAA`'s acceptance of the signature section: non-empty set, quorum, loop. -/
def ralAccepts (quorumF : Nat → Nat) (recover : Bytes → Option Addr) (sigs : List Sig) (keys : List Addr) : Bool :=
  if keys.length = 0 then false
  else if ¬ (quorumF keys.length ≤ sigs.length) then false
  else ralSigLoop recover keys sigs (-1)

/-- Solidity `verifySignatures`: `require(i == 0 || sig.guardianIndex > lastIndex)`; `keys[idx]` out of range reverts;
`ecrecover(...) != keys[idx]` returns false. -/
def solSigLoop (recover : Bytes → Option Addr) (keys : List Addr) : List Sig → Bool → Nat → Bool
  | [], _, _ => true
  | s :: rest, first, last =>
    if ¬ (first ∨ s.idx > last) then false
    else match keys[s.idx]? with
      | none => false
      | some k => if recover s.sig ≠ some k then false else solSigLoop recover keys rest false s.idx

/-- Solidity `verifyVM` (guardian-set expiry aside): non-empty set, quorum, `verifySignatures`. -/
def solAccepts (quorumF : Nat → Nat) (recover : Bytes → Option Addr) (sigs : List Sig) (keys : List Addr) : Bool :=
  if keys.length = 0 then false
  else if sigs.length < quorumF keys.length then false
  else solSigLoop recover keys sigs true 0

/-! ## Which guardian set's size the count guard reads

The two functions above take the key list of the set the VAA *names* (`getGuardianSet(vm.guardianSetIndex)` resp.
`getGuardiansInfo(<bytes 1..5>)`) and read its length in the quorum guard.  Whether the sources do that is a fact extracted on
every run (`Whv.Gen.C07.solGuardSet` / `ralGuardSet`, checks/c07.py): the operand of the guard is resolved through the
functions' straight-line locals to the set stored under the VAA's own index (`"named"`) or to another stored set
(`"current"` = the one under `_state.guardianSetIndex` / slot 1).  The functions below model verification on the contract's
stored sets with that fact as a parameter: the signatures are always checked against the named set's keys, the count guard
reads the size of the named set only for `"named"` and the size of the current set otherwise. -/

/-- The stored guardian sets as far as verification reads them: the key list under each index (empty: no such set) and the
current index. -/
structure ChainSets where
  sets : Nat → List Addr
  current : Nat

/-- The key list whose LENGTH the count guard reads. -/
def guardKeys (guardSet : String) (st : ChainSets) (gsIndex : Nat) : List Addr :=
  if guardSet = "named" then st.sets gsIndex else st.sets st.current

/-- Solidity `verifyVM` on the stored sets (expiry aside) for a VAA naming set `gsIndex`. -/
def solVerifyVM (guardSet : String) (quorumF : Nat → Nat) (recover : Bytes → Option Addr) (st : ChainSets) (gsIndex : Nat)
    (sigs : List Sig) : Bool :=
  if (st.sets gsIndex).length = 0 then false
  else if sigs.length < quorumF (guardKeys guardSet st gsIndex).length then false
  else solSigLoop recover (st.sets gsIndex) sigs true 0

/-- Ralph `parseAndVerifyVAA`'s signature section on the stored sets (expiry aside) for a VAA naming set `gsIndex`. -/
def ralVerifyVAA (guardSet : String) (quorumF : Nat → Nat) (recover : Bytes → Option Addr) (st : ChainSets) (gsIndex : Nat)
    (sigs : List Sig) : Bool :=
  if (st.sets gsIndex).length = 0 then false
  else if ¬ (quorumF (guardKeys guardSet st gsIndex).length ≤ sigs.length) then false
  else ralSigLoop recover (st.sets gsIndex) sigs (-1)

end Whv.Contract
