/-!
# Supervisor — model of `node/pkg/supervisor` (supervisor.go, supervisor_node.go, supervisor_processor.go)

The supervision tree is kept *flat*: one `Node` record per tree node, keyed by its distinguished name
(`DN` = the path below `root`, so `root` is `[]` and `root.a.b` is `["a","b"]`).  The Go code addresses
nodes by dn as well (`nodeByDN`, and every map inside `processGC` is keyed by dn); the children of `p`
are exactly the records whose dn is `p ++ [name]`.

Deterministic functions follow the Go methods statement by statement:

* `signal`        — `(*node).signal`            (supervisor_node.go:252-267)
* `runGroup`      — `(*node).runGroup`          (supervisor_node.go:206-249)
* `resetNode`     — `(*node).reset`             (supervisor_node.go:155-178)
* `processDied`   — `(*supervisor).processDied` (supervisor_processor.go:160-218)
* `processGC`     — `(*supervisor).processGC`   (supervisor_processor.go:223-390)
* `processKill`   — `(*supervisor).processKill` (supervisor_processor.go:100-125)

`nodeByDN` panics (`could not find …`) are an explicit `Panic` result.

The concurrent system (`Sys`, `step`) is the processor goroutine (one request or one GC pass or the
final kill at a time) interleaved with the actions of runnable goroutines (signal, run a group, return /
panic).  Go scheduling, the 1 ms GC ticker, the back-off sleepers and channel hand-offs are *not* modelled
beyond this nondeterministic interleaving: a request is "pending" from the moment a goroutine decides to
send it until the processor takes it, for an arbitrary finite time.

`fixed : Bool` selects the GC readiness test: `true` is the repaired code (`DONE` counts as restartable
only once the node's goroutine has returned, `Node.exited`), `false` is the pinned code (`DONE` always
counts).  With `fixed = false` the field `exited` is a ghost (written, never read).
-/
namespace Whv.Sup

/-- Distinguished name below the root: `root` is `[]`, `root.a.b` is `["a","b"]`. -/
abbrev DN := List String

inductive NState where
  | new | healthy | dead | done | canceled
deriving DecidableEq, Hashable, Repr

/-- What a runnable goroutine handed to `processDied`: `nil`, an error whose innermost cause is
`context.Canceled` (the only value `ctx.Err()` takes here: no deadlines are used), anything else
(a panic is reported as an error of this kind). -/
inductive ErrKind where
  | nil | ctx | other
deriving DecidableEq, Hashable, Repr

inductive Panic where
  | nodeByDN      -- "could not find … in …"
  | signal        -- "node … signaled healthy/done" in the wrong state
  | nilDeref      -- group member without a child record (unreachable on well-formed trees)
deriving DecidableEq, Hashable, Repr

structure Node where
  dn : DN
  state : NState
  /-- `n.ctx.Err() != nil` (own cancel function called, or an ancestor context cancelled). -/
  cancelled : Bool
  /-- repaired code: the goroutine of this incarnation has returned and its `died` request was processed. -/
  exited : Bool
  /-- `n.bo.currentInterval` (ns). -/
  bo : Nat
  /-- `n.groups`: each supervision group is the list of its member names. -/
  groups : List (List String)
  /-- ghost: incarnation number, fresh at `newNode` / `reset` (stands for the identity of `n.ctx`). -/
  inc : Nat
deriving DecidableEq, Hashable, Repr

abbrev Tree := List Node

/-- Parameters of `backoff.ExponentialBackOff` as configured by `newNode` (Multiplier is 1.5). -/
structure Params where
  initial : Nat := 500000000
  max : Nat := 60000000000
deriving DecidableEq, Hashable, Repr

/-- `incrementCurrentInterval`: `if float64(cur) >= float64(Max)/1.5 then Max else Duration(float64(cur)*1.5)`
(exact in float64 below 2^52 ns). -/
def Params.next (P : Params) (cur : Nat) : Nat :=
  if 3 * cur ≥ 2 * P.max then P.max else cur * 3 / 2

def find (t : Tree) (dn : DN) : Option Node := t.find? (fun n => n.dn = dn)

def modify (t : Tree) (dn : DN) (f : Node → Node) : Tree :=
  t.map fun n => if n.dn = dn then f n else n

/-- `p` is `d` or an ancestor of `d`. -/
def under (p d : DN) : Bool := p.isPrefixOf d

/-- `p` is a proper ancestor of `d`. -/
def above (p d : DN) : Bool := p.isPrefixOf d && decide (p.length < d.length)

/-- Calling a node's `ctxC`: its context and every context derived from it report an error. -/
def cancelSub (t : Tree) (dn : DN) : Tree :=
  t.map fun n => if under dn n.dn then { n with cancelled := true } else n

/-- `reNodeName.MatchString(name)` with the *unanchored* `[a-z90-9_]{1,64}`: some character of the class occurs. -/
def validName (s : String) : Bool :=
  s.toList.any fun c => ('a' ≤ c && c ≤ 'z') || ('0' ≤ c && c ≤ '9') || c = '_'

inductive Signal where
  | healthy | done
deriving DecidableEq, Hashable, Repr

/-- `Signal(ctx, s)` = `fromContext` (→ `nodeByDN`) then `(*node).signal`. -/
def signal (P : Params) (t : Tree) (dn : DN) (sg : Signal) : Except Panic Tree :=
  match find t dn with
  | none => .error .nodeByDN
  | some n =>
    match sg with
    | .healthy =>
      if n.state ≠ .new then .error .signal
      else .ok (modify t dn fun n => { n with state := .healthy, bo := P.initial })
    | .done =>
      if n.state ≠ .healthy then .error .signal
      else .ok (modify t dn fun n => { n with state := .done, bo := P.initial })

/-- A freshly made child (`newNode` + `reset`): its context derives from the parent's. -/
def newChild (P : Params) (parent : Node) (inc : Nat) (name : String) : Node :=
  { dn := parent.dn ++ [name], state := .new, cancelled := parent.cancelled, exited := false,
    bo := P.initial, groups := [], inc := inc }

/-- `RunGroup(ctx, runnables)`; `names` are the map's keys.  `.ok none` = an error was returned to the
caller and nothing changed. -/
def runGroup (P : Params) (t : Tree) (dn : DN) (names : List String) (inc : Nat) : Except Panic (Option Tree) :=
  match find t dn with
  | none => .error .nodeByDN
  | some n =>
    if n.state ≠ .new then .ok none
    else if names.any (fun nm => !validName nm || (find t (dn ++ [nm])).isSome) then .ok none
    else
      let t := modify t dn fun n => { n with groups := n.groups ++ [names] }
      .ok (some (t ++ names.map (newChild P n inc)))

/-- `cur.parent == nil || cur.parent.ctx.Err() == nil`. -/
def parentLive (t : Tree) (dn : DN) : Bool :=
  match dn with
  | [] => true
  | _ => match find t dn.dropLast with
    | some p => !p.cancelled
    | none => false

def parentCancelled (t : Tree) (dn : DN) : Bool :=
  match dn with
  | [] => false       -- context.Background()
  | _ => match find t dn.dropLast with
    | some p => p.cancelled
    | none => true

/-- `groupSiblings(name)` on the parent: the first group that contains the name. -/
def groupOf (groups : List (List String)) (name : String) : List String :=
  match groups.find? (fun g => g.contains name) with
  | some g => g
  | none => []

/-- `(*supervisor).processDied`. -/
def processDied (t : Tree) (dn : DN) (e : ErrKind) : Except Panic Tree :=
  match find t dn with
  | none => .error .nodeByDN
  | some n =>
    -- repaired code: `n.exited = true`
    let t := modify t dn fun n => { n with exited := true }
    if n.state = .done ∧ e = .nil then .ok t
    else if n.cancelled = true ∧ e = .ctx then
      .ok (modify t dn fun n => { n with state := .canceled })
    else
      let t := modify t dn fun n => { n with state := .dead }
      let t := cancelSub t dn
      match dn.getLast? with
      | none => .ok t                     -- the root has no siblings
      | some name =>
        let par := dn.dropLast
        match find t par with
        | none => .error .nilDeref
        | some p =>
          let sibs := (groupOf p.groups name).filter (· ≠ name)
          if sibs.any (fun s => (find t (par ++ [s])).isNone) then .error .nilDeref
          else .ok (sibs.foldl (fun t s => cancelSub t (par ++ [s])) t)

/-- "the node itself must be restartable (ie. DONE, DEAD or CANCELED)" — with the repair a `DONE` node
additionally needs its goroutine to have returned. -/
def readySelf (fixed : Bool) (n : Node) : Bool :=
  match n.state with
  | .done => if fixed then n.exited else true
  | .canceled => true
  | .dead => true
  | _ => false

/-- Phase two of the GC: a subtree is ready iff every node in it is (the Go work-list computes this
bottom-up; the result does not depend on the visiting order). -/
def ready (fixed : Bool) (t : Tree) (dn : DN) : Bool :=
  t.all fun n => !under dn n.dn || readySelf fixed n

def want (n : Node) : Bool := n.state = .dead || n.state = .canceled

/-- `want[dn] && ready[dn]` and the parent context is valid. -/
def eligible (fixed : Bool) (t : Tree) (n : Node) : Bool :=
  want n && ready fixed t n.dn && parentLive t n.dn

/-- Phase three descends from the root and stops at the first eligible node of every branch:
a node is looked at iff no proper ancestor is eligible. -/
def blocked (fixed : Bool) (t : Tree) (dn : DN) : Bool :=
  t.any fun m => above m.dn dn && eligible fixed t m

def inCan (fixed : Bool) (t : Tree) (n : Node) : Bool :=
  eligible fixed t n && !blocked fixed t n.dn

/-- The `can` set of `processGC`. -/
def can (fixed : Bool) (t : Tree) : List Node := t.filter (inCan fixed t)

/-- Nominal back-off handed to the sleeper (before the library's ± randomisation); 0 unless `DEAD`. -/
def backoffOf (n : Node) : Nat := if n.state = .dead then n.bo else 0

/-- `NextBackOff` (only when `DEAD`) followed by `n.reset()`. -/
def resetNode (P : Params) (t : Tree) (inc : Nat) (n : Node) : Node :=
  { n with state := .new, cancelled := parentCancelled t n.dn, exited := false, groups := [], inc := inc,
           bo := if n.state = .dead then P.next n.bo else n.bo }

/-- `(*supervisor).processGC`: the new tree and the reschedule requests `(dn, nominal back-off)`. -/
def processGC (P : Params) (fixed : Bool) (t : Tree) (inc : Nat) : Tree × List (DN × Nat) :=
  let c := can fixed t
  let t' := t.filterMap fun n =>
    if inCan fixed t n then some (resetNode P t inc n)
    else if c.any (fun r => above r.dn n.dn) then none      -- `reset` dropped the children map
    else some n
  (t', c.map fun n => (n.dn, backoffOf n))

/-- `(*supervisor).processKill`: every node's cancel function is called. -/
def processKill (t : Tree) : Tree := t.map fun n => { n with cancelled := true }

/-! ## The concurrent system -/

/-- A goroutine started by `processSchedule`, running the runnable of `dn`. -/
structure Inst where
  iid : Nat
  dn : DN
  inc : Nat
deriving DecidableEq, Hashable, Repr

/-- A request some goroutine is sending (or will send after its back-off sleep) on `pReq`. -/
inductive Req where
  | sched (dn : DN)
  | died (dn : DN) (e : ErrKind)
deriving DecidableEq, Hashable, Repr

def Req.dn : Req → DN
  | .sched d => d
  | .died d _ => d

structure Sys where
  tree : Tree
  live : List Inst
  pend : List Req
  nextInc : Nat
  nextIid : Nat
  /-- the processor saw `ctx.Done()`, ran `processKill` and returned. -/
  killed : Bool
deriving DecidableEq, Hashable, Repr

inductive Act where
  /-- processor: takes a pending schedule request, `processSchedule` starts the goroutine. -/
  | sched (dn : DN)
  /-- processor: takes a pending died request, `processDied`. -/
  | died (dn : DN) (e : ErrKind)
  /-- processor: GC tick. -/
  | gc
  /-- processor: supervisor context done → `processKill`, processor returns. -/
  | kill
  /-- runnable `iid` calls `Signal`. A panic inside it unwinds the runnable (panic capture on). -/
  | sig (iid : Nat) (s : Signal)
  /-- runnable `iid` calls `RunGroup` with these (distinct) names. -/
  | run (iid : Nat) (names : List String)
  /-- runnable `iid` returns `e` (or panics: `other`), after any latency. -/
  | ret (iid : Nat) (e : ErrKind)
deriving DecidableEq, Hashable, Repr

def rootNode (P : Params) : Node :=
  { dn := [], state := .new, cancelled := false, exited := false, bo := P.initial, groups := [], inc := 0 }

/-- `supervisor.New`: the root node and the first schedule request. -/
def init (P : Params) : Sys :=
  { tree := [rootNode P], live := [], pend := [.sched []], nextInc := 1, nextIid := 0, killed := false }

/-- The context a running instance holds: the node's own while the node is still in its incarnation,
otherwise a context of a node that was reset or dropped (those are always cancelled: a node is only reset
when `DEAD`/`CANCELED`, and everything below it derives from its context). -/
def instCancelled (t : Tree) (i : Inst) : Bool :=
  match find t i.dn with
  | some n => if n.inc = i.inc then n.cancelled else true
  | none => true

/-- One transition; `none` = not enabled (or the processor goroutine itself would panic, which crashes
the process — `Whv.C18.processor_never_panics` shows that does not happen on the repaired code). -/
def step (P : Params) (fixed : Bool) (s : Sys) : Act → Option Sys
  | .sched dn =>
    if s.killed then none
    else if Req.sched dn ∉ s.pend then none
    else match find s.tree dn with
      | none => none
      | some n => some { s with pend := s.pend.erase (.sched dn),
                                live := s.live ++ [{ iid := s.nextIid, dn := dn, inc := n.inc }],
                                nextIid := s.nextIid + 1 }
  | .died dn e =>
    if s.killed then none
    else if Req.died dn e ∉ s.pend then none
    else match processDied s.tree dn e with
      | .error _ => none
      | .ok t => some { s with pend := s.pend.erase (.died dn e), tree := t }
  | .gc =>
    if s.killed then none
    else
      let (t, rs) := processGC P fixed s.tree s.nextInc
      some { s with tree := t, pend := s.pend ++ rs.map (fun r => Req.sched r.1), nextInc := s.nextInc + 1 }
  | .kill =>
    if s.killed then none
    else some { s with tree := processKill s.tree, killed := true }
  | .sig iid sg =>
    match s.live.find? (fun i => i.iid = iid) with
    | none => none
    | some i =>
      match signal P s.tree i.dn sg with
      | .ok t => some { s with tree := t }
      | .error _ => some { s with live := s.live.erase i, pend := s.pend ++ [.died i.dn .other] }
  | .run iid names =>
    match s.live.find? (fun i => i.iid = iid) with
    | none => none
    | some i =>
      if ¬ names.Nodup then none
      else match runGroup P s.tree i.dn names s.nextInc with
        | .ok (some t) => some { s with tree := t, pend := s.pend ++ names.map (fun nm => Req.sched (i.dn ++ [nm])),
                                        nextInc := s.nextInc + 1 }
        | .ok none => some s
        | .error _ => some { s with live := s.live.erase i, pend := s.pend ++ [.died i.dn .other] }
  | .ret iid e =>
    match s.live.find? (fun i => i.iid = iid) with
    | none => none
    | some i => some { s with live := s.live.erase i, pend := s.pend ++ [.died i.dn e] }

def run (P : Params) (fixed : Bool) : Sys → List Act → Option Sys
  | s, [] => some s
  | s, a :: as => match step P fixed s a with
    | some s' => run P fixed s' as
    | none => none

/-- Number of live instances of `dn`. -/
def liveCount (s : Sys) (dn : DN) : Nat := (s.live.filter fun i => i.dn = dn).length

/-! ## The supervisor option `WithPropagatePanic`

`supervisor.New(ctx, logger, root, opts...)`: the only option that exists sets `s.propagatePanic`
(supervisor.go:81-93; `guardiand` passes it, node/cmd/guardiand/node.go).  The field is read in ONE place, the
goroutine started by `processSchedule` (supervisor_processor.go:133-157):

```go
go func() {
    if !s.propagatePanic {
        defer func() { if rec := recover(); rec != nil { s.pReq <- died{dn, fmt.Errorf("panic: ...")} } }()
    }
    res := n.runnable(n.ctx)
    s.pReq <- died{dn, res}
}()
```

So the option only decides what happens to a PANIC that unwinds the runnable; a runnable that RETURNS sends the very
same `died` request with the option on or off.  `step` above is the system with the option off (`Act.ret iid .other`
stands for a panic as well as for an error return; a panic inside `Signal` / `RunGroup` becomes a `died … other`).
`stepO` is the system under either setting, with the panic kept apart from the return and with the unrecovered
panic as an explicit outcome: the Go runtime ends the whole process (never a default). -/

/-- How the goroutine started by `processSchedule` comes out of `n.runnable(n.ctx)`. -/
inductive Exit where
  /-- the runnable returned this value (`nil`, a context error, any other error) -/
  | returned (e : ErrKind)
  /-- the runnable - or a supervisor call inside it (`Signal` in a wrong state, `nodeByDN`) - panicked -/
  | panicked
deriving DecidableEq, Hashable, Repr

/-- What that goroutine does next. -/
inductive Report where
  /-- `s.pReq <- &processorRequest{died: &processorRequestDied{dn, err}}` -/
  | died (e : ErrKind)
  /-- nobody recovers the panic: the process ends -/
  | crash
deriving DecidableEq, Hashable, Repr

/-- The body of the `processSchedule` goroutine after the runnable is over, `propagatePanic` being the supervisor's field. -/
def reportOf (propagatePanic : Bool) : Exit → Report
  | .returned e => .died e
  | .panicked => if propagatePanic then .crash else .died .other

/-- Outcome of one transition of the configured system. -/
inductive Outcome where
  | next (s : Sys)
  /-- an unrecovered panic travelled up a goroutine: the process has ended (supervisor, services and all) -/
  | crashed
  /-- the action is not enabled in this state -/
  | disabled
deriving DecidableEq, Repr

def Outcome.ofOption : Option Sys → Outcome
  | some s => .next s
  | none => .disabled

/-- Actions of the configured system: those of `Act` — where `.ret iid e` now is a RETURN of the value `e` only — and
a panic raised by the runnable's own code. -/
inductive OAct where
  | act (a : Act)
  | panic (iid : Nat)
deriving DecidableEq, Hashable, Repr

/-- The same action in the option-off system `step`, where a panic is the death `other`. -/
def OAct.toAct : OAct → Act
  | .act a => a
  | .panic iid => .ret iid .other

/-- The runnable of instance `i` is over. -/
def endInst (propagatePanic : Bool) (s : Sys) (i : Inst) (x : Exit) : Outcome :=
  match reportOf propagatePanic x with
  | .died e => .next { s with live := s.live.erase i, pend := s.pend ++ [.died i.dn e] }
  | .crash => .crashed

/-- One transition of the system whose supervisor was built with `propagatePanic`.  The processor's own steps
(`sched`, `died`, `gc`, `kill`) never look at the option. -/
def stepO (propagatePanic : Bool) (P : Params) (fixed : Bool) (s : Sys) : OAct → Outcome
  | .act (.sig iid sg) =>
    match s.live.find? (fun i => i.iid = iid) with
    | none => .disabled
    | some i =>
      match signal P s.tree i.dn sg with
      | .ok t => .next { s with tree := t }
      | .error _ => endInst propagatePanic s i .panicked
  | .act (.run iid names) =>
    match s.live.find? (fun i => i.iid = iid) with
    | none => .disabled
    | some i =>
      if ¬ names.Nodup then .disabled
      else match runGroup P s.tree i.dn names s.nextInc with
        | .ok (some t) => .next { s with tree := t, pend := s.pend ++ names.map (fun nm => Req.sched (i.dn ++ [nm])),
                                         nextInc := s.nextInc + 1 }
        | .ok none => .next s
        | .error _ => endInst propagatePanic s i .panicked
  | .act (.ret iid e) =>
    match s.live.find? (fun i => i.iid = iid) with
    | none => .disabled
    | some i => endInst propagatePanic s i (.returned e)
  | .panic iid =>
    match s.live.find? (fun i => i.iid = iid) with
    | none => .disabled
    | some i => endInst propagatePanic s i .panicked
  | .act a => Outcome.ofOption (step P fixed s a)

/-- The action makes a runnable goroutine panic in state `s`: its own code panics, or the `Signal` / `RunGroup` call
it makes does. -/
def raises (P : Params) (s : Sys) : OAct → Bool
  | .panic iid => (s.live.find? (fun i => i.iid = iid)).isSome
  | .act (.sig iid sg) =>
    match s.live.find? (fun i => i.iid = iid) with
    | none => false
    | some i => match signal P s.tree i.dn sg with | .ok _ => false | .error _ => true
  | .act (.run iid names) =>
    match s.live.find? (fun i => i.iid = iid) with
    | none => false
    | some i => decide names.Nodup && (match runGroup P s.tree i.dn names s.nextInc with | .ok _ => false | .error _ => true)
  | .act _ => false

def runO (propagatePanic : Bool) (P : Params) (fixed : Bool) : Sys → List OAct → Outcome
  | s, [] => .next s
  | s, a :: as => match stepO propagatePanic P fixed s a with
    | .next s' => runO propagatePanic P fixed s' as
    | o => o

/-- No action of the sequence makes a runnable panic (evaluated along the option-off run). -/
def panicFree (P : Params) (fixed : Bool) : Sys → List OAct → Bool
  | _, [] => true
  | s, a :: as => !raises P s a && (match step P fixed s a.toAct with
    | some s' => panicFree P fixed s' as
    | none => true)

end Whv.Sup
