import Whv.Model.Bytes
/-!
# Alephium watcher — executable model of `node/pkg/alephium/{watcher,reobserve,client}.go` (C08, C09)

The node's answers are *inputs*: every function below takes the answers the Alephium full node gave
(main-chain flag, block header, event pages, event count, transaction status, token metadata) as oracle
parameters; a `none` answer is an API error.  The conversion `ToWormholeMessage` (owned by C11) is an
oracle too: an `Event` carries `conv : Option Msg`, the ground truth of whether and to what its fields convert.

The model follows the code with the C08 / C09 repairs applied (`/verif/fixes/C08-*.diff`, `C09-*.diff`):
metadata results are nil-checked one by one, the page loop stops at `NextStart >= count`, an event that
does not convert is skipped, re-observation keeps only events of the configured contract in the confirmed
block and applies `isEventConfirmed`.  Go `int32` / `int64` additions wrap (`i32`, `i64`).
-/
namespace Whv.Alph
open Whv

abbrev Hash := String

/-- `sdk.BlockHeaderEntry` (the two fields the watcher reads). -/
structure Header where
  height : Int
  ts : Int
deriving DecidableEq, Repr

/-- `WormholeMessage` without its tx id (that is the event's). -/
structure Msg where
  sender : Bytes
  targetChain : Nat
  nonce : Nat
  seq : Nat
  cl : Nat
  payload : Bytes
deriving DecidableEq, Repr

/-- A contract event as served by the node. `id` is its position in the governance contract's event log
(polling path) or in the transaction's event list (re-observation). -/
structure Event where
  id : Nat
  block : Hash
  tx : Hash
  idx : Int
  contract : String
  conv : Option Msg
deriving DecidableEq, Repr

/-- `UnconfirmedEvent`: an event together with its converted message. -/
structure Unconf where
  ev : Event
  msg : Msg
deriving DecidableEq, Repr

/-- `common.MessagePublication` as handed to the signing pipeline. -/
structure Pub where
  tx : Hash
  ts : Int
  nonce : Nat
  seq : Nat
  cl : Nat
  emitterChain : Nat
  targetChain : Nat
  emitter : Bytes
  payload : Bytes
deriving DecidableEq, Repr

structure Cfg where
  mainnet : Bool
  bridge : Bytes
  gov : String
deriving Repr

/-! ## Go fixed-width arithmetic -/

/-- two's complement wrap of `x` to `int32` -/
def i32 (x : Int) : Int := (x + 2147483648) % 4294967296 - 2147483648
/-- two's complement wrap of `x` to `int64` -/
def i64 (x : Int) : Int := (x + 9223372036854775808) % 18446744073709551616 - 9223372036854775808

/-! ## `isEventConfirmed`, `getConfirmationDuration` (watcher.go:479-510) -/

def ChainIdAlephium : Nat := 255
def BlockTimeMs : Nat := 16000
def MinimalConsistencyLevel : Nat := 205

def isTransfer (m : Msg) : Bool := match m.payload with | b :: _ => b == 1 | [] => false
def isAttest (m : Msg) : Bool := match m.payload with | b :: _ => b == 2 | [] => false

def confDur (mainnet transfer : Bool) (cl : Nat) : Nat :=
  if mainnet && transfer then (max cl MinimalConsistencyLevel) * BlockTimeMs else cl * BlockTimeMs

def isEventConfirmed (m : Msg) (h : Header) (now height : Int) (mainnet : Bool) : Bool :=
  if i32 (h.height + m.cl) > height then false
  else if i64 (h.ts + confDur mainnet (isTransfer m) m.cl) > now then false
  else true

/-- `toMessagePublication` -/
def toPub (tx : Hash) (m : Msg) (h : Header) : Pub :=
  { tx := tx, ts := h.ts, nonce := m.nonce, seq := m.seq, cl := m.cl, emitterChain := ChainIdAlephium,
    targetChain := m.targetChain, emitter := m.sender, payload := m.payload }

/-! ## Token metadata (client.go `GetTokenInfo`, utils.go `parseAttestToken`) -/

structure TokenInfo where
  tokenId : Bytes
  decimals : Nat
  symbol : Bytes
  name : Bytes
deriving DecidableEq, Repr

/-- `bytes.Trim(bs, "\x00")` -/
def trimNul (bs : Bytes) : Bytes := ((bs.dropWhile (· == 0)).reverse.dropWhile (· == 0)).reverse

def parseAttest (p : Bytes) : Option TokenInfo :=
  if p.length ≠ 100 then none
  else if unbe ((p.drop 33).take 2) ≠ ChainIdAlephium then none
  else some { tokenId := (p.drop 1).take 32, decimals := (p.getD 35 0).toNat,
              symbol := trimNul ((p.drop 36).take 32), name := trimNul ((p.drop 68).take 32) }

/-- one returned `sdk.Val` of a contract call -/
inductive Ret where
  | bytes (v : Option Bytes)   -- ByteVec; `none`: the value string is not valid hex
  | u256 (v : Option Nat)      -- U256; `none`: the value string is not a numeral
  | other
deriving DecidableEq, Repr

inductive CallRes where
  | failed                     -- CallContractFailed
  | neither                    -- neither variant decoded (both pointers nil)
  | ok (rets : List Ret)       -- CallContractSucceeded
deriving DecidableEq, Repr

/-- answer to `POST /contracts/multicall-contract` -/
inductive TiAns where
  | apiErr
  | results (rs : List CallRes)
deriving DecidableEq, Repr

def alphTokenId : Bytes := List.replicate 32 0
def alphTokenInfo : TokenInfo :=
  { tokenId := alphTokenId, decimals := 18, symbol := "ALPH".toUTF8.toList, name := "Alephium".toUTF8.toList }

/-- `result.CallContractSucceeded == nil || len(Returns) != 1` fails, otherwise the single return value -/
def singleRet : CallRes → Option Ret
  | .ok [r] => some r
  | _ => none

def retBytes : Ret → Option Bytes
  | .bytes v => v
  | _ => none

/-- `toUint8` with the C11 repair (0..255 accepted) -/
def retUint8 : Ret → Option Nat
  | .u256 (some n) => if n ≤ 255 then some n else none
  | _ => none

def getTokenInfo (ans : Bytes → TiAns) (tokenId : Bytes) : Option TokenInfo :=
  if tokenId = alphTokenId then some alphTokenInfo
  else match ans tokenId with
    | .apiErr => none
    | .results [r0, r1, r2] =>
      match singleRet r0, singleRet r1, singleRet r2 with
      | some s, some n, some d =>
        match retBytes s, retBytes n, retUint8 d with
        | some sb, some nb, some dv => some { tokenId := tokenId, decimals := dv, symbol := trimNul sb, name := trimNul nb }
        | _, _, _ => none
      | _, _, _ => none
    | .results _ => none

/-- `validateAttestToken` -/
def validateAttest (ans : Bytes → TiAns) (m : Msg) : Bool :=
  match parseAttest m.payload with
  | none => false
  | some ti => getTokenInfo ans ti.tokenId == some ti

/-! ## `toUnconfirmedEvent`, `handleUnconfirmedEvents` (repaired: an event that does not convert is skipped) -/

def toUnconfirmed (e : Event) : Option Unconf :=
  if e.idx ≠ 0 then none else e.conv.map fun m => ⟨e, m⟩

/-- what `handleUnconfirmedEvents` does with one event -/
def acceptEv (ans : Bytes → TiAns) (e : Event) : Option Unconf :=
  match toUnconfirmed e with
  | none => none
  | some u => if isAttest u.msg then (if validateAttest ans u.msg then some u else none) else some u

def handleUnconfirmed (ans : Bytes → TiAns) (evs : List Event) : List Unconf := evs.filterMap (acceptEv ans)

/-! ## token metadata that changes over time

`ans` — what the token contracts answer — is a parameter of every single call of `handleUnconfirmed` and of every single
re-observation request (`ReobsNode.ti` below): an attestation is compared with what the contract reports *in that call*, and
nothing an earlier call has learned is kept anywhere (`GetTokenInfo` asks the node every time).  `handleUnconfirmedRemembering`
is the variant that keeps the first successful answer per token id (in the `Client`, say) and asks the node only on a miss.  It
is *not* admissible: a contract can be migrated, a token can simply answer differently later — from then on an attestation of
the remembered values is let through and one of the values the contract reports now is dropped
(`C08.remembered_answers_go_stale`). -/

/-- remembered look-ups: token id ↦ the first successful answer -/
abbrev TiMemo := List (Bytes × TokenInfo)

def getTokenInfoRemembering (memo : TiMemo) (ans : Bytes → TiAns) (tokenId : Bytes) : Option TokenInfo × TiMemo :=
  if tokenId = alphTokenId then (some alphTokenInfo, memo)
  else match memo.lookup tokenId with
    | some ti => (some ti, memo)
    | none =>
      match getTokenInfo ans tokenId with
      | some ti => (some ti, (tokenId, ti) :: memo)
      | none => (none, memo)

def acceptEvRemembering (memo : TiMemo) (ans : Bytes → TiAns) (e : Event) : Option Unconf × TiMemo :=
  match toUnconfirmed e with
  | none => (none, memo)
  | some u =>
    if isAttest u.msg then
      match parseAttest u.msg.payload with
      | none => (none, memo)
      | some ti =>
        let r := getTokenInfoRemembering memo ans ti.tokenId
        (if r.1 == some ti then some u else none, r.2)
    else (some u, memo)

def handleUnconfirmedRemembering (memo : TiMemo) (ans : Bytes → TiAns) : List Event → List Unconf × TiMemo
  | [] => ([], memo)
  | e :: rest =>
    let r := acceptEvRemembering memo ans e
    let rr := handleUnconfirmedRemembering r.2 ans rest
    ((match r.1 with | some u => [u] | none => []) ++ rr.1, rr.2)

/-! ## pending events and `process` (watcher.go:384-448) -/

/-- `UnconfirmedEventsPerBlock` with its map key -/
structure PBlock where
  block : Hash
  hdr : Option Header
  evs : List Unconf
deriving DecidableEq, Repr

/-- the node's answers during one `process` call -/
structure Oracle where
  main : Hash → Option Bool
  hdr : Hash → Option Header

def confirmedIn (cfg : Cfg) (h : Header) (height now : Int) (u : Unconf) : Bool :=
  isEventConfirmed u.msg h now height cfg.mainnet

def headerOf (o : Oracle) (pb : PBlock) : Option Header :=
  match pb.hdr with
  | some h => some h
  | none => o.hdr pb.block

/-- one iteration of `for blockHash, blockEvents := range pendingEvents`; `none` = an API error (the watcher ends) -/
def processBlock (cfg : Cfg) (o : Oracle) (height now : Int) (pb : PBlock) : Option (List PBlock × List (Unconf × Header)) :=
  match o.main pb.block with
  | none => none
  | some canon =>
    match headerOf o pb with
    | none => none
    | some h =>
      let remain := pb.evs.filter fun u => !confirmedIn cfg h height now u
      let conf := pb.evs.filter (confirmedIn cfg h height now)
      some (if remain.isEmpty then [] else [{ pb with hdr := some h, evs := remain }],
            if canon then conf.map (fun u => (u, h)) else [])

def process (cfg : Cfg) (o : Oracle) (height now : Int) : List PBlock → Option (List PBlock × List (Unconf × Header))
  | [] => some ([], [])
  | pb :: rest =>
    match processBlock cfg o height now pb, process cfg o height now rest with
    | some (p, c), some (ps, cs) => some (p ++ ps, c ++ cs)
    | _, _ => none

/-- `handleConfirmedEvents`: the entries handed to the signer (in order) and whether it returned an error -/
def handleConfirmed (cfg : Cfg) : List (Unconf × Header) → List (Unconf × Header) × Bool
  | [] => ([], false)
  | (u, h) :: rest =>
    if u.ev.idx = 0 then
      if u.msg.sender = cfg.bridge then
        let r := handleConfirmed cfg rest
        ((u, h) :: r.1, r.2)
      else handleConfirmed cfg rest
    else ([], true)

def pubOf (c : Unconf × Header) : Pub := toPub c.1.ev.tx c.1.msg c.2

/-- filing one event under its block hash -/
def addEvent : List PBlock → Unconf → List PBlock
  | [], u => [{ block := u.ev.block, hdr := none, evs := [u] }]
  | pb :: rest, u =>
    if pb.block = u.ev.block then { pb with evs := pb.evs ++ [u] } :: rest else pb :: addEvent rest u

def addBatch (pend : List PBlock) (us : List Unconf) : List PBlock := us.foldl addEvent pend

/-! ## the watcher as a state machine -/

structure WState where
  pending : List PBlock := []
  enabled : Bool := false      -- blockPollerEnabled
  alive : Bool := true         -- false once something was sent on errC (Run returns)
  fromIndex : Int := 0         -- fetch loop
deriving Repr

def stepBatch (s : WState) (us : List Unconf) : WState :=
  { s with pending := addBatch s.pending us, enabled := s.enabled || !us.isEmpty }

/-- `case height := <-heightC`: returns the entries handed to the signer -/
def stepHeight (cfg : Cfg) (o : Oracle) (height now : Int) (s : WState) : WState × List (Unconf × Header) :=
  match process cfg o height now s.pending with
  | none => ({ s with alive := false }, [])
  | some (pend, conf) =>
    let en := if pend.isEmpty then false else s.enabled
    if conf.isEmpty then ({ s with pending := pend, enabled := en }, [])
    else
      let r := handleConfirmed cfg conf
      ({ s with pending := pend, enabled := en, alive := s.alive && !r.2 }, r.1)

/-- `_fetchHeight` (one enabled tick) followed by the event loop's `case height := <-heightC`: the height the node
just reported (`latest`; `none` = API error, which ends the watcher) is passed on unchanged — it may be lower than
an earlier one (reorg, resync, lagging node). -/
def stepPolled (cfg : Cfg) (o : Oracle) (latest : Option Int) (now : Int) (s : WState) : WState × List (Unconf × Header) :=
  match latest with
  | none => ({ s with alive := false }, [])
  | some height => stepHeight cfg o height now s

/-- `Run` has returned (an error reached `errC`, or its context was cancelled) and the supervisor starts it again **on the same
`Watcher` value**.  What the loops keep in local variables starts afresh — `pendingEvents` is empty, `fetchEvents` reads the
current event count and starts there (`none`: that first count request fails and the new incarnation ends at once) — while
the fields of the `Watcher` itself survive: of those the loops read only `blockPollerEnabled`.  Nothing else about the
previous incarnation is remembered: no index, no event, no answer of the node. -/
def restartW (s : WState) (count0 : Option Int) : WState :=
  match count0 with
  | none => { pending := [], enabled := s.enabled, alive := false, fromIndex := s.fromIndex }
  | some c => { pending := [], enabled := s.enabled, alive := true, fromIndex := c }

/-! ## the count-then-pages fetch loop (watcher.go:214-256, repaired exit test) -/

structure Page where
  events : List Event
  next : Int
deriving Repr

inductive LoopRes where
  | done (next : Int) (evs : List Event) (requests : Nat)
  | apiErr
  | outOfFuel
deriving Repr, DecidableEq

/-- `page k start` is the node's answer to the `k`-th page request of this tick, asked with `start`. -/
def pageLoop (page : Nat → Int → Option Page) (count : Int) : Nat → Nat → Int → List Event → LoopRes
  | 0, _, _, _ => .outOfFuel
  | fuel + 1, k, start, acc =>
    match page k start with
    | none => .apiErr
    | some p =>
      if p.next ≥ count then .done p.next (acc ++ p.events) (k + 1)
      else pageLoop page count fuel (k + 1) p.next (acc ++ p.events)

/-- the answer to the count request: `none` = API error (a 404 is reported as `some 0` by the client) -/
def fetchTick (ans : Bytes → TiAns) (count : Option Int) (page : Nat → Int → Option Page) (fuel : Nat) (s : WState) : WState × Option (List Unconf) :=
  match count with
  | none => ({ s with alive := false }, none)
  | some c =>
    if c = s.fromIndex then (s, none)
    else match pageLoop page c fuel 0 s.fromIndex [] with
      | .done next evs _ =>
        let us := handleUnconfirmed ans evs
        (stepBatch { s with fromIndex := next } us, some us)
      | _ => ({ s with alive := false }, none)

/-! ## a failing request inside a round: what a watcher that carries on may and may not do

The pinned `fetchEvents` reports a failing page request on `errC` and ends (`fetchTick` above: `alive := false`); the
supervisor starts a new watcher.  The statement does not demand that: a watcher may carry on.  Two ways of carrying on,
both with "nothing is handed over in the failed round":

* `fetchTickKeep` — the cursor stays where the round started, so the next round asks for the same events again;
* `fetchTickDrop` — the cursor stays where the failed round had got to, and the events of the pages fetched before the
  failing request are thrown away with the round.  This is *not* admissible: those events are never asked for again
  (`C09.dropped_pages_are_lost`). -/

/-- the page loop, also reporting how far it got when a request fails: `(cursor, events fetched so far)` -/
def pageLoopTrace (page : Nat → Int → Option Page) (count : Int) : Nat → Nat → Int → List Event → LoopRes × Int × List Event
  | 0, _, start, acc => (.outOfFuel, start, acc)
  | fuel + 1, k, start, acc =>
    match page k start with
    | none => (.apiErr, start, acc)
    | some p =>
      if p.next ≥ count then (.done p.next (acc ++ p.events) (k + 1), p.next, acc ++ p.events)
      else pageLoopTrace page count fuel (k + 1) p.next (acc ++ p.events)

/-- carry on after a failing request, cursor unchanged: the round is repeated by the next tick -/
def fetchTickKeep (ans : Bytes → TiAns) (count : Option Int) (page : Nat → Int → Option Page) (fuel : Nat) (s : WState) : WState × Option (List Unconf) :=
  match count with
  | none => (s, none)
  | some c =>
    if c = s.fromIndex then (s, none)
    else match pageLoop page c fuel 0 s.fromIndex [] with
      | .done next evs _ =>
        let us := handleUnconfirmed ans evs
        (stepBatch { s with fromIndex := next } us, some us)
      | _ => (s, none)

/-- carry on after a failing request with the cursor where the failed round had got to, its pages thrown away -/
def fetchTickDrop (ans : Bytes → TiAns) (count : Option Int) (page : Nat → Int → Option Page) (fuel : Nat) (s : WState) : WState × Option (List Unconf) :=
  match count with
  | none => (s, none)
  | some c =>
    if c = s.fromIndex then (s, none)
    else match pageLoopTrace page c fuel 0 s.fromIndex [] with
      | (.done next evs _, _, _) =>
        let us := handleUnconfirmed ans evs
        (stepBatch { s with fromIndex := next } us, some us)
      | (_, cursor, _) => ({ s with fromIndex := cursor }, none)

/-! ## a count that moves backwards

The count request may be answered lower than before (a load-balanced endpoint answering from a backend that is behind, a
fail-over, a node that is resyncing).  The pinned `fetchEvents` compares the count with its cursor for equality only: a lower
count sends it into the page loop *from its cursor* (`fetchTick` above: the page loop starts at `s.fromIndex` whatever the
count), and a node never answers a page request with a `nextStart` below the `start` it was asked with — the cursor never
moves back (`C09.cursor_never_moves_back`).  `fetchTickFollow` is the variant that lets the cursor follow a lower count; it
is *not* admissible: once the count is right again the positions between the dip and the old cursor are fetched and handed
over a second time (`C09.following_the_count_refetches`). -/

/-- the cursor follows a count that is lower than it (and nothing is fetched in that tick) -/
def fetchTickFollow (ans : Bytes → TiAns) (count : Option Int) (page : Nat → Int → Option Page) (fuel : Nat) (s : WState) : WState × Option (List Unconf) :=
  match count with
  | none => ({ s with alive := false }, none)
  | some c =>
    if c = s.fromIndex then (s, none)
    else if c < s.fromIndex then ({ s with fromIndex := c }, none)
    else match pageLoop page c fuel 0 s.fromIndex [] with
      | .done next evs _ =>
        let us := handleUnconfirmed ans evs
        (stepBatch { s with fromIndex := next } us, some us)
      | _ => ({ s with alive := false }, none)

/-! ## `NewAlephiumWatcher` (watcher.go:88-131) -/

/-- `common.ChainConfig` for Alephium as `common.ReadConfigsByNetwork` fills it from `configs/alephium/<network>.json`, together with
a key of that file the struct does not declare (the JSON decoder drops it): `minimalConsistencyLevel`, the minimum the
token-bridge *contract* accepts from its callers.  `governance` / `tokenBridge`: the contract ids as `HexToFixedSizeBytes(·, 32)`
decodes them (`none`: not 64 hex digits). -/
structure ChainCfg where
  groupIndex : Nat
  governance : Option Bytes
  tokenBridge : Option Bytes
  minimalConsistencyLevel : Nat
deriving Repr

/-- what the constructor fixes: the `Cfg` the two delivery paths read, and the group every request names -/
structure Built where
  cfg : Cfg
  group : Nat
deriving Repr

/-- `NewAlephiumWatcher(url, apiKey, chainConfig, …, isMainnet)`; `toAddr` is `ToContractAddress` on the decoded id (base58, C11).
Nothing but the two contract ids and the group index is taken from the configuration; the network flag is the caller's
(`*network == "mainnet"` in node.go). -/
def newWatcher (toAddr : Bytes → String) (cc : ChainCfg) (isMainnet : Bool) : Option Built :=
  match cc.governance, cc.tokenBridge with
  | some g, some b => some { cfg := { mainnet := isMainnet, bridge := b, gov := toAddr g }, group := cc.groupIndex }
  | _, _ => none

/-! ## re-observation (reobserve.go, repaired) -/

inductive TxStatus where
  | confirmed (block : Hash)
  | other
deriving DecidableEq, Repr

structure ReobsNode where
  status : Option TxStatus
  txEvents : Option (List Event)
  hdr : Hash → Option Header
  main : Hash → Option Bool
  height : Option Int
  ti : Bytes → TiAns

/-- `getGovernanceEventsByTxId`; `none` = it returned an error -/
def govEvents (cfg : Cfg) (node : ReobsNode) (bh : Hash) : List Event → Option (List (Unconf × Header))
  | [] => some []
  | e :: rest =>
    if e.idx ≠ 0 then govEvents cfg node bh rest
    else if e.contract ≠ cfg.gov ∨ e.block ≠ bh then govEvents cfg node bh rest
    else match node.hdr e.block with
      | none => none
      | some h =>
        match e.conv with
        | none => none
        | some m =>
          if isAttest m && !validateAttest node.ti m then govEvents cfg node bh rest
          else (govEvents cfg node bh rest).map fun l => (⟨e, m⟩, h) :: l

/-- one request through `handleObsvRequest`; the result is what reaches `msgChan`, in order.
`tx` is the hex transaction id of the request. -/
def reobserve (cfg : Cfg) (node : ReobsNode) (now : Int) (chain hashLen : Nat) (tx : Hash) : List Pub :=
  if chain ≠ ChainIdAlephium then []
  else if hashLen ≠ 32 then []
  else match node.status with
    | none => []
    | some .other => []
    | some (.confirmed bh) =>
      match node.txEvents with
      | none => []
      | some evs =>
        match govEvents cfg node bh evs with
        | none => []
        | some cands =>
          match node.main bh with
          | none => []
          | some false => []
          | some true =>
            match node.height with
            | none => []
            | some height =>
              let confirmed := cands.filter fun c => isEventConfirmed c.1.msg c.2 now height cfg.mainnet
              (confirmed.filter fun c => c.1.msg.sender = cfg.bridge).map fun c => toPub tx c.1.msg c.2

end Whv.Alph
