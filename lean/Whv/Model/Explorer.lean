import Whv.Model.Verify
/-!
# Explorer backend — model of the VAA ingestion gate (C19)

Anchors (module `explorer-backend`, which links `node/pkg/vaa` and `processor.CalculateQuorum` from the
pinned module-cache version `github.com/alephium/wormhole-fork/node v0.0.0-20240818215257-cb0667c4f6c1`):

* `guardiansets/gst_data.go` — `GuardianSets{currentGuardianSetIndex, guardianSetLists}`,
  `updateGuardianSets`, `GetGuardianSet`, `GetCurrentGuardianSet`, `getGuardianSetsFromChain`;
* `processor/vaa_gossip_consumer.go` — `verifyVAA`, `Push`;
* `deduplicator/deduplicator.go` — `Apply`.

Two granularities: the *atomic* model (`update`, `getGuardianSet`, `push`: what one goroutine observes) and
the *fine-grained* model (`Fine.step`), where an update is two separate writes, a lookup two separate reads,
and goroutines interleave arbitrarily.
-/
namespace Whv.Explorer
open Whv

/-- `common.GuardianSet`; `keys = none` is a nil `Keys` slice. -/
structure GSet where
  index : Nat
  keys : Option (List Addr)
  deriving DecidableEq, Repr

/-- The two fields of `GuardianSets` the property is about. `cur` is a Go `int` (it is `len(list)-1`
after `NewGuardianSets`, so `-1` is representable). -/
structure GS where
  cur : Int
  list : List GSet
  deriving DecidableEq, Repr

def two32 : Nat := 4294967296

/-- `uint32(x)` of a Go `int`. -/
def u32 (x : Int) : Nat := (x % (two32 : Int)).toNat

/-- The search loop of `updateGuardianSets` (gst_data.go:110-115): position of the first set whose
`Index` equals `target`. -/
def findFirst (target : Nat) : List GSet → Option Nat
  | [] => none
  | s :: rest => if s.index = target then some 0 else (findFirst target rest).map (· + 1)

/-- `index := 0; for i, gs := range sets { if gs.Index == target { index = i; break } }` — not found ⇒ 0. -/
def startIndex (sets : List GSet) (target : Nat) : Nat := (findFirst target sets).getD 0

/-- What `updateGuardianSets` decides under the lock: `none` = return without writing;
`some (newCur, tail)` = `currentGuardianSetIndex = newCur` and `guardianSetLists = append(.., tail...)`. -/
def plan (cur : Int) (sets : List GSet) : Option (Int × List GSet) :=
  match sets.getLast? with
  | none => none                                        -- len(guardianSets) == 0
  | some last =>
    if last.index ≤ u32 cur then none                   -- maxGuardianSetIndex <= uint32(current)
    else some ((last.index : Int), sets.drop (startIndex sets ((u32 cur + 1) % two32)))

inductive UpdRes | nil | err
  deriving DecidableEq, Repr

/-- `updateGuardianSets` as one atomic operation (gst_data.go:97-124). The state is written even when the
final length check makes it return an error. -/
def update (g : GS) (sets : List GSet) : GS × UpdRes :=
  match plan g.cur sets with
  | none => (g, .nil)
  | some (nc, tail) =>
    let l := g.list ++ tail
    (⟨nc, l⟩, if (l.length : Int) ≠ nc + 1 then .err else .nil)

/-- `slice[i]` with a Go `int` index: `none` is the runtime panic. -/
def listAt (l : List GSet) (i : Int) : Option GSet := if i < 0 then none else l[i.toNat]?

/-- The chain as the explorer sees it: the answer of `contract.GetGuardianSet(index)`;
`none` = the RPC failed, `some keys` = the key list returned (the contract answers every index). -/
abbrev Chain := Nat → Option (Option (List Addr))

/-- `getGuardianSetsFromChain`'s loop `for index := from; index <= to; index++` (gst_data.go:165-179),
`n` iterations starting at `i`; an RPC error aborts the whole fetch. -/
def fetchLoop (chain : Chain) : Nat → Nat → Option (List GSet)
  | 0, _ => some []
  | n + 1, i =>
    match chain i with
    | none => none
    | some keys =>
      match fetchLoop chain n (i + 1) with
      | none => none
      | some rest => some (⟨i, keys⟩ :: rest)

/-- (`to = 2^32-1` makes the Go loop counter wrap and never terminate; the model, like the harness, stays below.) -/
def fetchRange (chain : Chain) (lo hi : Nat) : Option (List GSet) := fetchLoop chain (hi + 1 - lo) lo

inductive GetRes
  | ok (s : GSet)
  | err
  | panic
  deriving DecidableEq, Repr

structure GetOut where
  st : GS
  res : GetRes
  /-- what was sent on `guardianSetC` -/
  sent : List GSet
  /-- the range requested from the chain, if any -/
  asked : Option (Nat × Nat)
  deriving DecidableEq, Repr

/-- `GetGuardianSet(ctx, index)` as one atomic operation (gst_data.go:50-67). `dial = false`: `getContract` failed. -/
def getGuardianSet (g : GS) (index : Int) (dial : Bool) (chain : Chain) : GetOut :=
  if index ≤ g.cur then
    match listAt g.list index with
    | some s => ⟨g, .ok s, [], none⟩
    | none => ⟨g, .panic, [], none⟩
  else
    let lo := u32 (g.cur + 1)
    let hi := u32 index
    if !dial then ⟨g, .err, [], none⟩
    else
      match fetchRange chain lo hi with
      | none => ⟨g, .err, [], some (lo, hi)⟩
      | some sets =>
        let g' := (update g sets).1
        match listAt g'.list g'.cur with                       -- gs.guardianSetC <- gs.GetCurrentGuardianSet()
        | none => ⟨g', .panic, [], some (lo, hi)⟩
        | some c =>
          if index > g'.cur then ⟨g', .err, [c], some (lo, hi)⟩
          else
            match listAt g'.list index with
            | some s => ⟨g', .ok s, [c], some (lo, hi)⟩
            | none => ⟨g', .panic, [c], some (lo, hi)⟩

/-- `GetGuardianSet(ctx, index)` when other callers run between its two critical sections (gst_data.go:50-67: `lookup`
releases the lock before the chain is asked): the first `lookup` read `current = cur0` and took the slow path, the range
`[cur0+1 .. index]` was fetched without the lock, and the fetched batch reaches `updateGuardianSets` in the state `g` that the
other callers (the periodic updater, another lookup) have produced meanwhile — an *overlapping* fetch when `cur0 < g.cur`
(the batch starts below `g.cur + 1`), a *repeated* one when it ends at or below `g.cur`.  `cur0 = g.cur` is `getGuardianSet`. -/
def getGuardianSetStale (g : GS) (cur0 : Int) (index : Int) (dial : Bool) (chain : Chain) : GetOut :=
  if index ≤ cur0 then getGuardianSet g index dial chain
  else
    let lo := u32 (cur0 + 1)
    let hi := u32 index
    if !dial then ⟨g, .err, [], none⟩
    else
      match fetchRange chain lo hi with
      | none => ⟨g, .err, [], some (lo, hi)⟩
      | some sets =>
        let g' := (update g sets).1
        match listAt g'.list g'.cur with
        | none => ⟨g', .panic, [], some (lo, hi)⟩
        | some c =>
          if index > g'.cur then ⟨g', .err, [c], some (lo, hi)⟩
          else
            match listAt g'.list index with
            | some s => ⟨g', .ok s, [c], some (lo, hi)⟩
            | none => ⟨g', .panic, [c], some (lo, hi)⟩

/-- `GetCurrentGuardianSet`. -/
def getCurrent (g : GS) : Option GSet := listAt g.list g.cur

/-- `NewGuardianSets(list, …)`: `current = len(list)-1`, then the current set is sent on the channel
(`none` = the constructor panics, which it does for an empty list). -/
def newGuardianSets (l : List GSet) : Option (GS × GSet) :=
  let g : GS := ⟨(l.length : Int) - 1, l⟩
  match getCurrent g with
  | none => none
  | some c => some (g, c)

/-! ## verifyVAA, Apply, Push -/

inductive VerifyErr | noAddresses | notSigned | noQuorum | badSignatures
  deriving DecidableEq, Repr

/-- `verifyVAA` (vaa_gossip_consumer.go:38-60). `recover` is ecrecover for the VAA's own digest. -/
def verifyVAA (recover : Bytes → Option Addr) (v : Vaa) (addrs : Option (List Addr)) : Option VerifyErr :=
  match addrs with
  | none => some .noAddresses
  | some a =>
    if v.sigs.length = 0 then some .notSigned
    else if v.sigs.length < quorum a.length then some .noQuorum
    else if !verifySignatures recover v.sigs a then some .badSignatures
    else none

/-- Outcome of `Deduplicator.Apply(key, fn)`: was `fn` called, was the key stored, was an error returned.
`hit` is what `cache.Get` answered (the cache is an arbitrary function of its history), `fnOk` what `fn` returned. -/
structure ApplyOut where
  called : Bool
  stored : Bool
  err : Bool
  deriving DecidableEq, Repr

def apply (hit : Bool) (fnOk : Bool) : ApplyOut :=
  if hit then ⟨false, false, false⟩
  else if !fnOk then ⟨true, false, true⟩
  else ⟨true, true, false⟩

inductive PushRes
  | getErr | getPanic
  | invalid (e : VerifyErr)
  | dup          -- already seen: nothing queued, nil returned
  | queued
  | full         -- "message queue is full"
  deriving DecidableEq, Repr

structure PushOut where
  st : GS
  res : PushRes
  sent : List GSet
  asked : Option (Nat × Nat)
  /-- the message was put on the queue -/
  enq : Bool
  /-- the key was stored in the dedup cache -/
  stored : Bool
  deriving DecidableEq, Repr

/-- `Push` (vaa_gossip_consumer.go:63-94): `hit` = the dedup cache's answer for the VAA's message id,
`room` = the non-blocking send found space in the queue. -/
def push (g : GS) (v : Vaa) (recover : Bytes → Option Addr) (dial : Bool) (chain : Chain) (hit room : Bool) : PushOut :=
  let o := getGuardianSet g (v.gsIndex : Int) dial chain
  match o.res with
  | .err => ⟨o.st, .getErr, o.sent, o.asked, false, false⟩
  | .panic => ⟨o.st, .getPanic, o.sent, o.asked, false, false⟩
  | .ok s =>
    match verifyVAA recover v s.keys with
    | some e => ⟨o.st, .invalid e, o.sent, o.asked, false, false⟩
    | none =>
      let a := apply hit room
      ⟨o.st, if hit then .dup else if room then .queued else .full, o.sent, o.asked, a.called && room, a.stored⟩

/-- `Push` whose guardian-set lookup is overtaken by other callers (`getGuardianSetStale`). -/
def pushStale (g : GS) (cur0 : Int) (v : Vaa) (recover : Bytes → Option Addr) (dial : Bool) (chain : Chain) (hit room : Bool) : PushOut :=
  let o := getGuardianSetStale g cur0 (v.gsIndex : Int) dial chain
  match o.res with
  | .err => ⟨o.st, .getErr, o.sent, o.asked, false, false⟩
  | .panic => ⟨o.st, .getPanic, o.sent, o.asked, false, false⟩
  | .ok s =>
    match verifyVAA recover v s.keys with
    | some e => ⟨o.st, .invalid e, o.sent, o.asked, false, false⟩
    | none =>
      let a := apply hit room
      ⟨o.st, if hit then .dup else if room then .queued else .full, o.sent, o.asked, a.called && room, a.stored⟩

/-! ## Fine-grained model: goroutines interleaving on the two shared fields

Each goroutine runs one operation; any execution of goroutines that run several operations in sequence
is an execution of this model (program order only restricts the schedules).  Operations:

* `get i` — the fast path of `GetGuardianSet` (`index <= current` ⇒ `list[index]`, else a miss);
* `refresh b` — what both callers of `updateGuardianSets` do: read `current`, fetch `[current+1 .. b]`
  from the chain, call `updateGuardianSets` (lock, decide, two writes, unlock).

The slow path of `GetGuardianSet` is `get i` (miss); `refresh i`; `get i`.

`Cfg.lockedReads` — the reads of `currentGuardianSetIndex` / `guardianSetLists` outside `updateGuardianSets`
take `gs.lock` (the repair); `false` is the pinned code.  `Cfg.indexFirst` — `currentGuardianSetIndex` is
written before the append (the pinned code's order).
-/
namespace Fine

structure Cfg where
  lockedReads : Bool
  indexFirst : Bool
  deriving DecidableEq, Repr

/-- the pinned code -/
def pinned : Cfg := ⟨false, true⟩
/-- the repaired code (fixes/C19-guardian-set-read-lock.diff): reads under the lock, index published after the append -/
def repaired : Cfg := ⟨true, false⟩

inductive Op
  | get (i : Nat)
  | refresh (b : Nat)
  deriving DecidableEq, Repr

inductive Res
  | ok (s : GSet)
  | miss
  | panic
  | unit
  deriving DecidableEq, Repr

inductive Pc
  | idle
  | fetched (sets : List GSet)               -- refresh: `current` read, range fetched
  | locked (sets : List GSet)                -- inside updateGuardianSets, lock held
  | mid (newCur : Int) (tail : List GSet)    -- first of the two writes done
  | unlocking                                -- deferred Unlock pending
  | reading (c : Int)                        -- get: `current` read (= c, and i ≤ c), list not yet
  | done (r : Res)
  deriving DecidableEq, Repr

structure Thread where
  op : Op
  pc : Pc
  deriving DecidableEq, Repr

structure Sys where
  cur : Int
  list : List GSet
  lock : Option Nat
  threads : Nat → Thread

def upd (f : Nat → Thread) (k : Nat) (t : Thread) : Nat → Thread := fun j => if j = k then t else f j

/-- An honest chain: every index has a key list, no RPC failures. -/
def fetchAll (chain : Nat → Option (List Addr)) : Nat → Nat → List GSet
  | 0, _ => []
  | n + 1, i => ⟨i, chain i⟩ :: fetchAll chain n (i + 1)

/-- One step of goroutine `k`; `none` = not enabled (blocked on the mutex, or finished). -/
def step (cfg : Cfg) (chain : Nat → Option (List Addr)) (s : Sys) (k : Nat) : Option Sys :=
  let th := s.threads k
  let set (pc : Pc) : Nat → Thread := upd s.threads k ⟨th.op, pc⟩
  match th.pc with
  | .idle =>
    match th.op with
    | .refresh b =>
      -- read `current` (one read; under the lock in the repaired code), fetch the range
      if cfg.lockedReads && s.lock.isSome then none
      else
        let lo := u32 (s.cur + 1)
        some { s with threads := set (.fetched (fetchAll chain (b + 1 - lo) lo)) }
    | .get i =>
      if cfg.lockedReads then
        if s.lock.isSome then none
        else if (i : Int) ≤ s.cur then some { s with lock := some k, threads := set (.reading s.cur) }
        else some { s with threads := set (.done .miss) }
      else
        if (i : Int) ≤ s.cur then some { s with threads := set (.reading s.cur) }
        else some { s with threads := set (.done .miss) }
  | .fetched sets =>
    if sets.isEmpty then some { s with threads := set (.done .unit) }      -- len == 0: returns before Lock
    else if s.lock.isSome then none
    else some { s with lock := some k, threads := set (.locked sets) }
  | .locked sets =>
    match plan s.cur sets with
    | none => some { s with threads := set .unlocking }
    | some (nc, tail) =>
      if cfg.indexFirst then some { s with cur := nc, threads := set (.mid nc tail) }
      else some { s with list := s.list ++ tail, threads := set (.mid nc tail) }
  | .mid nc tail =>
    if cfg.indexFirst then some { s with list := s.list ++ tail, threads := set .unlocking }
    else some { s with cur := nc, threads := set .unlocking }
  | .unlocking => some { s with lock := none, threads := set (.done .unit) }
  | .reading _ =>
    match th.op with
    | .get i =>
      let r := match s.list[i]? with
        | some x => Res.ok x
        | none => Res.panic
      some { s with lock := if cfg.lockedReads then none else s.lock, threads := set (.done r) }
    | .refresh _ => none
  | .done _ => none

/-- Run a schedule (a list of goroutine ids); a goroutine that is not enabled is skipped. -/
def run (cfg : Cfg) (chain : Nat → Option (List Addr)) : Sys → List Nat → Sys
  | s, [] => s
  | s, k :: ks => run cfg chain ((step cfg chain s k).getD s) ks

end Fine

end Whv.Explorer
