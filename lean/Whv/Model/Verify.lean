import Whv.Model.Vaa
/-!
# Signature verification — model of `(*VAA).VerifySignatures` (structs.go:344-389)

`recover : Bytes → Option Bytes` is `crypto.Ecrecover(digest, ·)` followed by the Keccak address
derivation, for the VAA's own digest — an oracle (parameter), never computed in Lean.
-/
namespace Whv

abbrev Addr := Bytes

/-- The `for _, sig := range v.Signatures` loop; `last` is `last_index`, `seen` is `signing_addresses`. -/
def verifyLoop (recover : Bytes → Option Addr) (addrs : List Addr) : List Sig → Int → List Addr → Bool
  | [], _, _ => true
  | s :: rest, last, seen =>
    if (s.idx : Int) ≥ addrs.length then false
    else if (s.idx : Int) ≤ last then false
    else
      match recover s.sig with
      | none => false
      | some a =>
        if some a ≠ addrs[s.idx]? then false
        else if seen.contains a then false
        else verifyLoop recover addrs rest s.idx (seen ++ [a])

def verifySignatures (recover : Bytes → Option Addr) (sigs : List Sig) (addrs : List Addr) : Bool :=
  if addrs.length < sigs.length then false
  else verifyLoop recover addrs sigs (-1) []

/-- `CalculateQuorum` as specified (C07 proves the Go / Solidity / Ralph formulas equal to it). -/
def quorum (n : Nat) : Nat := 2 * n / 3 + 1

end Whv
