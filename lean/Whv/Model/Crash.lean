import Whv.Model.Bytes
/-!
# Crash contract of the signed-VAA store (C16) — what `db.go` relies on, as an executable model

`StoreSignedVAA` is one badger update transaction whose error is propagated: the caller sees success only after the
transaction has been appended to badger's write-ahead structures. The *contract* assumed of badger + the OS under a
process kill (SIGKILL; power loss is out of scope because `SyncWrites` is off) is:

* the store is a durable **log** of puts; a lookup returns the value of the newest log entry of that key;
* `put` first appends the entry, then the caller is told (acknowledged);
* a **crash** may lose entries only from the un-acknowledged end of the log (a suffix that contains no acknowledged entry);
* **reopen** replays the log: the store always comes back, holding what was not lost.

Lists are kept NEWEST FIRST. `log` is what is durable; `atts` is the client's view: every put ever started, flagged
acknowledged or not — that is exactly what the kill/reopen harness can observe (ack lines + the one put in flight).
Why badger honours this contract (WAL, mmap, page cache) is NOT exhibited by this model.
-/
namespace Whv.Crash
open Whv

structure Entry where
  key : Nat
  val : Bytes
  acked : Bool
  deriving DecidableEq, Repr

inductive Ev where
  | put (k : Nat) (v : Bytes)   -- a `StoreSignedVAA` call reaches the update transaction
  | ack                         -- …and returns nil: the caller is told
  | crash (cut : Nat)           -- SIGKILL; up to `cut` un-acknowledged newest entries are lost
  | reopen
  deriving Repr

structure CS where
  log : List Entry := []      -- durable entries, newest first
  atts : List Entry := []     -- every put ever started, newest first, with its acknowledgement flag
  up : Bool := true
  pending : Bool := false     -- a put of this incarnation has not been acknowledged yet (it is the head of both lists)
  deriving Repr

/-- Lose up to `n` newest entries, never an acknowledged one (nor anything older than an acknowledged one). -/
def cutUnacked : Nat → List Entry → List Entry
  | 0, l => l
  | _ + 1, [] => []
  | n + 1, e :: l => if e.acked then e :: l else cutUnacked n l

def ackHead : List Entry → List Entry
  | [] => []
  | e :: l => { e with acked := true } :: l

def step (s : CS) : Ev → CS
  | .put k v => if s.up then { s with log := ⟨k, v, false⟩ :: s.log, atts := ⟨k, v, false⟩ :: s.atts, pending := true } else s
  | .ack => if s.up && s.pending then { s with log := ackHead s.log, atts := ackHead s.atts, pending := false } else s
  | .crash cut => if s.up then { s with log := cutUnacked cut s.log, up := false, pending := false } else s
  | .reopen => { s with up := true }

def exec (s : CS) (evs : List Ev) : CS := evs.foldl step s

/-- Lookup: value of the newest durable entry of the key. -/
def lookup : List Entry → Nat → Option Bytes
  | [], _ => none
  | e :: l, k => if e.key = k then some e.val else lookup l k

/-! ## judging an observation -/

/-- `acceptKey atts k r`: is the lookup answer `r` for key `k` compatible with the attempt history `atts` (newest first)?
Walking from the newest attempt of `k`: un-acknowledged attempts may or may not have survived; the answer must be the
value of some attempt that is not older than the newest acknowledged one; "not found" needs that none was acknowledged. -/
def acceptKey : List Entry → Nat → Option Bytes → Bool
  | [], _, r => r.isNone
  | a :: t, k, r =>
    if a.key ≠ k then acceptKey t k r
    else if r = some a.val then true
    else if a.acked then false
    else acceptKey t k r

/-- Why an answer is rejected (the Spec clause reported by the driver). -/
def rejectReason (atts : List Entry) (k : Nat) (r : Option Bytes) : String :=
  match r with
  | none => "acked-write-lost"
  | some b => if atts.any (fun a => a.key = k && a.val = b) then "acked-write-rolled-back" else "lookup-returned-bytes-never-stored"

/-- A whole observation: the store reopened and every examined key is answered acceptably. -/
def accepts (atts : List Entry) (reopened : Bool) (answers : List (Nat × Option Bytes)) : Bool :=
  reopened && answers.all fun kr => acceptKey atts kr.1 kr.2

end Whv.Crash
