import Whv.Model.Vaa
import Whv.Gen.C15
/-!
# Governance requests → VAAs: model of `node/cmd/guardiand/adminserver.go` (request validation and
conversion, `InjectGovernanceVAA`), `node/pkg/vaa/payloads.go` (serializers), `node/pkg/vaa/governance.go`
(`CreateGovernanceVAA`) — and, on the contract side, of the Ralph governance parsers
(`alephium/contracts/governance.ral`, `token_bridge/token_bridge_governance.ral`) whose slice bounds and
size equations come from `Whv.Gen.C15`, re-extracted from the sources on every run.

Conventions: proto `uint32`/`uint64` fields are `Nat`s (their range is a hypothesis of the theorems, not of the
model), Go `string`s are byte lists (`Str`), Go narrowing conversions are written `% 2^k`, a Go `panic` is the
explicit result `Res.panic`.  The model follows the code REPAIRED by `/verif/fixes/C15-governance-range-checks.diff`
(range checks before every narrowing conversion, module length check, no panic on an unset `oneof`).
-/
namespace Whv.Gov
open Whv

/-- A Go `string`: a byte sequence (`len` counts bytes). -/
abbrev Str := Bytes

inductive Res (α : Type) where
  | ok (a : α)
  | err (msg : Str)
  | panic
  deriving DecidableEq, Repr

def s2b (s : String) : Str := s.toUTF8.toList

/-- `%d` -/
def dec (n : Nat) : Str := s2b (Nat.repr n)

/-! ## `encoding/hex` and go-ethereum's address helpers -/

def hexValB (c : UInt8) : Option Nat :=
  let n := c.toNat
  if 48 ≤ n ∧ n ≤ 57 then some (n - 48)
  else if 97 ≤ n ∧ n ≤ 102 then some (n - 87)
  else if 65 ≤ n ∧ n ≤ 70 then some (n - 55)
  else none

/-- `hex.DecodeString`: `none` = any error (`InvalidByteError` or `ErrLength`; the callers do not distinguish). -/
def hexDecode : Str → Option Bytes
  | [] => some []
  | [_] => none
  | a :: b :: rest =>
    match hexValB a, hexValB b, hexDecode rest with
    | some x, some y, some r => some (UInt8.ofNat (x * 16 + y) :: r)
    | _, _, _ => none

/-- `has0xPrefix` (go-ethereum `common/bytes.go`). -/
def has0x : Str → Bool
  | a :: b :: _ => a == 48 && (b == 120 || b == 88)
  | _ => false

/-- `ethcommon.IsHexAddress(s)` and, when it holds, `ethcommon.HexToAddress(s)`: optional `0x`/`0X` prefix, then
exactly 40 hex digits.  (`HexToAddress` is only ever called after `IsHexAddress` succeeded.) -/
def hexAddr? (s : Str) : Option Bytes :=
  let t := if has0x s then s.drop 2 else s
  if t.length = 40 then hexDecode t else none

/-! ## payloads.go -/

/-- `vaa.CoreModule` -/
def coreModule : Bytes := List.replicate 28 0 ++ [0x43, 0x6f, 0x72, 0x65]
/-- `vaa.TokenBridgeModule` -/
def tokenBridgeModule : Bytes := List.replicate 21 0 ++ [0x54, 0x6f, 0x6b, 0x65, 0x6e, 0x42, 0x72, 0x69, 0x64, 0x67, 0x65]

def serUpdateMessageFee (fee : Bytes) : Bytes := coreModule ++ (be 1 3 ++ fee)
def serTransferFee (amount recipient : Bytes) : Bytes := coreModule ++ (be 1 4 ++ (amount ++ recipient))
def serContractUpgrade (payload : Bytes) : Bytes := coreModule ++ (be 1 1 ++ payload)
/-- `uint8(len(b.Keys))` is `be 1`. -/
def serGuardianSetUpgrade (keys : List Bytes) (newIndex : Nat) : Bytes :=
  coreModule ++ (be 1 2 ++ (be 4 newIndex ++ (be 1 keys.length ++ keys.flatten)))

/-- left-padding of the module string; panics when it is longer than 32 bytes -/
def padModule (module : Str) : Bytes := List.replicate (32 - module.length) 0 ++ module

def serRegisterChain (module : Str) (chain : Nat) (emitter : Bytes) : Res Bytes :=
  if module.length > 32 then .panic
  else .ok (padModule module ++ (be 1 1 ++ (be 2 chain ++ emitter)))

def serBridgeUpgrade (module : Str) (payload : Bytes) : Res Bytes :=
  if module.length > 32 then .panic
  else .ok (padModule module ++ (be 1 2 ++ payload))

/-- `uint16(b.EmitterChain)`, `uint16(len(b.Sequences))` are `be 2`. -/
def serDestroy (chain : Nat) (seqs : List Nat) : Bytes :=
  tokenBridgeModule ++ (be 1 0xf0 ++ (be 2 chain ++ (be 2 seqs.length ++ (seqs.map (be 8)).flatten)))

def serMinConsistency (level : Nat) : Bytes := tokenBridgeModule ++ (be 1 0xf1 ++ be 1 level)

/-- `uint16(len(b.NewRefundAddress))` is `be 2`. -/
def serRefundAddress (addr : Bytes) : Bytes := tokenBridgeModule ++ (be 1 0xf2 ++ (be 2 addr.length ++ addr))

/-! ## adminserver.go: the nine request → payload conversions -/

structure Guardian where
  pubkey : Str
  name : Str
  deriving DecidableEq, Repr

inductive Payload where
  | none                                                        -- `oneof` not set
  | updateMessageFee (fee : Str)
  | transferFee (amount recipient : Str)
  | guardianSet (guardians : List Guardian)
  | contractUpgrade (payload : Str)
  | registerChain (module : Str) (chainId : Nat) (emitter : Str)
  | bridgeUpgrade (module : Str) (payload : Str)
  | destroy (emitterChain : Nat) (sequences : List Nat)
  | minConsistency (level : Nat)
  | refundAddress (addr : Str)
  deriving DecidableEq, Repr

def maxGuardianCount : Nat := 19
def zeroAddr : Bytes := List.replicate 20 0

def updateMessageFeePayload (fee : Str) : Res Bytes :=
  if fee.length ≠ 64 then .err (s2b "invalid new message fee")
  else match hexDecode fee with
    | none => .err (s2b "invalid message fee encoding (expected hex)")
    | some b => .ok (serUpdateMessageFee b)

def transferFeePayload (amount recipient : Str) : Res Bytes :=
  if amount.length ≠ 64 then .err (s2b "invalid transfer amount")
  else if recipient.length ≠ 64 then .err (s2b "invalid recipient address")
  else match hexDecode amount with
    | none => .err (s2b "invalid amount encoding (expected hex)")
    | some a =>
      match hexDecode recipient with
      | none => .err (s2b "invalid recipient encoding (expected hex)")
      | some r => .ok (serTransferFee a r)

/-- The loop of `adminGuardianSetUpgradeToVAA`: `done` are the addresses already stored; the Go slice `addrs` is
`done` followed by one zero address per guardian not yet processed (including the current one), and the duplicate
scan runs over all of it — so the zero address is always reported as a duplicate. -/
def gsLoop : List Guardian → List Bytes → Res (List Bytes)
  | [], done => .ok done
  | g :: rest, done =>
    match hexAddr? g.pubkey with
    | none => .err (s2b "invalid pubkey format at index " ++ dec done.length ++ s2b " (" ++ g.name ++ s2b ")")
    | some a =>
      match (done ++ List.replicate (rest.length + 1) zeroAddr).findIdx? (fun pk => pk == a) with
      | some j => .err (s2b "duplicate pubkey at index " ++ dec done.length ++ s2b " (duplicate of " ++ dec j ++ s2b "): " ++ g.name)
      | none => gsLoop rest (done ++ [a])

/-- The addresses a guardian list denotes (`none` when some key is not a hex address). -/
def keysOf : List Guardian → Option (List Bytes)
  | [] => some []
  | g :: gs =>
    match hexAddr? g.pubkey, keysOf gs with
    | some a, some r => some (a :: r)
    | _, _ => none

def guardianSetPayload (gs : List Guardian) (gsi : Nat) : Res Bytes :=
  if gs.length = 0 then .err (s2b "empty guardian set specified")
  else if gs.length > maxGuardianCount then
    .err (s2b "too many guardians - " ++ dec gs.length ++ s2b ", maximum is " ++ dec maxGuardianCount)
  else if gsi = 2 ^ 32 - 1 then .err (s2b "guardian set index overflow")
  else match gsLoop gs [] with
    | .ok addrs => .ok (serGuardianSetUpgrade addrs ((gsi + 1) % 2 ^ 32))
    | .err e => .err e
    | .panic => .panic

def contractUpgradePayload (payload : Str) : Res Bytes :=
  match hexDecode payload with
  | none => .err (s2b "invalid payload encoding (expected hex)")
  | some b => .ok (serContractUpgrade b)

def registerChainPayload (module : Str) (chainId : Nat) (emitter : Str) : Res Bytes :=
  if module.length > 32 then .err (s2b "invalid module (expected at most 32 bytes)")
  else if chainId > 65535 then .err (s2b "invalid chain_id")
  else match hexDecode emitter with
    | none => .err (s2b "invalid emitter address encoding (expected hex)")
    | some b =>
      if b.length ≠ 32 then .err (s2b "invalid emitter address (expected 32 bytes)")
      else serRegisterChain module (chainId % 2 ^ 16) b

def bridgeUpgradePayload (module : Str) (payload : Str) : Res Bytes :=
  if module.length > 32 then .err (s2b "invalid module (expected at most 32 bytes)")
  else match hexDecode payload with
    | none => .err (s2b "invalid payload encoding (expected hex)")
    | some b => serBridgeUpgrade module b

def destroyPayload (emitterChain : Nat) (seqs : List Nat) : Res Bytes :=
  if emitterChain > 65535 then .err (s2b "invalid emitter_chain")
  else if seqs.length > 65535 then .err (s2b "too many sequences - " ++ dec seqs.length ++ s2b ", maximum is 65535")
  else .ok (serDestroy (emitterChain % 2 ^ 16) seqs)

def minConsistencyPayload (level : Nat) : Res Bytes :=
  if level > 255 then .err (s2b "invalid new_consistency_level")
  else .ok (serMinConsistency (level % 2 ^ 8))

def refundAddressPayload (addr : Str) : Res Bytes :=
  match hexDecode addr with
  | none => .err (s2b "invalid refund address encoding (expected hex)")
  | some b =>
    if b.length > 65535 then .err (s2b "invalid refund address (expected at most 65535 bytes)")
    else .ok (serRefundAddress b)

/-- The `switch payload := message.Payload.(type)` of `InjectGovernanceVAA` down to the payload bytes. -/
def convert (gsi : Nat) : Payload → Res Bytes
  | .none => .err (s2b "unsupported VAA type: <nil>")
  | .updateMessageFee fee => updateMessageFeePayload fee
  | .transferFee a r => transferFeePayload a r
  | .guardianSet gs => guardianSetPayload gs gsi
  | .contractUpgrade p => contractUpgradePayload p
  | .registerChain m c e => registerChainPayload m c e
  | .bridgeUpgrade m p => bridgeUpgradePayload m p
  | .destroy c s => destroyPayload c s
  | .minConsistency l => minConsistencyPayload l
  | .refundAddress a => refundAddressPayload a

/-! ## governance.go and `InjectGovernanceVAA` -/

/-- The node's configuration: `governanceChainId`, `governanceEmitterAddress`. -/
structure Cfg where
  chain : Nat
  emitter : Bytes
  deriving DecidableEq, Repr

structure Msg where
  sequence : Nat
  nonce : Nat
  targetChain : Nat
  payload : Payload
  deriving DecidableEq, Repr

structure Req where
  currentSetIndex : Nat
  timestamp : Nat
  msgs : List Msg
  deriving DecidableEq, Repr

/-- `vaa.CreateGovernanceVAA` -/
def createGovernanceVaa (cfg : Cfg) (ts nonce seq targetChain gsi : Nat) (payload : Bytes) : Vaa :=
  { version := 1, gsIndex := gsi, sigs := [],
    body := { ts := ts, nonce := nonce, emitterChain := cfg.chain, targetChain := targetChain, emitter := cfg.emitter,
              sequence := seq, consistency := 32, payload := payload } }

def grpcUnknown : Nat := 2
def grpcInvalidArgument : Nat := 3

/-- What the handler returns: digests of all VAAs (they are functions of the VAAs, see C04), a gRPC status, or a panic. -/
inductive IRes where
  | ok
  | err (code : Nat) (msg : Str)
  | panic
  deriving DecidableEq, Repr

/-- One iteration of the handler's loop: `Except`-like — the VAA to push on `injectC`, or how the request ends. -/
def injectOne (cfg : Cfg) (req : Req) (m : Msg) : Except IRes Vaa :=
  if m.targetChain > 65535 then .error (.err grpcUnknown (s2b "invalid target chain id: " ++ dec m.targetChain))
  else match convert req.currentSetIndex m.payload with
    | .ok p => .ok (createGovernanceVaa cfg req.timestamp m.nonce m.sequence (m.targetChain % 2 ^ 16) req.currentSetIndex p)
    | .err e => .error (.err grpcInvalidArgument e)
    | .panic => .error .panic

/-- The loop of `InjectGovernanceVAA` over the channel contents `chan` (what was pushed before). -/
def injectLoop (cfg : Cfg) (req : Req) : List Msg → List Vaa → List Vaa × IRes
  | [], chan => (chan, .ok)
  | m :: ms, chan =>
    match injectOne cfg req m with
    | .ok v => injectLoop cfg req ms (chan ++ [v])
    | .error r => (chan, r)

/-- `InjectGovernanceVAA` on a service whose injection channel already carried `chan`. -/
def injectFrom (chan : List Vaa) (cfg : Cfg) (req : Req) : List Vaa × IRes := injectLoop cfg req req.msgs chan

def inject (cfg : Cfg) (req : Req) : List Vaa × IRes := injectFrom [] cfg req

/-! ## the representable range of a request (proto field types) and of the configuration -/

def Payload.WF : Payload → Prop
  | .destroy _ seqs => ∀ s ∈ seqs, s < 2 ^ 64
  | _ => True

def Msg.WF (m : Msg) : Prop := m.sequence < 2 ^ 64 ∧ m.nonce < 2 ^ 32 ∧ m.targetChain < 2 ^ 32 ∧ m.payload.WF

def Req.WF (r : Req) : Prop := r.currentSetIndex < 2 ^ 32 ∧ r.timestamp < 2 ^ 32 ∧ ∀ m ∈ r.msgs, m.WF

def Cfg.WF (c : Cfg) : Prop := c.chain < 2 ^ 16 ∧ c.emitter.length = 32

instance (c : Cfg) : Decidable c.WF := by unfold Cfg.WF; exact inferInstance

/-! ## contract side: the Ralph parsers, at the offsets of `Whv.Gen.C15` -/

namespace Ral
open Whv.Gen.C15

/-- `byteVecSlice!(p, a, b)`; the VM aborts (here: `none`) unless `a ≤ b ≤ size`. -/
def slice (p : Bytes) (r : Nat × Nat) : Option Bytes :=
  if r.1 ≤ r.2 ∧ r.2 ≤ p.length then some ((p.drop r.1).take (r.2 - r.1)) else none

/-- Reading `n` records of `width` bytes that lie `stride` bytes apart (the key loop of `parseAndVerifyVAA`, the path loop
of `TokenBridgeForChain.destroyUnexecutedSequenceContracts`). -/
def chunks (stride width : Nat) : Nat → Bytes → List Bytes
  | 0, _ => []
  | n + 1, bs => bs.take width :: chunks stride width n (bs.drop stride)

/-- The module and action assertions of `parseAndVerifyGovernanceVAAGeneric`: `u256From32Byte!(payload[0,32)) == module`,
`payload[32,33) == action`. -/
def header (module action : Nat) (p : Bytes) : Bool :=
  match slice p moduleSlice, slice p actionSlice with
  | some m, some a => unbe m == module && a == be 1 action
  | _, _ => false

/-- `submitSetMessageFee`: the new fee as a U256. -/
def parseMessageFee (p : Bytes) : Option Nat :=
  if !header Gen.C15.coreModule actNewMessageFee p then none else
  match slice p feeValue with
  | some f => if p.length = feeSize then some (unbe f) else none
  | none => none

/-- `submitTransferFees`: amount (U256) and recipient (32 raw bytes). -/
def parseTransferFee (p : Bytes) : Option (Nat × Bytes) :=
  if !header Gen.C15.coreModule actTransferFee p then none else
  match slice p tfAmount, slice p tfRecipient with
  | some a, some r => if p.length = tfSize then some (unbe a, r) else none
  | _, _ => none

/-- `submitNewGuardianSet` + the way `parseAndVerifyVAA` later reads key `k` out of the stored blob:
new index and the list of 20-byte keys. -/
def parseGuardianSet (p : Bytes) : Option (Nat × List Bytes) :=
  if !header Gen.C15.coreModule actNewGuardianSet p then none else
  match slice p gsIndex, slice p gsCount with
  | some i, some c =>
    let n := unbe c
    let size := gsSizeBase + n * gsSizeStride
    if n = 0 ∨ p.length ≠ size then none
    else match slice p (gsStoreFrom, size) with
      | some blob => some (unbe i, chunks gsKeyStride gsKeyWidth n (blob.drop gsKeyBase))
      | none => none
  | _, _ => none

/-- `submitContractUpgrade` / `upgradeContract`: after the header, `TokenBridgeFactory.parseContractUpgrade` reads the
operator-supplied upgrade description starting at `cuStart`; nothing below it. -/
def parseUpgrade (module action : Nat) (p : Bytes) : Option Bytes :=
  if !header module action p then none else
  if p.length < cuStart then none else some (p.drop cuStart)

/-- `parseAndVerifyRegisterChain`: remote chain id and remote token bridge id. -/
def parseRegisterChain (module : Nat) (p : Bytes) : Option (Nat × Bytes) :=
  if !header module actRegisterChain p then none else
  match slice p rcChain, slice p rcBridge with
  | some c, some b => if p.length = rcSize then some (unbe c, b) else none
  | _, _ => none

/-- `destroyUnexecutedSequenceContracts`: remote chain id and the 8-byte sequence paths.  (The contract's `length > 0`
assertion is a semantic check, not part of the layout, and is not modelled.) -/
def parseDestroy (p : Bytes) : Option (Nat × List Nat) :=
  if !header Gen.C15.tokenBridgeModule actDestroy p then none else
  match slice p dsChain, slice p dsCount with
  | some c, some l =>
    let n := unbe l
    let size := dsSizeBase + n * dsSizeStride
    if p.length ≠ size then none
    else match slice p (dsPathsFrom, size) with
      | some paths => some (unbe c, (chunks dsPathWidth dsPathWidth n paths).map unbe)
      | none => none
  | _, _ => none

/-- `updateMinimalConsistencyLevel` -/
def parseMinConsistency (p : Bytes) : Option Nat :=
  if !header Gen.C15.tokenBridgeModule actMinConsistency p then none else
  if p.length ≠ clSize then none else
  match slice p clValue with
  | some c => some (unbe c)
  | none => none

/-- `updateRefundAddress`: the address bytes. -/
def parseRefundAddress (p : Bytes) : Option Bytes :=
  if !header Gen.C15.tokenBridgeModule actRefundAddress p then none else
  match slice p raLen with
  | some l =>
    let size := raSizeBase + unbe l * raSizeStride
    if p.length ≠ size then none else slice p (raAddrFrom, size)
  | none => none

end Ral

/-! ## contract side once more, with the parser facts as DATA

`Whv.Gov.Ral` above is instantiated with the constants of `Whv.Gen.C15` at COMPILE time: when a contract source moves an
offset, the theorems of `Whv.Props.C15` stop checking — but a proof that no longer builds names no failing request.
`Facts` carries the same facts (plus the width `N` of every `u256From<N>Byte!` conversion) as a VALUE, so that the driver
can be handed whatever `checks/c15.py` extracted from the CURRENT sources (a header line of the case file) and run the
parsers `RalF.*` on the payloads the real node emitted.  `Facts.gen` is the compiled-in instance; `Whv.Props.C15` proves
`RalF.parseX Facts.gen = Ral.parseX`, hence `specOkF Facts.gen = specOk` and the search cannot fire on the unchanged tree
(`c15_search_sound`). -/

structure Facts where
  coreModule : Nat
  tokenBridgeModule : Nat
  moduleSlice : Nat × Nat
  moduleConv : Nat
  actionSlice : Nat × Nat
  actContractUpgrade : Nat
  actNewGuardianSet : Nat
  actNewMessageFee : Nat
  actTransferFee : Nat
  actRegisterChain : Nat
  actBridgeContractUpgrade : Nat
  actDestroy : Nat
  actMinConsistency : Nat
  actRefundAddress : Nat
  gsIndex : Nat × Nat
  gsIndexConv : Nat
  gsCount : Nat × Nat
  gsCountConv : Nat
  gsSizeBase : Nat
  gsSizeStride : Nat
  gsStoreFrom : Nat
  gsKeyBase : Nat
  gsKeyStride : Nat
  gsKeyWidth : Nat
  feeValue : Nat × Nat
  feeConv : Nat
  feeSize : Nat
  tfAmount : Nat × Nat
  tfAmountConv : Nat
  tfRecipient : Nat × Nat
  tfSize : Nat
  cuCodeLen : Nat × Nat
  cuCodeLenConv : Nat
  cuStart : Nat
  rcChain : Nat × Nat
  rcChainConv : Nat
  rcBridge : Nat × Nat
  rcSize : Nat
  dsChain : Nat × Nat
  dsCount : Nat × Nat
  dsCountConv : Nat
  dsSizeBase : Nat
  dsSizeStride : Nat
  dsPathsFrom : Nat
  dsPathWidth : Nat
  clValue : Nat × Nat
  clConv : Nat
  clSize : Nat
  raLen : Nat × Nat
  raLenConv : Nat
  raSizeBase : Nat
  raSizeStride : Nat
  raAddrFrom : Nat
  deriving DecidableEq, Repr

/-- The facts the library was compiled against (`Whv/Gen/C15.lean`). -/
def Facts.gen : Facts where
  coreModule := Gen.C15.coreModule
  tokenBridgeModule := Gen.C15.tokenBridgeModule
  moduleSlice := Gen.C15.moduleSlice
  moduleConv := Gen.C15.moduleConv
  actionSlice := Gen.C15.actionSlice
  actContractUpgrade := Gen.C15.actContractUpgrade
  actNewGuardianSet := Gen.C15.actNewGuardianSet
  actNewMessageFee := Gen.C15.actNewMessageFee
  actTransferFee := Gen.C15.actTransferFee
  actRegisterChain := Gen.C15.actRegisterChain
  actBridgeContractUpgrade := Gen.C15.actBridgeContractUpgrade
  actDestroy := Gen.C15.actDestroy
  actMinConsistency := Gen.C15.actMinConsistency
  actRefundAddress := Gen.C15.actRefundAddress
  gsIndex := Gen.C15.gsIndex
  gsIndexConv := Gen.C15.gsIndexConv
  gsCount := Gen.C15.gsCount
  gsCountConv := Gen.C15.gsCountConv
  gsSizeBase := Gen.C15.gsSizeBase
  gsSizeStride := Gen.C15.gsSizeStride
  gsStoreFrom := Gen.C15.gsStoreFrom
  gsKeyBase := Gen.C15.gsKeyBase
  gsKeyStride := Gen.C15.gsKeyStride
  gsKeyWidth := Gen.C15.gsKeyWidth
  feeValue := Gen.C15.feeValue
  feeConv := Gen.C15.feeConv
  feeSize := Gen.C15.feeSize
  tfAmount := Gen.C15.tfAmount
  tfAmountConv := Gen.C15.tfAmountConv
  tfRecipient := Gen.C15.tfRecipient
  tfSize := Gen.C15.tfSize
  cuCodeLen := Gen.C15.cuCodeLen
  cuCodeLenConv := Gen.C15.cuCodeLenConv
  cuStart := Gen.C15.cuStart
  rcChain := Gen.C15.rcChain
  rcChainConv := Gen.C15.rcChainConv
  rcBridge := Gen.C15.rcBridge
  rcSize := Gen.C15.rcSize
  dsChain := Gen.C15.dsChain
  dsCount := Gen.C15.dsCount
  dsCountConv := Gen.C15.dsCountConv
  dsSizeBase := Gen.C15.dsSizeBase
  dsSizeStride := Gen.C15.dsSizeStride
  dsPathsFrom := Gen.C15.dsPathsFrom
  dsPathWidth := Gen.C15.dsPathWidth
  clValue := Gen.C15.clValue
  clConv := Gen.C15.clConv
  clSize := Gen.C15.clSize
  raLen := Gen.C15.raLen
  raLenConv := Gen.C15.raLenConv
  raSizeBase := Gen.C15.raSizeBase
  raSizeStride := Gen.C15.raSizeStride
  raAddrFrom := Gen.C15.raAddrFrom

/-- The layout the NODE's serializers implement (`payloads.go`, modelled above), written as parser facts: the contracts the
node was written against.  A literal, independent of `Whv.Gen.C15` (`Whv.C15.c15_gen_is_node_layout`: `Facts.gen = Facts.node`);
the driver falls back to it when no facts could be extracted from the current contract sources, so that the node-side
clauses are never evaluated against facts left over from another tree. -/
def Facts.node : Facts where
  coreModule := 0x436f7265
  tokenBridgeModule := 0x546f6b656e427269646765
  moduleSlice := (0, 32)
  moduleConv := 32
  actionSlice := (32, 33)
  actContractUpgrade := 1
  actNewGuardianSet := 2
  actNewMessageFee := 3
  actTransferFee := 4
  actRegisterChain := 1
  actBridgeContractUpgrade := 2
  actDestroy := 0xf0
  actMinConsistency := 0xf1
  actRefundAddress := 0xf2
  gsIndex := (33, 37)
  gsIndexConv := 4
  gsCount := (37, 38)
  gsCountConv := 1
  gsSizeBase := 38
  gsSizeStride := 20
  gsStoreFrom := 37
  gsKeyBase := 1
  gsKeyStride := 20
  gsKeyWidth := 20
  feeValue := (33, 65)
  feeConv := 32
  feeSize := 65
  tfAmount := (33, 65)
  tfAmountConv := 32
  tfRecipient := (65, 97)
  tfSize := 97
  cuCodeLen := (33, 35)
  cuCodeLenConv := 2
  cuStart := 33
  rcChain := (33, 35)
  rcChainConv := 2
  rcBridge := (35, 67)
  rcSize := 67
  dsChain := (33, 35)
  dsCount := (35, 37)
  dsCountConv := 2
  dsSizeBase := 37
  dsSizeStride := 8
  dsPathsFrom := 37
  dsPathWidth := 8
  clValue := (33, 34)
  clConv := 1
  clSize := 34
  raLen := (33, 35)
  raLenConv := 2
  raSizeBase := 35
  raSizeStride := 1
  raAddrFrom := 35

namespace RalF

/-- `u256From<w>Byte!(s)`: the VM aborts (here: `none`) unless `s` is exactly `w` bytes long. -/
def conv (w : Nat) (s : Bytes) : Option Nat := if s.length = w then some (unbe s) else none

/-- `parseAndVerifyGovernanceVAAGeneric`: `u256From<moduleConv>Byte!(payload[moduleSlice)) == module`,
`payload[actionSlice) == action`. -/
def header (F : Facts) (module action : Nat) (p : Bytes) : Bool :=
  match Ral.slice p F.moduleSlice, Ral.slice p F.actionSlice with
  | some m, some a => conv F.moduleConv m == some module && a == be 1 action
  | _, _ => false

def parseMessageFee (F : Facts) (p : Bytes) : Option Nat :=
  if !header F F.coreModule F.actNewMessageFee p then none else
  match Ral.slice p F.feeValue with
  | some f => if p.length = F.feeSize then conv F.feeConv f else none
  | none => none

def parseTransferFee (F : Facts) (p : Bytes) : Option (Nat × Bytes) :=
  if !header F F.coreModule F.actTransferFee p then none else
  match Ral.slice p F.tfAmount, Ral.slice p F.tfRecipient with
  | some a, some r =>
    if p.length = F.tfSize then
      match conv F.tfAmountConv a with
      | some av => some (av, r)
      | none => none
    else none
  | _, _ => none

def parseGuardianSet (F : Facts) (p : Bytes) : Option (Nat × List Bytes) :=
  if !header F F.coreModule F.actNewGuardianSet p then none else
  match Ral.slice p F.gsIndex, Ral.slice p F.gsCount with
  | some i, some c =>
    match conv F.gsIndexConv i, conv F.gsCountConv c with
    | some iv, some n =>
      let size := F.gsSizeBase + n * F.gsSizeStride
      if n = 0 ∨ p.length ≠ size then none
      else match Ral.slice p (F.gsStoreFrom, size) with
        | some blob => some (iv, Ral.chunks F.gsKeyStride F.gsKeyWidth n (blob.drop F.gsKeyBase))
        | none => none
    | _, _ => none
  | _, _ => none

/-- As `Ral.parseUpgrade`; in addition, whenever the code-length slice of `parseContractUpgrade` can be taken at all, its
`u256From<N>Byte!` conversion must fit it. -/
def parseUpgrade (F : Facts) (module action : Nat) (p : Bytes) : Option Bytes :=
  if !header F module action p then none else
  if p.length < F.cuStart then none else
  match Ral.slice p F.cuCodeLen with
  | some l => if (conv F.cuCodeLenConv l).isSome then some (p.drop F.cuStart) else none
  | none => some (p.drop F.cuStart)

def parseRegisterChain (F : Facts) (module : Nat) (p : Bytes) : Option (Nat × Bytes) :=
  if !header F module F.actRegisterChain p then none else
  match Ral.slice p F.rcChain, Ral.slice p F.rcBridge with
  | some c, some b =>
    if p.length = F.rcSize then
      match conv F.rcChainConv c with
      | some cv => some (cv, b)
      | none => none
    else none
  | _, _ => none

def parseDestroy (F : Facts) (p : Bytes) : Option (Nat × List Nat) :=
  if !header F F.tokenBridgeModule F.actDestroy p then none else
  match Ral.slice p F.dsChain, Ral.slice p F.dsCount with
  | some c, some l =>
    match conv F.dsCountConv l with
    | some n =>
      let size := F.dsSizeBase + n * F.dsSizeStride
      if p.length ≠ size then none
      else match Ral.slice p (F.dsPathsFrom, size) with
        | some paths => some (unbe c, (Ral.chunks F.dsPathWidth F.dsPathWidth n paths).map unbe)
        | none => none
    | none => none
  | _, _ => none

def parseMinConsistency (F : Facts) (p : Bytes) : Option Nat :=
  if !header F F.tokenBridgeModule F.actMinConsistency p then none else
  if p.length ≠ F.clSize then none else
  match Ral.slice p F.clValue with
  | some c => conv F.clConv c
  | none => none

def parseRefundAddress (F : Facts) (p : Bytes) : Option Bytes :=
  if !header F F.tokenBridgeModule F.actRefundAddress p then none else
  match Ral.slice p F.raLen with
  | some l =>
    match conv F.raLenConv l with
    | some n =>
      let size := F.raSizeBase + n * F.raSizeStride
      if p.length ≠ size then none else Ral.slice p (F.raAddrFrom, size)
    | none => none
  | none => none

end RalF

/-! ## the Spec, as an executable predicate (evaluated by the driver on the IMPLEMENTATION's payloads,
and proved of the model's payloads in `Whv.Props.C15`) -/

/-- `specOk gsi pl p`: the contract-side parser for the kind of `pl` accepts `p` and recovers every requested value,
un-wrapped and un-truncated. -/
def specOk (gsi : Nat) (pl : Payload) (p : Bytes) : Bool :=
  match pl with
  | .none => false
  | .updateMessageFee fee =>
    match hexDecode fee with
    | some b => b.length == 32 && Ral.parseMessageFee p == some (unbe b)
    | none => false
  | .transferFee amount recipient =>
    match hexDecode amount, hexDecode recipient with
    | some a, some r => a.length == 32 && r.length == 32 && Ral.parseTransferFee p == some (unbe a, r)
    | _, _ => false
  | .guardianSet gs =>
    match keysOf gs with
    | some keys => Ral.parseGuardianSet p == some (gsi + 1, keys)
    | none => false
  | .contractUpgrade s =>
    match hexDecode s with
    | some b => Ral.parseUpgrade Gen.C15.coreModule Gen.C15.actContractUpgrade p == some b
    | none => false
  | .registerChain m c e =>
    match hexDecode e with
    | some b => b.length == 32 && Ral.parseRegisterChain (unbe m) p == some (c, b)
    | none => false
  | .bridgeUpgrade m s =>
    match hexDecode s with
    | some b => Ral.parseUpgrade (unbe m) Gen.C15.actBridgeContractUpgrade p == some b
    | none => false
  | .destroy c seqs => Ral.parseDestroy p == some (c, seqs)
  | .minConsistency l => Ral.parseMinConsistency p == some l
  | .refundAddress s =>
    match hexDecode s with
    | some b => Ral.parseRefundAddress p == some b
    | none => false

/-- `specOk` with the parser facts as data: what the driver evaluates on the node's payloads with the facts extracted
from the CURRENT contract sources.  `specOkF Facts.gen = specOk` (`Whv.C15.c15_specF_gen`). -/
def specOkF (F : Facts) (gsi : Nat) (pl : Payload) (p : Bytes) : Bool :=
  match pl with
  | .none => false
  | .updateMessageFee fee =>
    match hexDecode fee with
    | some b => b.length == 32 && RalF.parseMessageFee F p == some (unbe b)
    | none => false
  | .transferFee amount recipient =>
    match hexDecode amount, hexDecode recipient with
    | some a, some r => a.length == 32 && r.length == 32 && RalF.parseTransferFee F p == some (unbe a, r)
    | _, _ => false
  | .guardianSet gs =>
    match keysOf gs with
    | some keys => RalF.parseGuardianSet F p == some (gsi + 1, keys)
    | none => false
  | .contractUpgrade s =>
    match hexDecode s with
    | some b => RalF.parseUpgrade F F.coreModule F.actContractUpgrade p == some b
    | none => false
  | .registerChain m c e =>
    match hexDecode e with
    | some b => b.length == 32 && RalF.parseRegisterChain F (unbe m) p == some (c, b)
    | none => false
  | .bridgeUpgrade m s =>
    match hexDecode s with
    | some b => RalF.parseUpgrade F (unbe m) F.actBridgeContractUpgrade p == some b
    | none => false
  | .destroy c seqs => RalF.parseDestroy F p == some (c, seqs)
  | .minConsistency l => RalF.parseMinConsistency F p == some l
  | .refundAddress s =>
    match hexDecode s with
    | some b => RalF.parseRefundAddress F p == some b
    | none => false

/-- Does the contract's parser for the kind of `pl` accept `p` at all (all slices in range, conversions fit, header and
size assertions pass) — whatever values it then reads? -/
def acceptsF (F : Facts) (pl : Payload) (p : Bytes) : Bool :=
  match pl with
  | .none => false
  | .updateMessageFee _ => (RalF.parseMessageFee F p).isSome
  | .transferFee _ _ => (RalF.parseTransferFee F p).isSome
  | .guardianSet _ => (RalF.parseGuardianSet F p).isSome
  | .contractUpgrade _ => (RalF.parseUpgrade F F.coreModule F.actContractUpgrade p).isSome
  | .registerChain m _ _ => (RalF.parseRegisterChain F (unbe m) p).isSome
  | .bridgeUpgrade m _ => (RalF.parseUpgrade F (unbe m) F.actBridgeContractUpgrade p).isSome
  | .destroy _ _ => (RalF.parseDestroy F p).isSome
  | .minConsistency _ => (RalF.parseMinConsistency F p).isSome
  | .refundAddress _ => (RalF.parseRefundAddress F p).isSome

/-- The envelope part of the Spec: the VAA comes from the configured governance emitter and carries the request's
set index, timestamp, nonce, sequence and target chain as they were requested (as naturals: a wrapped value differs). -/
def envOk (cfg : Cfg) (req : Req) (m : Msg) (v : Vaa) : Bool :=
  v.version == 1 && v.gsIndex == req.currentSetIndex && v.sigs.isEmpty &&
  v.body.ts == req.timestamp && v.body.nonce == m.nonce && v.body.sequence == m.sequence &&
  v.body.emitterChain == cfg.chain && v.body.emitter == cfg.emitter && v.body.targetChain == m.targetChain

end Whv.Gov
