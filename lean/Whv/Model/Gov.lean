import Whv.Model.Vaa
import Whv.Gen.C15
/-!
# Governance requests → VAAs: model of `node/cmd/guardiand/adminserver.go` (request validation and
conversion, `InjectGovernanceVAA`), `node/pkg/vaa/payloads.go` (serializers), `node/pkg/vaa/governance.go`
(`CreateGovernanceVAA`) — and, on the contract side, of the Ralph governance parsers
(`alephium/contracts/governance.ral`, `token_bridge/token_bridge_governance.ral`) whose slice bounds and
size equations come from `Whv.Gen.C15`, re-extracted from the sources on every run.

Conventions: proto `uint32`/`uint64` fields are `Nat`s (their range is a hypothesis of the theorems, not of the
model), Go `string`s are byte lists (`Str`), Go narrowing conversions are written `% 2^k`, a Go `panic` is the
explicit result `Res.panic`.  The model follows the code REPAIRED by `/verif/fixes/C15-governance-range-checks.diff`
(range checks before every narrowing conversion, module length check, no panic on an unset `oneof`).
-/
namespace Whv.Gov
open Whv

/-- A Go `string`: a byte sequence (`len` counts bytes). -/
abbrev Str := Bytes

inductive Res (α : Type) where
  | ok (a : α)
  | err (msg : Str)
  | panic
  deriving DecidableEq, Repr

def s2b (s : String) : Str := s.toUTF8.toList

/-- `%d` -/
def dec (n : Nat) : Str := s2b (Nat.repr n)

/-! ## `encoding/hex` and go-ethereum's address helpers -/

def hexValB (c : UInt8) : Option Nat :=
  let n := c.toNat
  if 48 ≤ n ∧ n ≤ 57 then some (n - 48)
  else if 97 ≤ n ∧ n ≤ 102 then some (n - 87)
  else if 65 ≤ n ∧ n ≤ 70 then some (n - 55)
  else none

/-- `hex.DecodeString`: `none` = any error (`InvalidByteError` or `ErrLength`; the callers do not distinguish). -/
def hexDecode : Str → Option Bytes
  | [] => some []
  | [_] => none
  | a :: b :: rest =>
    match hexValB a, hexValB b, hexDecode rest with
    | some x, some y, some r => some (UInt8.ofNat (x * 16 + y) :: r)
    | _, _, _ => none

/-- `has0xPrefix` (go-ethereum `common/bytes.go`). -/
def has0x : Str → Bool
  | a :: b :: _ => a == 48 && (b == 120 || b == 88)
  | _ => false

/-- `ethcommon.IsHexAddress(s)` and, when it holds, `ethcommon.HexToAddress(s)`: optional `0x`/`0X` prefix, then
exactly 40 hex digits.  (`HexToAddress` is only ever called after `IsHexAddress` succeeded.) -/
def hexAddr? (s : Str) : Option Bytes :=
  let t := if has0x s then s.drop 2 else s
  if t.length = 40 then hexDecode t else none

/-! ## payloads.go -/

/-- `vaa.CoreModule` -/
def coreModule : Bytes := List.replicate 28 0 ++ [0x43, 0x6f, 0x72, 0x65]
/-- `vaa.TokenBridgeModule` -/
def tokenBridgeModule : Bytes := List.replicate 21 0 ++ [0x54, 0x6f, 0x6b, 0x65, 0x6e, 0x42, 0x72, 0x69, 0x64, 0x67, 0x65]

def serUpdateMessageFee (fee : Bytes) : Bytes := coreModule ++ (be 1 3 ++ fee)
def serTransferFee (amount recipient : Bytes) : Bytes := coreModule ++ (be 1 4 ++ (amount ++ recipient))
def serContractUpgrade (payload : Bytes) : Bytes := coreModule ++ (be 1 1 ++ payload)
/-- `uint8(len(b.Keys))` is `be 1`. -/
def serGuardianSetUpgrade (keys : List Bytes) (newIndex : Nat) : Bytes :=
  coreModule ++ (be 1 2 ++ (be 4 newIndex ++ (be 1 keys.length ++ keys.flatten)))

/-- left-padding of the module string; panics when it is longer than 32 bytes -/
def padModule (module : Str) : Bytes := List.replicate (32 - module.length) 0 ++ module

def serRegisterChain (module : Str) (chain : Nat) (emitter : Bytes) : Res Bytes :=
  if module.length > 32 then .panic
  else .ok (padModule module ++ (be 1 1 ++ (be 2 chain ++ emitter)))

def serBridgeUpgrade (module : Str) (payload : Bytes) : Res Bytes :=
  if module.length > 32 then .panic
  else .ok (padModule module ++ (be 1 2 ++ payload))

/-- `uint16(b.EmitterChain)`, `uint16(len(b.Sequences))` are `be 2`. -/
def serDestroy (chain : Nat) (seqs : List Nat) : Bytes :=
  tokenBridgeModule ++ (be 1 0xf0 ++ (be 2 chain ++ (be 2 seqs.length ++ (seqs.map (be 8)).flatten)))

def serMinConsistency (level : Nat) : Bytes := tokenBridgeModule ++ (be 1 0xf1 ++ be 1 level)

/-- `uint16(len(b.NewRefundAddress))` is `be 2`. -/
def serRefundAddress (addr : Bytes) : Bytes := tokenBridgeModule ++ (be 1 0xf2 ++ (be 2 addr.length ++ addr))

/-! ## adminserver.go: the nine request → payload conversions -/

structure Guardian where
  pubkey : Str
  name : Str
  deriving DecidableEq, Repr

inductive Payload where
  | none                                                        -- `oneof` not set
  | updateMessageFee (fee : Str)
  | transferFee (amount recipient : Str)
  | guardianSet (guardians : List Guardian)
  | contractUpgrade (payload : Str)
  | registerChain (module : Str) (chainId : Nat) (emitter : Str)
  | bridgeUpgrade (module : Str) (payload : Str)
  | destroy (emitterChain : Nat) (sequences : List Nat)
  | minConsistency (level : Nat)
  | refundAddress (addr : Str)
  deriving DecidableEq, Repr

def maxGuardianCount : Nat := 19
def zeroAddr : Bytes := List.replicate 20 0

def updateMessageFeePayload (fee : Str) : Res Bytes :=
  if fee.length ≠ 64 then .err (s2b "invalid new message fee")
  else match hexDecode fee with
    | none => .err (s2b "invalid message fee encoding (expected hex)")
    | some b => .ok (serUpdateMessageFee b)

def transferFeePayload (amount recipient : Str) : Res Bytes :=
  if amount.length ≠ 64 then .err (s2b "invalid transfer amount")
  else if recipient.length ≠ 64 then .err (s2b "invalid recipient address")
  else match hexDecode amount with
    | none => .err (s2b "invalid amount encoding (expected hex)")
    | some a =>
      match hexDecode recipient with
      | none => .err (s2b "invalid recipient encoding (expected hex)")
      | some r => .ok (serTransferFee a r)

/-- The loop of `adminGuardianSetUpgradeToVAA`: `done` are the addresses already stored; the Go slice `addrs` is
`done` followed by one zero address per guardian not yet processed (including the current one), and the duplicate
scan runs over all of it — so the zero address is always reported as a duplicate. -/
def gsLoop : List Guardian → List Bytes → Res (List Bytes)
  | [], done => .ok done
  | g :: rest, done =>
    match hexAddr? g.pubkey with
    | none => .err (s2b "invalid pubkey format at index " ++ dec done.length ++ s2b " (" ++ g.name ++ s2b ")")
    | some a =>
      match (done ++ List.replicate (rest.length + 1) zeroAddr).findIdx? (fun pk => pk == a) with
      | some j => .err (s2b "duplicate pubkey at index " ++ dec done.length ++ s2b " (duplicate of " ++ dec j ++ s2b "): " ++ g.name)
      | none => gsLoop rest (done ++ [a])

/-- The addresses a guardian list denotes (`none` when some key is not a hex address). -/
def keysOf : List Guardian → Option (List Bytes)
  | [] => some []
  | g :: gs =>
    match hexAddr? g.pubkey, keysOf gs with
    | some a, some r => some (a :: r)
    | _, _ => none

def guardianSetPayload (gs : List Guardian) (gsi : Nat) : Res Bytes :=
  if gs.length = 0 then .err (s2b "empty guardian set specified")
  else if gs.length > maxGuardianCount then
    .err (s2b "too many guardians - " ++ dec gs.length ++ s2b ", maximum is " ++ dec maxGuardianCount)
  else if gsi = 2 ^ 32 - 1 then .err (s2b "guardian set index overflow")
  else match gsLoop gs [] with
    | .ok addrs => .ok (serGuardianSetUpgrade addrs ((gsi + 1) % 2 ^ 32))
    | .err e => .err e
    | .panic => .panic

def contractUpgradePayload (payload : Str) : Res Bytes :=
  match hexDecode payload with
  | none => .err (s2b "invalid payload encoding (expected hex)")
  | some b => .ok (serContractUpgrade b)

def registerChainPayload (module : Str) (chainId : Nat) (emitter : Str) : Res Bytes :=
  if module.length > 32 then .err (s2b "invalid module (expected at most 32 bytes)")
  else if chainId > 65535 then .err (s2b "invalid chain_id")
  else match hexDecode emitter with
    | none => .err (s2b "invalid emitter address encoding (expected hex)")
    | some b =>
      if b.length ≠ 32 then .err (s2b "invalid emitter address (expected 32 bytes)")
      else serRegisterChain module (chainId % 2 ^ 16) b

def bridgeUpgradePayload (module : Str) (payload : Str) : Res Bytes :=
  if module.length > 32 then .err (s2b "invalid module (expected at most 32 bytes)")
  else match hexDecode payload with
    | none => .err (s2b "invalid payload encoding (expected hex)")
    | some b => serBridgeUpgrade module b

def destroyPayload (emitterChain : Nat) (seqs : List Nat) : Res Bytes :=
  if emitterChain > 65535 then .err (s2b "invalid emitter_chain")
  else if seqs.length > 65535 then .err (s2b "too many sequences - " ++ dec seqs.length ++ s2b ", maximum is 65535")
  else .ok (serDestroy (emitterChain % 2 ^ 16) seqs)

def minConsistencyPayload (level : Nat) : Res Bytes :=
  if level > 255 then .err (s2b "invalid new_consistency_level")
  else .ok (serMinConsistency (level % 2 ^ 8))

def refundAddressPayload (addr : Str) : Res Bytes :=
  match hexDecode addr with
  | none => .err (s2b "invalid refund address encoding (expected hex)")
  | some b =>
    if b.length > 65535 then .err (s2b "invalid refund address (expected at most 65535 bytes)")
    else .ok (serRefundAddress b)

/-- The `switch payload := message.Payload.(type)` of `InjectGovernanceVAA` down to the payload bytes. -/
def convert (gsi : Nat) : Payload → Res Bytes
  | .none => .err (s2b "unsupported VAA type: <nil>")
  | .updateMessageFee fee => updateMessageFeePayload fee
  | .transferFee a r => transferFeePayload a r
  | .guardianSet gs => guardianSetPayload gs gsi
  | .contractUpgrade p => contractUpgradePayload p
  | .registerChain m c e => registerChainPayload m c e
  | .bridgeUpgrade m p => bridgeUpgradePayload m p
  | .destroy c s => destroyPayload c s
  | .minConsistency l => minConsistencyPayload l
  | .refundAddress a => refundAddressPayload a

/-! ## governance.go and `InjectGovernanceVAA` -/

/-- The node's configuration: `governanceChainId`, `governanceEmitterAddress`. -/
structure Cfg where
  chain : Nat
  emitter : Bytes
  deriving DecidableEq, Repr

structure Msg where
  sequence : Nat
  nonce : Nat
  targetChain : Nat
  payload : Payload
  deriving DecidableEq, Repr

structure Req where
  currentSetIndex : Nat
  timestamp : Nat
  msgs : List Msg
  deriving DecidableEq, Repr

/-- `vaa.CreateGovernanceVAA` -/
def createGovernanceVaa (cfg : Cfg) (ts nonce seq targetChain gsi : Nat) (payload : Bytes) : Vaa :=
  { version := 1, gsIndex := gsi, sigs := [],
    body := { ts := ts, nonce := nonce, emitterChain := cfg.chain, targetChain := targetChain, emitter := cfg.emitter,
              sequence := seq, consistency := 32, payload := payload } }

def grpcUnknown : Nat := 2
def grpcInvalidArgument : Nat := 3

/-- What the handler returns: digests of all VAAs (they are functions of the VAAs, see C04), a gRPC status, or a panic. -/
inductive IRes where
  | ok
  | err (code : Nat) (msg : Str)
  | panic
  deriving DecidableEq, Repr

/-- One iteration of the handler's loop: `Except`-like — the VAA to push on `injectC`, or how the request ends. -/
def injectOne (cfg : Cfg) (req : Req) (m : Msg) : Except IRes Vaa :=
  if m.targetChain > 65535 then .error (.err grpcUnknown (s2b "invalid target chain id: " ++ dec m.targetChain))
  else match convert req.currentSetIndex m.payload with
    | .ok p => .ok (createGovernanceVaa cfg req.timestamp m.nonce m.sequence (m.targetChain % 2 ^ 16) req.currentSetIndex p)
    | .err e => .error (.err grpcInvalidArgument e)
    | .panic => .error .panic

/-- The loop of `InjectGovernanceVAA` over the channel contents `chan` (what was pushed before). -/
def injectLoop (cfg : Cfg) (req : Req) : List Msg → List Vaa → List Vaa × IRes
  | [], chan => (chan, .ok)
  | m :: ms, chan =>
    match injectOne cfg req m with
    | .ok v => injectLoop cfg req ms (chan ++ [v])
    | .error r => (chan, r)

/-- `InjectGovernanceVAA` on a service whose injection channel already carried `chan`. -/
def injectFrom (chan : List Vaa) (cfg : Cfg) (req : Req) : List Vaa × IRes := injectLoop cfg req req.msgs chan

def inject (cfg : Cfg) (req : Req) : List Vaa × IRes := injectFrom [] cfg req

/-! ## the representable range of a request (proto field types) and of the configuration -/

def Payload.WF : Payload → Prop
  | .destroy _ seqs => ∀ s ∈ seqs, s < 2 ^ 64
  | _ => True

def Msg.WF (m : Msg) : Prop := m.sequence < 2 ^ 64 ∧ m.nonce < 2 ^ 32 ∧ m.targetChain < 2 ^ 32 ∧ m.payload.WF

def Req.WF (r : Req) : Prop := r.currentSetIndex < 2 ^ 32 ∧ r.timestamp < 2 ^ 32 ∧ ∀ m ∈ r.msgs, m.WF

def Cfg.WF (c : Cfg) : Prop := c.chain < 2 ^ 16 ∧ c.emitter.length = 32

instance (c : Cfg) : Decidable c.WF := by unfold Cfg.WF; exact inferInstance

/-! ## contract side: the Ralph parsers, at the offsets of `Whv.Gen.C15` -/

namespace Ral
open Whv.Gen.C15

/-- `byteVecSlice!(p, a, b)`; the VM aborts (here: `none`) unless `a ≤ b ≤ size`. -/
def slice (p : Bytes) (r : Nat × Nat) : Option Bytes :=
  if r.1 ≤ r.2 ∧ r.2 ≤ p.length then some ((p.drop r.1).take (r.2 - r.1)) else none

/-- Reading `n` records of `width` bytes that lie `stride` bytes apart (the key loop of `parseAndVerifyVAA`, the path loop
of `TokenBridgeForChain.destroyUnexecutedSequenceContracts`). -/
def chunks (stride width : Nat) : Nat → Bytes → List Bytes
  | 0, _ => []
  | n + 1, bs => bs.take width :: chunks stride width n (bs.drop stride)

/-- The module and action assertions of `parseAndVerifyGovernanceVAAGeneric`: `u256From32Byte!(payload[0,32)) == module`,
`payload[32,33) == action`. -/
def header (module action : Nat) (p : Bytes) : Bool :=
  match slice p moduleSlice, slice p actionSlice with
  | some m, some a => unbe m == module && a == be 1 action
  | _, _ => false

/-- `submitSetMessageFee`: the new fee as a U256. -/
def parseMessageFee (p : Bytes) : Option Nat :=
  if !header Gen.C15.coreModule actNewMessageFee p then none else
  match slice p feeValue with
  | some f => if p.length = feeSize then some (unbe f) else none
  | none => none

/-- `submitTransferFees`: amount (U256) and recipient (32 raw bytes). -/
def parseTransferFee (p : Bytes) : Option (Nat × Bytes) :=
  if !header Gen.C15.coreModule actTransferFee p then none else
  match slice p tfAmount, slice p tfRecipient with
  | some a, some r => if p.length = tfSize then some (unbe a, r) else none
  | _, _ => none

/-- `submitNewGuardianSet` + the way `parseAndVerifyVAA` later reads key `k` out of the stored blob:
new index and the list of 20-byte keys. -/
def parseGuardianSet (p : Bytes) : Option (Nat × List Bytes) :=
  if !header Gen.C15.coreModule actNewGuardianSet p then none else
  match slice p gsIndex, slice p gsCount with
  | some i, some c =>
    let n := unbe c
    let size := gsSizeBase + n * gsSizeStride
    if n = 0 ∨ p.length ≠ size then none
    else match slice p (gsStoreFrom, size) with
      | some blob => some (unbe i, chunks gsKeyStride gsKeyWidth n (blob.drop gsKeyBase))
      | none => none
  | _, _ => none

/-- `submitContractUpgrade` / `upgradeContract`: after the header, `TokenBridgeFactory.parseContractUpgrade` reads the
operator-supplied upgrade description starting at `cuStart`; nothing below it. -/
def parseUpgrade (module action : Nat) (p : Bytes) : Option Bytes :=
  if !header module action p then none else
  if p.length < cuStart then none else some (p.drop cuStart)

/-- `parseAndVerifyRegisterChain`: remote chain id and remote token bridge id. -/
def parseRegisterChain (module : Nat) (p : Bytes) : Option (Nat × Bytes) :=
  if !header module actRegisterChain p then none else
  match slice p rcChain, slice p rcBridge with
  | some c, some b => if p.length = rcSize then some (unbe c, b) else none
  | _, _ => none

/-- `destroyUnexecutedSequenceContracts`: remote chain id and the 8-byte sequence paths.  (The contract's `length > 0`
assertion is a semantic check, not part of the layout, and is not modelled.) -/
def parseDestroy (p : Bytes) : Option (Nat × List Nat) :=
  if !header Gen.C15.tokenBridgeModule actDestroy p then none else
  match slice p dsChain, slice p dsCount with
  | some c, some l =>
    let n := unbe l
    let size := dsSizeBase + n * dsSizeStride
    if p.length ≠ size then none
    else match slice p (dsPathsFrom, size) with
      | some paths => some (unbe c, (chunks dsPathWidth dsPathWidth n paths).map unbe)
      | none => none
  | _, _ => none

/-- `updateMinimalConsistencyLevel` -/
def parseMinConsistency (p : Bytes) : Option Nat :=
  if !header Gen.C15.tokenBridgeModule actMinConsistency p then none else
  if p.length ≠ clSize then none else
  match slice p clValue with
  | some c => some (unbe c)
  | none => none

/-- `updateRefundAddress`: the address bytes. -/
def parseRefundAddress (p : Bytes) : Option Bytes :=
  if !header Gen.C15.tokenBridgeModule actRefundAddress p then none else
  match slice p raLen with
  | some l =>
    let size := raSizeBase + unbe l * raSizeStride
    if p.length ≠ size then none else slice p (raAddrFrom, size)
  | none => none

end Ral

/-! ## the Spec, as an executable predicate (evaluated by the driver on the IMPLEMENTATION's payloads,
and proved of the model's payloads in `Whv.Props.C15`) -/

/-- `specOk gsi pl p`: the contract-side parser for the kind of `pl` accepts `p` and recovers every requested value,
un-wrapped and un-truncated. -/
def specOk (gsi : Nat) (pl : Payload) (p : Bytes) : Bool :=
  match pl with
  | .none => false
  | .updateMessageFee fee =>
    match hexDecode fee with
    | some b => b.length == 32 && Ral.parseMessageFee p == some (unbe b)
    | none => false
  | .transferFee amount recipient =>
    match hexDecode amount, hexDecode recipient with
    | some a, some r => a.length == 32 && r.length == 32 && Ral.parseTransferFee p == some (unbe a, r)
    | _, _ => false
  | .guardianSet gs =>
    match keysOf gs with
    | some keys => Ral.parseGuardianSet p == some (gsi + 1, keys)
    | none => false
  | .contractUpgrade s =>
    match hexDecode s with
    | some b => Ral.parseUpgrade Gen.C15.coreModule Gen.C15.actContractUpgrade p == some b
    | none => false
  | .registerChain m c e =>
    match hexDecode e with
    | some b => b.length == 32 && Ral.parseRegisterChain (unbe m) p == some (c, b)
    | none => false
  | .bridgeUpgrade m s =>
    match hexDecode s with
    | some b => Ral.parseUpgrade (unbe m) Gen.C15.actBridgeContractUpgrade p == some b
    | none => false
  | .destroy c seqs => Ral.parseDestroy p == some (c, seqs)
  | .minConsistency l => Ral.parseMinConsistency p == some l
  | .refundAddress s =>
    match hexDecode s with
    | some b => Ral.parseRefundAddress p == some b
    | none => false

/-- The envelope part of the Spec: the VAA comes from the configured governance emitter and carries the request's
set index, timestamp, nonce, sequence and target chain as they were requested (as naturals: a wrapped value differs). -/
def envOk (cfg : Cfg) (req : Req) (m : Msg) (v : Vaa) : Bool :=
  v.version == 1 && v.gsIndex == req.currentSetIndex && v.sigs.isEmpty &&
  v.body.ts == req.timestamp && v.body.nonce == m.nonce && v.body.sequence == m.sequence &&
  v.body.emitterChain == cfg.chain && v.body.emitter == cfg.emitter && v.body.targetChain == m.targetChain

end Whv.Gov
