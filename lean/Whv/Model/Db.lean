import Whv.Model.Vaa
/-!
# The signed-VAA store — model of `node/pkg/db/db.go`, the key functions of `node/pkg/vaa/structs.go`
(`VAAID.Bytes`, `EmitterPrefixBytes`, `GovernanceEmitterPrefixBytes`), the lookup part of
`node/pkg/publicrpc/publicrpcserver.go` and `FindMissingMessages` of `node/cmd/guardiand/adminserver.go`.

Keys are lists of characters (every key byte the code writes is ASCII, so byte order = code point order).
The store is an association list with at most one entry per key; *iteration* sorts by key bytes and a prefix
scan keeps the entries whose key has the prefix: that is badger's contract (ordered iteration, `Seek` +
`ValidForPrefix`, read-your-writes) and it is ASSUMED, not verified.

`findGap` follows the REPAIRED `FindEmitterSequenceGap` (fixes/C12-gap-prefix-separator.diff): the scan
prefix is `EmitterPrefixBytes() ++ "/"`. `emitterPrefix` itself is `EmitterPrefixBytes` as pinned by the
repo's `TestEmitterPrefixBytes`.
-/
namespace Whv.Db
open Whv

abbrev Key := List Char

/-- `"signed/"` -/
def signedPfx : Key := ['s', 'i', 'g', 'n', 'e', 'd', '/']

/-- `GovernanceEmitterPrefixBytes` = `Sprintf("signed/%d/%s", chain, addr)` (structs.go:582). -/
def govPrefix (ec : Nat) (addr : Bytes) : Key :=
  signedPfx ++ (decChars ec ++ ('/' :: hexChars addr))

/-- `EmitterPrefixBytes` = `Sprintf("signed/%d/%s/%d", chain, addr, target)` (structs.go:586). No trailing separator. -/
def emitterPrefix (ec : Nat) (addr : Bytes) (tc : Nat) : Key :=
  signedPfx ++ (decChars ec ++ ('/' :: (hexChars addr ++ ('/' :: decChars tc))))

/-- `VAAID.Bytes` = `Sprintf("signed/%d/%s/%d/%d", chain, addr, target, seq)` (structs.go:578). -/
def key (i : VaaId) : Key :=
  signedPfx ++ (decChars i.emitterChain ++ ('/' :: (hexChars i.emitter ++ ('/' :: (decChars i.targetChain ++ ('/' :: decChars i.sequence))))))

/-- The scan prefix of the repaired `FindEmitterSequenceGap`: `append(prefix.EmitterPrefixBytes(), '/')`. -/
def gapPrefix (ec : Nat) (addr : Bytes) (tc : Nat) : Key := emitterPrefix ec addr tc ++ ['/']

/-! ## the store (badger, assumed) -/

abbrev Store := List (Key × Bytes)

/-- `txn.Set(k, v)` inside a committed update: the entry for `k` is replaced. -/
def Store.put (st : Store) (k : Key) (v : Bytes) : Store := (k, v) :: st.filter (fun e => e.1 != k)

/-- `txn.Get(k)`; `none` = `badger.ErrKeyNotFound`. -/
def Store.get (st : Store) (k : Key) : Option Bytes := (st.find? (fun e => e.1 == k)).map (·.2)

/-- Byte-wise lexicographic `≤` (badger's key order). -/
def keyLe : Key → Key → Bool
  | [], _ => true
  | _ :: _, [] => false
  | a :: as, b :: bs => if a.toNat < b.toNat then true else if b.toNat < a.toNat then false else keyLe as bs

/-- Iteration order of a badger iterator: ascending key bytes. -/
def Store.iter (st : Store) : List (Key × Bytes) := st.mergeSort (fun a b => keyLe a.1 b.1)

/-- `for it.Seek(p); it.ValidForPrefix(p); it.Next()` — the entries whose key starts with `p`, in key order. -/
def Store.scan (st : Store) (p : Key) : List (Key × Bytes) := st.iter.filter (fun e => p.isPrefixOf e.1)

/-! ## db.go -/

inductive StoreRes where
  | ok (st : Store)
  | panic
  deriving Repr

/-- `StoreSignedVAA` (db.go:44-70): panics on an unsigned VAA, else one update transaction
`Set(VaaIDFromVAA(v).Bytes(), v.Marshal())`; success is returned only after the transaction committed. -/
def storeSignedVAA (st : Store) (v : Vaa) : StoreRes :=
  if v.sigs.length = 0 then .panic else .ok (st.put (key v.body.id) (marshal v))

/-- A sequence of `StoreSignedVAA` calls; the first panic ends the process. -/
def storeAll (st : Store) : List Vaa → StoreRes
  | [] => .ok st
  | v :: vs =>
    match storeSignedVAA st v with
    | .panic => .panic
    | .ok st' => storeAll st' vs

/-- `GetSignedVAABytes` (db.go:138-157); `none` = `ErrVAANotFound`. -/
def getSignedVAABytes (st : Store) (id : VaaId) : Option Bytes := st.get (key id)

/-- The value loop of `FindEmitterSequenceGap`: `vaa.Unmarshal` of every scanned value, first error aborts. -/
def decodeAll : List (Key × Bytes) → Option (List Vaa)
  | [] => some []
  | e :: r =>
    match unmarshal e.2 with
    | none => none
    | some v => (decodeAll r).map (v :: ·)

/-- State of the "find min/max" loop (db.go:186-199). -/
structure MinMax where
  first : Bool
  firstSeq : Nat
  lastSeq : Nat
  deriving Repr, DecidableEq

/-- One iteration of `for k := range seqs` (db.go:188-199). -/
def minMaxStep (s : MinMax) (k : Nat) : MinMax :=
  let s := if s.first then { s with firstSeq := k, first := false } else s
  let s := if k < s.firstSeq then { s with firstSeq := k } else s
  if k > s.lastSeq then { s with lastSeq := k } else s

inductive GapRes where
  | ok (missing : List Nat) (first last : Nat)
  | err
  deriving Repr, DecidableEq

/-- The part of `FindEmitterSequenceGap` after the scan: `first := false` in the source means the named result
`firstSeq` keeps its zero value; the gap loop runs `i = firstSeq .. lastSeq` inclusive.
(Sequence `2^64-1` would make the Go loop spin; the model is over `Nat` and the harness never stores it in a queried stream.) -/
def gapOfSeqs (seqs : List Nat) : GapRes :=
  let mm := seqs.foldl minMaxStep ⟨false, 0, 0⟩
  .ok ((List.range' mm.firstSeq (mm.lastSeq + 1 - mm.firstSeq)).filter (fun i => !seqs.contains i)) mm.firstSeq mm.lastSeq

/-- `FindEmitterSequenceGap` (db.go:159-214, repaired scan prefix). The sequence comes from the decoded *value*. -/
def findGap (st : Store) (ec : Nat) (addr : Bytes) (tc : Nat) : GapRes :=
  match decodeAll (st.scan (gapPrefix ec addr tc)) with
  | none => .err
  | some vs => gapOfSeqs (vs.map (·.body.sequence))

/-- `strconv.ParseUint(s, 10, bits)`: non-empty, decimal digits only, value below `2^bits`. -/
def parseUint (bits : Nat) (cs : List Char) : Option Nat :=
  if cs.isEmpty then none
  else if cs.all Char.isDigit then
    let n := Nat.ofDigitChars 10 cs 0
    if n < 2 ^ bits then some n else none
  else none

/-- Split at `strings.LastIndex(s, "/")`: `(s[:i], s[i+1:])`, `none` when there is no `/`. -/
def splitLastSlash (k : Key) : Option (Key × Key) :=
  let r := k.reverse
  match r.dropWhile (· != '/') with
  | [] => none
  | _ :: before => some (before.reverse, (r.takeWhile (· != '/')).reverse)

structure GovEntry where
  targetChain : Nat
  sequence : Nat
  bytes : Bytes
  deriving Repr, DecidableEq

/-- Body of the iteration in `GetGovernanceVAABatch` (db.go:100-130): `none` = return the error,
`some none` = `continue`, `some (some e)` = append. -/
def govEntry (seqs : List Nat) (e : Key × Bytes) : Option (Option GovEntry) :=
  match splitLastSlash e.1 with
  | none => none
  | some (before, seqStr) =>
    match parseUint 64 seqStr with
    | none => none
    | some seq =>
      if !seqs.contains seq then some none
      else
        match splitLastSlash before with
        | none => none
        | some (_, tcStr) =>
          match parseUint 16 tcStr with
          | none => none
          | some tc => some (some ⟨tc, seq, e.2⟩)

def govLoop (seqs : List Nat) : List (Key × Bytes) → Option (List GovEntry)
  | [] => some []
  | e :: r =>
    match govEntry seqs e with
    | none => none
    | some none => govLoop seqs r
    | some (some g) => (govLoop seqs r).map (g :: ·)

/-- `GetGovernanceVAABatch` (db.go:78-136); `none` = `(nil, err)`. Result in key order. -/
def govBatch (st : Store) (ec : Nat) (addr : Bytes) (seqs : List Nat) : Option (List GovEntry) :=
  govLoop seqs (st.scan (govPrefix ec addr))

/-! ## publicrpcserver.go -/

/-- gRPC status of a rejected call, with which message. -/
inductive RpcErr where
  | noId          -- InvalidArgument "no message ID specified"
  | badHex        -- InvalidArgument "failed to decode address: …"
  | badLen        -- InvalidArgument "address must be 32 bytes"
  | batchSize     -- InvalidArgument "batch size exceed 20"
  | notFound      -- NotFound
  | internal      -- Internal
  deriving Repr, DecidableEq

/-- `vaa.ChainID(x.Number())` / `vaa.ChainID(uint32)`: narrowing to `uint16`. -/
def narrow16 (n : Int) : Nat := (n % 65536).toNat

/-- `decodeEmitterAddress` (publicrpcserver.go:70-82). -/
def decodeEmitterAddress (s : List Char) : Except RpcErr Bytes :=
  match unhexChars s with
  | none => .error .badHex
  | some b => if b.length ≠ 32 then .error .badLen else .ok b

/-- `GetSignedVAA` (publicrpcserver.go:84-112). `hasId = false` is a nil `MessageId`. -/
def rpcGetSignedVAA (st : Store) (hasId : Bool) (ec : Int) (addr : List Char) (tc : Int) (seq : Nat) : Except RpcErr Bytes :=
  if !hasId then .error .noId
  else
    match decodeEmitterAddress addr with
    | .error e => .error e
    | .ok a =>
      match getSignedVAABytes st ⟨narrow16 ec, a, narrow16 tc, seq⟩ with
      | none => .error .notFound
      | some b => .ok b

/-- `GetNonGovernanceVAABatch` (publicrpcserver.go:121-154): size check first, then the address; absent sequences are skipped. -/
def rpcNonGovBatch (st : Store) (ec : Int) (addr : List Char) (tc : Int) (seqs : List Nat) : Except RpcErr (List (Nat × Bytes)) :=
  if seqs.length > 20 then .error .batchSize
  else
    match decodeEmitterAddress addr with
    | .error e => .error e
    | .ok a =>
      .ok (seqs.filterMap fun s => (getSignedVAABytes st ⟨narrow16 ec, a, narrow16 tc, s⟩).map fun b => (s, b))

/-- `GetGovernanceVAABatch` (publicrpcserver.go:156-176) for the server's configured governance emitter. -/
def rpcGovBatch (st : Store) (govChain : Nat) (govAddr : Bytes) (seqs : List Nat) : Except RpcErr (List GovEntry) :=
  if seqs.length > 20 then .error .batchSize
  else
    match govBatch st govChain govAddr seqs with
    | none => .error .internal
    | some l => .ok l

/-! ## reads that fail under the running server

The handle the RPC server holds can fail a read with an error that is NOT `ErrVAANotFound` (badger `ErrDBClosed` while the node
shuts down and the gRPC server still accepts calls, an I/O error on one record).  `rd id = false`: the read of that identifier
fails during this call.  The pinned handlers turn such an error into `codes.Internal` — for the batch at the first sequence whose
read fails, nothing of the batch is answered. -/

abbrev Readable := VaaId → Bool

/-- `GetSignedVAABytes` under read failures: `none` = an error other than not-found. -/
def getAt (rd : Readable) (st : Store) (id : VaaId) : Option (Option Bytes) :=
  if rd id then some (getSignedVAABytes st id) else none

/-- `GetSignedVAA` (publicrpcserver.go:84-112) with the error branch that is not `ErrVAANotFound`. -/
def rpcGetSignedVAAAt (rd : Readable) (st : Store) (hasId : Bool) (ec : Int) (addr : List Char) (tc : Int) (seq : Nat) : Except RpcErr Bytes :=
  if !hasId then .error .noId
  else
    match decodeEmitterAddress addr with
    | .error e => .error e
    | .ok a =>
      match getAt rd st ⟨narrow16 ec, a, narrow16 tc, seq⟩ with
      | none => .error .internal
      | some none => .error .notFound
      | some (some b) => .ok b

/-- The loop of `GetNonGovernanceVAABatch` (publicrpcserver.go:133-153): not-found is skipped, any other error fails the call. -/
def batchLoopAt (rd : Readable) (st : Store) (mk : Nat → VaaId) : List Nat → Except RpcErr (List (Nat × Bytes))
  | [] => .ok []
  | s :: r =>
    match getAt rd st (mk s) with
    | none => .error .internal
    | some none => batchLoopAt rd st mk r
    | some (some b) =>
      match batchLoopAt rd st mk r with
      | .error e => .error e
      | .ok l => .ok ((s, b) :: l)

def rpcNonGovBatchAt (rd : Readable) (st : Store) (ec : Int) (addr : List Char) (tc : Int) (seqs : List Nat) : Except RpcErr (List (Nat × Bytes)) :=
  if seqs.length > 20 then .error .batchSize
  else
    match decodeEmitterAddress addr with
    | .error e => .error e
    | .ok a => batchLoopAt rd st (fun s => ⟨narrow16 ec, a, narrow16 tc, s⟩) seqs

/-- The variant that logs and skips EVERY lookup error (not only not-found): what the batch answers then. Not the pinned code —
kept to state what goes wrong with it (`C12.rpc_batch_skip_errors_witness`). -/
def batchLoopSkip (rd : Readable) (st : Store) (mk : Nat → VaaId) (seqs : List Nat) : List (Nat × Bytes) :=
  seqs.filterMap fun s => match getAt rd st (mk s) with
    | some (some b) => some (s, b)
    | _ => none

/-- `GetGovernanceVAABatch` when the scan may fail as a whole (`up = false`: `db.View` returns an error). -/
def rpcGovBatchAt (up : Bool) (st : Store) (govChain : Nat) (govAddr : Bytes) (seqs : List Nat) : Except RpcErr (List GovEntry) :=
  if seqs.length > 20 then .error .batchSize
  else if !up then .error .internal
  else rpcGovBatch st govChain govAddr seqs

/-! ## adminserver.go -/

/-- `copy(emitterAddress[:], b)` into a zeroed `[32]byte`: right-padded with zeros or cut to 32 bytes. -/
def copyTo32 (b : Bytes) : Bytes := (b ++ List.replicate 32 0).take 32

structure FmmRes where
  missing : List (List Char)
  first : Nat
  last : Nat
  deriving Repr, DecidableEq

/-- `FindMissingMessages` (adminserver.go:452-494) with `RpcBackfill = false`: the request's chain numbers are
`uint32`, narrowed for the query but printed un-narrowed in the message ids. -/
def findMissingMessages (st : Store) (ec : Nat) (addr : List Char) (tc : Nat) : Except RpcErr FmmRes :=
  match unhexChars addr with
  | none => .error .badHex
  | some b =>
    let a := copyTo32 b
    match findGap st (ec % 65536) a (tc % 65536) with
    | .err => .error .internal
    | .ok ids first last =>
      .ok ⟨ids.map fun v => decChars ec ++ ('/' :: (hexChars a ++ ('/' :: (decChars tc ++ ('/' :: decChars v))))), first, last⟩

/-! ## `FindMissingMessages` with `RpcBackfill = true` (adminserver.go:374-478, 500-512)

Every missing sequence is requested from the backfill nodes; what a node answers is an input (`NodeAnswer`). A VAA that was
served is *forwarded* to the processor's inbound channel — the same path as a gossiped `SignedVAAWithQuorum`, where it is verified
(C01) — and is never written to the store by the admin service itself. -/

inductive NodeAnswer where
  | served (b : Bytes)   -- 200 with a decodable `vaaBytes`
  | absent               -- 404, undecodable JSON / base64, unreachable node: try the next node, finally "not filled"
  | failed               -- any other status: the whole call fails with Internal
  deriving Repr, DecidableEq

/-- The loop over the missing ids: forwarded byte strings (in order), unfilled ids (in order), `none` once a node failed. -/
def backfillLoop (answer : Nat → NodeAnswer) : List Nat → List Bytes → List Nat → List Bytes × Option (List Nat)
  | [], fwd, unf => (fwd, some unf)
  | i :: rest, fwd, unf =>
    match answer i with
    | .served b => backfillLoop answer rest (fwd ++ [b]) unf
    | .absent => backfillLoop answer rest fwd (unf ++ [i])
    | .failed => (fwd, none)

structure BackfillRes where
  forwarded : List Bytes
  result : Except RpcErr FmmRes
  deriving Repr

def findMissingBackfill (st : Store) (ec : Nat) (addr : List Char) (tc : Nat) (answer : Nat → NodeAnswer) : BackfillRes :=
  match unhexChars addr with
  | none => ⟨[], .error .badHex⟩
  | some b =>
    let a := copyTo32 b
    match findGap st (ec % 65536) a (tc % 65536) with
    | .err => ⟨[], .error .internal⟩
    | .ok ids first last =>
      match backfillLoop answer ids [] [] with
      | (fwd, none) => ⟨fwd, .error .internal⟩
      | (fwd, some unf) =>
        ⟨fwd, .ok ⟨unf.map fun v => decChars ec ++ ('/' :: (hexChars a ++ ('/' :: (decChars tc ++ ('/' :: decChars v))))), first, last⟩⟩

/-! ## Specification: what the statement says, as functions of the *history* of successful stores -/

/-- A stream `(emitter chain, emitter address, target chain)`. -/
structure Stream where
  ec : Nat
  addr : Bytes
  tc : Nat
  deriving Repr, DecidableEq

def inStream (s : Stream) (i : VaaId) : Bool :=
  i.emitterChain == s.ec && i.emitter == s.addr && i.targetChain == s.tc

/-- A successful store: identifier and the exact bytes (chronological lists of these are histories). -/
abbrev Put := VaaId × Bytes

/-- The store reached by a history of puts. -/
def run (h : List Put) : Store := h.foldl (fun st p => st.put (key p.1) p.2) []

/-- The last bytes stored under `id`, if any. -/
def lastStored (h : List Put) (id : VaaId) : Option Bytes := ((h.filter (fun p => p.1 == id)).getLast?).map (·.2)

/-- Sequences stored in stream `s`. -/
def streamSeqs (h : List Put) (s : Stream) : List Nat := (h.filter (fun p => inStream s p.1)).map (·.1.sequence)

def maxSeq (seqs : List Nat) : Nat := seqs.foldl max 0

/-- Gap specification: `first = 0` (pinned by the repo's `TestFindEmitterSequenceGap`), `last` = the greatest
stored sequence (0 for an empty stream), `missing` = the ascending list of `i ≤ last` not stored. -/
def specGap (seqs : List Nat) : GapRes :=
  .ok ((List.range (maxSeq seqs + 1)).filter (fun i => !seqs.contains i)) 0 (maxSeq seqs)

/-- Governance batch specification, as a predicate on an entry. -/
def govWanted (h : List Put) (ec : Nat) (addr : Bytes) (seqs : List Nat) (g : GovEntry) : Prop :=
  ∃ id : VaaId, id.emitterChain = ec ∧ id.emitter = addr ∧ id.targetChain = g.targetChain ∧ id.sequence = g.sequence ∧
    g.sequence ∈ seqs ∧ lastStored h id = some g.bytes

/-- Executable form of `govWanted` (used by the driver): the wanted entries, one per stored identifier. -/
def specGov (h : List Put) (ec : Nat) (addr : Bytes) (seqs : List Nat) : List GovEntry :=
  ((h.map (·.1)).eraseDups.filter fun id => id.emitterChain == ec && id.emitter == addr && seqs.contains id.sequence).filterMap
    fun id => (lastStored h id).map fun b => ⟨id.targetChain, id.sequence, b⟩

/-- History of `StoreSignedVAA` calls on signed VAAs. -/
def putsOf (vs : List Vaa) : List Put := vs.map fun v => (v.body.id, marshal v)

end Whv.Db
