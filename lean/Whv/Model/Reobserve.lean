import Whv.Model.Bytes
/-!
# Model of the re-observation dispatcher (`node/cmd/guardiand/reobserve.go`) and of
# `common.PostObservationRequest` (`node/pkg/common/obsvReqSendC.go`)  — core-only, executable

The Go loop keeps a local map `cache : (chainId, hex txHash) → time of forward` and handles two events:

* ticker (every `7*time.Minute`): `for r, t := range cache { if now.Sub(t) > 11*time.Minute { delete(cache, r) } }`
* request: key `r = (vaa.ChainID(req.ChainId), hex(req.TxHash))` — `ChainID` is a `uint16`, so the wire `uint32` is
  narrowed (`% 2^16`); if `r ∈ cache` skip; else if the chain has a watcher channel do a non-blocking send and, only when
  the send succeeded, `cache[r] = clock.Now()`; full channel or unknown chain: log and drop.

Times are nanoseconds on the dispatcher's clock (`Nat`); `now.Sub(t) > w` is `now > t + w`.
The suppression window `w` is a parameter of every function (the theorems hold for every `w`); the driver and the
pinned-value theorem use the durations extracted from the source (`Whv.Gen.C17`).
-/
namespace Whv.Reobserve

/-- `gossipv1.ObservationRequest` as the dispatcher sees it. -/
structure Req where
  chain : Nat        -- `uint32 chain_id` on the wire
  tx : Bytes
deriving DecidableEq, Repr

/-- The cache key: `vaa.ChainID(req.ChainId)` (a `uint16`) and the transaction hash (hex is injective). -/
abbrev Key := Nat × Bytes

def Req.key (r : Req) : Key := (r.chain % 65536, r.tx)

/-- The Go map, as an association list (at most one entry per key: `KeysNodup`, an invariant). -/
abbrev Cache := List (Key × Nat)

def hasKey (c : Cache) (k : Key) : Bool := c.any (fun e => e.1 == k)

/-- What one request did. -/
inductive Outcome where
  | duplicate                 -- skipped: remembered
  | forwarded (chain : Nat)   -- sent to this chain's watcher and remembered
  | full                      -- watcher queue full: dropped
  | unknown                   -- no watcher for the chain: dropped
deriving DecidableEq, Repr

/-- The ticker branch. -/
def purge (w now : Nat) (c : Cache) : Cache := c.filter (fun e => !(decide (now > e.2 + w)))

/-- The request branch.  `room ch = none` — no watcher channel for `ch`; `some b` — there is one and a non-blocking
send would (`b = true`) or would not succeed. -/
def dispatch (c : Cache) (now : Nat) (r : Req) (room : Nat → Option Bool) : Cache × Outcome :=
  if hasKey c r.key then (c, .duplicate)
  else match room r.key.1 with
    | none => (c, .unknown)
    | some false => (c, .full)
    | some true => ((r.key, now) :: c, .forwarded r.key.1)

/-! ## Histories: requests (with the answer of the watcher queue at that moment) and ticks -/

inductive Ev where
  | req (now : Nat) (r : Req) (room : Option Bool)
  | tick (now : Nat)
deriving Repr

def Ev.time : Ev → Nat
  | .req now _ _ => now
  | .tick now => now

/-- One event; the second component is the forward it produced, if any: `(key, time)`. -/
def stepEv (w : Nat) (c : Cache) : Ev → Cache × Option (Key × Nat)
  | .tick now => (purge w now c, none)
  | .req now r room =>
    match dispatch c now r (fun _ => room) with
    | (c', .forwarded _) => (c', some (r.key, now))
    | (c', _) => (c', none)

/-- A whole history from cache `c`: final cache and the forwards in the order they happened. -/
def run (w : Nat) (c : Cache) : List Ev → Cache × List (Key × Nat)
  | [] => (c, [])
  | e :: es =>
    let (c1, o) := stepEv w c e
    let (c2, l) := run w c1 es
    (c2, o.toList ++ l)

/-- The clock never goes backwards along a history that starts at `lb`. -/
def Monotone : Nat → List Ev → Prop
  | _, [] => True
  | lb, e :: es => lb ≤ e.time ∧ Monotone e.time es

/-! ## The watcher queues (buffered Go channels) and the system the driver replays -/

structure Chan where
  cap : Nat
  items : List Req
deriving DecidableEq, Repr

/-- Non-blocking send `select { case ch <- r: …; default: … }`. -/
def Chan.trySend (q : Chan) (r : Req) : Option Chan :=
  if q.items.length < q.cap then some { q with items := q.items ++ [r] } else none

/-- `common.PostObservationRequest`: `true` = `nil` error, `false` = `ErrChanFull`. -/
def post (q : Chan) (r : Req) : Chan × Bool :=
  match q.trySend r with
  | some q' => (q', true)
  | none => (q, false)

/-- `nodePrivilegedService.SendObservationRequest` (`node/cmd/guardiand/adminserver.go`): the admin RPC hands the request
of its caller to `PostObservationRequest` on the outbound queue and returns its error (`false`) or an empty response
(`true`); the caller's context is not consulted — there is no waiting outcome. -/
def adminSend (q : Chan) (r : Req) : Chan × Bool := post q r

structure State where
  cache : Cache := []
  chans : List (Nat × Chan) := []     -- `chainObsvReqC`, keyed by the 16-bit chain id
deriving Repr

def State.room (s : State) (ch : Nat) : Option Bool :=
  (s.chans.lookup ch).map fun q => decide (q.items.length < q.cap)

def setChan (chans : List (Nat × Chan)) (ch : Nat) (q : Chan) : List (Nat × Chan) :=
  (ch, q) :: chans.filter (fun e => e.1 != ch)

/-- Operations of the harness: the two dispatcher events plus what the environment does to the watcher side. -/
inductive Op where
  | req (now : Nat) (r : Req)
  | tick (now : Nat)
  | drain (ch n : Nat)          -- a watcher takes up to `n` requests from its queue
  | setchan (ch cap : Nat)      -- a (new, empty) watcher queue for `ch`
  | delchan (ch : Nat)
  | advance (now : Nat)         -- the clock moves on (no ticker event, no request): the loop stays parked in its `select`
deriving Repr

def step (w : Nat) (s : State) : Op → State × Option Outcome
  | .tick now => ({ s with cache := purge w now s.cache }, none)
  | .req now r =>
    let (c', o) := dispatch s.cache now r s.room
    match o with
    | .forwarded ch =>
      match s.chans.lookup ch with
      | some q => ({ cache := c', chans := setChan s.chans ch { q with items := q.items ++ [r] } }, some o)
      | none => (s, some o)   -- unreachable: `forwarded` implies a watcher with room (`dispatch_forwarded_iff`)
    | _ => ({ s with cache := c' }, some o)
  | .drain ch n =>
    match s.chans.lookup ch with
    | some q => ({ s with chans := setChan s.chans ch { q with items := q.items.drop n } }, none)
    | none => (s, none)
  | .setchan ch cap => ({ s with chans := setChan s.chans ch { cap := cap, items := [] } }, none)
  | .delchan ch => ({ s with chans := s.chans.filter (fun e => e.1 != ch) }, none)
  | .advance _ => (s, none)     -- the loop has no timer besides the purge ticker: time alone does nothing

def runOps (w : Nat) (s : State) : List Op → State
  | [] => s
  | o :: os => runOps w (step w s o).1 os

/-- The request an operation put on a watcher queue, if any (only a `req` whose outcome is `forwarded` does). -/
def fwdOf (w : Nat) (s : State) : Op → List Req
  | .req now r =>
    match (step w s (.req now r)).2 with
    | some (.forwarded _) => [r]
    | _ => []
  | _ => []

/-- Everything the dispatcher forwarded along an operation sequence, in order. -/
def forwards (w : Nat) (s : State) : List Op → List Req
  | [] => []
  | o :: os => fwdOf w s o ++ forwards w (step w s o).1 os

/-- `r` sits in some watcher queue. -/
def InQueues (s : State) (r : Req) : Prop := ∃ e ∈ s.chans, r ∈ e.2.items

end Whv.Reobserve
