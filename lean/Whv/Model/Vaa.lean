import Whv.Model.Bytes
/-!
# VAA wire format — model of `node/pkg/vaa/structs.go` (`Marshal`, `serializeBody`, `Unmarshal`)

Fields are naturals with explicit range predicates (`Body.WF`, `Vaa.WF`) exactly where the Go types
(`uint8/16/32/64`, `[32]byte`, `[65]byte`) impose one; encoders reduce modulo the field width just
like Go's narrowing conversions do, so wrap-around is visible to the theorems.
-/
namespace Whv

structure Sig where
  idx : Nat
  sig : Bytes
  deriving DecidableEq, Repr

structure Body where
  ts : Nat            -- whole seconds (`Timestamp.Unix()`)
  nonce : Nat
  emitterChain : Nat
  targetChain : Nat
  emitter : Bytes     -- 32 bytes
  sequence : Nat
  consistency : Nat
  payload : Bytes
  deriving DecidableEq, Repr

structure Vaa where
  version : Nat
  gsIndex : Nat
  sigs : List Sig
  body : Body
  deriving DecidableEq, Repr

/-- `serializeBody` (structs.go:424-436). -/
def serializeBody (b : Body) : Bytes :=
  be 4 b.ts ++ (be 4 b.nonce ++ (be 2 b.emitterChain ++ (be 2 b.targetChain ++
    (b.emitter ++ (be 8 b.sequence ++ (be 1 b.consistency ++ b.payload))))))

def sigBytes (s : Sig) : Bytes := be 1 s.idx ++ s.sig

def sigsBytes : List Sig → Bytes
  | [] => []
  | s :: ss => sigBytes s ++ sigsBytes ss

/-- `Marshal` (structs.go:391-408); `uint8(len(v.Signatures))` is `be 1`. -/
def marshal (v : Vaa) : Bytes :=
  be 1 v.version ++ (be 4 v.gsIndex ++ (be 1 v.sigs.length ++ (sigsBytes v.sigs ++ serializeBody v.body)))

/-- The signature loop of `Unmarshal` (structs.go:271-287). -/
def readSigs : Nat → Bytes → Option (List Sig × Bytes)
  | 0, bs => some ([], bs)
  | n + 1, bs =>
    match takeN 1 bs with
    | none => none
    | some (i, r1) =>
      match takeN 65 r1 with
      | none => none
      | some (s, r2) =>
        match readSigs n r2 with
        | none => none
        | some (ss, r3) => some (⟨unbe i, s⟩ :: ss, r3)

/-- Body part of `Unmarshal` (structs.go:289-326) — after the repair of the 1000-byte read buffer the
payload is everything that remains, and an empty remainder is an error. -/
def readBody (r0 : Bytes) : Option Body :=
  match takeN 4 r0 with
  | none => none
  | some (ts, r1) =>
  match takeN 4 r1 with
  | none => none
  | some (nonce, r2) =>
  match takeN 2 r2 with
  | none => none
  | some (ec, r3) =>
  match takeN 2 r3 with
  | none => none
  | some (tc, r4) =>
  match takeN 32 r4 with
  | none => none
  | some (em, r5) =>
  match takeN 8 r5 with
  | none => none
  | some (sq, r6) =>
  match takeN 1 r6 with
  | none => none
  | some (cl, r7) =>
    if r7 = [] then none
    else some { ts := unbe ts, nonce := unbe nonce, emitterChain := unbe ec, targetChain := unbe tc,
                emitter := em, sequence := unbe sq, consistency := unbe cl, payload := r7 }

def minVAALength : Nat := 57

/-- `Unmarshal` (structs.go:248-329). `none` = the Go function returns `(nil, err)`. -/
def unmarshal (data : Bytes) : Option Vaa :=
  if data.length < minVAALength then none
  else
    match takeN 1 data with
    | none => none
    | some (ver, r0) =>
      if unbe ver ≠ 1 then none
      else
        match takeN 4 r0 with
        | none => none
        | some (gs, r1) =>
          match takeN 1 r1 with
          | none => none
          | some (n, r2) =>
            match readSigs (unbe n) r2 with
            | none => none
            | some (sigs, r3) =>
              match readBody r3 with
              | none => none
              | some body => some { version := 1, gsIndex := unbe gs, sigs := sigs, body := body }

/-! ## well-formedness = the representable range of the Go struct -/

def Sig.WF (s : Sig) : Prop := s.idx < 256 ∧ s.sig.length = 65

def Body.WF (b : Body) : Prop :=
  b.ts < 256 ^ 4 ∧ b.nonce < 256 ^ 4 ∧ b.emitterChain < 256 ^ 2 ∧ b.targetChain < 256 ^ 2 ∧
  b.emitter.length = 32 ∧ b.sequence < 256 ^ 8 ∧ b.consistency < 256 ^ 1

/-- The statement's domain: version 1, at most 255 signatures, non-empty payload, fields in range. -/
def Vaa.WF (v : Vaa) : Prop :=
  v.version = 1 ∧ v.gsIndex < 256 ^ 4 ∧ v.sigs.length ≤ 255 ∧ (∀ s ∈ v.sigs, s.WF) ∧ v.body.WF ∧ v.body.payload ≠ []

instance (s : Sig) : Decidable s.WF := by unfold Sig.WF; exact inferInstance
instance (b : Body) : Decidable b.WF := by unfold Body.WF; exact inferInstance
instance (v : Vaa) : Decidable v.WF := by unfold Vaa.WF; exact inferInstance

/-- `MessageID()` / `VAAID` of a body. -/
structure VaaId where
  emitterChain : Nat
  emitter : Bytes
  targetChain : Nat
  sequence : Nat
  deriving DecidableEq, Repr

def Body.id (b : Body) : VaaId := ⟨b.emitterChain, b.emitter, b.targetChain, b.sequence⟩

end Whv
