import Whv.Model.Bytes
/-!
# Spy service — model of `node/cmd/spy/spy.go` (C20)

`spyServer{subs map[string]*subscription, subsMu}`; `Publish` (spy.go:110-137) iterates the map under the
mutex and does a **blocking** send on the one-slot channel of every matching subscription;
`SubscribeSignedVAA` (spy.go:139-186) registers under the mutex, loops `select { ctx.Done | <-sub.ch → resp.Send }`
and removes the subscription in a deferred function that takes the same mutex.

Two layers:

* function level — `subMatches`, `copies`, `sends`: which channel sends one `Publish` performs;
* transition system `step` with Go's blocking semantics: a send on a full channel is *not enabled*, `Lock`
  on a held mutex is *not enabled*; the client behind a subscription may stall (its `sendDone` step never
  happens) or leave.
-/
namespace Whv.Spy
open Whv

/-- `filter{chainId, emitterAddr}`. -/
structure Filter where
  chain : Nat
  addr : Bytes
  deriving DecidableEq, Repr

/-- What `vaa.Unmarshal` makes of the published bytes, as far as `Publish` looks at it:
`none` = undecodable, `some (emitterChain, emitterAddress)`. An oracle (C05 is about the decoder). -/
abbrev Decoded := Option (Nat × Bytes)

def Filter.hit (f : Filter) (chain : Nat) (addr : Bytes) : Bool := f.chain == chain && f.addr == addr

/-- The statement's `matches sub v`: no filters, or some filter with equal chain and address. -/
def subMatches (filters : List Filter) (chain : Nat) (addr : Bytes) : Bool :=
  filters.isEmpty || filters.any (·.hit chain addr)

/-- Number of channel sends `Publish` does for one subscription and a decodable VAA: one if it has no
filters, else one **per matching filter** (the inner loop has no `break`). -/
def copies (filters : List Filter) (chain : Nat) (addr : Bytes) : Nat :=
  if filters.isEmpty then 1 else (filters.filter (·.hit chain addr)).length

abbrev SubId := Nat

/-- The channel sends of one `Publish`, in order, for the map iteration order `subs` (a list of
`(id, filters)`), and whether it returns an error.  For an undecodable VAA every subscription *with* filters is
skipped (there is no emitter to match) and the decode error is returned at the end; subscriptions without filters are
sent to wherever they sit in the map order (`fix:` of the early `return err`, which made the set of served filter-less
subscribers depend on Go's map order). -/
def sends (d : Decoded) : List (SubId × List Filter) → List SubId × Bool
  | [] => ([], false)
  | (id, fs) :: rest =>
    if fs.isEmpty then
      let (l, e) := sends d rest
      (id :: l, e)
    else
      match d with
      | none =>
        let (l, _) := sends d rest
        (l, true)
      | some (c, a) =>
        let (l, e) := sends d rest
        (List.replicate (copies fs c a) id ++ l, e)

/-! ## `SubscribeSignedVAA`'s request validation -/

/-- One `FilterEntry` of the request: an emitter filter with its chain id (already reduced to `uint16` by the
`vaa.ChainID(...)` conversion) and the *hex string* of the address, or an entry of another/unset type. -/
inductive ReqFilter
  | emitter (chain : Nat) (addrHex : String)
  | other
  deriving Repr

inductive SubErr | badAddress | unsupported
  deriving DecidableEq, Repr

/-- `decodeEmitterAddr`: hex-decodes, requires 32 bytes. -/
def decodeAddr (h : String) : Option Bytes :=
  match ofHex h with
  | none => none
  | some b => if b.length = 32 then some b else none

/-- The filter loop of `SubscribeSignedVAA` (spy.go:140-157): the first bad entry aborts the call. -/
def parseFilters : List ReqFilter → Except SubErr (List Filter)
  | [] => .ok []
  | .other :: _ => .error .unsupported
  | .emitter c h :: rest =>
    match decodeAddr h with
    | none => .error .badAddress
    | some a =>
      match parseFilters rest with
      | .error e => .error e
      | .ok fs => .ok (⟨c % 65536, a⟩ :: fs)

/-! ## Transition system -/

/-- The channel capacity, `make(chan message, 1)` (spy.go:162). -/
def chanCap : Nat := 1

/-- Where the handler goroutine of a subscription is. -/
inductive Reader
  | selecting                -- in `select { <-ctx.Done() | <-sub.ch }`
  | sending (m : Bytes)      -- in `resp.Send(m)`; a stalled client keeps it here
  | leaving                  -- left the loop (context done / Send error); deferred removal waits for the mutex
  deriving DecidableEq, Repr

structure Sub where
  id : SubId
  filters : List Filter
  queue : List Bytes         -- contents of `sub.ch`
  reader : Reader
  delivered : List Bytes     -- what the client has received
  deriving DecidableEq, Repr

/-- The goroutine calling `Publish` (one: the `signedInC` loop). -/
inductive Pub
  | idle
  | sending (v : Bytes) (todo : List SubId)    -- mutex held; remaining channel sends
  deriving DecidableEq, Repr

structure State where
  subs : List Sub
  /-- `subsMu` is held (by the publisher; register/remove are atomic lock-modify-unlock steps) -/
  locked : Bool
  pub : Pub
  /-- ghost: every completed channel send `(subscription, message)`, in order -/
  log : List (SubId × Bytes)
  deriving DecidableEq, Repr

def init : State := ⟨[], false, .idle, []⟩

inductive Step
  | subscribe (id : SubId) (filters : List Filter)       -- Lock; subs[id] = sub; Unlock
  | pubStart (v : Bytes) (d : Decoded) (order : List SubId)  -- Lock; the iteration order of the map is `order`
  | pubSend                                              -- the next `sub.ch <- message` (blocking)
  | pubEnd                                               -- deferred Unlock
  | recv (id : SubId)                                    -- `msg := <-sub.ch`, then calls resp.Send
  | sendDone (id : SubId)                                -- resp.Send returned: the client took the message
  | leave (id : SubId)                                   -- ctx.Done() chosen, or resp.Send returned an error
  | remove (id : SubId)                                  -- deferred: Lock; delete(subs, id); Unlock
  deriving DecidableEq, Repr

def findSub (subs : List Sub) (id : SubId) : Option Sub := subs.find? (·.id == id)

def setSub (subs : List Sub) (s' : Sub) : List Sub := subs.map fun s => if s.id == s'.id then s' else s

/-- The subscriptions in iteration order `order` (ids not present are skipped — `order` is the oracle for Go's
random map order; it is meant to be a permutation of the present ids). -/
def ordered (subs : List Sub) (order : List SubId) : List (SubId × List Filter) :=
  order.filterMap fun id => (findSub subs id).map fun s => (s.id, s.filters)

/-- One step; `none` = not enabled (blocked or impossible). -/
def step (s : State) : Step → Option State
  | .subscribe id fs =>
    if s.locked then none
    else if (findSub s.subs id).isSome then none           -- ids are fresh uuids
    else some { s with subs := s.subs ++ [⟨id, fs, [], .selecting, []⟩] }
  | .pubStart v d order =>
    if s.locked then none
    else match s.pub with
      | .sending _ _ => none
      | .idle => some { s with locked := true, pub := .sending v (sends d (ordered s.subs order)).1 }
  | .pubSend =>
    match s.pub with
    | .sending v (id :: rest) =>
      match findSub s.subs id with
      | none => none
      | some sub =>
        if sub.queue.length < chanCap then
          some { s with subs := setSub s.subs { sub with queue := sub.queue ++ [v] }, pub := .sending v rest,
                        log := s.log ++ [(id, v)] }
        else none                                          -- channel full: the send blocks
    | _ => none
  | .pubEnd =>
    match s.pub with
    | .sending _ [] => some { s with locked := false, pub := .idle }
    | _ => none
  | .recv id =>
    match findSub s.subs id with
    | some sub =>
      match sub.reader, sub.queue with
      | .selecting, m :: q => some { s with subs := setSub s.subs { sub with queue := q, reader := .sending m } }
      | _, _ => none
    | none => none
  | .sendDone id =>
    match findSub s.subs id with
    | some sub =>
      match sub.reader with
      | .sending m => some { s with subs := setSub s.subs { sub with reader := .selecting, delivered := sub.delivered ++ [m] } }
      | _ => none
    | none => none
  | .leave id =>
    match findSub s.subs id with
    | some sub =>
      match sub.reader with
      | .leaving => none
      | _ => some { s with subs := setSub s.subs { sub with reader := .leaving } }
    | none => none
  | .remove id =>
    if s.locked then none
    else match findSub s.subs id with
      | some sub =>
        match sub.reader with
        | .leaving => some { s with subs := s.subs.filter (·.id != id) }
        | _ => none
      | none => none

/-- Execute a trace; `none` as soon as a step is not enabled. -/
def exec : State → List Step → Option State
  | s, [] => some s
  | s, st :: rest =>
    match step s st with
    | none => none
    | some s' => exec s' rest

def Reachable (s : State) : Prop := ∃ tr, exec init tr = some s

end Whv.Spy
