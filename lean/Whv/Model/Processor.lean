import Whv.Model.Verify
/-!
# The signature-aggregation state machine — model of `node/pkg/processor`

`handleMessage` (message.go), `handleInjection` (injection.go), `broadcastSignature` / `broadcastSignedVAA`
(broadcast.go), `handleObservation` / `handleInboundSignedVAAWithQuorum` (observation.go), `handleCleanup`
(cleanup.go) and the guardian-set update arm of `Run` (processor.go), followed statement by statement.

* Crypto is an `Oracle` (parameters): `recover digest sig` = `crypto.Ecrecover` + address derivation (`none` on any
  error, in particular when the digest is not 32 bytes or the signature not 65 bytes), `digestOf` = `SigningMsg`,
  `sign` = the node's signer (`none` = the signer returned an error, which the code turns into a panic).
* Go maps are association lists; the store is an association list `VaaId → bytes` (badger's read-your-writes assumed).
* Time is integer nanoseconds supplied with each event (`time.Now()` at the moment the handler runs).
* A Go panic is the explicit result `Res.panic site`.
-/
namespace Whv.Proc
open Whv

structure GSet where
  index : Nat
  keys : List Addr
  deriving DecidableEq, Repr

/-- A gossiped / looped-back `SignedObservation`. -/
structure Obs where
  addr : Bytes
  hash : Bytes
  sig : Bytes
  txHash : Bytes
  deriving DecidableEq, Repr

/-- `vaaState` (processor.go:25-49). -/
structure VState where
  firstObserved : Int
  ourVAA : Option Vaa := none
  lastRetry : Option Int := none        -- `none` = Go's zero `time.Time`
  signatures : List (Addr × Bytes) := []
  submitted : Bool := false
  settled : Bool := false
  retryCount : Nat := 0
  ourMsg : Option Obs := none
  txHash : Bytes := []
  gs : Option GSet := none
  deriving DecidableEq, Repr

structure PState where
  gs : Option GSet := none
  agg : List (Bytes × VState) := []      -- keyed by digest (`hex(m.Hash)` in the code)
  db : List (VaaId × Bytes) := []
  deriving DecidableEq, Repr

structure Oracle where
  recover : Bytes → Bytes → Option Addr
  digestOf : Body → Bytes
  sign : Bytes → Option Bytes

structure Config where
  ourAddr : Addr
  govChain : Nat
  govEmitter : Bytes

/-- `common.MessagePublication`. -/
structure Msg where
  txHash : Bytes
  tsSec : Int
  tsNsec : Nat
  nonce : Nat
  sequence : Nat
  consistency : Nat
  emitterChain : Nat
  targetChain : Nat
  emitter : Bytes
  payload : Bytes
  deriving DecidableEq, Repr

inductive Event
  | setUpdate (gs : GSet)
  | message (m : Msg) (now : Int)
  | injection (v : Vaa) (now : Int)
  | observation (o : Obs) (now : Int)
  | inbound (bytes : Bytes)
  | cleanup (now : Int) (reqRoom : Nat)   -- `reqRoom` = free slots of the outbound request queue at this tick
  deriving Repr

inductive Out
  | obs (o : Obs)                 -- SignedObservation broadcast on the gossip channel
  | loopback (o : Obs)            -- own observation fed back into the observation channel
  | vaa (bytes : Bytes)           -- SignedVAAWithQuorum broadcast
  | obsReq (chain : Nat) (txHash : Bytes)
  deriving DecidableEq, Repr

inductive Res
  | ok (s : PState) (outs : List Out)
  | panic (site : String)
  deriving Repr

/-! ## association-list helpers -/

def alInsert {α β : Type} [BEq α] (k : α) (v : β) : List (α × β) → List (α × β)
  | [] => [(k, v)]
  | (k', v') :: rest => if k' == k then (k, v) :: rest else (k', v') :: alInsert k v rest

def alErase {α β : Type} [BEq α] (k : α) : List (α × β) → List (α × β)
  | [] => []
  | (k', v') :: rest => if k' == k then rest else (k', v') :: alErase k rest

/-! ## pieces -/

def settlementTime : Int := 30 * 1000000000
def retryTime : Int := 5 * 60 * 1000000000
def oneHour : Int := 60 * 60 * 1000000000
def fiveMinutes : Int := 5 * 60 * 1000000000
def maxRetries : Nat := 14400

/-- `common.BytesToAddress`: keep the last 20 bytes, left-pad with zeros. -/
def bytesToAddress (b : Bytes) : Addr :=
  if b.length ≥ 20 then b.drop (b.length - 20) else List.replicate (20 - b.length) 0 ++ b

/-- The unsigned VAA `handleMessage` builds (message.go:71-83). `uint32(Timestamp.Unix())` is what ever reaches the wire. -/
def vaaOfMsg (gsIndex : Nat) (m : Msg) : Vaa :=
  { version := 1, gsIndex := gsIndex, sigs := [],
    body := { ts := (m.tsSec % 4294967296).toNat, nonce := m.nonce, emitterChain := m.emitterChain,
              targetChain := m.targetChain, emitter := m.emitter, sequence := m.sequence,
              consistency := m.consistency, payload := m.payload } }

/-- Walk the guardian set in key order and collect the signatures present (observation.go:170-190).
`uint8(i)` is `i % 256`. -/
def assembleFrom (sigs : List (Addr × Bytes)) : List Addr → Nat → List Sig
  | [], _ => []
  | a :: ks, i =>
    match sigs.lookup a with
    | some s => ⟨i % 256, s⟩ :: assembleFrom sigs ks (i + 1)
    | none => assembleFrom sigs ks (i + 1)

def assemble (keys : List Addr) (sigs : List (Addr × Bytes)) : List Sig := assembleFrom sigs keys 0

/-- The entry for a digest, or the fresh one `handleObservation` / `broadcastSignature` would create. -/
def entryOrFresh (s : PState) (d : Bytes) (now : Int) : VState :=
  match s.agg.lookup d with
  | some st => st
  | none => { firstObserved := now }

/-- `broadcastSignature` (broadcast.go:26-68). -/
def broadcastSignature (cfg : Config) (s : PState) (digest : Bytes) (v : Vaa) (sig : Bytes) (txHash : Bytes) (now : Int) :
    PState × List Out :=
  let o : Obs := { addr := cfg.ourAddr, hash := digest, sig := sig, txHash := txHash }
  let st0 : VState := entryOrFresh s digest now
  let st1 := { st0 with ourVAA := some v, ourMsg := some o, txHash := txHash, gs := s.gs }
  ({ s with agg := alInsert digest st1 s.agg }, [Out.obs o, Out.loopback o])

/-- `handleMessage` (message.go:43-167), with the repaired stored-VAA decode (log and drop instead of panic). -/
def handleMessage (O : Oracle) (cfg : Config) (s : PState) (m : Msg) (now : Int) : Res :=
  match s.gs with
  | none => .ok s []
  | some g =>
    let v := vaaOfMsg g.index m
    if v.body.emitter = cfg.govEmitter ∧ v.body.emitterChain = cfg.govChain then .ok s []
    else
      let proceed : Res :=
        let digest := O.digestOf v.body
        match O.sign digest with
        | none => .panic "sign"
        | some sig =>
          let (s', outs) := broadcastSignature cfg s digest v sig m.txHash now
          .ok s' outs
      match s.db.lookup v.body.id with
      | some vb =>
        match unmarshal vb with
        | none => .ok s []          -- repaired: was `panic("failed to unmarshal VAA from db")`
        | some existing =>
          if (m.tsSec * 1000000000 + m.tsNsec) - (existing.body.ts : Int) * 1000000000 > settlementTime then .ok s []
          else proceed
      | none => proceed

/-- `handleInjection` (injection.go:24-44), with the repaired guard: dropped while no guardian set is known. -/
def handleInjection (O : Oracle) (cfg : Config) (s : PState) (v : Vaa) (now : Int) : Res :=
  match s.gs with
  | none => .ok s []
  | some _ =>
    let digest := O.digestOf v.body
    match O.sign digest with
    | none => .panic "sign"
    | some sig =>
      let (s', outs) := broadcastSignature cfg s digest v sig [] now
      .ok s' outs

/-- `StoreSignedVAA` (db.go:44-70): panics on an unsigned VAA, otherwise sets key → `Marshal()`. -/
def storeSigned (db : List (VaaId × Bytes)) (v : Vaa) : Option (List (VaaId × Bytes)) :=
  if v.sigs.length = 0 then none else some (alInsert v.body.id (marshal v) db)

/-- Which guardian set gates an observation for digest `d` (observation.go:104-109): the entry's snapshot if it has
one, else the current set. -/
def gateSet (s : PState) (d : Bytes) : Option GSet :=
  match s.agg.lookup d with
  | some st => (match st.gs with | some g => some g | none => s.gs)
  | none => s.gs

def recordSig (st : VState) (a : Addr) (sig : Bytes) : VState :=
  { st with signatures := alInsert a sig st.signatures }

/-- Does the aggregation loop hit `panic("invalid sig len")`? -/
def badSigLen (keys : List Addr) (sigs : List (Addr × Bytes)) : Bool :=
  keys.any fun a => match sigs.lookup a with | some sg => sg.length != 65 | none => false

/-- Second half of `handleObservation` (observation.go:166-251): assemble, count against quorum, store and broadcast. -/
def obsFinish (s : PState) (d : Bytes) (gs : GSet) (st1 : VState) : Res :=
  if badSigLen gs.keys st1.signatures then .panic "invalid sig len"
  else
    match st1.ourVAA with
    | none => .ok { s with agg := alInsert d st1 s.agg } []
    | some v =>
      let sigs := assemble gs.keys st1.signatures
      if sigs.length ≥ quorum gs.keys.length ∧ st1.submitted = false then
        let signed : Vaa := { v with sigs := sigs }
        match storeSigned s.db signed with
        | none => .panic "StoreSignedVAA called for unsigned VAA"
        | some db' =>
          .ok { s with agg := alInsert d { st1 with submitted := true } s.agg, db := db' } [Out.vaa (marshal signed)]
      else .ok { s with agg := alInsert d st1 s.agg } []

/-- `handleObservation` (observation.go:48-251). -/
def handleObservation (O : Oracle) (s : PState) (o : Obs) (now : Int) : Res :=
  match O.recover o.hash o.sig with
  | none => .ok s []
  | some signer =>
    if bytesToAddress o.addr ≠ signer then .ok s []
    else
      match gateSet s o.hash with
      | none => .ok s []
      | some gs =>
        if gs.keys.contains (bytesToAddress o.addr) = false then .ok s []
        else obsFinish s o.hash gs (recordSig (entryOrFresh s o.hash now) (bytesToAddress o.addr) o.sig)

/-- `handleInboundSignedVAAWithQuorum` (observation.go:254-348). -/
def handleInbound (O : Oracle) (s : PState) (bytes : Bytes) : Res :=
  match unmarshal bytes with
  | none => .ok s []
  | some v =>
    match s.gs with
    | none => .ok s []
    | some gs =>
      if gs.keys.length = 0 then .ok s []
      else if v.sigs.length = 0 then .ok s []
      else if v.sigs.length < quorum gs.keys.length then .ok s []
      else if ¬ verifySignatures (O.recover (O.digestOf v.body)) v.sigs gs.keys then .ok s []
      else
        match s.db.lookup v.body.id with
        | some _ => .ok s []
        | none =>
          match storeSigned s.db v with
          | none => .panic "StoreSignedVAA called for unsigned VAA"
          | some db' => .ok { s with db := db' } []

/-- `time.Since(s.lastRetry) >= retryTime`; the zero time is infinitely long ago. -/
def retryDue (now : Int) : Option Int → Bool
  | none => true
  | some lr => decide (now - lr ≥ retryTime)

inductive CleanupAct
  | keep (st : VState) (outs : List Out)
  | delete
  | panic (site : String)

/-- cleanup.go:69-89: a pending entry whose quorum VAA is already in the store is dropped after the settlement time. -/
def isLate (db : List (VaaId × Bytes)) (now : Int) (st : VState) : Bool :=
  match st.ourVAA with
  | some v => !st.submitted && decide (now - st.firstObserved > settlementTime) && (db.lookup v.body.id).isSome
  | none => false

/-- cleanup.go:98-104: the snapshot set if the entry has one, else the current set. -/
def settleGs (pgs : Option GSet) (st : VState) : Option GSet :=
  match st.gs with | some g => some g | none => pgs

/-- cleanup.go:92-157 (`len(gs.Keys)` dereferences the set). -/
def settleAct (pgs : Option GSet) (st : VState) : CleanupAct :=
  match settleGs pgs st with
  | none => .panic "nil guardian set in cleanup"
  | some _ => .keep { st with settled := true } []

/-- cleanup.go:170-214: re-broadcast the own observation and ask for re-observation, or drop a never-observed entry. -/
def retryAct (pgs : Option GSet) (now : Int) (room : Bool) (st : VState) : CleanupAct :=
  match st.ourMsg with
  | some o =>
    match st.ourVAA with
    | none => .panic "nil ourVAA in cleanup"
    | some v =>
      let req := if room then [Out.obsReq v.body.emitterChain st.txHash] else []
      .keep { st with retryCount := st.retryCount + 1, lastRetry := some now } (req ++ [Out.obs o])
  | none =>
    match pgs with
    | none => .panic "nil guardian set in cleanup"
    | some _ => .delete

/-- Retry budget spent (cleanup.go:164). -/
def exhausted (st : VState) : Bool :=
  (st.ourMsg.isSome && decide (st.retryCount ≥ maxRetries)) || (st.ourMsg.isNone && decide (st.retryCount ≥ 10))

/-- One iteration of the `for hash, s := range p.state.vaaSignatures` loop of `handleCleanup` (cleanup.go:66-216).
`room` says whether the outbound request queue has a free slot for this entry's request. -/
def cleanupEntry (pgs : Option GSet) (db : List (VaaId × Bytes)) (now : Int) (room : Bool) (st : VState) : CleanupAct :=
  if isLate db now st then .delete
  else if st.settled = false ∧ now - st.firstObserved > settlementTime then settleAct pgs st
  else if st.submitted = true ∧ now - st.firstObserved ≥ oneHour then .delete
  else if st.submitted = false ∧ exhausted st = true then .delete
  else if st.submitted = false ∧ now - st.firstObserved ≥ fiveMinutes ∧ retryDue now st.lastRetry = true then
    retryAct pgs now room st
  else .keep st []

/-- 1 if these outputs contain a re-observation request (it took a slot of the request queue). -/
def usedSlot (outs : List Out) : Nat :=
  if outs.any (fun o => match o with | .obsReq _ _ => true | _ => false) then 1 else 0

/-- `handleCleanup`: the loop over all entries. Go iterates the map in random order; the order in which outputs of
different entries appear is therefore not part of the model's contract (the driver compares them as multisets), and the
request queue's free slots are consumed in iteration order (`room` counts down). -/
def cleanupAll (pgs : Option GSet) (db : List (VaaId × Bytes)) (now : Int) :
    List (Bytes × VState) → Nat → Except String (List (Bytes × VState) × List Out)
  | [], _ => .ok ([], [])
  | (d, st) :: rest, room =>
    match cleanupEntry pgs db now (room > 0) st with
    | .panic site => .error site
    | .delete =>
      cleanupAll pgs db now rest room
    | .keep st' outs =>
      match cleanupAll pgs db now rest (room - usedSlot outs) with
      | .error e => .error e
      | .ok (agg', outs') => .ok ((d, st') :: agg', outs ++ outs')

def handleCleanup (s : PState) (now : Int) (room : Nat) : Res :=
  match cleanupAll s.gs s.db now s.agg room with
  | .error site => .panic site
  | .ok (agg', outs) => .ok { s with agg := agg' } outs

/-- One arm of the `select` in `Run` (processor.go:150-175). -/
def step (O : Oracle) (cfg : Config) (s : PState) : Event → Res
  | .setUpdate gs => .ok { s with gs := some gs } []
  | .message m now => handleMessage O cfg s m now
  | .injection v now => handleInjection O cfg s v now
  | .observation o now => handleObservation O s o now
  | .inbound b => handleInbound O s b
  | .cleanup now room => handleCleanup s now room

/-- Run a whole event list from a state; stops at the first panic. Returns the final state and all outputs per step. -/
def run (O : Oracle) (cfg : Config) : PState → List Event → Except String (PState × List (List Out))
  | s, [] => .ok (s, [])
  | s, e :: es =>
    match step O cfg s e with
    | .panic site => .error site
    | .ok s' outs =>
      match run O cfg s' es with
      | .error site => .error site
      | .ok (sf, os) => .ok (sf, outs :: os)

end Whv.Proc
