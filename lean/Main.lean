import Whv.Driver.All
def main (args : List String) : IO UInt32 := Whv.Driver.main args
