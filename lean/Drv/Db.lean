import Whv.Driver.Db
/-! Driver executable for family `db` (C12): case lines on stdin, verdict lines on stdout. -/
def main : IO UInt32 := do
  Whv.Driver.DbFam.run (← IO.getStdin)
  return 0
