import Whv.Driver.Processor
/-! Driver executable for family `processor` (C01, C02, C13, C14, C03 observation gate). -/
def main : IO UInt32 := do
  Whv.Driver.ProcFam.run (← IO.getStdin)
  return 0
