import Whv.Driver.Supervisor
/-! Driver executable for family `supervisor` (C18): case lines on stdin, verdict lines on stdout. -/
def main : IO UInt32 := do
  Whv.Driver.SupFam.run (← IO.getStdin)
  return 0
