/-! Driver executable for family `evm` — placeholder until the family is built. -/
def main : IO UInt32 := do
  IO.eprintln "family not built"
  return 2
