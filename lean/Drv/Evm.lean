import Whv.Driver.Evm
/-! Driver executable for family `evm` (C10): case lines on stdin, verdict lines on stdout. -/
def main : IO UInt32 := do
  Whv.Driver.EvmFam.run (← IO.getStdin)
  return 0
