import Whv.Driver.Crash
/-! Driver executable for family `crash` (C16): case lines on stdin, verdict lines on stdout. -/
def main : IO UInt32 := do
  Whv.Driver.CrashFam.run (← IO.getStdin)
  return 0
