import Whv.Driver.Spy
/-! Driver executable for family `spy` (C20): case lines on stdin, verdict lines on stdout. -/
def main : IO UInt32 := do
  Whv.Driver.SpyFam.run (← IO.getStdin)
  return 0
