import Whv.Driver.AlphUtil
/-! Driver executable for family `alphutil` (C11): case lines on stdin, verdict lines on stdout. -/
def main : IO UInt32 := do
  Whv.Driver.AlphUtilFam.run (← IO.getStdin)
  return 0
