import Whv.Driver.Gov
/-! Driver executable for family `gov` (C15): case lines on stdin, verdict lines on stdout. -/
def main : IO UInt32 := do
  Whv.Driver.GovFam.run (← IO.getStdin)
  return 0
