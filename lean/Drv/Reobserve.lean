import Whv.Driver.Reobserve
/-! Driver executable for family `reobserve` (C17): case lines on stdin, verdict lines on stdout. -/
def main : IO UInt32 := do
  Whv.Driver.ReobserveFam.run (← IO.getStdin)
  return 0
