import Whv.Driver.Gossip
/-! Driver executable for family `gossip` (C03): case lines on stdin, verdict lines on stdout. -/
def main : IO UInt32 := do
  Whv.Driver.GossipFam.run (← IO.getStdin)
  return 0
