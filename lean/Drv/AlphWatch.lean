import Whv.Driver.AlphWatch
/-! Driver executable for family `alphwatch` (C08, C09): case lines on stdin, verdict lines on stdout. -/
def main : IO UInt32 := do
  Whv.Driver.AlphWatchFam.run (← IO.getStdin)
  return 0
