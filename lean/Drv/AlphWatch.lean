/-! Driver executable for family `alphwatch` — placeholder until the family is built. -/
def main : IO UInt32 := do
  IO.eprintln "family not built"
  return 2
