import Whv.Driver.Explorer
/-! Driver executable for family `explorer` (C19): case lines on stdin, verdict lines on stdout. -/
def main : IO UInt32 := do
  Whv.Driver.ExplorerFam.run (← IO.getStdin)
  return 0
