import Whv.Driver.Vaa
/-! Driver executable for family `vaa` (C04, C05, C06): case lines on stdin, verdict lines on stdout. -/
def main : IO UInt32 := do
  Whv.Driver.VaaFam.run (← IO.getStdin)
  return 0
