#!/usr/bin/env python3
"""Analysis aid (not a check): which statements of the code the properties are anchored in do the harnesses execute?

  VERIF_COVER=/verif/.work/cover ./check <ID> ...     # vlib.go_test then adds -coverprofile / -coverpkg
  python3 tools/coverage.py /verif/.work/cover        # report: per property, uncovered blocks inside the anchored line ranges

A block the harness never executes is a place where a change cannot be noticed by the correspondence check; the report is used to
widen generators. It plays no part in deciding a property.
"""
import collections, glob, json, os, re, sys

ROOT = os.path.dirname(os.path.dirname(os.path.abspath(__file__)))
REPO = os.environ.get("VERIF_REPO", "/repo")
PREFIX = "github.com/alephium/wormhole-fork/"


def load(covdir):
    blocks = collections.defaultdict(int)   # (file, l0, c0, l1, c1, nstmt) -> max count
    by_pid = collections.defaultdict(set)
    for p in glob.glob(os.path.join(covdir, "*.out")):
        pid = os.path.basename(p).split(".")[0]
        for ln in open(p):
            m = re.match(r"^(.+?):(\d+)\.(\d+),(\d+)\.(\d+) (\d+) (\d+)$", ln.strip())
            if not m:
                continue
            f = m.group(1)
            if f.startswith(PREFIX):
                f = f[len(PREFIX):]
            key = (f, int(m.group(2)), int(m.group(3)), int(m.group(4)), int(m.group(5)), int(m.group(6)))
            blocks[key] = max(blocks[key], int(m.group(7)))
            if int(m.group(7)) > 0:
                by_pid[pid].add(key)
    return blocks, by_pid


def anchors():
    out = {}
    for ln in open(os.path.join(ROOT, "properties.jsonl")):
        p = json.loads(ln)
        rngs = collections.defaultdict(list)
        a = p.get("anchors") or {}
        for sec in ("mechanism", "state"):
            for it in a.get(sec) or []:
                for part in re.split(r";\s*", it.get("where", "")):
                    m = re.match(r"^\s*([\w/\.\-]+\.go):([\d,\-]+)", part)
                    if not m:
                        continue
                    for r in m.group(2).split(","):
                        lo, _, hi = r.partition("-")
                        rngs[m.group(1)].append((int(lo), int(hi or lo)))
        out[p["id"]] = {"files": [f for f in a.get("files", []) if f.endswith(".go")], "ranges": rngs}
    return out


def funcs(path):
    """[(name, first line, last line)] by a brace-less scan of `func` headers (good enough for a report)."""
    res, cur = [], None
    try:
        lines = open(os.path.join(REPO, path), errors="replace").read().split("\n")
    except OSError:
        return res
    for i, l in enumerate(lines, 1):
        m = re.match(r"^func\s+(?:\([^)]*\)\s*)?(\w+)", l)
        if m:
            if cur:
                res.append((cur[0], cur[1], i - 1))
            cur = (m.group(1), i)
    if cur:
        res.append((cur[0], cur[1], len(lines)))
    return res


def main():
    covdir = sys.argv[1]
    blocks, _ = load(covdir)
    files = collections.defaultdict(list)
    for k, c in blocks.items():
        files[k[0]].append((k, c))
    for pid, a in sorted(anchors().items()):
        print("== %s" % pid)
        for f in a["files"]:
            if f not in files:
                print("   %-60s no profile (package not run with VERIF_COVER, or not buildable here)" % f)
                continue
            fs = funcs(f)
            tot = sum(k[5] for k, _ in files[f])
            cov = sum(k[5] for k, c in files[f] if c > 0)
            rngs = a["ranges"].get(f)
            print("   %-60s %4d/%4d statements" % (f, cov, tot))
            unc = sorted(k for k, c in files[f] if c == 0)
            for k in unc:
                inr = (not rngs) or any(k[1] <= hi and k[3] >= lo for lo, hi in rngs)
                if not inr:
                    continue
                fn = next((n for n, lo, hi in fs if lo <= k[1] <= hi), "?")
                src = ""
                try:
                    src = open(os.path.join(REPO, f), errors="replace").read().split("\n")[k[1] - 1].strip()[:90]
                except Exception:
                    pass
                print("      uncovered %s:%d-%d (%s) %s" % (os.path.basename(f), k[1], k[3], fn, src))


if __name__ == "__main__":
    main()
