#!/usr/bin/env python3
"""Confirm a seeded change and run the checks against it.

usage: seedtest.py <mutant-dir> <name> <check-id>[,<check-id>...] [--pkgdir node/pkg/vaa] [--module node] [--overlay-p2p]
  <mutant-dir> holds patch.diff, demo_test.go, meta.json (written by an independent sub-agent).
 1. scratch worktree of /repo (under /tmp): demo passes on the clean tree, fails with the patch; the existing tests of the
    touched package still pass with the patch.
 2. apply the patch to /repo, run ./check <id> (quick) for each id, undo it straight afterwards.
 3. copy everything to /verif/seeded/<name>/ with the outcome recorded in meta.json.
"""
import argparse, json, os, re, shutil, subprocess, sys

ROOT = os.path.dirname(os.path.dirname(os.path.abspath(__file__)))
ENV = dict(os.environ, GOFLAGS="-mod=mod", GOPROXY="off", GOSUMDB="off", GOTOOLCHAIN="local")


def sh(cmd, cwd=None, timeout=1800):
    p = subprocess.run(cmd, cwd=cwd, env=ENV, shell=isinstance(cmd, str), stdout=subprocess.PIPE, stderr=subprocess.STDOUT, text=True,
                       errors="replace", timeout=timeout)
    return p.returncode, p.stdout


def main():
    ap = argparse.ArgumentParser()
    ap.add_argument("mdir"); ap.add_argument("name"); ap.add_argument("checks")
    ap.add_argument("--pkgdir"); ap.add_argument("--module", default="node"); ap.add_argument("--overlay-p2p", action="store_true")
    ap.add_argument("--tier", default="quick"); ap.add_argument("--skip-confirm", action="store_true")
    ap.add_argument("--in-repo", action="store_true")
    a = ap.parse_args()
    patch = os.path.join(a.mdir, "patch.diff")
    demo = os.path.join(a.mdir, "demo_test.go")
    meta = json.load(open(os.path.join(a.mdir, "meta.json")))
    files = re.findall(r"^\+\+\+ b/(\S+)", open(patch).read(), re.M)
    pkgdir = a.pkgdir or os.path.dirname(files[0])
    pkgrel = "./" + os.path.relpath(pkgdir, a.module)
    demosrc = open(demo).read()
    tests = re.findall(r"^func (Test\w+)\(", demosrc, re.M)
    runre = "^(" + "|".join(tests) + ")$"
    result = {"files": files, "pkgdir": pkgdir, "demo_tests": tests}
    wt = "/tmp/seedwt-" + a.name
    if not a.skip_confirm:
        sh(["git", "-C", "/repo", "worktree", "remove", "--force", wt])
        rc, out = sh(["git", "-C", "/repo", "worktree", "add", "-q", wt, "HEAD"])
        assert rc == 0, out
        try:
            extra = []
            if a.overlay_p2p:
                stub = "/tmp/seedstub-%s.go" % a.name
                rc, out = sh(["go", "run", ".", os.path.join(wt, "node/pkg/p2p/p2p.go"), stub], cwd=os.path.join(ROOT, "tools/p2pstub"))
                ov = "/tmp/seedov-%s.json" % a.name
                json.dump({"Replace": {os.path.join(wt, "node/pkg/p2p/p2p.go"): stub}}, open(ov, "w"))
                extra = ["-overlay", ov]
            shutil.copy(demo, os.path.join(wt, pkgdir, "zz_seed_demo_test.go"))
            cmd = ["go", "test", "-vet=off", "-count=1"] + extra + ["-run", runre, pkgrel]
            rc0, out0 = sh(cmd, cwd=os.path.join(wt, a.module))
            rc, out = sh(["git", "apply", patch], cwd=wt)
            assert rc == 0, "patch does not apply: " + out
            if a.overlay_p2p and any(f.endswith("pkg/p2p/p2p.go") for f in files):
                # the patch touches p2p.go itself: the stub has to be regenerated from the patched file
                sh(["go", "run", ".", os.path.join(wt, "node/pkg/p2p/p2p.go"), stub], cwd=os.path.join(ROOT, "tools/p2pstub"))
            rc1, out1 = sh(cmd, cwd=os.path.join(wt, a.module))
            os.remove(os.path.join(wt, pkgdir, "zz_seed_demo_test.go"))
            rc2, out2 = sh(["go", "test", "-vet=off", "-count=1"] + extra + [pkgrel], cwd=os.path.join(wt, a.module))
            result.update({"demo_passes_on_clean_tree": rc0 == 0, "demo_fails_with_patch": rc1 != 0,
                           "existing_package_tests_pass_with_patch": rc2 == 0})
            if rc0 != 0:
                result["clean_output"] = out0[-1500:]
            if rc1 == 0:
                result["patched_output"] = out1[-1500:]
            if rc2 != 0:
                result["existing_tests_output"] = out2[-1500:]
        finally:
            sh(["git", "-C", "/repo", "worktree", "remove", "--force", wt])
            shutil.rmtree(wt, ignore_errors=True)
    # run the checks against the patched tree: /repo itself (--in-repo) or, while other work is using /repo, a scratch
    # worktree of /repo's HEAD passed to the checks through VERIF_REPO (every path in the tooling goes through it)
    target = "/repo"
    if not a.in_repo:
        target = "/tmp/seedrepo-" + a.name
        sh(["git", "-C", "/repo", "worktree", "remove", "--force", target])
        rc, out = sh(["git", "-C", "/repo", "worktree", "add", "-q", target, "HEAD"])
        assert rc == 0, out
        ENV["VERIF_REPO"] = target
    rc, out = sh(["git", "-C", target, "status", "--short"])
    assert out.strip() == "", target + " is not clean: " + out
    rc, out = sh(["git", "-C", target, "apply", patch])
    assert rc == 0, out
    checks = {}
    try:
        for cid in a.checks.split(","):
            rc, out = sh(["./check", cid, "--tier", a.tier], cwd=ROOT, timeout=3600)
            viol = [l for l in out.split("\n") if l.startswith("VIOLATION") or l.startswith("KNOWN-FINDING")]
            checks[cid] = {"exit": rc, "lines": viol}
            print("%s: check %s exit=%d %s" % (a.name, cid, rc, viol))
    finally:
        if a.in_repo:
            sh(["git", "-C", "/repo", "checkout", "--", "."])
        else:
            sh(["git", "-C", "/repo", "worktree", "remove", "--force", target])
            shutil.rmtree(target, ignore_errors=True)
    result["checks"] = checks
    result["ran_against"] = target
    out_dir = os.path.join(ROOT, "seeded", a.name)
    os.makedirs(out_dir, exist_ok=True)
    shutil.copy(patch, os.path.join(out_dir, "patch.diff"))
    shutil.copy(demo, os.path.join(out_dir, "demo_test.go"))
    meta["confirmation"] = result
    meta["what_i_ran"] = ("tools/seedtest.py: scratch worktree: demo test on clean tree / with patch, existing package tests with patch; "
                          "then git apply to %s, ./check <id> --tier %s, undo" % (result["ran_against"], a.tier))
    json.dump(meta, open(os.path.join(out_dir, "meta.json"), "w"), indent=1)
    print(json.dumps(result, indent=1)[:1500])


if __name__ == "__main__":
    main()
