#!/usr/bin/env python3
"""Writes /verif/MANIFEST.json from the table below (kept in one place so it is always schema-valid)."""
import json, os, sys
ROOT = os.path.dirname(os.path.dirname(os.path.abspath(__file__)))
sys.path.insert(0, ROOT)
from checks.registry import CHECKS, NOT_BUILT

BASE_OFF = ("for m in $(cat /w/out/gomods.txt); do MF=$(cd /repo/$m && . /w/out/goenv.sh && gomodflag); "
            "(cd /repo/$m && go test $MF -json -vet=off -count=1 -timeout 25m ./...); done")

def main():
    ids = ["C%02d" % i for i in range(1, 21)]
    checks = []
    for pid in ids:
        c = CHECKS.get(pid)
        if not c:
            continue
        checks.append({
            "property_id": pid,
            "quick_cmd": "./check %s --tier quick" % pid,
            "thorough_cmd": "./check %s --tier thorough" % pid,
            "evidence_file": "/verif/evidence/%s.json" % pid,
            "replay_cmd_template": "./check %s --replay {path}" % pid,
            "engine": "whv-lean",
            "level_claimed": {"category": c["level"], "text": c["text"], "design_ref": c.get("design_ref", "DESIGN.md §7 " + pid)},
            "level_note": c["note"],
            "technique": c["technique"],
        })
    na = [{"property_id": pid, "reason": NOT_BUILT.get(pid, "check not built yet at this commit; the design for it is DESIGN.md §7 " + pid)}
          for pid in ids if pid not in CHECKS]
    m = {
        "version": 1,
        "setup_cmd": "./check --setup",
        "hooks": {
            "guard": "verif",
            "enable": "go test -tags verif -overlay .work/<ID>/overlay.json (harness files are injected from /verif/harness by overlay; nothing is committed to /repo)",
            "baseline_off_cmd": BASE_OFF,
            "source_commits": [],
            "add_only": True,
        },
        "engines": [{"name": "whv-lean", "path": "/verif/lean", "serves_properties": sorted(CHECKS),
                     "kind_free_text": "Lean 4 models + property theorems (lake project, core-only), tied to /repo by regenerated facts (Whv/Gen) and by Go correspondence harnesses replayed through the compiled Lean driver"}],
        "checks": checks,
        "not_applicable": na,
        "notes": "See DESIGN.md. KNOWN_FINDINGS.json lists recorded defects and fixed: lines.",
    }
    json.dump(m, open(os.path.join(ROOT, "MANIFEST.json"), "w"), indent=1)
    try:
        import jsonschema
        jsonschema.validate(m, json.load(open("/root/.vp/MANIFEST.schema.json")))
        print("MANIFEST.json valid; claimed:", sorted(CHECKS))
    except ImportError:
        print("jsonschema not available; wrote MANIFEST.json")

if __name__ == "__main__":
    main()
