#!/bin/bash
# For every fix: commit in /repo: a scratch worktree of HEAD with just that commit reverted; the owning check must report it.
set -u
out=/verif/.work/revert_matrix.txt; : > $out
while read -r h pid; do
  wt=/tmp/revwt-$h
  git -C /repo worktree remove --force $wt 2>/dev/null
  git -C /repo worktree add -q $wt HEAD || continue
  if git -C $wt revert --no-commit $h >/dev/null 2>&1; then
    res=$(cd /verif && VERIF_REPO=$wt ./check $pid 2>&1 | grep -E "^VIOLATION|^KNOWN|done in" | sed 's/replay=\/verif\/replays\///' | tr '\n' ' ')
  else
    res="revert-conflict"
  fi
  echo "$h $pid :: $res" | tee -a $out
  git -C /repo worktree remove --force $wt
done <<LIST
fe91b28 C05
65ce3e2 C13
024b373 C13
7a63f66 C15
3f13b61 C11
457a2ce C12
e98da2e C19
afe50df C08
1124c4b C08
abab8b4 C09
453d4ab C09
3ead44d C09
e63f1ed C10
d268278 C18
d6544d3 C16
aae3e83 C20
LIST
git -C /repo worktree prune
