module gofold

go 1.19
