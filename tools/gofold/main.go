// gofold prints one Go source file with every maximal integer-constant expression replaced by its value.
//
//	gofold <package dir> <file name>
//
// The package's non-test files are parsed and type-checked with go/types (errors tolerated: imports outside the standard
// library are replaced by empty packages, so only constants built from literals, the package's own constants and the
// standard library - time.Minute, math.MaxUint16 ... - fold). The fact extractors of /verif/checks run their patterns on
// the folded text, so that hoisting a literal into a named constant (or the reverse) does not change what they see.
package main

import (
	"fmt"
	"go/ast"
	"go/build"
	"go/constant"
	"go/importer"
	"go/parser"
	"go/token"
	"go/types"
	"os"
	"path/filepath"
	"sort"
	"strings"
)

type tolerantImporter struct {
	std  types.Importer
	fake map[string]*types.Package
}

func (t *tolerantImporter) Import(path string) (*types.Package, error) {
	first := strings.Split(path, "/")[0]
	if !strings.Contains(first, ".") {
		if p, err := t.std.Import(path); err == nil {
			return p, nil
		}
	}
	if p, ok := t.fake[path]; ok {
		return p, nil
	}
	name := path[strings.LastIndex(path, "/")+1:]
	p := types.NewPackage(path, name)
	p.MarkComplete()
	t.fake[path] = p
	return p, nil
}

type span struct {
	from, to int
	text     string
}

func main() {
	if len(os.Args) != 3 {
		fmt.Fprintln(os.Stderr, "usage: gofold <package dir> <file name>")
		os.Exit(2)
	}
	dir, target := os.Args[1], os.Args[2]
	fset := token.NewFileSet()
	ctx := build.Default
	ctx.BuildTags = nil
	names, err := filepath.Glob(filepath.Join(dir, "*.go"))
	if err != nil || len(names) == 0 {
		fmt.Fprintln(os.Stderr, "gofold: no go files in", dir)
		os.Exit(1)
	}
	var files []*ast.File
	var tf *ast.File
	for _, n := range names {
		if strings.HasSuffix(n, "_test.go") {
			continue
		}
		if ok, _ := ctx.MatchFile(dir, filepath.Base(n)); !ok {
			continue
		}
		f, err := parser.ParseFile(fset, n, nil, parser.ParseComments)
		if err != nil {
			if filepath.Base(n) == target {
				fmt.Fprintln(os.Stderr, "gofold:", err)
				os.Exit(1)
			}
			continue
		}
		files = append(files, f)
		if filepath.Base(n) == target {
			tf = f
		}
	}
	if tf == nil {
		fmt.Fprintln(os.Stderr, "gofold: file not found:", target)
		os.Exit(1)
	}
	info := &types.Info{Types: map[ast.Expr]types.TypeAndValue{}}
	conf := types.Config{
		Importer:    &tolerantImporter{std: importer.ForCompiler(fset, "source", nil), fake: map[string]*types.Package{}},
		Error:       func(error) {},
		FakeImportC: true,
	}
	conf.Check(tf.Name.Name, fset, files, info) // errors tolerated

	src, err := os.ReadFile(filepath.Join(dir, target))
	if err != nil {
		fmt.Fprintln(os.Stderr, "gofold:", err)
		os.Exit(1)
	}
	var spans []span
	var visit func(n ast.Node) bool
	visit = func(n ast.Node) bool {
		switch d := n.(type) {
		case *ast.GenDecl:
			if d.Tok == token.IMPORT {
				return false
			}
		case *ast.ValueSpec:
			// keep the declared names, fold the values
			for _, v := range d.Values {
				ast.Inspect(v, visit)
			}
			return false
		case *ast.KeyValueExpr:
			ast.Inspect(d.Value, visit)
			return false
		case *ast.CaseClause, *ast.ArrayType:
			return true
		}
		e, ok := n.(ast.Expr)
		if !ok {
			return true
		}
		if _, lit := e.(*ast.BasicLit); lit {
			tv, ok := info.Types[e]
			if ok && tv.Value != nil && tv.Value.Kind() == constant.Int {
				// normalise 0x10, 1_000 ... to decimal
				spans = append(spans, span{fset.Position(e.Pos()).Offset, fset.Position(e.End()).Offset, tv.Value.ExactString()})
			}
			return false
		}
		tv, ok := info.Types[e]
		if !ok || tv.Value == nil || tv.Value.Kind() != constant.Int {
			return true
		}
		b, ok := tv.Type.Underlying().(*types.Basic)
		if !ok || b.Info()&types.IsInteger == 0 {
			return true
		}
		spans = append(spans, span{fset.Position(e.Pos()).Offset, fset.Position(e.End()).Offset, tv.Value.ExactString()})
		return false
	}
	ast.Inspect(tf, visit)
	sort.Slice(spans, func(i, j int) bool { return spans[i].from < spans[j].from })
	var out strings.Builder
	at := 0
	for _, s := range spans {
		if s.from < at {
			continue
		}
		out.Write(src[at:s.from])
		out.WriteString(s.text)
		at = s.to
	}
	out.Write(src[at:])
	os.Stdout.WriteString(out.String())
}
