#!/usr/bin/env python3
"""Prints the markdown table of seeded changes (from /verif/seeded/*/meta.json) for DESIGN.md §11."""
import glob, json, os
ROOT = os.path.dirname(os.path.dirname(os.path.abspath(__file__)))
rows = []
for d in sorted(glob.glob(os.path.join(ROOT, "seeded", "*"))):
    m = json.load(open(os.path.join(d, "meta.json")))
    c = m.get("confirmation", {})
    checks = c.get("checks", {})
    res = []
    for cid, r in sorted(checks.items()):
        if r["exit"] == 0:
            res.append("%s: silent" % cid)
        else:
            keys = []
            for l in r["lines"]:
                if "no-failing-input-found" in l:
                    keys.append("no-failing-input-found")
                else:
                    k = l.split("replay=")[-1].split("/")[-1]
                    k = k.rsplit("-", 1)[0].split("-", 1)[-1]
                    keys.append(k)
            res.append("%s: %s" % (cid, ", ".join(sorted(set(keys)))[:110]))
    summ = (m.get("summary") or "").replace("|", "/").replace("\n", " ")
    needs = (m.get("needs") or "")
    if isinstance(needs, list):
        needs = "; ".join(map(str, needs))
    needs = str(needs).replace("|", "/").replace("\n", " ")
    conf = "yes" if c.get("demo_passes_on_clean_tree") and c.get("demo_fails_with_patch") and c.get("existing_package_tests_pass_with_patch") else "partly"
    rows.append("| %s | %s | %s | %s | %s |" % (os.path.basename(d), summ[:230], needs[:200], conf, "; ".join(res)))
print("| id | change | needs | confirmed | checks (quick tier) |")
print("|----|--------|-------|-----------|---------------------|")
print("\n".join(rows))
