#!/bin/bash
# Runs each behaviour-preserving change of /verif/benign against every check that reads or executes a file it touches
# (scratch worktree + VERIF_REPO; /repo itself is never modified).  Any VIOLATION here is a false alarm of the machinery.
# usage: tools/benign_matrix.sh [name-prefix] [dir]   -> .work/benign_matrix.txt
cd /verif
dir=${2:-/verif/benign}
out=.work/benign_matrix.$$.txt; : > $out
checks_for() {
  local f=$1 s=""
  local PROC="C01 C02 C03 C04 C06 C07 C13 C14 C17"
  grep -q "^+++ b/node/pkg/processor/" $f && s="$s $PROC"
  grep -q "^+++ b/node/pkg/vaa/" $f && s="$s $PROC C05 C12 C15 C16"
  grep -q "^+++ b/node/pkg/db/" $f && s="$s $PROC C12 C16"
  grep -q "^+++ b/node/pkg/alephium/" $f && s="$s C08 C09 C11"
  grep -q "^+++ b/node/pkg/ethereum/" $f && s="$s C10 C07"
  grep -q "^+++ b/node/pkg/common/" $f && s="$s $PROC"
  grep -q "^+++ b/node/pkg/p2p/" $f && s="$s C03"
  grep -q "^+++ b/node/cmd/guardiand/" $f && s="$s C01 C03 C12 C13 C15 C17"
  grep -q "^+++ b/node/cmd/spy/" $f && s="$s C20"
  grep -q "^+++ b/node/pkg/supervisor/" $f && s="$s C18 C10 C13"
  grep -q "^+++ b/node/pkg/publicrpc/" $f && s="$s C12 C16"
  grep -q "^+++ b/explorer-backend/" $f && s="$s C19 C06"
  grep -q "^+++ b/alephium/contracts/" $f && s="$s C04 C07 C09 C11 C15"
  grep -q "^+++ b/ethereum/contracts/" $f && s="$s C04 C07"
  echo $s | tr ' ' '\n' | sort -u | tr '\n' ' '
}
export -f checks_for
run_one() {
  f=$1; name=$(basename $f .diff)
  wt=/tmp/benwt-$name
  git -C /repo worktree add -q --detach $wt HEAD || { echo "$name worktree-failed" ; return; }
  if git -C $wt apply $f; then
    for id in $(checks_for $f); do
      res=$(VERIF_REPO=$wt ./check $id 2>&1 | grep -E "VIOLATION|property held" | grep -v "done in" | cut -c1-160 | tr '\n' ' ')
      [ -z "$res" ] && res=held
      echo "$name $id :: $res"
    done
  else echo "$name :: patch-does-not-apply"; fi
  git -C /repo worktree remove --force $wt
}
export -f run_one
ls $dir/${1:-C}*.diff | xargs -P 5 -I{} bash -c 'run_one {}' >> $out
sort -o $out $out
cp $out .work/benign_matrix.txt
echo "runs: $(wc -l < $out)  alarms: $(grep -c VIOLATION $out)"; grep VIOLATION $out
