"""Shared machinery of the /verif check runner.

A check (checks/cXX.py) builds a Ctx, calls the steps it needs and ends with ctx.finish().
Steps: regenerate Whv/Gen from /repo  ->  lake build + axiom audit of Whv.Props.<ID>
       ->  Go correspondence harness (overlay-injected into the real package)
       ->  Lean driver replays the same cases through the model and evaluates the Spec
       ->  classification (spec violation with replay / known finding / no-failing-input-found)
"""
import fcntl
import hashlib
import json
import os
import re
import shutil
import subprocess
import sys
import time

ROOT = os.path.dirname(os.path.dirname(os.path.abspath(__file__)))
REPO = os.environ.get("VERIF_REPO", "/repo")
LEAN = os.path.join(ROOT, "lean")
WORK = os.path.join(ROOT, ".work")
EVID = os.path.join(ROOT, "evidence")
REPLAYS = os.path.join(ROOT, "replays")
if os.path.realpath(REPO) != "/repo":
    # a run against a scratch tree (seeded / benign / reverted changes) must not overwrite the evidence of /repo
    EVID = os.path.join(WORK, "scratch-evidence", os.path.basename(os.path.realpath(REPO)))
    REPLAYS = os.path.join(WORK, "scratch-replays", os.path.basename(os.path.realpath(REPO)))
HARNESS = os.path.join(ROOT, "harness")
BIN = os.path.join(LEAN, ".lake", "build", "bin")

ALLOWED_AXIOMS = {"propext", "Classical.choice", "Quot.sound"}
FORBIDDEN = re.compile(r"\b(sorry|admit|native_decide|bv_decide|implemented_by|unsafe)\b|^axiom\s|maxHeartbeats\s+0\b")

GOENV = {
    "GOFLAGS": "-mod=readonly",
    "GOPROXY": "off",
    "GOSUMDB": "off",
    "GOTOOLCHAIN": "local",
    "CGO_ENABLED": os.environ.get("CGO_ENABLED", "1"),
}

TRUSTED_COMMON = [
    "Lean 4.33.0 kernel (lake build; leanchecker in the thorough tier)",
    "axioms admitted in property theorems: propext, Classical.choice, Quot.sound only (audited with #print axioms on every run)",
    "Lean compiler for the executable driver (same definitions the theorems are about)",
]


def sh(cmd, cwd=None, env=None, timeout=None, stdin=None):
    e = dict(os.environ)
    if env:
        e.update(env)
    t0 = time.time()
    try:
        p = subprocess.run(cmd, cwd=cwd, env=e, timeout=timeout, input=stdin,
                           stdout=subprocess.PIPE, stderr=subprocess.STDOUT,
                           shell=isinstance(cmd, str), text=True, errors="replace")
        return p.returncode, p.stdout, time.time() - t0
    except subprocess.TimeoutExpired as ex:
        out = ex.stdout or ""
        if isinstance(out, bytes):
            out = out.decode("utf-8", "replace")
        return 124, out + "\n[timeout after %ss]" % timeout, time.time() - t0


class Lock:
    """flock on .work/<name>.lock, re-entrant within this process (nested `with Lock(name)` blocks share the outer lock)."""
    _held = {}

    def __init__(self, name):
        os.makedirs(WORK, exist_ok=True)
        self.name = name
        self.path = os.path.join(WORK, name + ".lock")

    def __enter__(self):
        if Lock._held.get(self.name, 0) == 0:
            self.f = open(self.path, "w")
            fcntl.flock(self.f, fcntl.LOCK_EX)
            Lock._file = getattr(Lock, "_file", {})
            Lock._file[self.name] = self.f
        Lock._held[self.name] = Lock._held.get(self.name, 0) + 1
        return self

    def __exit__(self, *a):
        Lock._held[self.name] -= 1
        if Lock._held[self.name] == 0:
            f = Lock._file.pop(self.name)
            fcntl.flock(f, fcntl.LOCK_UN)
            f.close()


def write_if_changed(path, content):
    os.makedirs(os.path.dirname(path), exist_ok=True)
    try:
        with open(path) as f:
            if f.read() == content:
                return False
    except FileNotFoundError:
        pass
    tmp = path + ".tmp%d" % os.getpid()
    with open(tmp, "w") as f:
        f.write(content)
    os.replace(tmp, path)
    return True


def read(path):
    with open(path, errors="replace") as f:
        return f.read()


def read_contract(relpath):
    """A .ral / .sol source of REPO without comments and with every function's parameters / local variables carrying the
    names the extractors' patterns were written against, whenever that is a pure alpha-conversion (tools/alpha.py)."""
    import alpha
    return alpha.normalise(read(os.path.join(REPO, relpath)), relpath)


def gofold(relpath):
    """Source text of REPO/<relpath> with every integer-constant expression replaced by its value (tools/gofold: go/types
    constant folding, so `11*time.Minute`, a named constant holding it, or 660000000000 all read the same).  Falls back to
    the raw text when the tool cannot run (the extractors then still understand the literal forms)."""
    path = os.path.join(REPO, relpath)
    rc, out, dt = sh(["go", "run", ".", os.path.dirname(path), os.path.basename(path)],
                     cwd=os.path.join(ROOT, "tools", "gofold"), env=dict(GOENV, GOFLAGS=""), timeout=300)
    if rc != 0 or "package " not in out:
        return read(path)
    return out


def strip_lean_comments(src):
    # remove /- ... -/ (nested) and -- ... comments; good enough for the forbidden-token scan
    out = []
    i = 0
    depth = 0
    n = len(src)
    while i < n:
        if src.startswith("/-", i):
            depth += 1
            i += 2
        elif depth and src.startswith("-/", i):
            depth -= 1
            i += 2
        elif depth:
            if src[i] == "\n":
                out.append("\n")
            i += 1
        elif src.startswith("--", i):
            j = src.find("\n", i)
            i = n if j < 0 else j
        elif src[i] == '"':
            j = i + 1
            while j < n and src[j] != '"':
                j += 2 if src[j] == "\\" else 1
            out.append('""')
            i = j + 1
        else:
            out.append(src[i])
            i += 1
    return "".join(out)


def known_findings():
    p = os.path.join(ROOT, "KNOWN_FINDINGS.json")
    if not os.path.exists(p):
        return []
    return json.load(open(p)).get("findings", [])


class Ctx:
    def __init__(self, pid, tier, seed, level="proof"):
        self.pid = pid
        self.tier = tier
        self.seed = seed
        self.level = level
        self.t0 = time.time()
        # a private scratch directory per run: two overlapping runs of the same check must not share case files
        os.makedirs(WORK, exist_ok=True)
        for d in os.listdir(WORK):
            m = re.match(r"^%s\.(\d+)$" % re.escape(pid), d)
            if (m and not os.path.exists("/proc/%s" % m.group(1))) or d == pid:
                shutil.rmtree(os.path.join(WORK, d), ignore_errors=True)
        self.work = os.path.join(WORK, "%s.%d" % (pid, os.getpid()))
        shutil.rmtree(self.work, ignore_errors=True)
        os.makedirs(self.work, exist_ok=True)
        os.makedirs(EVID, exist_ok=True)
        self.cov = {
            "obligations": 0, "discharged": 0, "checker_cmd": "", "trusted_base": list(TRUSTED_COMMON),
            "evaluations": 0, "distinct_nontrivial": 0, "rule": "", "samples": [],
            "traces_validated_against_impl": 0,
        }
        self.assumptions = []
        self.broken = []        # [(kind, name, detail)]  proof / tie / gen obligations that no longer check
        self.spec_violations = []  # [{"key":..., "what":..., "replay":{...}}]
        self.notes = []
        self.theorems = {}
        self.log_lines = []

    # ---------------------------------------------------------------- logging
    def log(self, msg):
        self.log_lines.append(msg)
        print("[%s] %s" % (self.pid, msg), flush=True)

    # ---------------------------------------------------------------- Gen
    def gen(self, name, content):
        """Write lean/Whv/Gen/<name>.lean (only if changed so lake does not rebuild needlessly)."""
        hdr = "-- GENERATED by /verif/check from /repo's working tree on every run. Do not edit.\n"
        # remembered: prove() writes it again under the build lock, so that a concurrent run of another check (or of this one on a
        # scratch tree) cannot slip its own Gen file in between this write and the build that has to see it
        self.pending_gen = getattr(self, "pending_gen", {})
        self.pending_gen[name] = hdr + content
        with Lock("lake"):
            changed = write_if_changed(os.path.join(LEAN, "Whv", "Gen", name + ".lean"), hdr + content)
        self.log("gen Whv/Gen/%s.lean %s" % (name, "(changed)" if changed else "(unchanged)"))

    def gen_fail(self, name, detail):
        self.broken.append(("gen", name, detail))
        self.log("GEN FAILED %s: %s" % (name, detail))

    # ---------------------------------------------------------------- Lean
    def lake_build(self, targets):
        cmd = ["lake", "build"] + targets
        with Lock("lake"):
            rc, out, dt = sh(cmd, cwd=LEAN, timeout=3600)
        self.log("lake build %s -> rc=%d (%.1fs)" % (" ".join(targets), rc, dt))
        if rc != 0:
            open(os.path.join(self.work, "lake.log"), "w").write(out)
        return rc, out

    def prove(self, families=(), extra_modules=()):
        """Build Whv.Props.<ID> (+ the driver executables of `families`), audit axioms of every theorem, scan for forbidden tokens."""
        mod = "Whv.Props.%s" % self.pid
        path = os.path.join(LEAN, "Whv", "Props", self.pid + ".lean")
        src = strip_lean_comments(read(path))
        names = re.findall(r"^(?:protected\s+)?theorem\s+([^\s:({\[]+)", src, re.M)  # private helpers are not obligations
        ns = re.search(r"^namespace\s+(\S+)", src, re.M)
        prefix = (ns.group(1) + ".") if ns else ""
        names = [prefix + n for n in names]
        self.cov["obligations"] = len(names)
        self.cov["checker_cmd"] = "cd lean && lake build %s && lake env lean .work/%s.<pid>/Audit.lean (#print axioms per theorem)" % (mod, self.pid)
        drv = ["drv_" + f for f in families]
        with Lock("lake"):
            return self._prove_locked(mod, names, drv, extra_modules)

    def _prove_locked(self, mod, names, drv, extra_modules):
        # everything that has to see one consistent state of the shared lake workspace happens under the build lock: this run's
        # Gen files, the build of the Props module and of the drivers, the axiom audit, and taking private copies of the driver
        # binaries (drive() runs those, not the shared ones a concurrent build may relink)
        for name, content in getattr(self, "pending_gen", {}).items():
            write_if_changed(os.path.join(LEAN, "Whv", "Gen", name + ".lean"), content)
        rc, out = self.lake_build([mod] + list(extra_modules))
        if drv:
            rc2, out2 = self.lake_build(drv)
            if rc2 != 0:
                self.broken.append(("tie", "driver-build", "lake build %s failed: %s" % (" ".join(drv), "; ".join(re.findall(r"error: ([^\n]*)", out2)[:5])[:600])))
            else:
                os.makedirs(os.path.join(self.work, "bin"), exist_ok=True)
                for d in drv:
                    if os.path.exists(os.path.join(BIN, d)):
                        shutil.copy2(os.path.join(BIN, d), os.path.join(self.work, "bin", d))
        if rc != 0:
            # find which theorems failed, if the Props module itself is what broke
            errs = re.findall(r"error: ([^\n]*)", out)
            self.broken.append(("proof", mod, "lake build failed: " + "; ".join(errs[:5])[:600]))
            self.cov["discharged"] = 0
            return False
        audit = "import %s\n" % mod + "".join("#print axioms %s\n" % n for n in names)
        ap = os.path.join(self.work, "Audit.lean")
        open(ap, "w").write(audit)
        rc, out, dt = sh(["lake", "env", "lean", ap], cwd=LEAN, timeout=1200)
        ok = 0
        seen = {}
        for m in re.finditer(r"'([^']+)' (does not depend on any axioms|depends on axioms: \[([^\]]*)\])", out):
            ax = set(a.strip() for a in (m.group(3) or "").replace("\n", " ").split(",") if a.strip())
            seen[m.group(1)] = sorted(ax)
        for n in names:
            if n not in seen:
                self.broken.append(("proof", n, "axiom audit produced no line for this theorem"))
            elif set(seen[n]) - ALLOWED_AXIOMS:
                self.broken.append(("proof", n, "inadmissible axioms: %s" % sorted(set(seen[n]) - ALLOWED_AXIOMS)))
            else:
                ok += 1
        self.theorems = seen
        # forbidden tokens anywhere in the library
        bad = []
        for dp, _, fs in os.walk(os.path.join(LEAN, "Whv")):
            for f in fs:
                if f.endswith(".lean"):
                    s = strip_lean_comments(read(os.path.join(dp, f)))
                    for ln, line in enumerate(s.split("\n"), 1):
                        if FORBIDDEN.search(line):
                            bad.append("%s:%d" % (os.path.relpath(os.path.join(dp, f), LEAN), ln))
        if bad:
            self.broken.append(("proof", "forbidden-token-scan", ", ".join(bad[:10])))
        self.cov["discharged"] = ok if not bad else 0
        self.cov["theorems"] = seen
        self.log("theorems: %d, discharged with admissible axioms: %d" % (len(names), ok))
        if self.tier == "thorough":
            with Lock("lake"):
                rc, out, dt = sh(["lake", "env", "leanchecker", mod], cwd=LEAN, timeout=3600)
            self.log("leanchecker %s -> rc=%d (%.1fs)" % (mod, rc, dt))
            self.cov["leanchecker_rc"] = rc
            if rc != 0:
                self.broken.append(("proof", "leanchecker", out[-400:]))
        return ok == len(names) and not bad

    # ---------------------------------------------------------------- Go harness
    def overlay(self, mapping, p2p_stub=False):
        """mapping: {path under REPO (new file): path under /verif/harness}."""
        repl = {}
        for dst, src in mapping.items():
            repl[os.path.join(REPO, dst)] = os.path.join(HARNESS, src)
        if p2p_stub:
            stub = os.path.join(self.work, "p2p_stub.go")
            rc, out, dt = sh(["go", "run", ".",
                              os.path.join(REPO, "node/pkg/p2p/p2p.go"), stub], cwd=os.path.join(ROOT, "tools", "p2pstub"),
                             env=dict(GOENV, GOFLAGS=""))
            if rc != 0:
                self.broken.append(("tie", "p2p-stub", out[-600:]))
                return None
            repl[os.path.join(REPO, "node/pkg/p2p/p2p.go")] = stub
        p = os.path.join(self.work, "overlay.json")
        json.dump({"Replace": repl}, open(p, "w"), indent=1)
        return p

    def go_test(self, module, pkg, run, overlay, env=None, race=False, timeout=1500, extra=()):
        e = dict(GOENV)
        e.update({"VERIF_SEED": str(self.seed), "VERIF_TIER": self.tier, "VERIF_OUT": self.work})
        if env:
            e.update(env)
        cover = []
        if os.environ.get("VERIF_COVER"):
            # analysis aid (tools/coverage.sh), never set by a registered command: statement coverage of the package under test
            os.makedirs(os.environ["VERIF_COVER"], exist_ok=True)
            n = len([f for f in os.listdir(os.environ["VERIF_COVER"]) if f.startswith(self.pid + ".")])
            cover = ["-coverprofile", os.path.join(os.environ["VERIF_COVER"], "%s.%d.out" % (self.pid, n)), "-coverpkg", pkg]
        cmd = ["go", "test", "-tags", "verif", "-vet=off", "-count=1", "-overlay", overlay,
               "-run", run, "-timeout", "%ds" % timeout] + (["-race"] if race else []) + cover + list(extra) + [pkg]
        rc, out, dt = sh(cmd, cwd=os.path.join(REPO, module), env=e, timeout=timeout + 60)
        open(os.path.join(self.work, "gotest.log"), "a").write("$ %s\n%s\n" % (" ".join(cmd), out))
        self.log("go test %s %s -> rc=%d (%.1fs)" % (pkg, run, rc, dt))
        return rc, out

    # ---------------------------------------------------------------- driver
    def drive(self, family, cases_path, timeout=1800):
        """Pipe the harness' case file through the Lean driver; returns list of verdict lines."""
        exe = os.path.join(self.work, "bin", "drv_" + family)
        if not os.path.exists(exe):
            exe = os.path.join(BIN, "drv_" + family)
        if not os.path.exists(exe):
            self.broken.append(("tie", "driver", "drv_%s binary missing (lake build failed?)" % family))
            return []
        with open(cases_path) as f:
            p = subprocess.run([exe], stdin=f, stdout=subprocess.PIPE, stderr=subprocess.STDOUT,
                               text=True, errors="replace", timeout=timeout)
        out_path = cases_path + ".verdict"
        open(out_path, "w").write(p.stdout)
        if p.returncode != 0:
            self.broken.append(("tie", "driver:" + family, "driver exited %d: %s" % (p.returncode, p.stdout[-300:])))
        return p.stdout.split("\n")

    def judge(self, family, cases_path, classify=None):
        """Standard verdict handling.  Driver prints one line per case:
             ok <id>                         model == impl and Spec holds on impl's result
             diff <id> <free text>           model and impl disagree (tie broken)
             spec <id> <clause> <free text>  impl's result violates the Spec clause (failing input)
             stat <key> <n>                  distribution counters
        """
        lines = self.drive(family, cases_path)
        cases = {}
        with open(cases_path) as f:
            for ln in f:
                parts = ln.split(" ", 2)
                if len(parts) >= 2:
                    cases.setdefault(parts[1], []).append(ln.rstrip("\n"))
        n_ok = 0
        stats = {}
        for ln in lines:
            if not ln.strip():
                continue
            parts = ln.split(" ", 3)
            if parts[0] == "ok":
                n_ok += 1
            elif parts[0] == "stat" and len(parts) >= 3:
                stats[parts[1]] = stats.get(parts[1], 0) + int(parts[2])
            elif parts[0] == "diff":
                cid = parts[1] if len(parts) > 1 else "?"
                self.broken.append(("tie", "%s:%s" % (family, cid),
                                    {"verdict": ln[:2000], "case": cases.get(cid, [])[:50]}))
            elif parts[0] == "spec":
                cid = parts[1] if len(parts) > 1 else "?"
                clause = parts[2] if len(parts) > 2 else "?"
                key = classify(clause, cases.get(cid, []), ln) if classify else clause
                self.spec_violations.append({"key": key, "what": ln[:2000],
                                             "replay": {"family": family, "case_id": cid, "clause": clause,
                                                        "case": cases.get(cid, [])[:200]}})
            else:
                self.broken.append(("tie", "driver-output", ln[:300]))
        self.cov["traces_validated_against_impl"] += n_ok
        self.cov.setdefault("driver_stats", {}).update(stats)
        self.log("driver %s: ok=%d diffs=%d spec=%d" % (
            family, n_ok, sum(1 for b in self.broken if b[0] == "tie"), len(self.spec_violations)))
        return n_ok, stats

    # ---------------------------------------------------------------- finish
    def finish(self):
        os.makedirs(REPLAYS, exist_ok=True)
        kf = [f for f in known_findings() if f.get("property") == self.pid]
        out_lines = []
        nviol = 0
        seen_known = set()
        unknown_spec = []
        for v in self.spec_violations:
            hit = next((f for f in kf if f.get("key") == v["key"]), None)
            if hit:
                if hit["key"] not in seen_known:
                    seen_known.add(hit["key"])
                    out_lines.append("KNOWN-FINDING: property=%s %s" % (self.pid, hit.get("what", hit["key"])))
            else:
                unknown_spec.append(v)
        if unknown_spec:
            by_key = {}
            for v in unknown_spec:
                by_key.setdefault(v["key"], v)
            for key, v in by_key.items():
                rp = os.path.join(REPLAYS, "%s-%s-%d.json" % (self.pid, re.sub(r"[^A-Za-z0-9_.-]", "_", key)[:60], self.seed))
                json.dump({"property": self.pid, "kind": "failing-input", "key": key, "what": v["what"],
                           "replay": v["replay"], "seed": self.seed, "tier": self.tier,
                           "how_to_rerun": "VERIF_SEED=%d ./check %s --tier %s" % (self.seed, self.pid, self.tier)},
                          open(rp, "w"), indent=1)
                out_lines.append("VIOLATION property=%s replay=%s" % (self.pid, rp))
                nviol += 1
        elif self.broken and not self.spec_violations:
            rp = os.path.join(REPLAYS, "%s-unproved-%d.json" % (self.pid, self.seed))
            json.dump({"property": self.pid, "kind": "no-failing-input-found",
                       "no_longer_checks": [{"kind": k, "name": n, "detail": d} for k, n, d in self.broken[:20]],
                       "seed": self.seed, "tier": self.tier,
                       "how_to_rerun": "VERIF_SEED=%d ./check %s --tier %s" % (self.seed, self.pid, self.tier)},
                      open(rp, "w"), indent=1)
            out_lines.append("VIOLATION property=%s replay=%s no-failing-input-found" % (self.pid, rp))
            nviol += 1
        elif self.broken and self.spec_violations:
            # everything that failed the Spec is a listed known finding, yet something else is broken too
            rp = os.path.join(REPLAYS, "%s-unproved-%d.json" % (self.pid, self.seed))
            json.dump({"property": self.pid, "kind": "no-failing-input-found",
                       "no_longer_checks": [{"kind": k, "name": n, "detail": d} for k, n, d in self.broken[:20]],
                       "seed": self.seed, "tier": self.tier}, open(rp, "w"), indent=1)
            out_lines.append("VIOLATION property=%s replay=%s no-failing-input-found" % (self.pid, rp))
            nviol += 1
        ev = {
            "property_id": self.pid, "tier": self.tier, "seed": self.seed, "level": self.level,
            "coverage": self.cov, "assumptions": self.assumptions,
            "wall_s": round(time.time() - self.t0, 2), "violations": nviol,
            "known_findings_hit": sorted(seen_known), "notes": self.notes,
            "broken": [{"kind": k, "name": n} for k, n, d in self.broken[:20]],
        }
        if self.level == "proof" and self.cov["obligations"] == 0:
            ev["coverage"]["obligations"] = 0
        tmp = os.path.join(EVID, self.pid + ".json.tmp")
        json.dump(ev, open(tmp, "w"), indent=1, default=str)
        os.replace(tmp, os.path.join(EVID, self.pid + ".json"))
        if not nviol and not out_lines and not os.environ.get("VERIF_KEEP"):
            shutil.rmtree(self.work, ignore_errors=True)   # nothing to diagnose: leave no scratch behind
        for l in out_lines:
            print(l, flush=True)
        print("[%s] done in %.1fs: %s" % (self.pid, time.time() - self.t0,
                                         "VIOLATION" if nviol else "property held on everything explored"), flush=True)
        return 1 if nviol else 0
