#!/bin/bash
# Re-runs every seeded property-breaking change (seeded/<name>/patch.diff) against the check of the property it was written to
# break (scratch worktree + VERIF_REPO).  Output .work/seeded_matrix.txt; a line without VIOLATION is a missed change.
# usage: tools/seeded_matrix.sh [name-prefix] [tier] [tag]   (private output files .work/seeded_matrix.<tag>.*, copied to the untagged names at the end)
cd /verif
tag=${3:-$$}
out=.work/seeded_matrix.$tag.txt; : > $out; export JL=/verif/.work/seeded_matrix.$tag.jsonl; : > $JL
run_one() {
  d=$1; name=$(basename $d); id=${name%%-*}; tier=${2:-quick}
  wt=/tmp/seedwt-$name
  git -C /repo worktree add -q --detach $wt HEAD || { echo "$name worktree-failed" ; return; }
  if git -C $wt apply $d/patch.diff; then
    full=$(VERIF_REPO=$wt ./check $id --tier $tier 2>&1 | grep -E "^VIOLATION|^KNOWN-FINDING")
    res=$(echo "$full" | grep VIOLATION | sed -E 's#replay=/verif/(.work/scratch-replays/[^/]*/|replays/)##' | cut -c1-120 | tr '\n' ' ')
    [ -z "$res" ] && res="SILENT"
    echo "$name $id :: $res"
    python3 - "$name" "$id" "$tier" <<PY >> $JL
import json, sys
lines = [l for l in """$full""".split("\n") if l.startswith("VIOLATION")]
print(json.dumps({"name": sys.argv[1], "id": sys.argv[2], "tier": sys.argv[3], "lines": lines}))
PY
  else echo "$name :: patch-does-not-apply"; fi
  git -C /repo worktree remove --force $wt
}
export -f run_one
ls -d /verif/seeded/${1:-C}*/ | xargs -P 5 -I{} bash -c "run_one {} $2" >> $out
sort -o $out $out
cp $out .work/seeded_matrix.txt; cp $JL .work/seeded_matrix.jsonl
echo "runs: $(wc -l < $out)  silent: $(grep -c SILENT $out)"; grep -E "SILENT|does-not-apply" $out
