"""Alpha-normalisation of contract sources (.ral / .sol) for the fact extractors.

The extractors in /verif/checks locate facts in the Ralph and Solidity sources by pattern; several patterns mention the
names of parameters and local variables (`let quorumSize = ...`, `index += 4`).  A maintainer renaming a local variable
changes nothing a contract does, so before the patterns run every function is rewritten so that its binders carry the names
they had when the patterns were written:

  * `binders(fn)` lists a function's parameters and local declarations in textual order;
  * `checks/alpha_expect.json` records that list per (file, function) for the tree the patterns were written against
    (`python3 tools/alpha.py --snapshot` regenerates it);
  * if the current function declares the same NUMBER of binders, the i-th current binder is renamed to the i-th recorded
    name throughout the function (a consistent, injective renaming, i.e. an alpha-conversion; identifiers after a `.` and
    Ralph built-ins `name!` are left alone).  If the count differs, or the renaming would not be injective, or a target
    name is already used for something else in the function, the function is left as it is and the patterns decide.

Comments are removed as well (no pattern depends on them).  Nothing here is trusted for soundness beyond "renaming bound
variables consistently preserves meaning": facts are still extracted from the current source text.
"""
import json
import os
import re
import sys

HERE = os.path.dirname(os.path.abspath(__file__))
EXPECT = os.path.join(os.path.dirname(HERE), "checks", "alpha_expect.json")
FILES = [
    "alephium/contracts/governance.ral",
    "alephium/contracts/token_bridge/token_bridge.ral",
    "alephium/contracts/token_bridge/token_bridge_constants.ral",
    "alephium/contracts/token_bridge/attest_token_handler.ral",
    "alephium/contracts/token_bridge/token_bridge_governance.ral",
    "alephium/contracts/token_bridge/token_bridge_factory.ral",
    "alephium/contracts/token_bridge/token_bridge_for_chain.ral",
    "ethereum/contracts/Messages.sol",
]
SOL_KEYWORDS = {"return", "returns", "emit", "delete", "new", "else", "memory", "storage", "calldata", "public", "pure", "view",
                "internal", "external", "virtual", "override", "import", "pragma", "contract", "is", "using", "for", "if",
                "require", "revert", "assembly", "unchecked", "in", "function", "event", "struct", "mapping", "payable"}


def strip_comments(src):
    src = re.sub(r"/\*.*?\*/", lambda m: "\n" * m.group(0).count("\n"), src, flags=re.S)
    return re.sub(r"//[^\n]*", "", src)


def _match_brace(src, open_at):
    depth = 0
    for i in range(open_at, len(src)):
        if src[i] == "{":
            depth += 1
        elif src[i] == "}":
            depth -= 1
            if depth == 0:
                return i + 1
    return None


def functions(src, lang):
    """[(name, start, end)] of every function definition with a body, in textual order."""
    out = []
    pat = r"\bfn\s+(\w+)\s*\(" if lang == "ral" else r"\bfunction\s+(\w+)\s*\("
    for m in re.finditer(pat, src):
        # the parameter list may contain parentheses (types like (U256, U256)); find the body's opening brace after it
        depth, i = 0, m.end() - 1
        while i < len(src):
            if src[i] == "(":
                depth += 1
            elif src[i] == ")":
                depth -= 1
                if depth == 0:
                    break
            i += 1
        j = i
        while j < len(src) and src[j] not in "{;":
            j += 1
        if j >= len(src) or src[j] == ";":
            continue  # interface / abstract declaration
        end = _match_brace(src, j)
        if end:
            out.append((m.group(1), m.start(), end, i + 1, j))
    return out


def binders(text, lang, params_end, body_start):
    """Parameter and local-variable names of one function, in textual order (with repetitions)."""
    names = []
    head = text[:params_end]
    open_at = head.index("(")
    plist = head[open_at + 1:params_end - 1]
    if lang == "ral":
        for p in re.finditer(r"(?:@\w+\s+)?(?:mut\s+)?([A-Za-z_]\w*)\s*:", plist):
            names.append(p.group(1))
        for m in re.finditer(r"\blet\s+(?:mut\s+)?(?:\(([^)]*)\)|([A-Za-z_]\w*))", text[body_start:]):
            if m.group(2):
                names.append(m.group(2))
            else:
                for part in m.group(1).split(","):
                    part = re.sub(r"^\s*mut\s+", "", part.strip())
                    if re.fullmatch(r"[A-Za-z_]\w*", part) and part != "_":
                        names.append(part)
    else:
        decl = r"\b([A-Za-z_][\w\.]*(?:\[\])?)\s+(?:(?:memory|storage|calldata)\s+)?([A-Za-z_]\w*)\s*(?=[=;,)])"
        for p in re.finditer(decl, plist + ")"):
            if p.group(1) not in SOL_KEYWORDS and p.group(2) not in SOL_KEYWORDS:
                names.append(p.group(2))
        rets = text[params_end:body_start]
        rm = re.search(r"\breturns\s*\((.*)\)", rets, re.S)
        if rm:
            for p in re.finditer(decl, rm.group(1) + ")"):
                if p.group(1) not in SOL_KEYWORDS and p.group(2) not in SOL_KEYWORDS:
                    names.append(p.group(2))
        for m in re.finditer(decl, text[body_start:]):
            if m.group(1).split(".")[0] not in SOL_KEYWORDS and m.group(2) not in SOL_KEYWORDS:
                names.append(m.group(2))
    return names


def rename(text, mapping, lang):
    def sub(m):
        name = m.group(0)
        if name not in mapping:
            return name
        before = text[:m.start()].rstrip()
        if before.endswith("."):
            return name
        if lang == "ral" and text[m.end():m.end() + 1] == "!":
            return name
        return mapping[name]
    return re.sub(r"[A-Za-z_]\w*", sub, text)


def lang_of(relpath):
    return "ral" if relpath.endswith(".ral") else "sol"


def normalise(src, relpath, expect=None, report=None):
    """comment-free source with every function's binders renamed to the recorded names where that is an alpha-conversion"""
    lang = lang_of(relpath)
    src = strip_comments(src)
    if expect is None:
        try:
            expect = json.load(open(EXPECT))
        except OSError:
            expect = {}
    exp = expect.get(relpath, {})
    out, at = [], 0
    seen = {}
    for name, start, end, pend, bstart in functions(src, lang):
        if start < at:
            continue
        out.append(src[at:start])
        text = src[start:end]
        k = seen.get(name, 0)
        seen[name] = k + 1
        key = name if k == 0 else "%s#%d" % (name, k)
        cur = binders(text, lang, pend - start, bstart - start)
        want = exp.get(key)
        if want and cur != want and len(cur) == len(want):
            mapping = {}
            ok = True
            for c, w in zip(cur, want):
                if mapping.setdefault(c, w) != w:
                    ok = False
            if ok and len(set(mapping.values())) == len(mapping):
                # a target name must not already mean something else in this function
                others = set(re.findall(r"[A-Za-z_]\w*", text)) - set(mapping)
                real = {c: w for c, w in mapping.items() if c != w}
                if not (set(real.values()) & others):
                    # simultaneous renaming (handles swaps): via unique placeholders
                    tmp = {c: "\x00%d\x00" % i for i, c in enumerate(real)}
                    t2 = rename(text, tmp, lang)
                    for c, ph in tmp.items():
                        t2 = t2.replace(ph, real[c])
                    text = t2
                    if report is not None:
                        report.append((relpath, key, real))
        out.append(text)
        at = end
    out.append(src[at:])
    return "".join(out)


def snapshot(repo):
    exp = {}
    for rel in FILES:
        p = os.path.join(repo, rel)
        if not os.path.exists(p):
            continue
        src = strip_comments(open(p, errors="replace").read())
        lang = lang_of(rel)
        fns = {}
        seen = {}
        for name, start, end, pend, bstart in functions(src, lang):
            k = seen.get(name, 0)
            seen[name] = k + 1
            key = name if k == 0 else "%s#%d" % (name, k)
            fns[key] = binders(src[start:end], lang, pend - start, bstart - start)
        exp[rel] = fns
    return exp


if __name__ == "__main__":
    if len(sys.argv) >= 2 and sys.argv[1] == "--snapshot":
        repo = sys.argv[2] if len(sys.argv) > 2 else "/repo"
        json.dump(snapshot(repo), open(EXPECT, "w"), indent=1, sort_keys=True)
        print("wrote", EXPECT)
    else:
        rel = sys.argv[1]
        repo = sys.argv[2] if len(sys.argv) > 2 else "/repo"
        rep = []
        sys.stdout.write(normalise(open(os.path.join(repo, rel)).read(), rel, report=rep))
        sys.stderr.write("renamed: %r\n" % rep)
