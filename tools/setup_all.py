"""setup_cmd: regenerate every Whv/Gen file from /repo, build the Lean library + driver, warm the Go build cache."""
import glob, importlib, os, sys
import vlib


def main():
    os.makedirs(vlib.WORK, exist_ok=True)
    rc_all = 0
    from checks.registry import CHECKS as _C
    for name in sorted(p.lower() for p in _C):
        mod = importlib.import_module("checks." + name)
        if hasattr(mod, "gen"):
            ctx = vlib.Ctx("setup-" + name, "quick", 1)
            mod.gen(ctx)
            if ctx.broken:
                print("setup: generator for %s reported: %s" % (name, ctx.broken))
    from checks.registry import CHECKS
    targets = ["Whv.Props." + pid for pid in sorted(CHECKS)] + sorted(set("drv_" + f for c in CHECKS.values() for f in c.get("families", ())))
    rc, out, dt = vlib.sh(["lake", "build"] + targets, cwd=vlib.LEAN, timeout=7200)
    print(out[-3000:])
    print("setup: lake build rc=%d (%.0fs)" % (rc, dt))
    rc_all |= rc
    for name in sorted(p.lower() for p in _C):
        mod = importlib.import_module("checks." + name)
        if hasattr(mod, "warm"):
            ctx = vlib.Ctx("setup-" + name, "quick", 1)
            mod.warm(ctx)
    return 1 if rc_all else 0
