#!/bin/bash
# tools/trydiff.sh <diff> <ID> [more IDs] [-- extra check args]: apply <diff> to a scratch worktree of /repo and run the checks there.
d=$(realpath $1); shift
wt=/tmp/trywt-$$-$(basename $d .diff)
git -C /repo worktree add -q --detach $wt HEAD || exit 2
if git -C $wt apply $d; then
  for id in "$@"; do
    res=$(cd /verif && VERIF_REPO=$wt ./check $id 2>&1 | grep -E "VIOLATION|KNOWN-FINDING|property held|gen_fail|GEN" | cut -c1-300 | tr '\n' ' ')
    echo "$(basename $d .diff) $id :: $res"
  done
else echo "$(basename $d) :: patch-does-not-apply"; fi
git -C /repo worktree remove --force $wt
