#!/usr/bin/env python3
"""Merge the owner-check results of the last tools/seeded_matrix.sh run (.work/seeded_matrix.jsonl) into seeded/*/meta.json
(confirmation.checks[<ID>]), so that tools/seeded_table.py shows the current state."""
import json, os
ROOT = os.path.dirname(os.path.dirname(os.path.abspath(__file__)))
n = 0
for ln in open(os.path.join(ROOT, ".work", "seeded_matrix.jsonl")):
    r = json.loads(ln)
    p = os.path.join(ROOT, "seeded", r["name"], "meta.json")
    m = json.load(open(p))
    c = m.setdefault("confirmation", {}).setdefault("checks", {})
    c[r["id"]] = {"exit": 1 if r["lines"] else 0, "lines": r["lines"], "tier": r["tier"]}
    json.dump(m, open(p, "w"), indent=1)
    n += 1
print("updated", n)
