"""Tiny arithmetic-expression translator: Go / Solidity / Ralph infix expression -> Lean term.

Grammar (the common subset of the three languages that the quorum formulas use):
    expr   := term (('+'|'-') term)*
    term   := factor (('*'|'/'|'%') factor)*
    factor := INT | IDENT | '(' expr ')'
Every binary node is emitted fully parenthesised, so precedence in the output never depends on
Lean's own precedence table.  Anything else (calls, casts, shifts, unary minus ...) raises
TranslateError -- the caller reports that as a broken tie, never guesses.
Semantics note: the caller is responsible for the numeric domain.  All three sources use
non-negative machine integers with truncating division; on naturals that is Lean's Nat `/`.
Subtraction would be truncated in Nat, so '-' is rejected unless allow_sub is set.
"""
import re


class TranslateError(Exception):
    pass


_TOK = re.compile(r"\s*(?:(\d+)|([A-Za-z_][A-Za-z_0-9]*)|(.))")


def _tokens(s):
    out = []
    pos = 0
    s = s.strip()
    while pos < len(s):
        m = _TOK.match(s, pos)
        if not m:
            raise TranslateError("cannot tokenise at %r" % s[pos:])
        pos = m.end()
        if m.group(1) is not None:
            out.append(("int", m.group(1)))
        elif m.group(2) is not None:
            out.append(("id", m.group(2)))
        else:
            out.append(("op", m.group(3)))
    return out


def translate(src, rename, allow_sub=False):
    """rename: dict source identifier -> Lean identifier; unknown identifiers are an error."""
    toks = _tokens(src)
    pos = [0]

    def peek():
        return toks[pos[0]] if pos[0] < len(toks) else ("eof", "")

    def take():
        t = peek()
        pos[0] += 1
        return t

    def factor():
        k, v = take()
        if k == "int":
            return v
        if k == "id":
            if v not in rename:
                raise TranslateError("unknown identifier %r in %r" % (v, src))
            return rename[v]
        if (k, v) == ("op", "("):
            e = expr()
            if take() != ("op", ")"):
                raise TranslateError("missing ) in %r" % src)
            return e
        raise TranslateError("unexpected %r in %r" % (v, src))

    def term():
        e = factor()
        while peek() in (("op", "*"), ("op", "/"), ("op", "%")):
            op = take()[1]
            r = factor()
            e = "(%s %s %s)" % (e, op, r)
        return e

    def expr():
        e = term()
        while peek() in (("op", "+"), ("op", "-")):
            op = take()[1]
            if op == "-" and not allow_sub:
                raise TranslateError("subtraction not supported in %r" % src)
            r = term()
            e = "(%s %s %s)" % (e, op, r)
        return e

    e = expr()
    if peek()[0] != "eof":
        raise TranslateError("trailing tokens in %r" % src)
    return e


def evaluate(src, env):
    """Evaluate the same grammar on Python ints (floor division on non-negatives)."""
    lean = translate(src, {k: k for k in env}, allow_sub=True)
    return eval(lean.replace("/", "//"), {"__builtins__": {}}, dict(env))
