// p2pstub: rewrites /repo/node/pkg/p2p/p2p.go so that it compiles without the libp2p QUIC transport
// (quic-go v0.28.1 refuses Go >= 1.20).  Every declaration is kept verbatim from the working tree
// except the body of `Run`, which is replaced by a stub; imports that become unused are dropped.
// usage: go run main.go <in p2p.go> <out stub.go>
package main

import (
	"bytes"
	"fmt"
	"go/ast"
	"go/format"
	"go/parser"
	"go/token"
	"os"
	"strconv"
	"strings"
)

func main() {
	if len(os.Args) != 3 {
		fmt.Fprintln(os.Stderr, "usage: p2pstub in.go out.go")
		os.Exit(2)
	}
	fset := token.NewFileSet()
	f, err := parser.ParseFile(fset, os.Args[1], nil, parser.ParseComments)
	if err != nil {
		fmt.Fprintln(os.Stderr, err)
		os.Exit(1)
	}
	found := false
	for _, d := range f.Decls {
		fd, ok := d.(*ast.FuncDecl)
		if !ok || fd.Name.Name != "Run" || fd.Recv != nil {
			continue
		}
		found = true
		// func Run(...) func(ctx context.Context) error  { return func(ctx context.Context) error { return errors.New("verif stub") } }
		ft, ok := fd.Type.Results.List[0].Type.(*ast.FuncType)
		if !ok {
			fmt.Fprintln(os.Stderr, "Run no longer returns a func")
			os.Exit(1)
		}
		inner := &ast.FuncLit{Type: ft, Body: &ast.BlockStmt{List: []ast.Stmt{
			&ast.ReturnStmt{Results: []ast.Expr{&ast.CallExpr{
				Fun:  &ast.SelectorExpr{X: ast.NewIdent("errors"), Sel: ast.NewIdent("New")},
				Args: []ast.Expr{&ast.BasicLit{Kind: token.STRING, Value: strconv.Quote("verif stub: p2p.Run is not built in this harness")}},
			}}},
		}}}
		fd.Body = &ast.BlockStmt{List: []ast.Stmt{&ast.ReturnStmt{Results: []ast.Expr{inner}}}}
	}
	if !found {
		fmt.Fprintln(os.Stderr, "func Run not found in p2p.go")
		os.Exit(1)
	}
	// comments inside the removed body would be re-attached somewhere odd: drop all non-doc comments
	f.Comments = nil
	// which imports are still used?
	used := map[string]bool{"errors": true}
	ast.Inspect(f, func(n ast.Node) bool {
		if se, ok := n.(*ast.SelectorExpr); ok {
			if id, ok := se.X.(*ast.Ident); ok {
				used[id.Name] = true
			}
		}
		return true
	})
	hasErrors := false
	for _, d := range f.Decls {
		gd, ok := d.(*ast.GenDecl)
		if !ok || gd.Tok != token.IMPORT {
			continue
		}
		var keep []ast.Spec
		for _, s := range gd.Specs {
			is := s.(*ast.ImportSpec)
			path, _ := strconv.Unquote(is.Path.Value)
			name := path[strings.LastIndex(path, "/")+1:]
			if is.Name != nil {
				name = is.Name.Name
			} else {
				// conventional package names that differ from the last path element
				switch path {
				case "github.com/libp2p/go-libp2p-pubsub":
					name = "pubsub"
				case "github.com/libp2p/go-libp2p-kad-dht":
					name = "dht"
				case "github.com/libp2p/go-libp2p":
					name = "libp2p"
				case "github.com/libp2p/go-libp2p-quic-transport":
					name = "libp2pquic"
				case "github.com/libp2p/go-libp2p-tls":
					name = "libp2ptls"
				case "github.com/libp2p/go-libp2p-connmgr":
					name = "connmgr"
				case "github.com/multiformats/go-multiaddr":
					name = "multiaddr"
				case "google.golang.org/protobuf/proto":
					name = "proto"
				}
				name = strings.TrimPrefix(name, "go-")
				name = strings.ReplaceAll(name, "-", "_")
			}
			if path == "errors" {
				hasErrors = true
			}
			if name == "_" || used[name] {
				keep = append(keep, s)
			}
		}
		gd.Specs = keep
	}
	if !hasErrors {
		for _, d := range f.Decls {
			if gd, ok := d.(*ast.GenDecl); ok && gd.Tok == token.IMPORT {
				gd.Specs = append(gd.Specs, &ast.ImportSpec{Path: &ast.BasicLit{Kind: token.STRING, Value: strconv.Quote("errors")}})
				break
			}
		}
	}
	var buf bytes.Buffer
	if err := format.Node(&buf, fset, f); err != nil {
		fmt.Fprintln(os.Stderr, err)
		os.Exit(1)
	}
	if err := os.WriteFile(os.Args[2], buf.Bytes(), 0o644); err != nil {
		fmt.Fprintln(os.Stderr, err)
		os.Exit(1)
	}
}
