module p2pstub

go 1.21
