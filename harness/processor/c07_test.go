//go:build verif

package processor

import (
	"fmt"
	"os"
	"path/filepath"
	"testing"
)

// TestVerifC07 dumps the compiled CalculateQuorum table; the runner compares it with the
// formulas translated into Lean (Whv/Gen/C07.lean).
func TestVerifC07(t *testing.T) {
	f, err := os.Create(filepath.Join(os.Getenv("VERIF_OUT"), "c07.table"))
	if err != nil {
		t.Fatal(err)
	}
	defer f.Close()
	for n := 0; n <= 255; n++ {
		fmt.Fprintf(f, "%d %d\n", n, CalculateQuorum(n))
	}
	for n := 1 << 20; n <= 1<<20+300; n++ {
		fmt.Fprintf(f, "%d %d\n", n, CalculateQuorum(n))
	}
}
