//go:build verif

package processor

// Correspondence harness for the aggregation state machine (C01, C02, C13, C14, observation gate of C03).
// A real Processor (real badger store, real ECDSA signer, real channels) is driven handler by handler exactly as
// Run dispatches them; after every event the outputs and a canonical state summary are written as one case line.
// The Lean driver (family `processor`) replays the model on the same lines and evaluates the Specs on what the
// implementation did.  Oracle answers (digests, own signatures, ecrecover results) travel in the lines.

import (
	"bufio"
	"context"
	"crypto/ecdsa"
	"encoding/hex"
	"fmt"
	dto "github.com/prometheus/client_model/go"
	"math/rand"
	"os"
	"path/filepath"
	"reflect"
	"sort"
	"strconv"
	"strings"
	"sync"
	"testing"
	"time"
	"unsafe"

	ethcommon "github.com/ethereum/go-ethereum/common"
	"github.com/ethereum/go-ethereum/crypto"
	"go.uber.org/zap"
	"google.golang.org/protobuf/proto"

	"github.com/alephium/wormhole-fork/node/pkg/common"
	"github.com/alephium/wormhole-fork/node/pkg/db"
	"github.com/alephium/wormhole-fork/node/pkg/ecdsasigner"
	"github.com/alephium/wormhole-fork/node/pkg/notify/discord"
	gossipv1 "github.com/alephium/wormhole-fork/node/pkg/proto/gossip/v1"
	"github.com/alephium/wormhole-fork/node/pkg/reporter"
	"github.com/alephium/wormhole-fork/node/pkg/supervisor"
	"github.com/alephium/wormhole-fork/node/pkg/vaa"
)

func phex(b []byte) string {
	if len(b) == 0 {
		return "-"
	}
	return hex.EncodeToString(b)
}

type pkey struct {
	k    *ecdsa.PrivateKey
	addr ethcommon.Address
}

func pnewKey() pkey {
	k, err := crypto.GenerateKey()
	if err != nil {
		panic(err)
	}
	return pkey{k, crypto.PubkeyToAddress(k.PublicKey)}
}

func psign(k pkey, digest []byte) []byte {
	s, err := crypto.Sign(digest, k.k)
	if err != nil {
		panic(err)
	}
	return s
}

// precover is the ecrecover oracle: independent of the code under test.
func precover(hash, sig []byte) string {
	pk, err := crypto.Ecrecover(hash, sig)
	if err != nil {
		return "none"
	}
	return hex.EncodeToString(crypto.Keccak256(pk[1:])[12:])
}

func pcanon(v *vaa.VAA) string {
	sigs := "-"
	if len(v.Signatures) > 0 {
		parts := make([]string, len(v.Signatures))
		for i, s := range v.Signatures {
			parts[i] = fmt.Sprintf("%d:%s", s.Index, hex.EncodeToString(s.Signature[:]))
		}
		sigs = strings.Join(parts, ";")
	}
	return fmt.Sprintf("%d,%d,%s,%d,%d,%d,%d,%s,%d,%d,%s", v.Version, v.GuardianSetIndex, sigs, uint32(v.Timestamp.Unix()),
		v.Nonce, uint16(v.EmitterChain), uint16(v.TargetChain), hex.EncodeToString(v.EmitterAddress[:]), v.Sequence,
		v.ConsistencyLevel, phex(v.Payload))
}

type pworld struct {
	chainSweep int
	fwdMu    *sync.Mutex // set while the processor's broadcast queue is the unbuffered one of production (see fullQueueFamily)
	dbdir    string
	downTick int // soak: the tick (index) during which the local store is unavailable; -1 = never
	t      *testing.T
	r      *rand.Rand
	w      *bufio.Writer
	db     *db.Database
	keys   []pkey
	caseID string
	p      *Processor
	sendC  chan []byte
	obsvC  chan *gossipv1.SignedObservation
	reqC   chan *gossipv1.ObservationRequest
	now    int64 // logical nanoseconds
	ids    map[string]vaa.VAAID
	our    pkey
	gs     *common.GuardianSet
	prev   *common.GuardianSet
	dist   map[string]int
	nline  int
	ctx    context.Context

	// live mode: the processor is built by NewProcessor and its real Run loop is running; every event goes in through the
	// channel Run selects on (see liveOp)
	wantLive bool
	live     bool
	lockC    chan *common.MessagePublication
	setC     chan *common.GuardianSet
	injectC  chan *vaa.VAA
	inC      chan *gossipv1.SignedVAAWithQuorum
	tickC    chan time.Time
	runDead  chan string
	stopRun  func()
	deadMsg  string
	held     string

	liveBroken bool

	sawBlocked   bool
	lastMs       int64 // wall-clock duration of the last handler call made through emit
	afterHandler func() // direct mode: runs right after the handler returned, before outputs are collected
}

// psupCtx returns a context that belongs to a running supervisor (handleMessage/handleInjection call supervisor.Logger(ctx)).
func psupCtx() (context.Context, func()) {
	ctxC := make(chan context.Context, 1)
	done := make(chan struct{})
	root, cancel := context.WithCancel(context.Background())
	supervisor.New(root, zap.NewNop(), func(ctx context.Context) error {
		ctxC <- ctx
		supervisor.Signal(ctx, supervisor.SignalHealthy)
		<-done
		supervisor.Signal(ctx, supervisor.SignalDone)
		return nil
	})
	return <-ctxC, func() { close(done); cancel() }
}

const preqCap = 6

var pgovEmitter = vaa.Address{0, 0, 0, 0, 0, 0, 0, 0, 0, 0, 0, 0, 0, 0, 0, 0, 0, 0, 0, 0, 0, 0, 0, 0, 0, 0, 0, 0, 0, 0, 0, 4}

const pgovChain = vaa.ChainID(1)

func (w *pworld) reset(id string, our pkey) {
	w.caseID = id
	// a fresh governance emitter per case: cases share one store and must not collide on message ids
	w.r.Read(pgovEmitter[:28])
	w.sendC = make(chan []byte, 4096)
	w.obsvC = make(chan *gossipv1.SignedObservation, 4096)
	w.reqC = make(chan *gossipv1.ObservationRequest, preqCap)
	w.our = our
	w.now = 1000 * 1e9
	w.ids = map[string]vaa.VAAID{}
	w.gs = nil
	w.prev = nil
	signer := &ecdsasigner.ECDSAPrivateKey{Value: our.k}
	w.p = &Processor{
		lockC:                    make(chan *common.MessagePublication),
		setC:                     make(chan *common.GuardianSet),
		sendC:                    w.sendC,
		obsvC:                    w.obsvC,
		obsvReqSendC:             w.reqC,
		signedInC:                make(chan *gossipv1.SignedVAAWithQuorum),
		injectC:                  make(chan *vaa.VAA),
		guardianSigner:           signer,
		gst:                      common.NewGuardianSetState(nil),
		db:                       w.db,
		attestationEvents:        reporter.EventListener(zap.NewNop()),
		logger:                   zap.NewNop(),
		state:                    newAggState(),
		ourAddr:                  crypto.PubkeyToAddress(signer.PublicKey()),
		governanceChainId:        pgovChain,
		governanceEmitterAddress: pgovEmitter,
	}
	if w.r.Intn(2) == 0 {
		// with a miss notifier configured (no channels, never reaches Discord): handleCleanup's notification block runs
		w.p.notifier = discord.NewVerifNotifier()
	}
	w.stopLive()
	if w.wantLive && !w.liveBroken {
		w.startLive(signer)
	}
	fmt.Fprintf(w.w, "reset %s our=%s govchain=%d govemitter=%s\n", id, hex.EncodeToString(our.addr.Bytes()), pgovChain, hex.EncodeToString(pgovEmitter[:]))
}

// newAggState builds an empty aggregation state; the map field is found by its TYPE, so that further fields (counters, limits)
// added to the struct do not break the harness.
func newAggState() *aggregationState {
	st := &aggregationState{}
	v := reflect.ValueOf(st).Elem()
	for i := 0; i < v.NumField(); i++ {
		if f := v.Field(i); f.Type() == reflect.TypeOf(vaaMap{}) {
			*(*vaaMap)(unsafe.Pointer(f.UnsafeAddr())) = vaaMap{}
			return st
		}
	}
	panic("verif: aggregationState holds no vaaMap field")
}

// ---------------------------------------------------------------- live mode (the real Run loop)

// startLive replaces the hand-built Processor by one from the production constructor and starts its Run loop. The cleanup
// ticker Run creates is replaced by a harness-owned one, so that ticks arrive when the scenario says so.
func (w *pworld) startLive(signer *ecdsasigner.ECDSAPrivateKey) {
	w.lockC = make(chan *common.MessagePublication)
	w.setC = make(chan *common.GuardianSet)
	w.injectC = make(chan *vaa.VAA)
	w.inC = make(chan *gossipv1.SignedVAAWithQuorum)
	w.tickC = make(chan time.Time)
	w.runDead = make(chan string, 1)
	w.deadMsg = ""
	notifier := w.p.notifier
	w.p = NewProcessor(w.ctx, w.db, w.lockC, w.setC, w.sendC, w.obsvC, w.reqC, w.injectC, w.inC, signer,
		common.NewGuardianSetState(nil), reporter.EventListener(zap.NewNop()), notifier, pgovChain, pgovEmitter)
	w.p.logger = zap.NewNop()
	w.runLoop()
}

// runLoop starts Run on the CURRENT Processor value (first start, or a re-entry after Run returned - what the supervisor does with
// a runnable that ended) and takes over its cleanup ticker.
func (w *pworld) runLoop() {
	ctx, cancel := context.WithCancel(w.ctx)
	done := make(chan struct{})
	p := w.p
	dead := w.runDead
	go func() {
		defer close(done)
		defer func() {
			if e := recover(); e != nil {
				dead <- fmt.Sprint(e)
			}
		}()
		_ = p.Run(ctx)
	}()
	w.stopRun = func() { cancel(); <-done }
	w.live = true
	// Run is inside its loop once it has taken a (no-op) event; then swap the ticker, and make sure the next select sees it
	if !w.barrier() {
		return
	}
	old := w.p.cleanup
	w.p.cleanup = &time.Ticker{C: w.tickC}
	if old != nil {
		old.Stop()
	}
	w.barrier()
}

// rerun: Run returns (its context is cancelled) and is entered again on the same Processor, as the supervisor re-runs a runnable
// that ended. Nothing the node has observed, collected or stored may be affected: the model takes no step.
func (w *pworld) rerun() bool {
	if !w.live || w.deadMsg != "" || w.liveBroken {
		return true
	}
	w.stopRun()
	w.stopRun = nil
	w.runLoop()
	w.dist["rerun"]++
	st, dbs := w.summary() // Run is parked in its select (runLoop ends with a barrier): the state is at rest
	fmt.Fprintf(w.w, "rerun %s st=%s db=%s\n", w.caseID, st, dbs)
	return w.deadMsg == ""
}

func (w *pworld) stopLive() {
	if w.stopRun != nil {
		w.stopRun()
		w.stopRun = nil
	}
	w.live = false
}

// liveSend performs one channel send towards Run, giving up when Run has died (panic) or does not take the event.
func (w *pworld) liveSend(send func(giveUp <-chan time.Time) bool) bool {
	if w.deadMsg != "" {
		return false
	}
	t := time.NewTimer(10 * time.Second)
	defer t.Stop()
	if send(t.C) {
		return true
	}
	select {
	case e := <-w.runDead:
		w.deadMsg = e
	default:
		w.deadMsg = "Run stopped taking events"
		w.liveBroken = true // one report is enough: the remaining scenarios run in direct mode instead of timing out one by one
	}
	return false
}

// barrier: an undecodable inbound VAA is a no-op for the processor (logged and dropped before any state is touched). Run takes
// it only after the handler of the previous event has returned.
func (w *pworld) barrier() bool {
	return w.liveSend(func(giveUp <-chan time.Time) bool {
		select {
		case w.inC <- &gossipv1.SignedVAAWithQuorum{Vaa: []byte{0xff}}:
			return true
		case e := <-w.runDead:
			w.runDead <- e
			return false
		case <-giveUp:
			return false
		}
	})
}

// obsSeen reads the processor's own counter of observations that entered handleObservation (atomic, safe to read while Run works).
func obsSeen() float64 {
	var m dto.Metric
	if err := observationsReceivedTotal.Write(&m); err != nil {
		return -1
	}
	return m.GetCounter().GetValue()
}

// settle waits until Run has handled the event just sent and - for a local observation - the own observation that
// broadcastSignature loops back from a goroutine of its own: first a barrier (the event's handler has returned), then as many
// further observations entering handleObservation as signed observations were broadcast, then a barrier again (their
// handlers have returned). Outputs drained on the way are kept in w.held.
func (w *pworld) settle(before float64, op string, local bool) bool {
	waitSeen := func(target float64) bool {
		deadline := time.Now().Add(20 * time.Second)
		for obsSeen() < target {
			if time.Now().After(deadline) {
				w.deadMsg = "own observation not looped back"
				return false
			}
			select {
			case e := <-w.runDead:
				w.deadMsg = e
				return false
			default:
			}
			time.Sleep(20 * time.Microsecond)
		}
		return true
	}
	if op == "obs" {
		// the observation went into the (buffered) observation channel: wait until Run has taken it into handleObservation,
		// the barrier after that is taken only once that handler has returned
		if !waitSeen(before + 1) {
			w.deadMsg = "observation not taken by Run"
			return false
		}
		return w.barrier()
	}
	if !w.barrier() {
		return false
	}
	if local {
		w.held = w.drain(false)
		n := float64(strings.Count(w.held, "O:"))
		if !waitSeen(before + n) {
			return false
		}
	}
	return w.barrier()
}

func (w *pworld) panicLine(op, fields string) bool {
	site := strings.Map(func(r rune) rune {
		if r == ' ' || r == '\n' || r == '\t' {
			return '_'
		}
		return r
	}, w.deadMsg)
	if len(site) > 80 {
		site = site[:80]
	}
	fmt.Fprintf(w.w, "%s %s now=%d %s res=panic site=%s\n", op, w.caseID, w.now, fields, site)
	return false
}

// liveOp delivers one event through the channel Run selects on. A local observation (msg / inj) loops the node's own
// observation back into the observation channel, and Run handles that next: such an event therefore yields two lines - the
// event itself with the signed observation it broadcast (state not observable at that instant: st=? db=?), then the own
// observation as handled by Run, with everything it caused and the state after both.
func (w *pworld) liveOp(op, fields string, send func(giveUp <-chan time.Time) bool, local bool, digest []byte) bool {
	w.nline++
	w.dist[op+"-live"]++
	w.held = ""
	before := obsSeen()
	if !w.liveSend(send) || !w.settle(before, op, local) {
		return w.panicLine(op, fields)
	}
	out := w.drain(false)
	if op == "set" && w.p.gst.Get() != w.p.gs {
		// Run's set arm also publishes the set to the shared GuardianSetState (read by p2p and the admin service)
		if out == "-" {
			out = "X:shared-guardian-set-state-not-updated"
		} else {
			out += "|X:shared-guardian-set-state-not-updated"
		}
	}
	if w.held != "" && w.held != "-" {
		if out == "-" {
			out = w.held
		} else {
			all := append(strings.Split(w.held, "|"), strings.Split(out, "|")...)
			sort.Strings(all)
			out = strings.Join(all, "|")
		}
	}
	if local {
		fields += " orec=" + orecOf(out)
	}
	if !local || !strings.Contains(out, "O:") {
		st, dbs := w.summary()
		fmt.Fprintf(w.w, "%s %s now=%d %s res=ok out=%s st=%s db=%s\n", op, w.caseID, w.now, fields, out, st, dbs)
		return true
	}
	var first, rest []string
	var own []string
	for _, o := range strings.Split(out, "|") {
		if strings.HasPrefix(o, "O:") && own == nil {
			own = strings.Split(o, ":")
			first = append(first, o, "L:"+o[2:])
		} else {
			rest = append(rest, o)
		}
	}
	sort.Strings(first)
	fmt.Fprintf(w.w, "%s %s now=%d %s res=ok out=%s st=? db=?\n", op, w.caseID, w.now, fields, strings.Join(first, "|"))
	r := "-"
	if len(rest) > 0 {
		sort.Strings(rest)
		r = strings.Join(rest, "|")
	}
	st, dbs := w.summary()
	w.nline++
	w.dist["obs-live-loopback"]++
	unhex := func(x string) []byte {
		if x == "-" {
			return nil
		}
		b, _ := hex.DecodeString(x)
		return b
	}
	fmt.Fprintf(w.w, "obs %s now=%d addr=%s hash=%s sig=%s tx=%s rec=%s res=ok out=%s st=%s db=%s\n", w.caseID, w.now,
		own[1], own[2], own[3], own[4], precover(unhex(own[2]), unhex(own[3])), r, st, dbs)
	return true
}

// advance simulated time: shift every recorded instant backwards.
func (w *pworld) advance(d time.Duration) {
	w.now += int64(d)
	for _, s := range w.p.state.vaaSignatures {
		s.firstObserved = s.firstObserved.Add(-d)
		if !s.lastRetry.IsZero() {
			s.lastRetry = s.lastRetry.Add(-d)
		}
	}
}

func (w *pworld) track(v *vaa.VAA) {
	id := *db.VaaIDFromVAA(v)
	w.ids[id.ToString()] = id
}

func (w *pworld) summary() (st string, dbs string) {
	var es []string
	for h, s := range w.p.state.vaaSignatures {
		var as []string
		for a := range s.signatures {
			as = append(as, hex.EncodeToString(a.Bytes()))
		}
		sort.Strings(as)
		gsi := "-"
		if s.gs != nil {
			gsi = strconv.Itoa(int(s.gs.Index))
		}
		b := func(x bool) string {
			if x {
				return "1"
			}
			return "0"
		}
		sa := strings.Join(as, "+")
		if sa == "" {
			sa = "-"
		}
		es = append(es, fmt.Sprintf("%s:%s:%s:%s:%d:%s:%s:%s:%s", h, b(s.ourVAA != nil), b(s.submitted), b(s.settled), s.retryCount, gsi,
			b(s.ourMsg != nil), b(!s.lastRetry.IsZero()), sa))
	}
	sort.Strings(es)
	st = strings.Join(es, "|")
	if st == "" {
		st = "-"
	}
	var ds []string
	for k, id := range w.ids {
		// the store as it is (raw badger read) ...
		raw, found, rerr := w.db.VerifRawGet(id.Bytes())
		if rerr != nil {
			ds = append(ds, k+"=ERR")
		} else if found {
			ds = append(ds, k+"="+hex.EncodeToString(raw))
		}
		// ... and as the node's own lookup serves it: a stored VAA must come back, byte for byte (X: entries are reported
		// by the driver as stored-vaa-not-served)
		b, err := w.db.GetSignedVAABytes(id)
		switch {
		case rerr != nil:
		case found && err != nil:
			ds = append(ds, "X:"+k+"=lookup-failed")
		case found && hex.EncodeToString(b) != hex.EncodeToString(raw):
			ds = append(ds, "X:"+k+"=lookup-returned-other-bytes")
		case !found && err == nil:
			ds = append(ds, "X:"+k+"=lookup-returned-absent-entry")
		}
	}
	sort.Strings(ds)
	dbs = strings.Join(ds, "|")
	if dbs == "" {
		dbs = "-"
	}
	return
}

// drain collects everything the handler put on the outbound channels.  handleMessage / handleInjection feed the own
// observation back through a goroutine: exactly one loopback is awaited per SignedObservation they broadcast.
func (w *pworld) drain(expectLoop bool) string {
	var outs []string
	nobs := 0
	if w.fwdMu != nil { // unbuffered broadcast queue with a polling consumer: take and hand-over happen under this lock
		w.fwdMu.Lock()
		defer w.fwdMu.Unlock()
	}
	for {
		select {
		case b := <-w.sendC:
			var m gossipv1.GossipMessage
			if err := proto.Unmarshal(b, &m); err != nil {
				outs = append(outs, "X:undecodable")
				continue
			}
			switch x := m.Message.(type) {
			case *gossipv1.GossipMessage_SignedObservation:
				o := x.SignedObservation
				nobs++
				outs = append(outs, fmt.Sprintf("O:%s:%s:%s:%s", phex(o.Addr), phex(o.Hash), phex(o.Signature), phex(o.TxHash)))
			case *gossipv1.GossipMessage_SignedVaaWithQuorum:
				outs = append(outs, "V:"+phex(x.SignedVaaWithQuorum.Vaa))
			default:
				outs = append(outs, "X:other")
			}
			continue
		default:
		}
		break
	}
	if expectLoop {
		for i := 0; i < nobs; i++ {
			select {
			case o := <-w.obsvC:
				outs = append(outs, fmt.Sprintf("L:%s:%s:%s:%s", phex(o.Addr), phex(o.Hash), phex(o.Signature), phex(o.TxHash)))
			case <-time.After(10 * time.Second):
				outs = append(outs, "X:loopback-missing")
			}
		}
	}
	// (live mode: the observation channel belongs to Run - whatever is in it is on its way into handleObservation)
	for !w.live {
		select {
		case o := <-w.obsvC:
			outs = append(outs, fmt.Sprintf("L:%s:%s:%s:%s", phex(o.Addr), phex(o.Hash), phex(o.Signature), phex(o.TxHash)))
			continue
		default:
		}
		break
	}
	sort.Strings(outs)
	if len(outs) == 0 {
		return "-"
	}
	return strings.Join(outs, "|")
}

func (w *pworld) drainReq() string {
	var outs []string
	for {
		select {
		case r := <-w.reqC:
			if r != nil {
				outs = append(outs, fmt.Sprintf("R:%d:%s", r.ChainId, phex(r.TxHash)))
			}
			continue
		default:
		}
		break
	}
	sort.Strings(outs)
	return strings.Join(outs, "|")
}

// orecOf: for every signed observation the node broadcast, who its signature recovers to over the hash it names (oracle).
func orecOf(out string) string {
	var parts []string
	for _, o := range strings.Split(out, "|") {
		if !strings.HasPrefix(o, "O:") {
			continue
		}
		f := strings.Split(o, ":")
		if len(f) != 5 {
			continue
		}
		h, _ := hex.DecodeString(f[2])
		sg, _ := hex.DecodeString(f[3])
		parts = append(parts, f[3]+"="+precover(h, sg))
	}
	if len(parts) == 0 {
		return "-"
	}
	return strings.Join(parts, ";")
}

func (w *pworld) emit(op string, fields string, f func(), expectLoop bool) bool {
	panicked := ""
	done := make(chan string, 1)
	go func() {
		defer func() {
			if e := recover(); e != nil {
				done <- fmt.Sprint(e)
			} else {
				done <- ""
			}
		}()
		f()
	}()
	wait := 15 * time.Second
	if w.sawBlocked {
		wait = 2 * time.Second // one full wait is enough; further blocked handlers are reported without it
	}
	t0 := time.Now()
	select {
	case panicked = <-done:
	case <-time.After(wait):
		// a handler that does not return stalls the whole Run loop (every handler is synchronous there)
		panicked = "handler_blocked"
		w.sawBlocked = true
	}
	w.lastMs = time.Since(t0).Milliseconds()
	w.nline++
	w.dist[op]++
	if panicked != "" {
		site := strings.Map(func(r rune) rune {
			if r == ' ' || r == '\n' || r == '\t' {
				return '_'
			}
			return r
		}, panicked)
		if len(site) > 80 {
			site = site[:80]
		}
		fmt.Fprintf(w.w, "%s %s now=%d %s res=panic site=%s\n", op, w.caseID, w.now, fields, site)
		return false
	}
	out := w.drain(expectLoop)
	st, dbs := w.summary()
	if op == "msg" || op == "inj" {
		fields += " orec=" + orecOf(out)
	}
	fmt.Fprintf(w.w, "%s %s now=%d %s res=ok out=%s st=%s db=%s\n", op, w.caseID, w.now, fields, out, st, dbs)
	return true
}

func (w *pworld) setUpdate(gs *common.GuardianSet) bool {
	ks := make([]string, len(gs.Keys))
	for i, k := range gs.Keys {
		ks[i] = hex.EncodeToString(k.Bytes())
	}
	kf := strings.Join(ks, ",")
	if kf == "" {
		kf = "-"
	}
	var ok bool
	if w.live {
		ok = w.liveOp("set", fmt.Sprintf("index=%d keys=%s", gs.Index, kf), func(giveUp <-chan time.Time) bool {
			select {
			case w.setC <- gs:
				return true
			case <-giveUp:
				return false
			}
		}, false, nil)
	} else {
		ok = w.emit("set", fmt.Sprintf("index=%d keys=%s", gs.Index, kf), func() {
			w.p.gs = gs
			w.p.gst.Set(gs)
		}, false)
	}
	w.prev = w.gs
	w.gs = gs
	return ok
}

type pmsg struct {
	k      *common.MessagePublication
	v      *vaa.VAA // as the processor will build it, for the current set
	digest []byte
}

func (w *pworld) mkVAA(k *common.MessagePublication, gsIndex uint32) *vaa.VAA {
	return &vaa.VAA{Version: vaa.SupportedVAAVersion, GuardianSetIndex: gsIndex, Timestamp: k.Timestamp, Nonce: k.Nonce,
		EmitterChain: k.EmitterChain, TargetChain: k.TargetChain, EmitterAddress: k.EmitterAddress, Payload: k.Payload,
		Sequence: k.Sequence, ConsistencyLevel: k.ConsistencyLevel}
}

func (w *pworld) message(k *common.MessagePublication) bool {
	idx := uint32(0)
	if w.gs != nil {
		idx = w.gs.Index
	}
	v := w.mkVAA(k, idx)
	w.track(v)
	digest := v.SigningMsg().Bytes()
	oursig := psign(w.our, digest)
	fields := fmt.Sprintf("tx=%s sec=%d nsec=%d nonce=%d seq=%d cl=%d ec=%d tc=%d em=%s pl=%s dig=%s sig=%s srec=%s",
		phex(k.TxHash.Bytes()), k.Timestamp.Unix(), k.Timestamp.Nanosecond(), k.Nonce, k.Sequence, k.ConsistencyLevel,
		uint16(k.EmitterChain), uint16(k.TargetChain), hex.EncodeToString(k.EmitterAddress[:]), phex(k.Payload), phex(digest), phex(oursig), precover(digest, oursig))
	if w.live {
		return w.liveOp("msg", fields, func(giveUp <-chan time.Time) bool {
			select {
			case w.lockC <- k:
				return true
			case <-giveUp:
				return false
			}
		}, true, digest)
	}
	return w.emit("msg", fields, func() {
		w.p.handleMessage(w.ctx, k)
		if w.afterHandler != nil {
			w.afterHandler()
		}
	}, true)
}

func (w *pworld) injection(v *vaa.VAA) bool {
	w.track(v)
	digest := v.SigningMsg().Bytes()
	oursig := psign(w.our, digest)
	fields := fmt.Sprintf("v=%s dig=%s sig=%s srec=%s", pcanon(v), phex(digest), phex(oursig), precover(digest, oursig))
	if w.live {
		return w.liveOp("inj", fields, func(giveUp <-chan time.Time) bool {
			select {
			case w.injectC <- v:
				return true
			case <-giveUp:
				return false
			}
		}, true, digest)
	}
	return w.emit("inj", fields, func() { w.p.handleInjection(w.ctx, v) }, true)
}

func (w *pworld) observation(o *gossipv1.SignedObservation) bool {
	fields := fmt.Sprintf("addr=%s hash=%s sig=%s tx=%s rec=%s", phex(o.Addr), phex(o.Hash), phex(o.Signature), phex(o.TxHash), precover(o.Hash, o.Signature))
	if w.live {
		return w.liveOp("obs", fields, func(giveUp <-chan time.Time) bool {
			select {
			case w.obsvC <- o:
				return true
			case <-giveUp:
				return false
			}
		}, false, nil)
	}
	return w.emit("obs", fields, func() { w.p.handleObservation(w.ctx, o) }, false)
}

func (w *pworld) inbound(b []byte) bool {
	fields := "bytes=" + phex(b)
	// the oracle is the decoder; if it panics on these bytes the handler under test is still given them (and its panic recorded)
	v, err := func() (v *vaa.VAA, err error) {
		defer func() {
			if e := recover(); e != nil {
				v, err = nil, fmt.Errorf("decoder panic: %v", e)
			}
		}()
		return vaa.Unmarshal(b)
	}()
	if err == nil {
		w.track(v)
		d := v.SigningMsg().Bytes()
		var rp []string
		seen := map[string]bool{}
		for _, s := range v.Signatures {
			sh := hex.EncodeToString(s.Signature[:])
			if !seen[sh] {
				seen[sh] = true
				rp = append(rp, sh+":"+precover(d, s.Signature[:]))
			}
		}
		rec := strings.Join(rp, ";")
		if rec == "" {
			rec = "-"
		}
		fields += fmt.Sprintf(" dig=%s rec=%s", phex(d), rec)
	}
	if w.live {
		return w.liveOp("inb", fields, func(giveUp <-chan time.Time) bool {
			select {
			case w.inC <- &gossipv1.SignedVAAWithQuorum{Vaa: b}:
				return true
			case <-giveUp:
				return false
			}
		}, false, nil)
	}
	return w.emit("inb", fields, func() {
		w.p.handleInboundSignedVAAWithQuorum(w.ctx, &gossipv1.SignedVAAWithQuorum{Vaa: b})
	}, false)
}

func (w *pworld) cleanup(room int) bool {
	// cleanup ticks happen at half seconds, everything else at whole seconds: no comparison is ever within
	// half a second of a threshold, so real elapsed milliseconds cannot change an outcome.
	w.advance(500 * time.Millisecond)
	for len(w.reqC) > 0 {
		<-w.reqC
	}
	for i := 0; i < preqCap-room; i++ {
		w.reqC <- nil
	}
	var reqs string
	var ok bool
	if w.live {
		// the request queue has to be read before the line is written; liveOp writes the line, so wrap the tick here
		ok = w.liveOp("clean", fmt.Sprintf("room=%d", room), func(giveUp <-chan time.Time) bool {
			select {
			case w.tickC <- time.Now():
				return true
			case <-giveUp:
				return false
			}
		}, false, nil)
		if ok {
			reqs = w.drainReq()
		}
	} else {
		ok = w.emit("clean", fmt.Sprintf("room=%d", room), func() {
			w.p.handleCleanup(w.ctx)
			reqs = w.drainReq()
		}, false)
	}
	if ok && reqs != "" {
		// the request outputs are appended as their own line so that `emit`'s format stays uniform
		fmt.Fprintf(w.w, "reqs %s %s\n", w.caseID, reqs)
	} else if ok {
		fmt.Fprintf(w.w, "reqs %s -\n", w.caseID)
	}
	w.advance(500 * time.Millisecond)
	return ok
}

// cleanupDown: a cleanup tick during which the local store answers every lookup with an error that is not "not found" (its handle
// is closed for the duration of the tick, as during a shutdown / reopen). Only used where nothing pending has a stored VAA, so that
// "the lookup failed" and "nothing is stored" call for the same behaviour: the entry is kept and retried.
func (w *pworld) cleanupDown(room int) bool {
	w.advance(500 * time.Millisecond)
	for len(w.reqC) > 0 {
		<-w.reqC
	}
	for i := 0; i < preqCap-room; i++ {
		w.reqC <- nil
	}
	var reqs string
	ok := w.emit("clean", fmt.Sprintf("room=%d storedown=1", room), func() {
		w.db.Close()
		defer func() {
			nd, err := db.Open(w.dbdir)
			if err != nil {
				panic("verif: store did not reopen: " + err.Error())
			}
			w.db, w.p.db = nd, nd
		}()
		w.p.handleCleanup(w.ctx)
		reqs = w.drainReq()
	}, false)
	if ok && reqs != "" {
		fmt.Fprintf(w.w, "reqs %s %s\n", w.caseID, reqs)
	} else if ok {
		fmt.Fprintf(w.w, "reqs %s -\n", w.caseID)
	}
	w.advance(500 * time.Millisecond)
	return ok
}

// ---------------------------------------------------------------- scenario generator

func (w *pworld) randKeys(n int) []pkey {
	perm := w.r.Perm(len(w.keys))
	ks := make([]pkey, n)
	for i := range ks {
		ks[i] = w.keys[perm[i]]
	}
	return ks
}

func (w *pworld) randMsg(emitter vaa.Address, seq uint64) *common.MessagePublication {
	r := w.r
	plens := []int{0, 1, 1, 5, 5, 40, 100, 1001, 1500}
	pl := make([]byte, plens[r.Intn(len(plens))])
	r.Read(pl)
	secs := []int64{0, 1, 1700000000, 1700000000, 1700000000, 1<<32 - 1, 1 << 32, 1<<32 + 77, -5}
	var tx ethcommon.Hash
	r.Read(tx[:])
	chains := []vaa.ChainID{2, 2, 4, 255, 255, 1, 10001}
	pickChain := func() vaa.ChainID {
		if r.Intn(3) != 0 {
			return chains[r.Intn(len(chains))]
		}
		// every id around the named ones, one after the other over the run (a chain id is a 16-bit number; nothing the processor
		// does may depend on whether it has a name)
		w.chainSweep++
		return pchainSweep[w.chainSweep%len(pchainSweep)]
	}
	return &common.MessagePublication{TxHash: tx, Timestamp: time.Unix(secs[r.Intn(len(secs))], int64(r.Intn(1000000000))),
		Nonce: r.Uint32(), Sequence: seq, ConsistencyLevel: uint8(r.Intn(256)), EmitterChain: pickChain(),
		TargetChain: pickChain(), EmitterAddress: emitter, Payload: pl}
}

var pchainSweep = func() []vaa.ChainID {
	var l []vaa.ChainID
	for i := 0; i <= 40; i++ {
		l = append(l, vaa.ChainID(i))
	}
	for _, i := range []int{253, 254, 255, 256, 257, 258, 9999, 10000, 10001, 10002, 32767, 32768, 65534, 65535} {
		l = append(l, vaa.ChainID(i))
	}
	return l
}()

type pscen struct {
	msgs  []*pmsg
	loops []*gossipv1.SignedObservation
}

func (w *pworld) obsFor(k pkey, digest []byte) *gossipv1.SignedObservation {
	return &gossipv1.SignedObservation{Addr: k.addr.Bytes(), Hash: digest, Signature: psign(k, digest), TxHash: []byte{1, 2, 3}, MessageId: "x"}
}

func (w *pworld) signedVAA(base *vaa.VAA, gs *common.GuardianSet, set []pkey, idx []int) []byte {
	c := *base
	c.GuardianSetIndex = gs.Index
	c.Signatures = nil
	d := c.SigningMsg().Bytes()
	for _, i := range idx {
		var s [65]byte
		copy(s[:], psign(set[i], d))
		c.Signatures = append(c.Signatures, &vaa.Signature{Index: uint8(i), Signature: s})
	}
	b, err := c.Marshal()
	if err != nil { // an encoder that refuses this value (e.g. an empty payload): the wire form written by hand
		b = pencode(&c)
	}
	return b
}

// pencode: the wire form of a VAA, written without the encoder under test (version, set index, signature count, signatures, body).
func pencode(v *vaa.VAA) []byte {
	b := []byte{v.Version, byte(v.GuardianSetIndex >> 24), byte(v.GuardianSetIndex >> 16), byte(v.GuardianSetIndex >> 8), byte(v.GuardianSetIndex), byte(len(v.Signatures))}
	for _, s := range v.Signatures {
		b = append(b, s.Index)
		b = append(b, s.Signature[:]...)
	}
	ts := uint32(v.Timestamp.Unix())
	b = append(b, byte(ts>>24), byte(ts>>16), byte(ts>>8), byte(ts))
	b = append(b, byte(v.Nonce>>24), byte(v.Nonce>>16), byte(v.Nonce>>8), byte(v.Nonce))
	b = append(b, byte(v.EmitterChain>>8), byte(v.EmitterChain), byte(v.TargetChain>>8), byte(v.TargetChain))
	b = append(b, v.EmitterAddress[:]...)
	for i := 7; i >= 0; i-- {
		b = append(b, byte(v.Sequence>>(8*uint(i))))
	}
	b = append(b, v.ConsistencyLevel)
	return append(b, v.Payload...)
}

func (w *pworld) scenario(id string, thorough bool) {
	r := w.r
	n := 1 + r.Intn(19)
	if r.Intn(4) == 0 {
		n = 1 + r.Intn(4)
	}
	set := w.randKeys(n + 3)
	outsiders := set[n:]
	set = set[:n]
	our := set[r.Intn(n)]
	if r.Intn(6) == 0 {
		our = outsiders[2]
	}
	w.reset(id, our)
	mkgs := func(index uint32, ks []pkey) *common.GuardianSet {
		g := &common.GuardianSet{Index: index}
		for _, k := range ks {
			g.Keys = append(g.Keys, k.addr)
		}
		return g
	}
	gs0 := mkgs(uint32(r.Intn(5)), set)
	var emitter vaa.Address
	r.Read(emitter[:])
	seq := uint64(r.Intn(1000))
	var msgs []*pmsg
	var future []*pmsg
	var pendingLoops []*gossipv1.SignedObservation
	curSet := set
	var prevSet []pkey
	steps := 25 + r.Intn(40)
	if thorough {
		steps += 40
	}
	alive := true
	do := func(ok bool) {
		if !ok {
			alive = false
		}
	}
	collectLoop := func(m *pmsg) {
		// whatever handleMessage looped back is in the last line's output; rebuild it for later delivery
		if w.gs != nil || true {
			pendingLoops = append(pendingLoops, w.obsFor(w.our, m.digest))
		}
	}
	newMsg := func() *pmsg {
		seq++
		k := w.randMsg(emitter, seq)
		idx := uint32(0)
		if w.gs != nil {
			idx = w.gs.Index
		}
		v := w.mkVAA(k, idx)
		return &pmsg{k: k, v: v, digest: v.SigningMsg().Bytes()}
	}
	// optionally: traffic before the first guardian set is known
	if r.Intn(3) == 0 {
		m := newMsg()
		switch r.Intn(4) {
		case 0:
			do(w.message(m.k))
		case 1:
			iv := w.mkVAA(w.randMsg(pgovEmitter, uint64(r.Intn(100))), 0)
			iv.EmitterChain = pgovChain
			do(w.injection(iv))
			if alive && r.Intn(2) == 0 {
				w.advance(31 * time.Second)
				do(w.cleanup(preqCap))
			}
		case 2:
			do(w.observation(w.obsFor(set[0], m.digest)))
		case 3:
			do(w.inbound(w.signedVAA(m.v, gs0, set, []int{0})))
		}
	}
	if !alive {
		return
	}
	do(w.setUpdate(gs0))
	for step := 0; step < steps && alive; step++ {
		c := r.Intn(100)
		switch {
		case c < 12 || len(msgs) == 0: // new local observation
			m := newMsg()
			if r.Intn(12) == 0 {
				m.k.Payload = nil
				m.v = w.mkVAA(m.k, w.gs.Index)
				m.digest = m.v.SigningMsg().Bytes()
			}
			// sometimes guardians' observations arrive before ours
			if r.Intn(3) == 0 {
				for _, i := range r.Perm(len(curSet))[:r.Intn(len(curSet)+1)] {
					do(w.observation(w.obsFor(curSet[i], m.digest)))
				}
			}
			if !alive {
				break
			}
			do(w.message(m.k))
			msgs = append(msgs, m)
			collectLoop(m)
			if r.Intn(2) == 0 && len(pendingLoops) > 0 && alive {
				do(w.observation(pendingLoops[len(pendingLoops)-1]))
				pendingLoops = pendingLoops[:len(pendingLoops)-1]
			}
		case c < 50: // a guardian's valid observation for a known message
			m := msgs[r.Intn(len(msgs))]
			ks := curSet
			if prevSet != nil && r.Intn(3) == 0 {
				ks = prevSet
			}
			do(w.observation(w.obsFor(ks[r.Intn(len(ks))], m.digest)))
		case c < 55 && len(pendingLoops) > 0: // deliver a delayed loopback
			i := r.Intn(len(pendingLoops))
			do(w.observation(pendingLoops[i]))
			pendingLoops = append(pendingLoops[:i], pendingLoops[i+1:]...)
		case c < 68: // invalid traffic
			m := msgs[r.Intn(len(msgs))]
			k := curSet[r.Intn(len(curSet))]
			o := w.obsFor(k, m.digest)
			switch r.Intn(16) {
			case 14, 15:
				// the same signature with an Ethereum-style recovery id (27 / 28, or the EIP-155 35 / 36): not what the VAA format
				// carries; VerifySignatures and both contracts' callers expect 0 / 1 here
				o.Signature[64] += []byte{27, 35}[r.Intn(2)]
			case 11:
				o.Signature = o.Signature[:[]int{0, 1, 32, 63}[r.Intn(4)]] // short / empty signature (possibly from a guardian who already signed)
			case 12:
				o.Signature = nil
			case 13:
				o.Addr = nil
			case 0:
				o.Signature[r.Intn(64)] ^= 1 << uint(r.Intn(8))
			case 1:
				o = w.obsFor(outsiders[r.Intn(2)], m.digest) // valid signature by a non-member
			case 2:
				o.Addr = curSet[(r.Intn(len(curSet)))].addr.Bytes() // member claiming (maybe) another member's address
			case 3:
				other := make([]byte, 32)
				r.Read(other)
				o.Signature = psign(k, other) // signature over another digest
			case 4:
				o.Hash = o.Hash[:31]
			case 5:
				o.Signature = o.Signature[:64]
			case 6:
				o.Signature = append(o.Signature, 0)
			case 7:
				o.Addr = append([]byte{0xde, 0xad}, o.Addr...) // 22-byte address: BytesToAddress keeps the last 20
			case 8:
				o.Addr = o.Addr[1:]
			case 9:
				o.Signature[64] = byte(4 + r.Intn(200))
			case 10:
				o.Hash = append([]byte{}, o.Hash...)
				o.Hash[r.Intn(32)] ^= 1 // unknown digest, signature no longer matches
			}
			do(w.observation(o))
		case c < 70 && r.Intn(2) == 0: // observations for a message the node will only observe later (maybe after a set update)
			m := newMsg()
			future = append(future, m)
			for _, i := range r.Perm(len(curSet))[:1+r.Intn(len(curSet))] {
				do(w.observation(w.obsFor(curSet[i], m.digest)))
			}
		case c < 72 && len(future) > 0: // … now it does
			m := future[0]
			future = future[1:]
			do(w.message(m.k))
			if alive {
				msgs = append(msgs, m)
				collectLoop(m)
			}
		case c < 72: // observation for a digest we never observed (parked, later expired)
			d := make([]byte, 32)
			r.Read(d)
			do(w.observation(w.obsFor(curSet[r.Intn(len(curSet))], d)))
		case c < 77: // re-observe a message (idempotence / settlement rule)
			m := msgs[r.Intn(len(msgs))]
			k2 := *m.k
			if r.Intn(2) == 0 {
				k2.Timestamp = k2.Timestamp.Add(time.Duration(r.Intn(62)) * time.Second)
			}
			do(w.message(&k2))
			if k2.Timestamp.Unix() == m.k.Timestamp.Unix() {
				collectLoop(m)
			} else if alive {
				// same message id, other body (a re-emission after a source-chain reorg): a message of its own from here on -
				// other guardians sign it too, and when it completes it is stored under the id the first one is stored under
				idx := uint32(0)
				if w.gs != nil {
					idx = w.gs.Index
				}
				v2 := w.mkVAA(&k2, idx)
				m2 := &pmsg{k: &k2, v: v2, digest: v2.SigningMsg().Bytes()}
				msgs = append(msgs, m2)
				collectLoop(m2)
			}
		case c < 85: // inbound signed VAA
			var base *vaa.VAA
			if r.Intn(3) == 0 {
				base = newMsg().v
			} else {
				base = msgs[r.Intn(len(msgs))].v
			}
			q := CalculateQuorum(len(curSet))
			perm := r.Perm(len(curSet))
			cnt := q
			kind := r.Intn(14)
			if kind == 0 && q > 1 {
				cnt = q - 1
			}
			if kind == 1 {
				cnt = len(curSet)
			}
			idx := append([]int{}, perm[:cnt]...)
			sort.Ints(idx)
			ks, g := curSet, w.gs
			if kind == 2 && prevSet != nil {
				ks, g = prevSet, w.prev
				q2 := CalculateQuorum(len(ks))
				idx = nil
				for i := 0; i < q2; i++ {
					idx = append(idx, i)
				}
			}
			b := w.signedVAA(base, g, ks, idx)
			switch kind {
			case 3:
				if len(idx) >= 2 { // wrong order
					idx[0], idx[1] = idx[1], idx[0]
					b = w.signedVAA(base, g, ks, idx)
				}
			case 4:
				b[len(b)-1] ^= 1 // body flipped after signing
			case 5:
				b = b[:r.Intn(len(b))]
			case 6:
				b[6+1+r.Intn(64)] ^= 4 // corrupt first signature
			case 7:
				b[4] ^= 1 // other set index in the header: still verifies against the current set
			case 9:
				if len(idx) >= 2 { // the two highest indices out of order
					idx[len(idx)-1], idx[len(idx)-2] = idx[len(idx)-2], idx[len(idx)-1]
					b = w.signedVAA(base, g, ks, idx)
				}
			case 10:
				// one guardian (preferably a high index) repeated quorum-many times
				one := len(ks) - 1 - r.Intn(1+len(ks)/4)
				rep := make([]int, q)
				for i := range rep {
					rep[i] = one
				}
				b = w.signedVAA(base, g, ks, rep)
			case 11:
				// a valid quorum with the last signature duplicated
				b = w.signedVAA(base, g, ks, append(append([]int{}, idx...), idx[len(idx)-1]))
			case 13:
				b = w.signedVAA(base, g, ks, nil) // no signatures at all
			case 12:
				// quorum-1 distinct signers plus one of them again
				if len(idx) >= 2 {
					d2 := append([]int{}, idx[:len(idx)-1]...)
					d2 = append(d2, d2[len(d2)-1])
					b = w.signedVAA(base, g, ks, d2)
				}
			}
			do(w.inbound(b))
			if alive && (kind == 8 || kind == 1) && r.Intn(2) == 0 {
				// a second VAA that lifts the signature records of the one just delivered (genuine, possibly just verified and
				// stored) onto another message's body: every signature is a valid signature of a member - over another digest
				if gen, err := vaa.Unmarshal(b); err == nil {
					other := newMsg().v
					forged := *other
					forged.GuardianSetIndex = gen.GuardianSetIndex
					forged.Signatures = gen.Signatures
					if fb, err := forged.Marshal(); err == nil {
						do(w.inbound(fb))
					}
				}
			}
		case c < 88 && r.Intn(12) == 0: // a guardian set without keys is delivered, some traffic, then a proper set again
			saved := curSet
			do(w.setUpdate(mkgs(w.gs.Index+1, nil)))
			if alive {
				m := newMsg()
				do(w.message(m.k))
				if alive {
					msgs = append(msgs, m)
					collectLoop(m)
					do(w.observation(w.obsFor(saved[r.Intn(len(saved))], m.digest)))
				}
			}
			if alive {
				do(w.inbound(w.signedVAA(newMsg().v, w.prev, saved, []int{0})))
			}
			if alive && r.Intn(2) == 0 {
				w.advance(31 * time.Second)
				do(w.cleanup(preqCap))
			}
			if alive {
				prevSet = saved
				do(w.setUpdate(mkgs(w.gs.Index+1, saved)))
			}
		case c < 88: // guardian-set update
			if w.gs.Index < 1<<31 {
				ns := append([]pkey{}, curSet...)
				switch r.Intn(4) {
				case 3:
					// full rotation: a fresh set of another size, sharing few or no keys with the old one
					ns = w.randKeys(1 + r.Intn(6))
				case 0:
					ns[r.Intn(len(ns))] = outsiders[r.Intn(2)]
				case 1:
					if len(ns) > 1 {
						ns = ns[:len(ns)-1]
					}
				case 2:
					ns = append(ns, outsiders[r.Intn(2)])
				}
				// keep addresses distinct
				seen := map[ethcommon.Address]bool{}
				var uniq []pkey
				for _, k := range ns {
					if !seen[k.addr] {
						seen[k.addr] = true
						uniq = append(uniq, k)
					}
				}
				prevSet = curSet
				curSet = uniq
				do(w.setUpdate(mkgs(w.gs.Index+1, curSet)))
			}
		case c < 91: // injection
			iv := w.mkVAA(w.randMsg(pgovEmitter, uint64(r.Intn(1000))), uint32(r.Intn(4)))
			iv.EmitterChain = pgovChain
			if len(iv.Payload) == 0 {
				iv.Payload = []byte{1}
			}
			do(w.injection(iv))
			pendingLoops = append(pendingLoops, w.obsFor(w.our, iv.SigningMsg().Bytes()))
		case c < 93: // chain message from the governance emitter: must never be signed
			k := w.randMsg(pgovEmitter, uint64(r.Intn(1000)))
			k.EmitterChain = pgovChain
			do(w.message(k))
		default: // time passes, cleanup tick
			adv := []int{0, 1, 5, 29, 30, 31, 60, 299, 300, 301, 600, 3599, 3600, 3601, 7200}
			w.advance(time.Duration(adv[r.Intn(len(adv))]) * time.Second)
			room := preqCap
			if r.Intn(4) == 0 {
				room = r.Intn(3)
			}
			do(w.cleanup(room))
		}
	}
	// tail: a few long ticks so that expiry paths are reached in most scenarios
	for i := 0; i < 3 && alive; i++ {
		adv := []int{301, 3601, 31}
		w.advance(time.Duration(adv[i]) * time.Second)
		do(w.cleanup(preqCap))
	}
}

// permutation family (C02): the same multiset of events in every order, each on a fresh processor.
func (w *pworld) permFamily(id string, n int) {
	r := w.r
	set := w.randKeys(n)
	our := set[r.Intn(n)]
	var emitter vaa.Address
	r.Read(emitter[:])
	k := w.randMsg(emitter, uint64(r.Intn(1000)))
	if len(k.Payload) == 0 {
		k.Payload = []byte{9}
	}
	gs := &common.GuardianSet{Index: 3}
	for _, x := range set {
		gs.Keys = append(gs.Keys, x.addr)
	}
	v := w.mkVAA(k, gs.Index)
	d := v.SigningMsg().Bytes()
	// abstract events: 0 = local message, 1 = own loopback, 2+j = valid observation by guardian j (others, up to quorum-1), -1 = forged
	_ = v
	_ = d
	evs := []int{0, 1}
	q := CalculateQuorum(n)
	cnt := 0
	for j, x := range set {
		if x.addr != our.addr && cnt < q-1 {
			evs = append(evs, 2+j)
			cnt++
		}
	}
	evs = append(evs, -1)
	if len(evs) > 6 {
		evs = evs[:6]
	}
	var perms [][]int
	var gen func(a []int, k int)
	gen = func(a []int, k int) {
		if k == len(a) {
			perms = append(perms, append([]int{}, a...))
			return
		}
		for i := k; i < len(a); i++ {
			a[k], a[i] = a[i], a[k]
			gen(a, k+1)
			a[k], a[i] = a[i], a[k]
		}
	}
	gen(append([]int{}, evs...), 0)
	for pi, p := range perms {
		// causal validity: the loopback cannot precede the local message
		pos := map[int]int{}
		for i, e := range p {
			pos[e] = i
		}
		if pos[1] < pos[0] {
			continue
		}
		emitter[31] = byte(pi)
		emitter[30] = byte(pi >> 8)
		k2 := *k
		k2.EmitterAddress = emitter
		v2 := w.mkVAA(&k2, gs.Index)
		d2 := v2.SigningMsg().Bytes()
		w.reset(fmt.Sprintf("%s.%d", id, pi), our)
		if !w.setUpdate(gs) {
			return
		}
		for _, e := range p {
			ok := true
			switch {
			case e == 0:
				ok = w.message(&k2)
			case e == 1:
				ok = w.observation(w.obsFor(our, d2))
			case e == -1:
				o := w.obsFor(set[0], d2)
				o.Signature[3] ^= 1
				ok = w.observation(o)
			default:
				ok = w.observation(w.obsFor(set[e-2], d2))
			}
			if !ok {
				return
			}
		}
	}
}

// rotation families (C01/C02/C03): short directed scripts around a guardian-set rotation A -> B, the interleavings in which
// "current set" and "set in force at observation time" differ.  Sizes, overlap, own position and the script are random.
func (w *pworld) rotationFamily(id string) {
	r := w.r
	nA, nB := 1+r.Intn(7), 1+r.Intn(7)
	pool := w.randKeys(nA + nB)
	setA := pool[:nA]
	mn := nA
	if nB < mn {
		mn = nB
	}
	shared := r.Intn(mn + 1)
	setB := append([]pkey{}, setA[:shared]...)
	setB = append(setB, pool[nA:nA+nB-shared]...)
	r.Shuffle(len(setB), func(a, b int) { setB[a], setB[b] = setB[b], setB[a] })
	our := setA[r.Intn(nA)]
	if shared > 0 && r.Intn(3) != 0 {
		our = setA[r.Intn(shared)]
	}
	mk := func(index uint32, ks []pkey) *common.GuardianSet {
		g := &common.GuardianSet{Index: index}
		for _, k := range ks {
			g.Keys = append(g.Keys, k.addr)
		}
		return g
	}
	gA, gB := mk(7, setA), mk(8, setB)
	w.reset(id, our)
	var emitter vaa.Address
	r.Read(emitter[:])
	k := w.randMsg(emitter, uint64(1+r.Intn(1000)))
	if len(k.Payload) == 0 {
		k.Payload = []byte{3}
	}
	d := w.mkVAA(k, 0).SigningMsg().Bytes()
	ok := true
	step := func(b bool) {
		if !b {
			ok = false
		}
		if ok && w.live && r.Intn(5) == 0 {
			ok = w.rerun()
		}
	}
	obsAll := func(ks []pkey, n int) {
		for _, i := range r.Perm(len(ks)) {
			if n <= 0 || !ok {
				return
			}
			step(w.observation(w.obsFor(ks[i], d)))
			n--
		}
	}
	quorumOf := func(ks []pkey) []int {
		q := CalculateQuorum(len(ks))
		idx := append([]int{}, r.Perm(len(ks))[:q]...)
		sort.Ints(idx)
		return idx
	}
	base := w.mkVAA(k, 0)
	step(w.setUpdate(gA))
	switch r.Intn(8) {
	case 7: // members of A sign a digest this node has not observed; a tick passes the settlement mark; rotation to B; then members
		// that are ONLY in A sign it too: the applicable set for a digest the node never observed is the current one
		obsAll(setA, 1)
		if ok {
			w.advance(31 * time.Second)
			step(w.cleanup(preqCap))
		}
		step(ok && w.setUpdate(gB))
		obsAll(setA, nA)
		obsAll(setB, nB)
	case 6: // published and stored under A; the entry ages out (an hour, or a restart: only the store remembers); rotation; the
		// message is observed again with its own block time (inside the settlement window) and the members of B sign
		step(w.message(k))
		step(ok && w.observation(w.obsFor(our, d)))
		obsAll(setA, nA)
		if ok {
			w.advance(31 * time.Second)
			step(w.cleanup(preqCap))
		}
		if ok {
			w.advance(3601 * time.Second)
			step(w.cleanup(preqCap))
		}
		step(ok && w.setUpdate(gB))
		step(ok && w.message(k))
		step(ok && w.observation(w.obsFor(our, d)))
		obsAll(setB, nB)
		obsAll(setA, nA)
	case 0: // parked under A, rotation, local observation under B, then B members
		obsAll(setA, 1+r.Intn(nA))
		step(ok && w.setUpdate(gB))
		step(ok && w.message(k))
		step(ok && w.observation(w.obsFor(our, d)))
		obsAll(setB, nB)
		obsAll(setA, nA)
	case 1: // observed under A, rotation before quorum, then observations from both sets, then inbound copies
		step(w.message(k))
		step(ok && w.observation(w.obsFor(our, d)))
		obsAll(setA, r.Intn(CalculateQuorum(nA)))
		step(ok && w.setUpdate(gB))
		obsAll(setB, nB)
		step(ok && w.inbound(w.signedVAA(base, gB, setB, quorumOf(setB))))
		step(ok && w.inbound(w.signedVAA(base, gA, setA, quorumOf(setA))))
		obsAll(setA, nA)
	case 2: // a peer's quorum VAA arrives while we are still collecting; then we reach quorum ourselves
		step(w.message(k))
		obsAll(setA, r.Intn(CalculateQuorum(nA)))
		step(ok && w.inbound(w.signedVAA(base, gA, setA, quorumOf(setA))))
		step(ok && w.observation(w.obsFor(our, d)))
		obsAll(setA, nA)
		step(ok && w.inbound(w.signedVAA(base, gA, setA, quorumOf(setA))))
	case 3: // published under A, rotation, message observed again (snapshot moves to B), B members sign
		step(w.message(k))
		step(ok && w.observation(w.obsFor(our, d)))
		obsAll(setA, nA)
		step(ok && w.setUpdate(gB))
		step(ok && w.message(k))
		step(ok && w.observation(w.obsFor(our, d)))
		obsAll(setB, nB)
	case 4: // under quorum for A, rotation to B for which the held signatures may already suffice, re-observation
		step(w.message(k))
		step(ok && w.observation(w.obsFor(our, d)))
		obsAll(setA[:shared], shared)
		step(ok && w.setUpdate(gB))
		step(ok && w.message(k))
		step(ok && w.observation(w.obsFor(our, d)))
		obsAll(setB, r.Intn(nB+1))
	case 5: // rotation, inbound VAAs signed by the old and by the new set for a message never observed locally, then observed
		step(w.setUpdate(gB))
		step(ok && w.inbound(w.signedVAA(base, gA, setA, quorumOf(setA))))
		step(ok && w.inbound(w.signedVAA(base, gB, setB, quorumOf(setB))))
		step(ok && w.message(k))
		step(ok && w.observation(w.obsFor(our, d)))
		obsAll(setB, nB)
	}
	if ok {
		w.advance(31 * time.Second)
		step(w.cleanup(preqCap))
	}
	if ok {
		w.advance(300 * time.Second)
		step(w.cleanup(preqCap))
	}
}

// soak (C14): a pending chain message and a pending injected VAA that never reach quorum, ticked every ~5 minutes.
// quick: 14 ticks (past the 10-retry mark); thorough: the whole 14400-retry budget, with the message re-delivered after
// every retry as a watcher honouring the re-observation request would do.
// gaps: the time between ticks cycles through this list ("including long stalls between ticks"); nil = five minutes
func (w *pworld) soak(id string, ticks int, redeliver bool, gaps []time.Duration) {
	r := w.r
	set := w.randKeys(4)
	w.reset(id, set[0])
	gs := &common.GuardianSet{Index: 1}
	for _, x := range set {
		gs.Keys = append(gs.Keys, x.addr)
	}
	if !w.setUpdate(gs) {
		return
	}
	var emitter vaa.Address
	r.Read(emitter[:])
	k := w.randMsg(emitter, 1)
	k.Payload = []byte{1, 2, 3}
	if !w.message(k) {
		return
	}
	d := w.mkVAA(k, gs.Index).SigningMsg().Bytes()
	if !w.observation(w.obsFor(set[0], d)) {
		return
	}
	iv := w.mkVAA(w.randMsg(pgovEmitter, 5), 1)
	iv.EmitterChain = pgovChain
	iv.Payload = []byte{9}
	if !w.injection(iv) {
		return
	}
	// signatures for a digest nobody observed locally
	park := make([]byte, 32)
	r.Read(park)
	if !w.observation(w.obsFor(set[1], park)) {
		return
	}
	w.advance(31 * time.Second)
	if !w.cleanup(preqCap) {
		return
	}
	for i := 0; i < ticks; i++ {
		gap := 300 * time.Second
		if len(gaps) > 0 {
			gap = gaps[i%len(gaps)]
		}
		w.advance(gap)
		if i == w.downTick && !w.live {
			if !w.cleanupDown(preqCap) {
				return
			}
		} else if !w.cleanup(preqCap) {
			return
		}
		if redeliver {
			if !w.message(k) {
				return
			}
		}
	}
}

// big-set family (C01/C02/C07/C13): guardian sets beyond the 19 keys of today's mainnet set, up to the 255 the one-byte wire
// count allows. Own key at a random position; observations in random order up to quorum + 2; an inbound VAA for another
// message with exactly quorum and with quorum - 1 signatures (taken from the upper end of the set); settle tick.
func (w *pworld) bigSetFamily(id string, n int) {
	r := w.r
	set := make([]pkey, n)
	for i := range set {
		set[i] = pnewKey()
	}
	own := r.Intn(n)
	if n > 130 && r.Intn(2) == 0 {
		own = 128 + r.Intn(n-128)
	}
	w.reset(id, set[own])
	gs := &common.GuardianSet{Index: 3}
	for _, x := range set {
		gs.Keys = append(gs.Keys, x.addr)
	}
	if !w.setUpdate(gs) {
		return
	}
	var emitter vaa.Address
	r.Read(emitter[:])
	k := w.randMsg(emitter, 1)
	if !w.message(k) {
		return
	}
	d := w.mkVAA(k, gs.Index).SigningMsg().Bytes()
	q := (n*2)/3 + 1
	order := r.Perm(n)
	sent := 0
	for _, i := range order {
		if sent >= q+2 {
			break
		}
		if i == own {
			continue
		}
		if !w.observation(w.obsFor(set[i], d)) {
			return
		}
		sent++
		if sent == q/2 {
			// own loopback somewhere in the middle
			if !w.observation(w.obsFor(set[own], d)) {
				return
			}
		}
	}
	// inbound VAAs for a message this node never saw: quorum - 1 (rejected) and exactly quorum (stored), top indices
	k2 := w.randMsg(emitter, 2)
	base := w.mkVAA(k2, gs.Index)
	top := func(c int) []int {
		var ix []int
		for i := n - c; i < n; i++ {
			ix = append(ix, i)
		}
		return ix
	}
	if q >= 2 {
		if !w.inbound(w.signedVAA(base, gs, set, top(q-1))) {
			return
		}
	}
	if !w.inbound(w.signedVAA(base, gs, set, top(q))) {
		return
	}
	w.advance(31 * time.Second)
	w.cleanup(preqCap)
}

// full-queue family (C02 / C14 / C17): (1) the node's own observation is looped back even when the observation queue is full at
// the moment the message is handled (the queue holds 50 entries in production; under gossip load it is full now and then) - the
// loopback has to wait for room, not be dropped; (2) a retry tick that finds the outbound request queue full drops the request,
// still re-broadcasts the observation, and returns.
func (w *pworld) fullQueueFamily(id string) {
	r := w.r
	set := w.randKeys(4)
	w.reset(id, set[1])
	gs := &common.GuardianSet{Index: 2}
	for _, x := range set {
		gs.Keys = append(gs.Keys, x.addr)
	}
	if !w.setUpdate(gs) {
		return
	}
	// the broadcast queue as node.go wires it: UNBUFFERED, with a consumer (the p2p loop) that takes one message at a time and
	// needs a moment for each; the consumer polls, and take + hand-over to the harness' own buffer happen under one lock
	unbuf := make(chan []byte)
	w.p.sendC = unbuf
	w.fwdMu = &sync.Mutex{}
	stopFwd := make(chan struct{})
	fwdDone := make(chan struct{})
	go func(mu *sync.Mutex) {
		defer close(fwdDone)
		for {
			select {
			case <-stopFwd:
				return
			default:
			}
			mu.Lock()
			select {
			case m := <-unbuf:
				w.sendC <- m
			default:
			}
			mu.Unlock()
			time.Sleep(50 * time.Microsecond)
		}
	}(w.fwdMu)
	defer func() { close(stopFwd); <-fwdDone; w.fwdMu = nil }()
	var emitter vaa.Address
	r.Read(emitter[:])
	k := w.randMsg(emitter, 1)
	// a two-slot observation queue, full of other guardians' traffic while handleMessage runs
	small := make(chan *gossipv1.SignedObservation, 2)
	w.obsvC, w.p.obsvC = small, small
	junk := make([]byte, 32)
	r.Read(junk)
	small <- w.obsFor(set[2], junk)
	small <- w.obsFor(set[3], junk)
	w.afterHandler = func() {
		// Run takes the queued observations next: room appears and the waiting loopback goes in
		<-small
		<-small
	}
	ok := w.message(k)
	w.afterHandler = nil
	if !ok {
		return
	}
	d := w.mkVAA(k, gs.Index).SigningMsg().Bytes()
	if !w.observation(w.obsFor(set[1], d)) {
		return
	}
	if !w.observation(w.obsFor(set[0], d)) {
		return
	}
	// three more messages of the same emitter that only this node has signed: four retransmissions fall due together
	for i := 0; i < 3; i++ {
		if !w.message(w.randMsg(emitter, uint64(2+i))) {
			return
		}
	}
	// no quorum (2 of 4): five minutes later the retry is due; the request queue is full
	w.advance(301 * time.Second)
	if !w.cleanup(0) { // (the first tick after the settlement time only marks the entries settled)
		return
	}
	w.advance(300 * time.Second)
	if !w.cleanup(1) {
		return
	}
	var ms []int64
	for i := 0; i < 2; i++ {
		w.advance(300 * time.Second)
		if !w.cleanup(0) {
			return
		}
		ms = append(ms, w.lastMs)
	}
	// "posting to a full outbound request queue fails immediately instead of stalling the caller": the shorter of the two ticks
	least := ms[0]
	if ms[1] < least {
		least = ms[1]
	}
	fmt.Fprintf(w.w, "stall %s due=4 ms=%d all=%d,%d\n", w.caseID, least, ms[0], ms[1])
	w.observation(w.obsFor(set[2], d))
}

// truncation family (C13): gossiped SignedVAAWithQuorum messages are unauthenticated bytes. Every prefix length around the end of
// the fixed part of the body (and around the end of the signature block) of a well-formed VAA with 0..3 signatures, plus the
// same with a wrong version byte and with a signature count that promises more than is there.
func (w *pworld) truncFamily(id string) {
	r := w.r
	set := w.randKeys(4)
	w.reset(id, set[0])
	gs := &common.GuardianSet{Index: 3}
	for _, x := range set {
		gs.Keys = append(gs.Keys, x.addr)
	}
	if !w.setUpdate(gs) {
		return
	}
	var emitter vaa.Address
	r.Read(emitter[:])
	k := w.randMsg(emitter, uint64(r.Intn(100)))
	k.Payload = make([]byte, 1+r.Intn(4))
	r.Read(k.Payload)
	base := w.mkVAA(k, gs.Index)
	for nsig := 0; nsig <= 3; nsig++ {
		full := w.signedVAA(base, gs, set, []int{0, 1, 2, 3}[:nsig])
		hdr := 6 + 66*nsig
		lens := map[int]bool{}
		for l := hdr - 2; l <= hdr+2; l++ {
			lens[l] = true
		}
		for l := hdr + 40; l <= len(full); l++ {
			lens[l] = true
		}
		var ls []int
		for l := range lens {
			if l >= 0 && l <= len(full) {
				ls = append(ls, l)
			}
		}
		sort.Ints(ls)
		for _, l := range ls {
			b := append([]byte{}, full[:l]...)
			switch r.Intn(6) {
			case 0:
				if len(b) > 0 {
					b[0] = 2
				}
			case 1:
				if len(b) > 5 {
					b[5]++ // one more signature promised than present
				}
			}
			if !w.inbound(b) {
				return
			}
		}
	}
}

// SCALE: flood family (C14). The node has signed a message that lacks quorum; one guardian then delivers `n` valid observations
// for `n` distinct digests this node never observed (a guardian catching up after an outage, or a misbehaving one) - all inside
// the five minutes such entries live. The node's own entry is by then the oldest in the map: it must still be retried when due and
// must not be discarded. The flood is ONE line (`flood`: digest i = le32(i) ++ sfx, all signatures, the state after the last one);
// the driver expands it into the n observations and runs each through the model.
func (w *pworld) floodFamily(id string, n int) {
	r := w.r
	set := w.randKeys(4)
	w.reset(id, set[0])
	gs := &common.GuardianSet{Index: 1}
	for _, x := range set {
		gs.Keys = append(gs.Keys, x.addr)
	}
	if !w.setUpdate(gs) {
		return
	}
	var emitter vaa.Address
	r.Read(emitter[:])
	k := w.randMsg(emitter, 1)
	k.Payload = []byte{7, 7}
	if !w.message(k) {
		return
	}
	d := w.mkVAA(k, gs.Index).SigningMsg().Bytes()
	if !w.observation(w.obsFor(set[0], d)) {
		return
	}
	w.advance(31 * time.Second)
	if !w.cleanup(preqCap) {
		return
	}
	sfx := make([]byte, 28)
	r.Read(sfx)
	obs := make([]*gossipv1.SignedObservation, n)
	sigs := make([]string, n)
	for i := range obs {
		h := append([]byte{byte(i), byte(i >> 8), byte(i >> 16), byte(i >> 24)}, sfx...)
		obs[i] = w.obsFor(set[1], h)
		sigs[i] = hex.EncodeToString(obs[i].Signature)
	}
	ok := w.emit("flood", fmt.Sprintf("addr=%s n=%d sfx=%s sigs=%s", phex(set[1].addr.Bytes()), n, phex(sfx), strings.Join(sigs, ",")), func() {
		for _, o := range obs {
			w.p.handleObservation(w.ctx, o)
		}
	}, false)
	if !ok {
		return
	}
	// 299 s after the flood began: the flood's entries are still young, the node's own entry is due for its first retry
	w.advance(299 * time.Second)
	if !w.cleanup(preqCap) {
		return
	}
	// the flood ages out; the own entry is retried again
	w.advance(300 * time.Second)
	if !w.cleanup(preqCap) {
		return
	}
	w.advance(300 * time.Second)
	w.cleanup(preqCap)
}

// SCALE: remote-first family (C02). `n` messages, each delivered in the order: another guardian's observation first, then the local
// observation and its loopback (quorum of a two-guardian set: published), then the entry ages out. After that a message delivered in
// the same order must still be published as soon as the quorum has been delivered - however many went before.
func (w *pworld) remoteFirstFamily(id string, n int) {
	r := w.r
	set := w.randKeys(2)
	w.reset(id, set[0])
	gs := &common.GuardianSet{Index: 4}
	for _, x := range set {
		gs.Keys = append(gs.Keys, x.addr)
	}
	if !w.setUpdate(gs) {
		return
	}
	var emitter vaa.Address
	r.Read(emitter[:])
	for i := 0; i < n; i++ {
		k := w.randMsg(emitter, uint64(i))
		k.Payload = []byte{byte(i), byte(i >> 8), 1}
		k.Timestamp = time.Unix(1700000000+int64(i), 0)
		d := w.mkVAA(k, gs.Index).SigningMsg().Bytes()
		if !w.observation(w.obsFor(set[1], d)) || !w.message(k) || !w.observation(w.obsFor(set[0], d)) {
			return
		}
		// every 16 messages the completed entries age out (an hour and more of uptime): the map is empty again
		if i%16 == 15 {
			w.advance(31 * time.Second)
			if !w.cleanup(preqCap) {
				return
			}
			w.advance(3601 * time.Second)
			if !w.cleanup(preqCap) {
				return
			}
			// a new case id for the SAME processor: with an empty aggregation map the model may start afresh (its store forgets the
			// VAAs of the messages so far, whose ids never come up again), which keeps every line's state and store dump small
			if len(w.p.state.vaaSignatures) == 0 {
				w.caseID = fmt.Sprintf("%s.%d", id, i/16+1)
				w.ids = map[string]vaa.VAAID{}
				fmt.Fprintf(w.w, "reset %s our=%s govchain=%d govemitter=%s\n", w.caseID, hex.EncodeToString(w.our.addr.Bytes()), pgovChain, hex.EncodeToString(pgovEmitter[:]))
				if !w.setUpdate(gs) {
					return
				}
			}
		}
	}
}

// look-alike family (C14 / C12): the store holds the quorum VAA of sequence 120 (and 10, 1000) of an emitter while its sequences
// 12 (1, 100) are still pending without quorum: a pending entry is dropped as "late" only if a quorum VAA for ITS message is stored -
// not one whose key merely starts the same.
func (w *pworld) lookAlikeFamily(id string) {
	r := w.r
	set := w.randKeys(3)
	w.reset(id, set[0])
	gs := &common.GuardianSet{Index: 1}
	for _, x := range set {
		gs.Keys = append(gs.Keys, x.addr)
	}
	if !w.setUpdate(gs) {
		return
	}
	var emitter vaa.Address
	r.Read(emitter[:])
	pairs := [][2]uint64{{12, 120}, {1, 10}, {100, 1000}, {7, 70}}
	pair := pairs[r.Intn(len(pairs))]
	mk := func(seq uint64) *common.MessagePublication {
		k := w.randMsg(emitter, seq)
		k.EmitterChain, k.TargetChain = 2, 255
		return k
	}
	// the longer sequence completes and is stored
	kl := mk(pair[1])
	if !w.message(kl) {
		return
	}
	dl := w.mkVAA(kl, gs.Index).SigningMsg().Bytes()
	for _, x := range set {
		if !w.observation(w.obsFor(x, dl)) {
			return
		}
	}
	// the shorter one is signed by this node only
	ks := mk(pair[0])
	if !w.message(ks) {
		return
	}
	ds := w.mkVAA(ks, gs.Index).SigningMsg().Bytes()
	if !w.observation(w.obsFor(set[0], ds)) {
		return
	}
	w.advance(31 * time.Second)
	if !w.cleanup(preqCap) {
		return
	}
	w.advance(300 * time.Second)
	if !w.cleanup(preqCap) {
		return
	}
	w.observation(w.obsFor(set[1], ds))
}

// subset family (C01/C02): every guardian-set size up to nmax, every position of the own key, every subset of the
// other guardians signing; observations delivered in random order, own loopback at a random position.
func (w *pworld) subsetFamily(id string, nmax int) {
	r := w.r
	cnt := 0
	for n := 1; n <= nmax; n++ {
		set := w.randKeys(n)
		gs := &common.GuardianSet{Index: uint32(n)}
		for _, x := range set {
			gs.Keys = append(gs.Keys, x.addr)
		}
		for ownPos := 0; ownPos < n; ownPos++ {
			for mask := 0; mask < 1<<uint(n); mask++ {
				if mask&(1<<uint(ownPos)) != 0 {
					continue // the own signature is delivered via the loopback
				}
				cnt++
				var emitter vaa.Address
				r.Read(emitter[:])
				k := w.randMsg(emitter, uint64(cnt))
				if len(k.Payload) == 0 {
					k.Payload = []byte{7}
				}
				w.reset(fmt.Sprintf("%s.%d", id, cnt), set[ownPos])
				if !w.setUpdate(gs) {
					return
				}
				v := w.mkVAA(k, gs.Index)
				d := v.SigningMsg().Bytes()
				var evs []int
				for j := 0; j < n; j++ {
					if mask&(1<<uint(j)) != 0 {
						evs = append(evs, j)
					}
				}
				evs = append(evs, ownPos)
				r.Shuffle(len(evs), func(a, b int) { evs[a], evs[b] = evs[b], evs[a] })
				early := r.Intn(len(evs) + 1) // how many arrive before the local observation (own loopback cannot)
				sent := false
				for i, j := range evs {
					if i == early && !sent {
						if !w.message(k) {
							return
						}
						sent = true
					}
					if j == ownPos && !sent {
						if !w.message(k) {
							return
						}
						sent = true
					}
					if !w.observation(w.obsFor(set[j], d)) {
						return
					}
				}
				if !sent {
					if !w.message(k) {
						return
					}
				}
			}
		}
	}
}

func TestVerifProcessor(t *testing.T) {
	seed, _ := strconv.ParseInt(os.Getenv("VERIF_SEED"), 10, 64)
	thorough := os.Getenv("VERIF_TIER") == "thorough"
	out := os.Getenv("VERIF_OUT")
	f, err := os.Create(filepath.Join(out, "processor.cases"))
	if err != nil {
		t.Fatal(err)
	}
	defer f.Close()
	dbdir := filepath.Join(out, "procdb")
	os.RemoveAll(dbdir)
	d, err := db.Open(dbdir)
	if err != nil {
		t.Fatal(err)
	}
	defer os.RemoveAll(dbdir)
	sctx, stop := psupCtx()
	defer stop()
	w := &pworld{t: t, r: rand.New(rand.NewSource(seed)), w: bufio.NewWriterSize(f, 1<<20), db: d, dist: map[string]int{}, ctx: sctx,
		dbdir: dbdir, downTick: -1}
	defer func() { w.db.Close() }()
	defer w.w.Flush()
	for i := 0; i < 40; i++ {
		w.keys = append(w.keys, pnewKey())
	}
	nscen := 120
	if thorough {
		nscen = 1200
	}
	if s := os.Getenv("VERIF_SCENARIOS"); s != "" {
		nscen, _ = strconv.Atoi(s)
	}
	for i := 0; i < nscen; i++ {
		// every fifth scenario runs against the real Run loop of a Processor built by NewProcessor
		w.wantLive = i%5 == 4
		w.scenario(fmt.Sprintf("s%d", i), thorough)
	}
	w.wantLive = false
	defer w.stopLive()
	nperm := 2
	if thorough {
		nperm = 8
	}
	for i := 0; i < nperm; i++ {
		w.permFamily(fmt.Sprintf("p%d", i), 1+w.r.Intn(5))
	}
	nrot := 60
	if thorough {
		nrot = 1500
	}
	for i := 0; i < nrot; i++ {
		// every third rotation history goes through the real Run loop (guardian-set updates handled by Run's own select arm)
		w.wantLive = i%3 == 2
		w.rotationFamily(fmt.Sprintf("r%d", i))
	}
	w.wantLive = false
	w.stopLive()
	bigs := []int{20, 21, 64, 255}
	if thorough {
		bigs = []int{20, 21, 22, 32, 63, 64, 65, 127, 128, 129, 200, 254, 255}
	}
	for _, n := range bigs {
		w.bigSetFamily(fmt.Sprintf("b%d", n), n)
	}
	for i := 0; i < 3; i++ {
		w.fullQueueFamily(fmt.Sprintf("f%d", i))
	}
	for i := 0; i < 4; i++ {
		w.lookAlikeFamily(fmt.Sprintf("l%d", i))
	}
	w.truncFamily("t0")
	// SCALE families, run for the properties whose statements they bear on (checks/proccommon.py sets the variable)
	switch os.Getenv("VERIF_PROC_SCALE") {
	case "C14":
		w.floodFamily("x0", 10050)
	case "C02":
		w.remoteFirstFamily("y0", 2100)
	}
	w.soak("k0", 14, false, nil)
	w.soak("k1", 14, true, nil)
	// the local store unavailable during one tick (first retry tick / a later one)
	w.downTick = 0
	w.soak("k6", 4, false, nil)
	w.downTick = 2
	w.soak("k7", 5, true, nil)
	w.downTick = -1
	// stalls of an hour and more between ticks, and a mix of short and long ones
	w.soak("k4", 13, false, []time.Duration{61 * time.Minute})
	w.soak("k5", 16, true, []time.Duration{7 * time.Minute, 3 * time.Hour, 299 * time.Second, 26 * time.Hour, 301 * time.Second})
	if thorough {
		w.soak("k2", 14420, false, nil)
		w.soak("k3", 14420, true, nil)
	}
	if thorough {
		w.subsetFamily("q", 6)
	} else {
		w.subsetFamily("q", 4)
	}
	df, _ := os.Create(filepath.Join(out, "processor.dist"))
	for k, v := range w.dist {
		fmt.Fprintf(df, "%s %d\n", k, v)
	}
	df.Close()
}
