//go:build verif

package processor

// C13, shared guardian set: the *GuardianSet the processor receives on setC is the very object it publishes through the shared
// GuardianSetState, where p2p (heartbeat / observation-request verification, its own goroutines) and the admin service read it
// while the processor's Run loop uses it for every observation. Anything that makes reading a set not read-only (a lazily
// built cache, say) is a data race there, and a concurrent map write is an unrecoverable crash of the whole guardian process.
// This test runs the real NewProcessor + Run loop against concurrent readers of gst.Get() and is executed under the race detector
// by checks/c13.py; a race report (or a runtime fatal error) is turned into a verdict there.

import (
	"context"
	"crypto/ecdsa"
	"math/rand"
	"os"
	"strconv"
	"sync"
	"testing"
	"time"

	"github.com/alephium/wormhole-fork/node/pkg/common"
	"github.com/alephium/wormhole-fork/node/pkg/db"
	"github.com/alephium/wormhole-fork/node/pkg/ecdsasigner"
	gossipv1 "github.com/alephium/wormhole-fork/node/pkg/proto/gossip/v1"
	"github.com/alephium/wormhole-fork/node/pkg/reporter"
	"github.com/alephium/wormhole-fork/node/pkg/vaa"
	ethcommon "github.com/ethereum/go-ethereum/common"
	"github.com/ethereum/go-ethereum/crypto"
	"go.uber.org/zap"
)

func TestVerifSharedSet(t *testing.T) {
	seed, _ := strconv.ParseInt(os.Getenv("VERIF_SEED"), 10, 64)
	r := rand.New(rand.NewSource(seed ^ 0x5e7))
	d, err := db.Open(t.TempDir())
	if err != nil {
		t.Fatal(err)
	}
	defer d.Close()
	sctx, stop := psupCtx()
	defer stop()
	rounds := 6
	if os.Getenv("VERIF_TIER") == "thorough" {
		rounds = 40
	}
	for round := 0; round < rounds; round++ {
		n := 1 + r.Intn(19)
		keys := make([]*ecdsa.PrivateKey, n)
		gs := &common.GuardianSet{Index: uint32(round)}
		for i := range keys {
			keys[i], _ = ecdsa.GenerateKey(crypto.S256(), r)
			gs.Keys = append(gs.Keys, crypto.PubkeyToAddress(keys[i].PublicKey))
		}
		lockC := make(chan *common.MessagePublication)
		setC := make(chan *common.GuardianSet)
		sendC := make(chan []byte, 4096)
		obsvC := make(chan *gossipv1.SignedObservation, 64)
		reqC := make(chan *gossipv1.ObservationRequest, 8)
		injectC := make(chan *vaa.VAA)
		inC := make(chan *gossipv1.SignedVAAWithQuorum)
		gst := common.NewGuardianSetState(nil)
		p := NewProcessor(sctx, d, lockC, setC, sendC, obsvC, reqC, injectC, inC, &ecdsasigner.ECDSAPrivateKey{Value: keys[0]}, gst,
			reporter.EventListener(zap.NewNop()), nil, vaa.ChainID(1), vaa.Address{4})
		p.logger = zap.NewNop()
		ctx, cancel := context.WithCancel(sctx)
		done := make(chan struct{})
		go func() { defer close(done); _ = p.Run(ctx) }()
		setC <- gs
		// wait until Run has published the set
		for gst.Get() == nil {
			time.Sleep(50 * time.Microsecond)
		}
		var wg sync.WaitGroup
		start := make(chan struct{})
		// p2p-like readers: first lookups right after the set update, on the shared object
		for g := 0; g < 3; g++ {
			g := g
			wg.Add(1)
			go func() {
				defer wg.Done()
				<-start
				shared := gst.Get()
				for i := 0; i < 200; i++ {
					a := shared.Keys[(i+g)%len(shared.Keys)]
					if idx, ok := shared.KeyIndex(a); !ok || shared.Keys[idx] != a {
						t.Errorf("KeyIndex(%s) = %d, %v on the shared set", a.Hex(), idx, ok)
						return
					}
					if _, ok := shared.KeyIndex(ethcommon.Address{byte(i), 0xee}); ok {
						t.Errorf("KeyIndex found an address that is not in the set")
						return
					}
				}
			}()
		}
		// the processor's own use: observations by members, handled by Run
		digest := make([]byte, 32)
		r.Read(digest)
		wg.Add(1)
		go func() {
			defer wg.Done()
			<-start
			for i := 0; i < 60; i++ {
				k := keys[i%len(keys)]
				sig, _ := crypto.Sign(digest, k)
				obsvC <- &gossipv1.SignedObservation{Addr: crypto.PubkeyToAddress(k.PublicKey).Bytes(), Hash: digest, Signature: sig, TxHash: []byte{1}, MessageId: "x"}
			}
		}()
		close(start)
		wg.Wait()
		// let Run take what is queued, then stop it
		for len(obsvC) > 0 {
			time.Sleep(50 * time.Microsecond)
		}
		inC <- &gossipv1.SignedVAAWithQuorum{Vaa: []byte{0xff}}
		cancel()
		<-done
	}
}
