//go:build verif

package spy

// Correspondence harness for C20 (family `spy`), injected into package spy (node/cmd/spy) by `go test -overlay`
// (p2p stubbed: quic-go does not build on this Go).  It drives the real spyServer.Publish / SubscribeSignedVAA with fake
// gRPC server streams:
//
//  * delivery sequences: subscriptions with no / one / several / repeated / non-matching / invalid filters, streams of
//    decodable and undecodable VAAs, subscribers leaving by context cancellation or by a Send error, late joiners; after
//    every Publish a per-subscription sentinel (put directly into sub.ch) is awaited, so "what each subscriber received
//    for this VAA" is exact and needs no sleeping;
//  * isolation scenarios: one subscriber whose client stops reading (its Send blocks) or stops reading and then
//    disconnects; completion of a later Publish, of a new registration, of another subscriber's removal and delivery to
//    another subscriber are observed against a generous deadline.
//
// Every call into the code under test runs with a deadline, so an implementation that blocks is reported, not hung on.

import (
	"bufio"
	"bytes"
	"context"
	"encoding/hex"
	"errors"
	"fmt"
	"math/rand"
	"net"
	"os"
	"path/filepath"
	"reflect"
	"sort"
	"strconv"
	"strings"
	"sync"
	"testing"
	"time"
	"unsafe"

	publicrpcv1 "github.com/alephium/wormhole-fork/node/pkg/proto/publicrpc/v1"
	spyv1 "github.com/alephium/wormhole-fork/node/pkg/proto/spy/v1"
	"github.com/alephium/wormhole-fork/node/pkg/vaa"
	"go.uber.org/zap"
	"google.golang.org/grpc/codes"
	"google.golang.org/grpc/metadata"
	"google.golang.org/grpc/peer"
	"google.golang.org/grpc/status"
)

var vSentinel = []byte("\x00verif-sentinel\x00")

// ---------------------------------------------------------------- fake server stream

type vStream struct {
	ctx    context.Context
	cancel context.CancelFunc
	mu     sync.Mutex
	got    [][]byte
	arrive chan struct{} // one token per completed Send
	gate   chan struct{} // non-nil: Send blocks until it is closed (a client that stopped reading) or the context ends
	inSend chan struct{} // closed when a gated Send has been entered
	once   sync.Once
	fail   bool // Send returns an error (broken transport)
	// window hook: when set, the first Context() call made AFTER the context has ended (the handler has woken on
	// ctx.Done() and asks for ctx.Err(), i.e. it is between waking and its deferred removal) announces itself on inWindow
	// and waits for winRelease
	winHold    bool
	inWindow   chan struct{}
	winRelease chan struct{}
	winOnce    sync.Once
}

func vNewStream(stalled bool) *vStream {
	// every stream carries the same peer address, as several subscriptions opened on one client connection do
	ctx, cancel := context.WithCancel(peer.NewContext(context.Background(), &peer.Peer{Addr: &net.TCPAddr{IP: net.IPv4(127, 0, 0, 1), Port: 40404}}))
	s := &vStream{ctx: ctx, cancel: cancel, arrive: make(chan struct{}, 1<<16), inSend: make(chan struct{}),
		inWindow: make(chan struct{}), winRelease: make(chan struct{})}
	if stalled {
		s.gate = make(chan struct{})
	}
	return s
}

func (s *vStream) Send(r *spyv1.SubscribeSignedVAAResponse) error {
	s.mu.Lock()
	fail := s.fail
	gate := s.gate
	s.mu.Unlock()
	if fail {
		return errors.New("verif: transport is closing")
	}
	if gate != nil {
		s.once.Do(func() { close(s.inSend) })
		select {
		case <-gate:
		case <-s.ctx.Done():
			return status.Error(codes.Canceled, "verif: client went away")
		}
	}
	s.mu.Lock()
	s.got = append(s.got, append([]byte{}, r.VaaBytes...))
	s.mu.Unlock()
	s.arrive <- struct{}{}
	return nil
}
func (s *vStream) Context() context.Context {
	if s.winHold && s.ctx.Err() != nil {
		first := false
		s.winOnce.Do(func() { first = true; close(s.inWindow) })
		if first {
			<-s.winRelease
		}
	}
	return s.ctx
}
func (s *vStream) SetHeader(metadata.MD) error  { return nil }
func (s *vStream) SendHeader(metadata.MD) error { return nil }
func (s *vStream) SetTrailer(metadata.MD)       {}
func (s *vStream) SendMsg(m interface{}) error  { return nil }
func (s *vStream) RecvMsg(m interface{}) error  { return nil }

func (s *vStream) take() [][]byte {
	s.mu.Lock()
	defer s.mu.Unlock()
	g := s.got
	s.got = nil
	return g
}

// ---------------------------------------------------------------- helpers around the real server

type vSub struct {
	id      int
	stream  *vStream
	sub     *subscription // the server's own object (found by diffing s.subs)
	key     string
	done    chan error // result of SubscribeSignedVAA
	filters string
	live    bool
}

type vHarness struct {
	lastBuilt *vaa.VAA
	r        *rand.Rand
	w        *bufio.Writer
	n        int
	deadline time.Duration
	wmu      sync.Mutex
	stuck    int // operations that ran into the deadline so far; after a few the remaining sequences are cut short
}

func (h *vHarness) cid(kind string) string {
	h.n++
	return fmt.Sprintf("%s%d", kind, h.n)
}

func (h *vHarness) emit(format string, a ...interface{}) {
	h.wmu.Lock()
	defer h.wmu.Unlock()
	fmt.Fprintf(h.w, format, a...)
}

// keys of s.subs, or ok=false if the mutex could not be taken before the deadline (somebody holds it for good)
func vKeys(s *spyServer, deadline time.Duration) (map[string]*subscription, bool) {
	end := time.Now().Add(deadline)
	for {
		if s.subsMu.TryLock() {
			m := make(map[string]*subscription, len(s.subs))
			for k, v := range s.subs {
				m[k] = v
			}
			s.subsMu.Unlock()
			return m, true
		}
		if time.Now().After(end) {
			return nil, false
		}
		time.Sleep(200 * time.Microsecond)
	}
}

// subscribe starts the real handler; returns once the subscription is registered, the call returned, or the deadline passed.
func vSubscribe(s *spyServer, id int, req *spyv1.SubscribeSignedVAARequest, stalled bool, deadline time.Duration) (*vSub, string) {
	return vSubscribeWith(s, id, req, vNewStream(stalled), deadline)
}

func vSubscribeWith(s *spyServer, id int, req *spyv1.SubscribeSignedVAARequest, st *vStream, deadline time.Duration) (*vSub, string) {
	before, ok := vKeys(s, deadline)
	if !ok {
		return nil, "blocked"
	}
	vs := &vSub{id: id, stream: st, done: make(chan error, 1)}
	go func() {
		defer func() {
			if e := recover(); e != nil {
				vs.done <- fmt.Errorf("panic: %v", e)
			}
		}()
		vs.done <- s.SubscribeSignedVAA(req, st)
	}()
	end := time.Now().Add(deadline)
	for {
		select {
		case err := <-vs.done:
			vs.done <- err
			if err == nil {
				return vs, "returned-nil"
			}
			if strings.HasPrefix(err.Error(), "panic") {
				return vs, "panic"
			}
			if status.Code(err) == codes.InvalidArgument {
				if strings.Contains(err.Error(), "unsupported filter type") {
					return vs, "unsupported"
				}
				return vs, "badaddress"
			}
			return vs, "error"
		default:
		}
		now, ok := vKeys(s, time.Until(end))
		if ok {
			for k, v := range now {
				if _, old := before[k]; !old {
					vs.key, vs.sub, vs.live = k, v, true
					return vs, "ok"
				}
			}
		}
		if time.Now().After(end) {
			return vs, "blocked"
		}
		time.Sleep(200 * time.Microsecond)
	}
}

// vCh finds a subscription's delivery channel by its KIND (not by field or element-type name, so that a rename of either does not
// break the harness); everything that goes through it uses reflection.
func vCh(sub *subscription) reflect.Value {
	v := reflect.ValueOf(sub).Elem()
	for i := 0; i < v.NumField(); i++ {
		if f := v.Field(i); f.Kind() == reflect.Chan {
			return reflect.NewAt(f.Type(), unsafe.Pointer(f.UnsafeAddr())).Elem()
		}
	}
	panic("verif: subscription holds no channel field")
}

// vMsg: a value of the channel's ELEMENT type (whatever it is called) carrying b in its []byte field
func vMsg(ch reflect.Value, b []byte) reflect.Value {
	t := ch.Type().Elem()
	if t == reflect.TypeOf([]byte(nil)) {
		return reflect.ValueOf(b)
	}
	v := reflect.New(t).Elem()
	for i := 0; i < t.NumField(); i++ {
		if t.Field(i).Type == reflect.TypeOf([]byte(nil)) {
			reflect.NewAt(t.Field(i).Type, unsafe.Pointer(v.Field(i).UnsafeAddr())).Elem().SetBytes(b)
			return v
		}
	}
	panic("verif: the subscription channel's element type holds no []byte field")
}

// vSendTimeout puts b into the subscription's channel as Publish would; false if there was no room within d
func vSendTimeout(sub *subscription, b []byte, d time.Duration) bool {
	ch := vCh(sub)
	i, _, _ := reflect.Select([]reflect.SelectCase{
		{Dir: reflect.SelectSend, Chan: ch, Send: vMsg(ch, b)},
		{Dir: reflect.SelectRecv, Chan: reflect.ValueOf(time.After(d))},
	})
	return i == 0
}

// vTryRecv takes one queued message off the subscription's channel, if there is one
func vTryRecv(sub *subscription) bool {
	_, ok := vCh(sub).TryRecv()
	return ok
}

// publish with a deadline: "nil" | "err" | "panic" | "blocked" (still running; the returned channel yields the late result)
func vPublish(s *spyServer, b []byte, deadline time.Duration) (string, chan string) {
	c := make(chan string, 1)
	go func() {
		defer func() {
			if e := recover(); e != nil {
				c <- "panic"
			}
		}()
		if err := s.Publish(b); err != nil {
			c <- "err"
		} else {
			c <- "nil"
		}
	}()
	select {
	case r := <-c:
		return r, nil
	case <-time.After(deadline):
		return "blocked", c
	}
}

// barrier: put a sentinel straight into the subscription's channel and wait until the client has it; everything published
// before has then been delivered (channel and handler are FIFO). Returns the messages received before the sentinel.
func vBarrier(vs *vSub, deadline time.Duration) ([][]byte, bool) {
	if !vSendTimeout(vs.sub, vSentinel, deadline) {
		return vs.stream.take(), false
	}
	end := time.After(deadline)
	var acc [][]byte
	for {
		select {
		case <-vs.stream.arrive:
			for _, m := range vs.stream.take() {
				if bytes.Equal(m, vSentinel) {
					return acc, true
				}
				acc = append(acc, m)
			}
		case <-end:
			return acc, false
		}
	}
}

// ---------------------------------------------------------------- generators

type vEmitter struct {
	chain uint16
	addr  [32]byte
}

func (h *vHarness) mkVAA(e vEmitter) []byte {
	return h.mkVAAn(e, 1+h.r.Intn(40), h.r.Intn(3))
}

// mkVAAn: payload length and signature count fixed, so that all VAAs of a scenario have the same encoded length
func (h *vHarness) mkVAAn(e vEmitter, plen, nsig int) []byte {
	r := h.r
	v := &vaa.VAA{Version: 1, GuardianSetIndex: uint32(r.Intn(3)), Nonce: r.Uint32(), Sequence: uint64(r.Intn(1 << 20)),
		ConsistencyLevel: uint8(r.Intn(256)), EmitterChain: vaa.ChainID(e.chain), TargetChain: vaa.ChainID(r.Intn(4)),
		Timestamp: time.Unix(int64(r.Uint32()), 0)}
	v.EmitterAddress = vaa.Address(e.addr)
	v.Payload = make([]byte, plen)
	r.Read(v.Payload)
	for i := 0; i < nsig; i++ {
		sg := &vaa.Signature{Index: uint8(i)}
		r.Read(sg.Signature[:])
		v.Signatures = append(v.Signatures, sg)
	}
	b, err := v.Marshal()
	if err != nil {
		panic(err)
	}
	h.lastBuilt = v
	return b
}

// resign: the same message (same body) carrying another signature list - what the next guardian set, or another quorum
// subset of the same set, produces for a message that was published before
func (h *vHarness) resign(v *vaa.VAA) []byte {
	r := h.r
	w := *v
	w.GuardianSetIndex = v.GuardianSetIndex + uint32(r.Intn(2))
	w.Signatures = nil
	for i, n := 0, 1+r.Intn(4); i < n; i++ {
		sg := &vaa.Signature{Index: uint8(i)}
		r.Read(sg.Signature[:])
		w.Signatures = append(w.Signatures, sg)
	}
	b, err := w.Marshal()
	if err != nil {
		panic(err)
	}
	return b
}

func vFilterStr(chain uint32, addr string) string { return fmt.Sprintf("%d:%s", chain, addr) }

// a request and its rendering `chain:hex,chain:hex` (`-` none; an entry `other` is a FilterEntry without emitter filter)
func (h *vHarness) mkRequest(pool []vEmitter, kind int) (*spyv1.SubscribeSignedVAARequest, string) {
	r := h.r
	req := &spyv1.SubscribeSignedVAARequest{}
	var parts []string
	add := func(chain uint32, addrHex string) {
		req.Filters = append(req.Filters, &spyv1.FilterEntry{Filter: &spyv1.FilterEntry_EmitterFilter{
			EmitterFilter: &spyv1.EmitterFilter{ChainId: publicrpcv1.ChainID(chain), EmitterAddress: addrHex}}})
		parts = append(parts, vFilterStr(chain, addrHex))
	}
	pick := func() vEmitter { return pool[r.Intn(len(pool))] }
	hx := func(e vEmitter) string { return hex.EncodeToString(e.addr[:]) }
	switch kind {
	case 0: // no filters: everything
		if r.Intn(2) == 0 {
			req.Filters = []*spyv1.FilterEntry{}
		}
	case 1: // one filter
		e := pick()
		add(uint32(e.chain), hx(e))
	case 2: // several distinct filters
		k := 2 + r.Intn(3)
		for i := 0; i < k; i++ {
			e := pick()
			add(uint32(e.chain), hx(e))
		}
	case 3: // the same filter two to four times (one copy per matching filter goes through the one-slot channel)
		e := pick()
		for i, k := 0, 2+r.Intn(3); i < k; i++ {
			add(uint32(e.chain), hx(e))
		}
	case 10: // every filter names chain 0 (what a client that never set the field sends) with a pool address: matches only chain-0 VAAs
		for i, k := 0, 1+r.Intn(2); i < k; i++ {
			add(0, hx(pick()))
		}
	case 4: // right address on another chain / right chain with another address: must not match
		e, o := pick(), pick()
		add(uint32(e.chain)+1, hx(e))
		var other [32]byte
		copy(other[:], o.addr[:])
		other[31] ^= 1
		add(uint32(e.chain), hex.EncodeToString(other[:]))
	case 5: // upper-case hex of a pool address (hex.DecodeString accepts it)
		e := pick()
		add(uint32(e.chain), strings.ToUpper(hx(e)))
	case 6: // invalid: not hex
		e := pick()
		add(uint32(e.chain), "zz"+hx(e)[2:])
	case 7: // invalid: 31 / 33 / 0 bytes
		e := pick()
		switch r.Intn(3) {
		case 0:
			add(uint32(e.chain), hx(e)[2:])
		case 1:
			add(uint32(e.chain), hx(e)+"00")
		default:
			add(uint32(e.chain), "")
		}
	case 8: // a valid filter followed by an entry of no known type
		e := pick()
		add(uint32(e.chain), hx(e))
		req.Filters = append(req.Filters, &spyv1.FilterEntry{})
		parts = append(parts, "other")
	default: // a bad address after a good one
		e := pick()
		add(uint32(e.chain), hx(e))
		add(uint32(e.chain), "0x"+hx(e))
	}
	if len(parts) == 0 {
		return req, "-"
	}
	return req, strings.Join(parts, ",")
}

// scale > 0: the sequence starts with that many registrations (hundreds of relayers on one listener) and then publishes;
// nothing in the statement depends on how many subscriptions there are
func (h *vHarness) deliverySequence(scale int) {
	r := h.r
	cid := h.cid("spy")
	s := newSpyServer(zap.NewNop())
	pool := make([]vEmitter, 4)
	for i := range pool {
		pool[i].chain = uint16([]int{1, 2, 255, 65535, 0}[r.Intn(5)]) // 0 = CHAIN_ID_UNSPECIFIED: a chain id like any other here
		r.Read(pool[i].addr[:])
	}
	pool[1].chain = pool[0].chain // same chain, different address
	pool[2].addr = pool[0].addr   // same address, different chain
	if pool[2].chain == pool[0].chain {
		pool[2].chain = pool[0].chain%1000 + 3
	}
	if r.Intn(2) == 0 {
		// ... a chain id that differs only above the low byte (17 / 10001, 2 / 258, 65535 / 255)
		pool[2].chain = pool[0].chain + uint16(256*(1+r.Intn(3)))
	}
	h.emit("spynew %s\n", cid)
	var subs []*vSub
	nextID := 0
	subscribe := func() {
		kind := r.Intn(6)
		if r.Intn(5) == 0 {
			kind = 6 + r.Intn(5)
		}
		req, fs := h.mkRequest(pool, kind)
		vs, res := vSubscribe(s, nextID, req, false, h.deadline)
		h.emit("spysub %s id=%d filters=%s res=%s\n", cid, nextID, fs, res)
		if res == "blocked" {
			h.stuck++
		}
		if res == "ok" {
			vs.filters = fs
			subs = append(subs, vs)
		}
		nextID++
	}
	live := func() []*vSub {
		var l []*vSub
		for _, x := range subs {
			if x.live {
				l = append(l, x)
			}
		}
		return l
	}
	var prev *vaa.VAA
	var prevBytes []byte
	publish := func() {
		var b []byte
		dec := "err"
		ep := 0
		em := "-" // the emitter of a VAA the harness BUILT (Marshal of a value with a non-empty payload and at most 255 signatures)
		switch r.Intn(8) {
		case 1: // what Marshal writes for a signed VAA with an EMPTY payload (Unmarshal rejects it; guardians do sign such messages)
			b = h.mkVAAn(pool[r.Intn(len(pool))], 0, r.Intn(3))
			ep = 1
		case 0: // undecodable
			switch r.Intn(3) {
			case 0:
				b = make([]byte, r.Intn(40))
				r.Read(b)
				if len(b) > 0 {
					b[0] = 9 // not version 1
				}
			case 1:
				full := h.mkVAA(pool[r.Intn(len(pool))])
				b = full[:r.Intn(57)]
			default:
				b = []byte{}
			}
		case 2: // a message that was published before, again: the identical bytes, or the same body with another signature list
			if prev != nil && prevBytes != nil {
				if r.Intn(2) == 0 {
					b = prevBytes
				} else {
					b = h.resign(prev)
				}
				em = fmt.Sprintf("%d:%s", uint16(prev.EmitterChain), hex.EncodeToString(prev.EmitterAddress[:]))
				break
			}
			fallthrough
		default:
			e := pool[r.Intn(len(pool))]
			switch r.Intn(12) {
			case 0, 1: // an emitter nobody filters for
				r.Read(e.addr[:])
			case 2: // ... the all-zero emitter of chain 0 (what a zero-valued filter would name), and its two halves
				e = vEmitter{}
			case 3:
				e.addr = [32]byte{}
			case 4:
				e.chain = 0
			}
			if r.Intn(5) == 0 { // signed by a large guardian set: 19 .. 40 signatures (up to 255 is a VAA)
				b = h.mkVAAn(e, 1+r.Intn(40), []int{19, 20, 21, 40, 255}[r.Intn(5)])
			} else {
				b = h.mkVAA(e)
			}
			prev, prevBytes = h.lastBuilt, b
			em = fmt.Sprintf("%d:%s", e.chain, hex.EncodeToString(e.addr[:]))
		}
		if v, err := vaa.Unmarshal(b); err == nil { // the oracle is the decoder itself
			dec = fmt.Sprintf("%d:%s", uint16(v.EmitterChain), hex.EncodeToString(v.EmitterAddress[:]))
		} else {
			dec = "err"
		}
		res, late := vPublish(s, b, h.deadline)
		if late != nil {
			h.stuck++
		}
		if late != nil { // unblock whatever it is stuck on, so the run can go on
			stop := make(chan struct{})
			// every channel in the server's table, including subscriptions the harness was told were refused: the stuck
			// Publish holds the mutex, so nobody writes the map while this snapshot is taken
			var chans []*subscription
			for _, sub := range s.subs {
				chans = append(chans, sub)
			}
			// ... and of every subscription this sequence ever registered, also those that have left (code that keeps a
			// reference to a departed subscription can be stuck on its channel)
			for _, x := range subs {
				if x.sub != nil {
					chans = append(chans, x.sub)
				}
			}
			go func() {
				for {
					select {
					case <-stop:
						return
					default:
					}
					for _, c := range chans {
						vTryRecv(c)
					}
					time.Sleep(time.Millisecond)
				}
			}()
			select {
			case <-late:
			case <-time.After(2 * h.deadline):
				// nothing the harness can reach unblocks it: this server is abandoned, the line below records the blocked Publish
				h.stuck += 3
			}
			close(stop)
		}
		var parts []string
		for _, x := range live() {
			got, ok := vBarrier(x, h.deadline)
			same := 1
			for _, m := range got {
				if !bytes.Equal(m, b) {
					same = 0
				}
			}
			bar := 1
			if !ok {
				bar = 0
				h.stuck++
			}
			parts = append(parts, fmt.Sprintf("%d:%d:%d:%d", x.id, len(got), same, bar))
		}
		recv := "-"
		if len(parts) > 0 {
			recv = strings.Join(parts, ";")
		}
		h.emit("spypub %s len=%d dec=%s em=%s ep=%d res=%s recv=%s\n", cid, len(b), dec, em, ep, res, recv)
	}
	leave := func() {
		l := live()
		if len(l) == 0 {
			return
		}
		x := l[r.Intn(len(l))]
		how := "cancel"
		if r.Intn(2) == 0 {
			how = "senderr"
			x.stream.mu.Lock()
			x.stream.fail = true
			x.stream.mu.Unlock()
			vSendTimeout(x.sub, vSentinel, h.deadline) // something to send, so that the handler meets the broken transport
		} else {
			x.stream.cancel()
		}
		res := "timeout"
		select {
		case err := <-x.done:
			switch {
			case err == nil:
				res = "nil"
			case errors.Is(err, context.Canceled):
				res = "canceled"
			case strings.Contains(err.Error(), "transport is closing"):
				res = "senderr"
			default:
				res = "other"
			}
		case <-time.After(h.deadline):
		}
		removed := 0
		if keys, ok := vKeys(s, h.deadline); ok {
			if _, still := keys[x.key]; !still {
				removed = 1
			}
		}
		x.live = false
		if res == "timeout" {
			h.stuck++
		}
		h.emit("spyleave %s id=%d how=%s res=%s removed=%d\n", cid, x.id, how, res, removed)
	}
	n0 := r.Intn(5)
	if scale > 0 {
		n0 = scale
	}
	for i := 0; (i < n0 || (scale > 0 && len(live()) < scale && i < 2*scale)) && h.stuck < 3; i++ {
		subscribe()
	}
	for i := 0; scale > 0 && i < 3 && h.stuck < 3; i++ {
		publish()
	}
	steps := 6 + r.Intn(8)
	for i := 0; i < steps && h.stuck < 3; i++ {
		switch k := r.Intn(10); {
		case k < 6:
			publish()
		case k < 8:
			subscribe()
		default:
			leave()
		}
	}
	for _, x := range live() {
		x.stream.cancel()
		select {
		case <-x.done:
		case <-time.After(h.deadline):
		}
	}
}

// ---------------------------------------------------------------- isolation scenarios

// vDrainAll keeps taking whatever is sent on the channels of subscriptions whose handler may be gone, so that a Publish stuck
// on one of them gets through (recovery at the end of a scenario only).
func vDrainAll(stop chan struct{}, subs ...*vSub) {
	for {
		select {
		case <-stop:
			return
		default:
		}
		for _, x := range subs {
			if x == nil || x.sub == nil || x.stream.ctx.Err() == nil {
				continue // only subscribers that have disconnected: the others read for themselves
			}
			vTryRecv(x.sub)
		}
		time.Sleep(200 * time.Microsecond)
	}
}

func vWait(c <-chan struct{}, d time.Duration) bool {
	select {
	case <-c:
		return true
	case <-time.After(d):
		return false
	}
}

func vState(b bool) string {
	if b {
		return "done"
	}
	return "blocked"
}

// stallScenario: subscriber A's client stops reading after the first VAA (variant "stall"), or stops reading and then
// disconnects (variant "depart"). B keeps reading, D is cancelled, C tries to join. All are unfiltered unless filterA is set.
func (h *vHarness) stallScenario(cid, variant string, filtered bool) {
	s := newSpyServer(zap.NewNop())
	d := h.deadline
	e := vEmitter{chain: 2}
	for i := range e.addr {
		e.addr[i] = byte(i + 1)
	}
	reqAll := &spyv1.SubscribeSignedVAARequest{}
	reqA := reqAll
	fA := "-"
	if filtered {
		hx := hex.EncodeToString(e.addr[:])
		reqA = &spyv1.SubscribeSignedVAARequest{Filters: []*spyv1.FilterEntry{{Filter: &spyv1.FilterEntry_EmitterFilter{
			EmitterFilter: &spyv1.EmitterFilter{ChainId: publicrpcv1.ChainID(e.chain), EmitterAddress: hx}}}}}
		fA = vFilterStr(uint32(e.chain), hx)
	}
	a, ra := vSubscribe(s, 0, reqA, true, d)
	b, rb := vSubscribe(s, 1, reqAll, false, d)
	dd, rd := vSubscribe(s, 2, reqAll, false, d)
	if ra != "ok" || rb != "ok" || rd != "ok" {
		h.emit("spystall %s variant=%s setup=failed:%s/%s/%s\n", cid, variant, ra, rb, rd)
		return
	}
	// Publish up to K VAAs one after the other.  A's handler takes the first one and stays inside Send; the following ones
	// fill A's channel.  A publish that has not returned after `settle` is suspected to be blocked: from that moment a newcomer
	// (C), a leaver (D) and B's inbox are watched as well, everything against the same deadline.
	const K = 6
	settle := 300 * time.Millisecond
	vs := make([][]byte, K)
	for i := range vs {
		vs[i] = h.mkVAA(e)
	}
	through := 0
	blockedAt := -1
	var lateBlocked chan string
	entered := false
	var c *vSub
	regc := make(chan string, 1)
	remc := make(chan string, 1)
	probesStarted := false
	bgotc := make(chan bool, 1)
	startProbes := func(last []byte) {
		probesStarted = true
		go func() { // does B (who keeps reading) get `last` within the deadline?
			end := time.After(d)
			for {
				b.stream.mu.Lock()
				for _, m := range b.stream.got {
					if bytes.Equal(m, last) {
						b.stream.mu.Unlock()
						bgotc <- true
						return
					}
				}
				b.stream.mu.Unlock()
				select {
				case <-b.stream.arrive:
				case <-end:
					bgotc <- false
					return
				}
			}
		}()
		go func() {
			var res string
			c, res = vSubscribe(s, 3, reqAll, false, d)
			regc <- res
		}()
		go func() {
			dd.stream.cancel()
			select {
			case err := <-dd.done:
				dd.done <- err
				if keys, ok := vKeys(s, d); ok {
					if _, still := keys[dd.key]; !still {
						remc <- "done"
						return
					}
				}
				remc <- "blocked"
			case <-time.After(d):
				remc <- "blocked"
			}
		}()
	}
	for i := 0; i < K && blockedAt < 0; i++ {
		pc := make(chan string, 1)
		go func(b []byte) {
			defer func() {
				if e := recover(); e != nil {
					pc <- "panic"
				}
			}()
			if err := s.Publish(b); err != nil {
				pc <- "err"
			} else {
				pc <- "nil"
			}
		}(vs[i])
		start := time.Now()
		res := ""
		select {
		case res = <-pc:
		case <-time.After(settle):
			if !probesStarted {
				startProbes(vs[i])
			}
			select {
			case res = <-pc:
			case <-time.After(d - time.Since(start)):
				res = "blocked"
				lateBlocked = pc
			}
		}
		if res == "nil" {
			through++
		} else {
			blockedAt = i
		}
		if i == 0 {
			entered = vWait(a.stream.inSend, d) // A's handler is now inside Send(v1) and stays there
		}
	}
	if !probesStarted {
		startProbes(vs[K-1])
	}
	bgot := <-bgotc
	reg := <-regc
	rem := <-remc
	arem := "n/a"
	if variant == "depart" {
		// A's client now disconnects: its blocked Send returns an error, the handler leaves its loop and must be removed
		a.stream.cancel()
		arem = "blocked"
		select {
		case err := <-a.done:
			a.done <- err
			if keys, ok := vKeys(s, d); ok {
				if _, still := keys[a.key]; !still {
					arem = "done"
				}
			}
		case <-time.After(d):
		}
	}
	// recovery, so that no goroutine of this scenario outlives it: let A's client read again / drain A's channel
	close(a.stream.gate)
	stop := make(chan struct{})
	go vDrainAll(stop, a, b, dd, c)
	// A's client reads again (or has gone): whatever was held up must now complete
	rec := 1
	if lateBlocked != nil {
		select {
		case r := <-lateBlocked:
			lateBlocked <- r
		case <-time.After(d):
			rec = 0
		}
	}
	for _, x := range []*vSub{a, b, dd, c} {
		if x == nil {
			continue
		}
		x.stream.cancel()
		select {
		case <-x.done:
		case <-time.After(d):
			rec = 0
		}
	}
	if lateBlocked != nil {
		// everybody has disconnected and vDrainAll empties their channels: a Publish still stuck now would outlive the scenario
		select {
		case <-lateBlocked:
		case <-time.After(d):
			rec = 0
		}
	}
	close(stop)
	pub := "done"
	if blockedAt >= 0 {
		pub = "blocked"
	}
	h.emit("spystall %s variant=%s filterA=%s entered=%d published=%d through=%d pub=%s reg=%s rem=%s bgot=%s arem=%s deadline_ms=%d recovered=%d\n",
		cid, variant, fA, map[bool]int{false: 0, true: 1}[entered], K, through, pub, vRegState(reg), rem, vState(bgot), arem,
		d.Milliseconds(), rec)
	if blockedAt >= 0 {
		// how many publishes a stalled subscriber absorbs before one blocks = 1 (in Send) + the channel capacity
		h.emit("spycap %s through=%d\n", cid, through)
	}
}

func vRegState(r string) string {
	if r == "ok" {
		return "done"
	}
	return r
}

// ---------------------------------------------------------------- slow (not stalled) subscriber: exact bytes

func vIdx(pubs [][]byte, got [][]byte) string {
	if len(got) == 0 {
		return "-"
	}
	p := make([]string, len(got))
	for i, m := range got {
		p[i] = "x"
		for j, b := range pubs {
			if bytes.Equal(m, b) {
				p[i] = strconv.Itoa(j)
				break
			}
		}
	}
	return strings.Join(p, ",")
}

// slowScenario: subscriber A's client is slow for its FIRST message (Send waits on a gate the harness opens later), so that
// message is still "in flight" and a second one sits in A's one-slot channel while further VAAs - all of the same encoded
// length, with different payloads and partly from another emitter - are published; B reads promptly. Afterwards the exact
// byte strings each subscriber received are compared with what was published (as indexes into the published list; `x` = bytes
// that were never published). The gate is opened before a second matching VAA has to wait for A, so nobody is stalled.
func (h *vHarness) slowScenario(cid string) {
	r := h.r
	d := h.deadline
	s := newSpyServer(zap.NewNop())
	var e1, e2 vEmitter
	e1.chain, e2.chain = 2, uint16(2+r.Intn(2)*3)
	r.Read(e1.addr[:])
	r.Read(e2.addr[:])
	filtered := r.Intn(3) != 0
	reqAll := &spyv1.SubscribeSignedVAARequest{}
	reqA := reqAll
	fA := "-"
	if filtered {
		hx := hex.EncodeToString(e1.addr[:])
		reqA = &spyv1.SubscribeSignedVAARequest{Filters: []*spyv1.FilterEntry{{Filter: &spyv1.FilterEntry_EmitterFilter{
			EmitterFilter: &spyv1.EmitterFilter{ChainId: publicrpcv1.ChainID(e1.chain), EmitterAddress: hx}}}}}
		fA = vFilterStr(uint32(e1.chain), hx)
	}
	a, ra := vSubscribe(s, 0, reqA, true, d)
	b, rb := vSubscribe(s, 1, reqAll, false, d)
	if ra != "ok" || rb != "ok" {
		h.emit("spyslow %s setup=failed:%s/%s\n", cid, ra, rb)
		return
	}
	plen, nsig := 8+r.Intn(24), r.Intn(3)
	var pubs [][]byte
	var decs, ress []string
	opened := false
	open := func() {
		if !opened {
			opened = true
			close(a.stream.gate)
		}
	}
	publish := func(e vEmitter) {
		bts := h.mkVAAn(e, plen, nsig)
		pubs = append(pubs, bts)
		decs = append(decs, fmt.Sprintf("%d:%s", e.chain, hex.EncodeToString(e.addr[:])))
		res, late := vPublish(s, bts, d)
		if late != nil {
			open() // let it go on
			<-late
			h.stuck++
		}
		ress = append(ress, res)
	}
	publish(e1) // A's handler takes it and waits inside Send
	entered := vWait(a.stream.inSend, d)
	if filtered {
		for i := r.Intn(3); i > 0; i-- {
			publish(e2) // not for A: must leave A's message in flight untouched
		}
	}
	publish(e1) // sits in A's channel
	if filtered {
		for i := r.Intn(3); i > 0; i-- {
			publish(e2)
		}
	}
	if r.Intn(2) == 0 {
		// a burst while A is not reading: the publisher has to wait for A (one-slot queue), nothing may be dropped. The
		// publisher runs on its own goroutine; A starts reading again shortly after, or once the burst is through.
		burst := 70 + r.Intn(60)
		fin := make(chan struct{})
		go func() {
			defer close(fin)
			for i := 0; i < burst; i++ {
				bts := h.mkVAAn(e1, plen, nsig)
				pubs = append(pubs, bts)
				decs = append(decs, fmt.Sprintf("%d:%s", e1.chain, hex.EncodeToString(e1.addr[:])))
				res, late := vPublish(s, bts, 20*d)
				if late != nil {
					res = <-late
				}
				ress = append(ress, res)
			}
		}()
		select {
		case <-fin:
		case <-time.After(30 * time.Millisecond):
		}
		open()
		<-fin
	}
	open()
	publish(e1)
	if r.Intn(2) == 0 {
		publish(e2)
	}
	agot, abar := vBarrier(a, d)
	bgot, bbar := vBarrier(b, d)
	for _, x := range []*vSub{a, b} {
		x.stream.cancel()
		select {
		case <-x.done:
		case <-time.After(d):
		}
	}
	b01 := map[bool]int{false: 0, true: 1}
	h.emit("spyslow %s filterA=%s len=%d entered=%d pubs=%s res=%s agot=%s bgot=%s abar=%d bbar=%d\n", cid, fA, len(pubs[0]), b01[entered],
		strings.Join(decs, ";"), strings.Join(ress, ","), vIdx(pubs, agot), vIdx(pubs, bgot), b01[abar], b01[bbar])
}

// ---------------------------------------------------------------- a subscriber that read everything and disconnects

// departScenario: A has received everything it was sent and then disconnects. Its handler wakes on ctx.Done(); the fake
// stream holds it at its next Context() call (the one for ctx.Err()), i.e. between waking and the deferred removal, and
// tells the harness. In that window one VAA matching A is published; shortly after, the handler is let go (it then wants the
// mutex for its removal). Nobody is stalled here: Publish, A's removal and delivery to B must all complete.
func (h *vHarness) departScenario(cid string, filtered bool) {
	s := newSpyServer(zap.NewNop())
	d := h.deadline
	e := vEmitter{chain: 2}
	for i := range e.addr {
		e.addr[i] = byte(0x40 + i)
	}
	reqAll := &spyv1.SubscribeSignedVAARequest{}
	reqA := reqAll
	fA := "-"
	if filtered {
		hx := hex.EncodeToString(e.addr[:])
		reqA = &spyv1.SubscribeSignedVAARequest{Filters: []*spyv1.FilterEntry{{Filter: &spyv1.FilterEntry_EmitterFilter{
			EmitterFilter: &spyv1.EmitterFilter{ChainId: publicrpcv1.ChainID(e.chain), EmitterAddress: hx}}}}}
		fA = vFilterStr(uint32(e.chain), hx)
	}
	stA := vNewStream(false)
	stA.winHold = true
	a, ra := vSubscribeWith(s, 0, reqA, stA, d)
	b, rb := vSubscribe(s, 1, reqAll, false, d)
	if ra != "ok" || rb != "ok" {
		h.emit("spydepart %s setup=failed:%s/%s\n", cid, ra, rb)
		return
	}
	v0, v1 := h.mkVAA(e), h.mkVAA(e)
	p0, late0 := vPublish(s, v0, d)
	if late0 != nil {
		h.emit("spydepart %s setup=failed:first-publish-%s\n", cid, p0)
		go func() { <-late0 }()
		return
	}
	_, okA := vBarrier(a, d) // A and B have read everything
	_, okB := vBarrier(b, d)
	a.stream.cancel() // A disconnects
	inWin := vWait(stA.inWindow, d)
	pc := make(chan string, 1)
	go func() {
		defer func() {
			if e := recover(); e != nil {
				pc <- "panic"
			}
		}()
		if err := s.Publish(v1); err != nil {
			pc <- "err"
		} else {
			pc <- "nil"
		}
	}()
	time.Sleep(50 * time.Millisecond)
	close(stA.winRelease) // the handler goes on to its deferred removal
	pub := "blocked"
	var late chan string
	select {
	case r := <-pc:
		if r == "nil" {
			pub = "done"
		} else {
			pub = r
		}
	case <-time.After(d):
		late = pc
	}
	rem := "blocked"
	select {
	case err := <-a.done:
		a.done <- err
		if keys, ok := vKeys(s, d); ok {
			if _, still := keys[a.key]; !still {
				rem = "done"
			}
		}
	case <-time.After(d / 4):
	}
	bgot := false
	endB := time.After(d / 4)
waitB:
	for {
		b.stream.mu.Lock()
		for _, m := range b.stream.got {
			if bytes.Equal(m, v1) {
				bgot = true
			}
		}
		b.stream.mu.Unlock()
		if bgot {
			break
		}
		select {
		case <-b.stream.arrive:
		case <-endB:
			break waitB
		}
	}
	// recovery
	stop := make(chan struct{})
	go vDrainAll(stop, a)
	if late != nil {
		<-late
	}
	rec := 1
	for _, x := range []*vSub{a, b} {
		x.stream.cancel()
		select {
		case <-x.done:
		case <-time.After(d):
			rec = 0
		}
	}
	close(stop)
	b01 := map[bool]int{false: 0, true: 1}
	h.emit("spydepart %s filterA=%s caughtup=%d inwindow=%d pub=%s rem=%s bgot=%s deadline_ms=%d recovered=%d\n", cid, fA,
		b01[okA && okB], b01[inWin], pub, rem, vState(bgot), d.Milliseconds(), rec)
}

func TestVerifSpy(t *testing.T) {
	seed, _ := strconv.ParseInt(os.Getenv("VERIF_SEED"), 10, 64)
	thorough := os.Getenv("VERIF_TIER") == "thorough"
	f, err := os.Create(filepath.Join(os.Getenv("VERIF_OUT"), "spy.cases"))
	if err != nil {
		t.Fatal(err)
	}
	defer f.Close()
	h := &vHarness{r: rand.New(rand.NewSource(seed)), w: bufio.NewWriterSize(f, 1<<20), deadline: 4 * time.Second}
	defer h.w.Flush()
	nseq := 60
	if thorough {
		nseq = 1500
		h.deadline = 12 * time.Second
	}
	// the isolation scenarios run side by side (each has its own server) while the delivery sequences run
	var wg sync.WaitGroup
	type sc struct {
		variant  string
		filtered bool
	}
	scs := []sc{{"stall", false}, {"depart", false}, {"stall", true}, {"window", false}, {"window", true}}
	ids := make([]string, len(scs))
	for i := range scs {
		if scs[i].variant == "window" {
			ids[i] = h.cid("depart")
		} else {
			ids[i] = h.cid("stall")
		}
	}
	outs := make([]string, len(scs))
	for i, x := range scs {
		wg.Add(1)
		go func(i int, x sc) {
			defer wg.Done()
			var buf bytes.Buffer
			h2 := &vHarness{r: rand.New(rand.NewSource(seed + int64(i) + 1000)), w: bufio.NewWriter(&buf), deadline: h.deadline}
			if x.variant == "window" {
				h2.departScenario(ids[i], x.filtered)
			} else {
				h2.stallScenario(ids[i], x.variant, x.filtered)
			}
			h2.w.Flush()
			outs[i] = buf.String()
		}(i, x)
	}
	h.deliverySequence(520 + h.r.Intn(200))
	for i := 0; i < nseq && h.stuck < 3; i++ {
		h.deliverySequence(0)
		if i%2 == 0 && h.stuck < 3 {
			h.slowScenario(h.cid("slow"))
		}
	}
	wg.Wait()
	for _, o := range outs {
		h.emit("%s", o)
	}
	_ = sort.Strings
}
