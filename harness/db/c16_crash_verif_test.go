//go:build verif

package db

// Fault-enumeration harness for C16 (injected into package db by `go test -overlay`).
//
// Parent (TestVerifCrash): repeatedly starts a child process (this very test binary, re-executed with
// VERIF_CRASH_MODE=store) that opens the REAL store with db.Open in a directory under $VERIF_OUT, stores a
// deterministic stream of signed VAAs with StoreSignedVAA and prints one "C16 ack <i>" line after each call that
// returned nil. The parent SIGKILLs the child at a PRNG-chosen point of the stream (after a PRNG-chosen number of
// acknowledgements plus a PRNG-chosen sub-millisecond delay), then starts a second child (VERIF_CRASH_MODE=verify)
// that reopens the same directory and reads back every identifier ever attempted; that child either closes the store
// cleanly or is SIGKILLed too (PRNG choice), so later cycles run on stores with every mix of flushed / replayed state.
// Everything observed goes to $VERIF_OUT/crash.cases; the Lean driver (family `crash`) judges it with `acceptKey`.

import (
	"bufio"
	"encoding/hex"
	"fmt"
	"io"
	"math/rand"
	"os"
	"os/exec"
	"path/filepath"
	"strconv"
	"strings"
	"syscall"
	"testing"
	"time"

	"github.com/alephium/wormhole-fork/node/pkg/vaa"
)

const c16tag = "C16 "

// the identifier universe: key index k -> VAAID (distinct k give distinct ids)
func c16id(seed int64, k int) vaa.VAAID {
	r := rand.New(rand.NewSource(seed*7919 + int64(k%17)))
	var a vaa.Address
	r.Read(a[:])
	chains := []vaa.ChainID{2, 25, 255, 1, 10, 10001, 4, 42, 0, 65535}
	return vaa.VAAID{EmitterChain: chains[k%len(chains)], EmitterAddress: a, TargetChain: chains[(k/3)%len(chains)], Sequence: uint64(k)}
}

// attempt i of the stream: which key, which VAA
func c16attempt(seed int64, i int, nkeys int, tier string) (int, *vaa.VAA) {
	r := rand.New(rand.NewSource(seed*1000003 + int64(i)*31 + 7))
	k := r.Intn(nkeys)
	if r.Intn(4) == 0 {
		k = r.Intn(1 + nkeys/20) // a hot set: many overwrites of the same identifiers
	}
	id := c16id(seed, k)
	v := &vaa.VAA{Version: 1, GuardianSetIndex: uint32(r.Intn(3)), EmitterChain: id.EmitterChain, EmitterAddress: id.EmitterAddress,
		TargetChain: id.TargetChain, Sequence: id.Sequence, Nonce: uint32(i), ConsistencyLevel: uint8(r.Intn(256))}
	v.Timestamp = time.Unix(int64(1600000000+i), 0)
	for j := 0; j < 1+r.Intn(3); j++ {
		sg := &vaa.Signature{Index: uint8(j)}
		r.Read(sg.Signature[:])
		v.Signatures = append(v.Signatures, sg)
	}
	n := 40 + r.Intn(400)
	switch x := r.Intn(4000); {
	case x < 40:
		n = 4096 + r.Intn(28000)
	case x == 40 && tier == "thorough":
		n = 1<<20 + r.Intn(300000) // above badger's value threshold: stored in the value log
	}
	v.Payload = make([]byte, n)
	r.Read(v.Payload)
	// StoreSignedVAA stores whatever Marshal writes and acknowledges it; the decoder is NOT the inverse of that: one attempt in
	// twenty-five is a VAA vaa.Unmarshal rejects (empty / nil payload - a contract publishing an empty message -, a version other
	// than 1). The store carries bytes: such a VAA is acknowledged like any other, has to come back byte-exact, and the directory
	// has to reopen with it inside (drawn last: every other attempt is what it was).
	switch r.Intn(100) {
	case 0, 1:
		v.Payload = []byte{}
	case 2:
		v.Payload = nil
	case 3:
		v.Version = uint8(2 * r.Intn(2)) // 0 or 2
	}
	return k, v
}

func c16say(s string) {
	os.Stdout.WriteString(c16tag + s + "\n") // one write per line: a kill cannot leave a torn line that parses
}

// c16emptyMem creates the empty memtable file a kill between os.OpenFile(O_CREATE) and Truncate leaves behind.
func c16emptyMem(dir string) {
	ents, err := os.ReadDir(dir)
	if err != nil {
		return
	}
	max := 0
	for _, e := range ents {
		if strings.HasSuffix(e.Name(), ".mem") {
			if n, err := strconv.Atoi(strings.TrimSuffix(e.Name(), ".mem")); err == nil && n > max {
				max = n
			}
		}
	}
	_ = os.WriteFile(filepath.Join(dir, fmt.Sprintf("%05d.mem", max+1)), nil, 0o666)
}

// ---------------------------------------------------------------- child
func TestVerifCrashChild(t *testing.T) {
	mode := os.Getenv("VERIF_CRASH_MODE")
	if mode == "" {
		t.Skip("not a child")
	}
	dir := os.Getenv("VERIF_CRASH_DIR")
	seed, _ := strconv.ParseInt(os.Getenv("VERIF_CRASH_SEED"), 10, 64)
	nkeys, _ := strconv.Atoi(os.Getenv("VERIF_CRASH_NKEYS"))
	tier := os.Getenv("VERIF_TIER")
	d, err := func() (d *Database, err error) {
		defer func() {
			if e := recover(); e != nil {
				err = fmt.Errorf("panic: %v", e)
			}
		}()
		return Open(dir)
	}()
	if err != nil {
		c16say("open err " + strings.ReplaceAll(err.Error(), "\n", " "))
		os.Exit(3)
	}
	c16say("open ok")
	if mode == "openkill" {
		// die the instant Open has returned: whatever Open started in the background (replay, flush of the files the last
		// kill left behind) is interrupted as early as a kill can interrupt it
		syscall.Kill(os.Getpid(), syscall.SIGKILL)
		time.Sleep(time.Hour)
	}
	switch mode {
	case "store":
		start, _ := strconv.Atoi(os.Getenv("VERIF_CRASH_START"))
		count, _ := strconv.Atoi(os.Getenv("VERIF_CRASH_COUNT"))
		dup := os.Getenv("VERIF_CRASH_DUP") == "1"
		selfKill, _ := strconv.Atoi(os.Getenv("VERIF_CRASH_SELFKILL"))
		nack := 0
		for i := start; i < start+count; i++ {
			_, v := c16attempt(seed, i, nkeys, tier)
			var err error
			if dup {
				// the same VAA stored by two callers at once (processor and backfill both hold it): success is acknowledged as
				// soon as one of the two calls reports it
				res := make(chan error, 2)
				gate := make(chan struct{})
				for g := 0; g < 2; g++ {
					go func() { <-gate; res <- d.StoreSignedVAA(v) }()
				}
				close(gate)
				err = <-res
			} else {
				err = d.StoreSignedVAA(v)
			}
			if err == nil {
				c16say("ack " + strconv.Itoa(i))
				nack++
				if selfKill > 0 && nack >= selfKill {
					syscall.Kill(os.Getpid(), syscall.SIGKILL)
					time.Sleep(time.Hour)
				}
			} else {
				c16say("fail " + strconv.Itoa(i))
			}
		}
		c16say("idle")
		time.Sleep(time.Hour) // wait for the kill
	case "verify":
		// every answer is kept until all lookups are done and only then reported: what a lookup returned must still be the
		// stored VAA after later lookups (callers such as the batch RPCs hold several results at once)
		type ans struct {
			b   []byte
			err error
		}
		held := make([]ans, 0, nkeys+5)
		for k := 0; k < nkeys+5; k++ {
			b, err := d.GetSignedVAABytes(c16id(seed, k))
			held = append(held, ans{b, err})
		}
		for k, a := range held {
			switch {
			case a.err == nil:
				c16say(fmt.Sprintf("rec %d ok %s", k, hex.EncodeToString(a.b)))
			case a.err == ErrVAANotFound:
				c16say(fmt.Sprintf("rec %d notfound", k))
			default:
				c16say(fmt.Sprintf("rec %d err", k))
			}
		}
		c16say("done")
		if os.Getenv("VERIF_CRASH_CLEAN") == "1" {
			if err := d.Close(); err != nil {
				c16say("close err")
				os.Exit(4)
			}
			c16say("closed")
			os.Exit(0)
		}
		time.Sleep(time.Hour)
	}
}

// ---------------------------------------------------------------- parent
type c16child struct {
	cmd   *exec.Cmd
	lines chan string
}

func c16start(t *testing.T, env []string) *c16child {
	cmd := exec.Command(os.Args[0], "-test.run=^TestVerifCrashChild$", "-test.timeout=300s")
	cmd.Env = append(os.Environ(), env...)
	out, err := cmd.StdoutPipe()
	if err != nil {
		t.Fatal(err)
	}
	cmd.Stderr = io.Discard
	if err := cmd.Start(); err != nil {
		t.Fatal(err)
	}
	c := &c16child{cmd: cmd, lines: make(chan string, 1<<16)}
	go func() {
		rd := bufio.NewReaderSize(out, 1<<22)
		for {
			ln, err := rd.ReadString('\n')
			if err != nil {
				break // a partial last line (no newline) is not an acknowledgement
			}
			if strings.HasPrefix(ln, c16tag) {
				c.lines <- strings.TrimSuffix(ln[len(c16tag):], "\n")
			}
		}
		close(c.lines)
	}()
	return c
}

func (c *c16child) kill() {
	c.cmd.Process.Kill() // SIGKILL
}

func TestVerifCrash(t *testing.T) {
	if os.Getenv("VERIF_CRASH_MODE") != "" {
		t.Skip("child")
	}
	seed, _ := strconv.ParseInt(os.Getenv("VERIF_SEED"), 10, 64)
	tier := os.Getenv("VERIF_TIER")
	out := os.Getenv("VERIF_OUT")
	if out == "" {
		t.Skip("VERIF_OUT not set")
	}
	f, err := os.Create(filepath.Join(out, "crash.cases"))
	if err != nil {
		t.Fatal(err)
	}
	defer f.Close()
	w := bufio.NewWriterSize(f, 1<<20)
	defer w.Flush()
	r := rand.New(rand.NewSource(seed ^ 0x16c16c16))

	nstores, cycles, quota, nkeys := 2, 14, 1000, 900 // 14 cycles = 28 opens of one directory (a store that stops reopening after ~20 kills is seen)
	if tier == "thorough" {
		nstores, cycles, quota, nkeys = 4, 40, 1500, 2500
	}
	// one extra directory is a "reopen soak": many cycles of open / one store / SIGKILL, never a clean close and only an
	// occasional read-back, so that whatever a kill leaves behind (WAL files to replay, level-0 tables) accumulates as fast
	// as it can: a store that stops reopening after a few dozen kills is seen in the quick tier too.
	soakCycles := 32
	if tier == "thorough" {
		soakCycles = 80
	}
	mainCycles, mainQuota, mainKeys := cycles, quota, nkeys
	for s := 0; s <= nstores; s++ {
		soak := s == nstores
		cycles, quota, nkeys := mainCycles, mainQuota, mainKeys
		if soak {
			cycles, quota, nkeys = soakCycles, 1, 40
		}
		cid := fmt.Sprintf("crash%d", s+1)
		dir := filepath.Join(out, "crashdb-"+cid)
		os.RemoveAll(dir)
		if err := os.MkdirAll(dir, 0o755); err != nil {
			t.Fatal(err)
		}
		sseed := seed*131 + int64(s)
		fmt.Fprintf(w, "begin %s\n", cid)
		next := 0
		failed := false
		attsOf := map[int][]int{} // key -> attempt indices, oldest first
		// main directories: after the long cycles a run of short "burst" cycles - few stores, a kill, straight on to the next
		// incarnation, a read-back every fourth - so that many more kill points fall inside individual store calls (a store that
		// is not atomic loses or mixes a value only when the kill lands between its steps)
		bursts := 0
		if !soak {
			bursts = 16
			if tier == "thorough" {
				bursts = 60
			}
		}
		longCycles, longQuota := cycles, quota
		cycles += bursts
		for c := 1; c <= cycles && !failed; c++ {
			quota := longQuota
			burst := c > longCycles
			if burst {
				quota = 60 + r.Intn(60)
			}
			base := []string{"VERIF_CRASH_DIR=" + dir, "VERIF_CRASH_SEED=" + strconv.FormatInt(sseed, 10), "VERIF_CRASH_NKEYS=" + strconv.Itoa(nkeys), "VERIF_TIER=" + tier}
			// ---- store child, killed mid-stream
			killAfter := r.Intn(quota)
			switch r.Intn(8) {
			case 0:
				killAfter = 0 // during / right after Open
			case 1:
				killAfter = quota // after the whole quota: the child is idle, nothing in flight
			}
			if soak {
				killAfter = 1
			}
			openKill := func() {
				// an extra incarnation that dies the instant its Open returns: a second kill before the background flush of
				// what the first kill left behind can finish
				ok := c16start(t, append(base, "VERIF_CRASH_MODE=openkill"))
				okT := time.After(40 * time.Second)
			okloop:
				for {
					select {
					case _, more := <-ok.lines:
						if !more {
							break okloop
						}
					case <-okT:
						ok.kill()
					}
				}
				ok.cmd.Wait()
			}
			if soak && c%4 == 2 {
				openKill()
			}
			if soak && c%2 == 1 {
				base = append(base, "VERIF_CRASH_DUP=1", "VERIF_CRASH_SELFKILL=1")
			}
			delay := time.Duration(r.Intn(1500)) * time.Microsecond
			ch := c16start(t, append(base, "VERIF_CRASH_MODE=store", "VERIF_CRASH_START="+strconv.Itoa(next), "VERIF_CRASH_COUNT="+strconv.Itoa(quota)))
			acked := map[int]bool{}
			failedStores := 0
			opened := ""
			nacks := 0
			killed := false
			idle := false
			timeout := time.After(40 * time.Second)
			doKill := func() {
				if !killed {
					killed = true
					time.Sleep(delay)
					ch.kill()
				}
			}
			if killAfter == 0 && r.Intn(2) == 0 {
				doKill() // possibly before Open returned
			}
		loop:
			for {
				select {
				case ln, ok := <-ch.lines:
					if !ok {
						break loop
					}
					switch {
					case strings.HasPrefix(ln, "open "):
						opened = ln[5:]
						if killAfter == 0 {
							doKill()
						}
					case strings.HasPrefix(ln, "ack "):
						i, _ := strconv.Atoi(ln[4:])
						acked[i] = true
						nacks++
						if nacks >= killAfter {
							doKill()
						}
					case strings.HasPrefix(ln, "fail "):
						failedStores++
					case ln == "idle":
						idle = true
						doKill()
					}
				case <-timeout:
					doKill()
					opened = "err timeout"
				}
			}
			ch.cmd.Wait()
			if opened != "" && opened != "ok" {
				// the store child itself could not open the directory left by the previous kill
				fmt.Fprintf(w, "open %s cycle=%d who=store res=err msg=%s\n", cid, c, strings.ReplaceAll(opened, " ", "_"))
				failed = true
				break
			}
			last := next - 1
			for i := range acked {
				if i > last {
					last = i
				}
			}
			// attempts of this incarnation: everything up to the last acknowledgement, plus the one call that may have been in flight
			end := last + 1
			if end > next+quota-1 {
				end = next + quota - 1
			}
			if opened == "" {
				end = next - 1 // killed before Open returned: nothing was attempted
			}
			for i := next; i <= end; i++ {
				k, v := c16attempt(sseed, i, nkeys, tier)
				val, _ := v.Marshal()
				a := 0
				if acked[i] {
					a = 1
				}
				attsOf[k] = append(attsOf[k], i)
				fmt.Fprintf(w, "att %s i=%d key=%d ack=%d val=%s\n", cid, i, k, a, hex.EncodeToString(val))
			}
			fmt.Fprintf(w, "cyc %s cycle=%d start=%d acked=%d killafter=%d delayus=%d idle=%v storefailures=%d\n", cid, c, next, len(acked), killAfter, delay.Microseconds(), idle, failedStores)
			if end >= next {
				next = end + 1
			}
			if soak && c%5 == 3 {
				// crash-point enumeration inside badger's own Open: a process killed between creating the next memtable
				// write-ahead file and sizing it leaves an empty NNNNN.mem behind. That instant is microseconds wide, so
				// the on-disk state it leaves is produced directly instead of waiting for a kill to land there.
				c16emptyMem(dir)
			}
			if soak && c%8 != 0 && c != cycles {
				continue // soak directory: read back only now and then
			}
			if burst && c%4 != 0 && c != cycles {
				continue // burst cycles: read back every fourth
			}
			if !soak && !burst && c%2 == 0 {
				// main directories: the write-ahead file the killed store child left behind holds up to a thousand acknowledged
				// entries; the flush of that much outlasts Open, so this second kill lands inside it. Read back right after.
				openKill()
			}
			// ---- verify child: reopen, read everything back
			clean := r.Intn(2) == 0 && !soak
			env := append(base, "VERIF_CRASH_MODE=verify")
			how := "kill"
			if clean {
				env = append(env, "VERIF_CRASH_CLEAN=1")
				how = "clean"
			}
			vc := c16start(t, env)
			vopen := ""
			recs := []string{}
			done := false
			vt := time.After(60 * time.Second)
		vloop:
			for {
				select {
				case ln, ok := <-vc.lines:
					if !ok {
						break vloop
					}
					switch {
					case strings.HasPrefix(ln, "open "):
						vopen = ln[5:]
					case strings.HasPrefix(ln, "rec "):
						recs = append(recs, ln[4:])
					case ln == "done":
						done = true
						if !clean {
							vc.kill()
						}
					}
				case <-vt:
					vc.kill()
					if vopen == "" {
						vopen = "err timeout"
					}
				}
			}
			vc.cmd.Wait()
			if vopen != "ok" || !done {
				msg := vopen
				if msg == "" {
					msg = "child exited before Open returned"
				} else if vopen == "ok" {
					msg = "read-back did not finish"
				}
				fmt.Fprintf(w, "open %s cycle=%d who=verify res=err msg=%s\n", cid, c, strings.ReplaceAll(msg, " ", "_"))
				failed = true
				break
			}
			fmt.Fprintf(w, "open %s cycle=%d who=verify res=ok how=%s\n", cid, c, how)
			for _, rc := range recs {
				p := strings.Split(rc, " ")
				line := fmt.Sprintf("rec %s cycle=%d key=%s res=%s", cid, c, p[0], p[1])
				if p[1] == "ok" {
					same := -1
					if len(p[2]) > 2*2048 {
						// a big answer: name the attempt it is byte-identical to instead of repeating the bytes in every cycle
						k, _ := strconv.Atoi(p[0])
						idxs := attsOf[k]
						for j := len(idxs) - 1; j >= 0 && same < 0; j-- {
							_, v := c16attempt(sseed, idxs[j], nkeys, tier)
							val, _ := v.Marshal()
							if hex.EncodeToString(val) == p[2] {
								same = idxs[j]
							}
						}
					}
					if same >= 0 {
						line += " same=" + strconv.Itoa(same)
					} else {
						line += " val=" + p[2]
					}
				}
				fmt.Fprintln(w, line)
			}
		}
		if !failed {
			os.RemoveAll(dir)
		} else {
			t.Logf("store directory kept for inspection: %s", dir)
		}
	}
}
