//go:build verif

package db

import (
	"reflect"
	"unsafe"

	"github.com/dgraph-io/badger/v3"
)

// verifBadger finds the store's *badger.DB by its TYPE, not by the name of the field that holds it, so that renaming the
// field does not break the harnesses.
func (d *Database) verifBadger() *badger.DB {
	v := reflect.ValueOf(d).Elem()
	want := reflect.TypeOf((*badger.DB)(nil))
	for i := 0; i < v.NumField(); i++ {
		if f := v.Field(i); f.Type() == want {
			return (*badger.DB)(unsafe.Pointer(f.Pointer()))
		}
	}
	panic("verif: Database holds no *badger.DB field")
}

// VerifRawGet reads one key straight from badger, bypassing GetSignedVAABytes (and whatever a change may have put in front
// of it: caches, pooled buffers). Used by the processor harness so that its view of the store does not depend on the code
// under test more than it has to. found=false: the key is not there.
func (d *Database) VerifRawGet(key []byte) (val []byte, found bool, err error) {
	err = d.verifBadger().View(func(txn *badger.Txn) error {
		item, e := txn.Get(key)
		if e == badger.ErrKeyNotFound {
			return nil
		}
		if e != nil {
			return e
		}
		found = true
		val, e = item.ValueCopy(nil)
		return e
	})
	return
}
