//go:build verif

package db

import "github.com/dgraph-io/badger/v3"

// VerifRawGet reads one key straight from badger, bypassing GetSignedVAABytes (and whatever a change may have put in front
// of it: caches, pooled buffers). Used by the processor harness so that its view of the store does not depend on the code
// under test more than it has to. found=false: the key is not there.
func (d *Database) VerifRawGet(key []byte) (val []byte, found bool, err error) {
	err = d.db.View(func(txn *badger.Txn) error {
		item, e := txn.Get(key)
		if e == badger.ErrKeyNotFound {
			return nil
		}
		if e != nil {
			return e
		}
		found = true
		val, e = item.ValueCopy(nil)
		return e
	})
	return
}
