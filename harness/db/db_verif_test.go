//go:build verif

package db

// Correspondence harness for C12 (injected into package db by `go test -overlay`).
// Runs the real StoreSignedVAA / GetSignedVAABytes / FindEmitterSequenceGap / GetGovernanceVAABatch and the
// three key functions of vaa.VAAID on generated store histories and writes one line per operation to
// $VERIF_OUT/db.cases; the Lean driver (family `db`) replays the model on the same lines and evaluates the
// C12 Spec on the implementation's answers.

import (
	"bufio"
	"encoding/hex"
	"fmt"
	"math/rand"
	"os"
	"path/filepath"
	"sort"
	"strconv"
	"strings"
	"testing"
	"time"

	"github.com/alephium/wormhole-fork/node/pkg/vaa"
	"github.com/dgraph-io/badger/v3"
)

func c12hex(b []byte) string {
	if len(b) == 0 {
		return "-"
	}
	return hex.EncodeToString(b)
}

func c12canon(v *vaa.VAA) string {
	sigs := "-"
	if len(v.Signatures) > 0 {
		parts := make([]string, len(v.Signatures))
		for i, s := range v.Signatures {
			parts[i] = fmt.Sprintf("%d:%s", s.Index, hex.EncodeToString(s.Signature[:]))
		}
		sigs = strings.Join(parts, ";")
	}
	return fmt.Sprintf("%d,%d,%s,%d,%d,%d,%d,%s,%d,%d,%s", v.Version, v.GuardianSetIndex, sigs, v.Timestamp.Unix(),
		v.Nonce, uint16(v.EmitterChain), uint16(v.TargetChain), hex.EncodeToString(v.EmitterAddress[:]), v.Sequence,
		v.ConsistencyLevel, c12hex(v.Payload))
}

func c12u64s(l []uint64) string {
	if len(l) == 0 {
		return "-"
	}
	p := make([]string, len(l))
	for i, x := range l {
		p[i] = strconv.FormatUint(x, 10)
	}
	return strings.Join(p, ",")
}

type c12stream struct {
	ec   vaa.ChainID
	addr vaa.Address
	tc   vaa.ChainID
}

type c12gen struct {
	r    *rand.Rand
	w    *bufio.Writer
	d    *Database
	n    int
	cid  string
	dist map[string]int
	// state of the current case
	stored []vaa.VAAID
	down   bool // the badger handle is closed right now (lines carry down=1)
}

func (g *c12gen) sfx() string {
	if g.down {
		return " down=1"
	}
	return ""
}

// chain ids whose decimal renderings are prefixes of one another
var c12groups = [][]uint16{
	{2, 25, 255, 256, 20, 2555},
	{1, 10, 11, 12, 13, 14, 15, 16, 17, 10001, 100},
	{4, 42, 420, 44},
	{0, 6, 65, 655, 6553, 65535},
	{3, 30, 300, 3000, 30000},
}

var c12govAddr = vaa.Address{0, 0, 0, 0, 0, 0, 0, 0, 0, 0, 0, 0, 0, 0, 0, 0, 0, 0, 0, 0, 0, 0, 0, 0, 0, 0, 0, 0, 0, 0, 0, 4}

func (g *c12gen) newCase(kind string) {
	g.n++
	g.dist[kind]++
	g.cid = fmt.Sprintf("%s%d", kind, g.n)
	g.stored = nil
	if err := g.d.verifBadger().DropAll(); err != nil {
		panic(err)
	}
	fmt.Fprintf(g.w, "reset %s\n", g.cid)
}

func (g *c12gen) bytesN(n int) []byte {
	b := make([]byte, n)
	g.r.Read(b)
	return b
}

func (g *c12gen) mkVAA(s c12stream, seq uint64) *vaa.VAA {
	r := g.r
	v := &vaa.VAA{Version: 1, GuardianSetIndex: uint32(r.Intn(4)), EmitterChain: s.ec, EmitterAddress: s.addr, TargetChain: s.tc, Sequence: seq}
	nsig := 1 + r.Intn(2)
	if r.Intn(40) == 0 {
		nsig = 0
	}
	for i := 0; i < nsig; i++ {
		sg := &vaa.Signature{Index: uint8(i)}
		copy(sg.Signature[:], g.bytesN(65))
		v.Signatures = append(v.Signatures, sg)
	}
	v.Timestamp = time.Unix(int64(r.Uint32()), 0)
	v.Nonce = r.Uint32()
	v.ConsistencyLevel = uint8(r.Intn(256))
	plen := 1 + r.Intn(24)
	if r.Intn(200) == 0 {
		plen = 0
	}
	v.Payload = g.bytesN(plen)
	return v
}

func c12idStr(id vaa.VAAID) string {
	return fmt.Sprintf("%d,%s,%d,%d", uint16(id.EmitterChain), hex.EncodeToString(id.EmitterAddress[:]), uint16(id.TargetChain), id.Sequence)
}

func (g *c12gen) put(v *vaa.VAA) {
	res := "ok"
	func() {
		defer func() {
			if e := recover(); e != nil {
				res = "panic"
			}
		}()
		if err := g.d.StoreSignedVAA(v); err != nil {
			res = "err"
		}
	}()
	val, _ := v.Marshal()
	id := VaaIDFromVAA(v)
	fmt.Fprintf(g.w, "put %s v=%s res=%s key=%s val=%s\n", g.cid, c12canon(v), res, string(id.Bytes()), c12hex(val))
	if res == "ok" {
		g.stored = append(g.stored, *id)
	}
}

func (g *c12gen) raw(key []byte, val []byte) {
	err := g.d.verifBadger().Update(func(txn *badger.Txn) error { return txn.Set(key, val) })
	if err != nil {
		panic(err)
	}
	fmt.Fprintf(g.w, "raw %s key=%s val=%s\n", g.cid, c12hex(key), c12hex(val))
}

func (g *c12gen) get(id vaa.VAAID) {
	res := "ok"
	var b []byte
	func() {
		defer func() {
			if e := recover(); e != nil {
				res = "panic"
			}
		}()
		var err error
		b, err = g.d.GetSignedVAABytes(id)
		if err == ErrVAANotFound {
			res = "notfound"
		} else if err != nil {
			res = "err"
		}
	}()
	line := fmt.Sprintf("get %s id=%s res=%s", g.cid, c12idStr(id), res)
	if res == "ok" {
		line += " val=" + c12hex(b)
	}
	fmt.Fprintln(g.w, line+g.sfx())
}

func (g *c12gen) gap(s c12stream) {
	res := "ok"
	var missing []uint64
	var first, last uint64
	func() {
		defer func() {
			if e := recover(); e != nil {
				res = "panic"
			}
		}()
		var err error
		missing, first, last, err = g.d.FindEmitterSequenceGap(vaa.VAAID{EmitterChain: s.ec, EmitterAddress: s.addr, TargetChain: s.tc, Sequence: g.r.Uint64()})
		if err != nil {
			res = "err"
		}
	}()
	line := fmt.Sprintf("gap %s s=%d,%s,%d res=%s", g.cid, uint16(s.ec), hex.EncodeToString(s.addr[:]), uint16(s.tc), res)
	if res == "ok" {
		line += fmt.Sprintf(" missing=%s first=%d last=%d", c12u64s(missing), first, last)
	}
	fmt.Fprintln(g.w, line+g.sfx())
}

func (g *c12gen) gov(ec vaa.ChainID, addr vaa.Address, seqs []uint64) {
	res := "ok"
	var out []*GovernanceVAA
	func() {
		defer func() {
			if e := recover(); e != nil {
				res = "panic"
			}
		}()
		var err error
		out, err = g.d.GetGovernanceVAABatch(ec, addr, seqs)
		if err != nil {
			res = "err"
			if out != nil {
				res = "errnonnil"
			}
		}
	}()
	line := fmt.Sprintf("gov %s ec=%d addr=%s seqs=%s res=%s", g.cid, uint16(ec), hex.EncodeToString(addr[:]), c12u64s(seqs), res)
	if res == "ok" {
		parts := make([]string, len(out))
		for i, e := range out {
			parts[i] = fmt.Sprintf("%d:%d:%s", uint16(e.TargetChain), e.Sequence, c12hex(e.VaaBytes))
		}
		o := "-"
		if len(parts) > 0 {
			o = strings.Join(parts, ";")
		}
		line += " out=" + o
	}
	fmt.Fprintln(g.w, line+g.sfx())
}

func (g *c12gen) pfx(id vaa.VAAID) {
	g.n++
	g.dist["pfx"]++
	fmt.Fprintf(g.w, "pfx pfx%d id=%s key=%s ep=%s gp=%s\n", g.n, c12idStr(id), string(id.Bytes()), string(id.EmitterPrefixBytes()), string(id.GovernanceEmitterPrefixBytes()))
}

// universe of one stateful case
type c12uni struct {
	ecs   []vaa.ChainID
	addrs []vaa.Address
	tcs   []vaa.ChainID
	seqs  []uint64
}

func (g *c12gen) pickChains(n int) []vaa.ChainID {
	grp := c12groups[g.r.Intn(len(c12groups))]
	perm := g.r.Perm(len(grp))
	out := []vaa.ChainID{}
	for i := 0; i < n && i < len(perm); i++ {
		out = append(out, vaa.ChainID(grp[perm[i]]))
	}
	// the shortest member of the group is always present: it is the one whose rendering is a prefix of the others
	has := false
	for _, c := range out {
		if uint16(c) == grp[0] {
			has = true
		}
	}
	if !has {
		out[0] = vaa.ChainID(grp[0])
	}
	if g.r.Intn(3) == 0 {
		other := c12groups[g.r.Intn(len(c12groups))]
		c := vaa.ChainID(other[g.r.Intn(len(other))])
		dup := false
		for _, x := range out {
			if x == c {
				dup = true
			}
		}
		if !dup {
			out = append(out, c)
		}
	}
	return out
}

func (g *c12gen) universe(maxSeq int) *c12uni {
	u := &c12uni{}
	u.ecs = g.pickChains(1 + g.r.Intn(2))
	u.tcs = g.pickChains(2 + g.r.Intn(3))
	var a vaa.Address
	copy(a[:], g.bytesN(32))
	b := a
	b[31] ^= byte(1 + g.r.Intn(255))
	c := a
	c[0] ^= byte(1 + g.r.Intn(255))
	u.addrs = []vaa.Address{a, c12govAddr}
	switch g.r.Intn(3) {
	case 0:
		u.addrs = append(u.addrs, b)
	case 1:
		u.addrs = append(u.addrs, c)
	}
	for i := 0; i <= maxSeq; i++ {
		u.seqs = append(u.seqs, uint64(i))
	}
	return u
}

func (g *c12gen) rstream(u *c12uni) c12stream {
	return c12stream{u.ecs[g.r.Intn(len(u.ecs))], u.addrs[g.r.Intn(len(u.addrs))], u.tcs[g.r.Intn(len(u.tcs))]}
}

func (g *c12gen) rseqs(u *c12uni) []uint64 {
	n := g.r.Intn(9)
	out := []uint64{}
	for i := 0; i < n; i++ {
		switch g.r.Intn(8) {
		case 0:
			out = append(out, uint64(len(u.seqs))+uint64(g.r.Intn(5)))
		case 1:
			if len(out) > 0 {
				out = append(out, out[g.r.Intn(len(out))])
				continue
			}
			fallthrough
		default:
			out = append(out, u.seqs[g.r.Intn(len(u.seqs))])
		}
	}
	return out
}

// an identifier near a stored one: the look-alikes the statement's "for no other" is about
func (g *c12gen) neighbour(u *c12uni) vaa.VAAID {
	var id vaa.VAAID
	if len(g.stored) > 0 {
		id = g.stored[g.r.Intn(len(g.stored))]
	} else {
		s := g.rstream(u)
		id = vaa.VAAID{EmitterChain: s.ec, EmitterAddress: s.addr, TargetChain: s.tc, Sequence: 0}
	}
	switch g.r.Intn(9) {
	case 0:
		id.Sequence++
	case 1:
		id.Sequence = id.Sequence*10 + uint64(g.r.Intn(10))
	case 2:
		id.TargetChain = u.tcs[g.r.Intn(len(u.tcs))]
	case 3:
		id.EmitterChain = u.ecs[g.r.Intn(len(u.ecs))]
	case 4:
		id.EmitterAddress = u.addrs[g.r.Intn(len(u.addrs))]
	case 5:
		// swap emitter and target chain
		id.EmitterChain, id.TargetChain = id.TargetChain, id.EmitterChain
	case 6:
		n, _ := strconv.ParseUint(strconv.Itoa(int(id.TargetChain))+strconv.Itoa(g.r.Intn(10)), 10, 32)
		id.TargetChain = vaa.ChainID(uint16(n % 65536))
	case 7:
		id.Sequence /= 10
	case 8:
		id.EmitterAddress[g.r.Intn(32)] ^= byte(1 << uint(g.r.Intn(8)))
	}
	return id
}

func (g *c12gen) sweep(u *c12uni, gaps bool) {
	if gaps {
		for _, ec := range u.ecs {
			for _, a := range u.addrs {
				for _, tc := range u.tcs {
					g.gap(c12stream{ec, a, tc})
				}
			}
		}
	}
	all := append([]uint64{}, u.seqs...)
	for _, ec := range u.ecs {
		for _, a := range u.addrs {
			g.gov(ec, a, all)
		}
	}
	seen := map[string]bool{}
	ids := []vaa.VAAID{}
	for _, id := range g.stored {
		k := c12idStr(id)
		if !seen[k] {
			seen[k] = true
			ids = append(ids, id)
		}
	}
	sort.Slice(ids, func(i, j int) bool { return c12idStr(ids[i]) < c12idStr(ids[j]) })
	for _, id := range ids {
		g.get(id)
	}
	for i := 0; i < 30; i++ {
		g.get(g.neighbour(u))
	}
}

func (g *c12gen) mixCase(nops, maxSeq int) {
	g.newCase("mix")
	u := g.universe(maxSeq)
	for i := 0; i < nops; i++ {
		switch x := g.r.Intn(100); {
		case x < 58:
			s := g.rstream(u)
			g.put(g.mkVAA(s, u.seqs[g.r.Intn(len(u.seqs))]))
		case x < 64 && len(g.stored) > 0:
			// explicit overwrite of an existing identifier with a different VAA
			id := g.stored[g.r.Intn(len(g.stored))]
			g.put(g.mkVAA(c12stream{id.EmitterChain, id.EmitterAddress, id.TargetChain}, id.Sequence))
		case x < 74:
			if g.r.Intn(2) == 0 && len(g.stored) > 0 {
				g.get(g.stored[g.r.Intn(len(g.stored))])
			} else {
				g.get(g.neighbour(u))
			}
		case x < 88:
			g.gap(g.rstream(u))
		default:
			g.gov(u.ecs[g.r.Intn(len(u.ecs))], u.addrs[g.r.Intn(len(u.addrs))], g.rseqs(u))
		}
	}
	g.sweep(u, true)
}

// the defect scenario of DESIGN.md §8 #2 and its relatives, written out (deterministic)
func (g *c12gen) fixedCases() {
	a := vaa.Address{1, 2, 3, 4, 5, 6, 7, 8, 9, 10, 11, 12, 13, 14, 15, 16, 17, 18, 19, 20, 21, 22, 23, 24, 25, 26, 27, 28, 29, 30, 31, 32}
	type sc struct {
		ec  uint16
		tcs []uint16
		sq  [][]uint64
	}
	for _, c := range []sc{
		{13, []uint16{2, 25, 255}, [][]uint64{{0, 1}, {7}, {9}}},
		{1, []uint16{1, 10, 17, 10001}, [][]uint64{{0, 2}, {1}, {5}, {3, 4}}},
		{10, []uint16{4, 42}, [][]uint64{{}, {0, 1, 2}}},
		{2, []uint16{25, 2}, [][]uint64{{0, 1, 2, 3}, {3}}},
		{255, []uint16{0, 6, 65535}, [][]uint64{{1}, {0}, {2}}},
	} {
		g.newCase("fix")
		u := &c12uni{ecs: []vaa.ChainID{vaa.ChainID(c.ec)}, addrs: []vaa.Address{a, c12govAddr}, seqs: []uint64{0, 1, 2, 3, 4, 5, 6, 7, 8, 9, 10}}
		for i, tc := range c.tcs {
			u.tcs = append(u.tcs, vaa.ChainID(tc))
			for _, s := range c.sq[i] {
				g.put(g.mkSigned(c12stream{vaa.ChainID(c.ec), a, vaa.ChainID(tc)}, s))
				g.put(g.mkSigned(c12stream{vaa.ChainID(c.ec), c12govAddr, vaa.ChainID(tc)}, s+1))
			}
		}
		g.sweep(u, true)
	}
}

// Streams that hold a stored VAA vaa.Unmarshal rejects - an empty payload (Marshal writes what Unmarshal refuses), a version
// other than 1 - as their lowest / a middle / their highest / their only sequence, next to a look-alike stream that decodes.
// The lookup returns such a VAA byte-exact; the gap query may fail (it makes no statement then), but a report it does give
// has to be the stream's.  Also: the record overwritten by a VAA that decodes (an ordinary stream again) and the reverse.
func (g *c12gen) undecodableCases() {
	type spec struct {
		seqs []uint64
		bad  int // index into seqs of the undecodable record
	}
	mkBad := func(s c12stream, seq uint64, kind int) *vaa.VAA {
		v := g.mkSigned(s, seq)
		switch kind {
		case 0:
			v.Payload = nil
		case 1:
			v.Payload = []byte{}
		case 2:
			v.Version = 2
		case 3:
			v.Version = 0
		}
		return v
	}
	n := 0
	for kind := 0; kind < 4; kind++ {
		for _, sp := range []spec{{[]uint64{0, 3, 4, 8}, 0}, {[]uint64{1, 3, 4, 8}, 0}, {[]uint64{0, 3, 4, 8}, 2}, {[]uint64{0, 3, 4, 8}, 3}, {[]uint64{1, 2, 6}, 2}, {[]uint64{5}, 0}} {
			n++
			if kind%2 == 1 && n%2 == 0 {
				continue // the second spelling of a kind only on every other shape
			}
			g.newCase("und")
			grp := c12groups[g.r.Intn(len(c12groups))]
			var a vaa.Address
			copy(a[:], g.bytesN(32))
			u := &c12uni{ecs: []vaa.ChainID{vaa.ChainID(grp[1])}, addrs: []vaa.Address{a, c12govAddr}, tcs: []vaa.ChainID{vaa.ChainID(grp[0]), vaa.ChainID(grp[1]), vaa.ChainID(grp[2])},
				seqs: []uint64{0, 1, 2, 3, 4, 5, 6, 7, 8, 9}}
			s := c12stream{u.ecs[0], a, u.tcs[0]}
			for i, sq := range sp.seqs {
				if i == sp.bad {
					g.put(mkBad(s, sq, kind))
				} else {
					g.put(g.mkSigned(s, sq))
				}
				// the look-alike stream (target chain rendering extends the queried one) and the governance emitter
				g.put(g.mkSigned(c12stream{u.ecs[0], a, u.tcs[1]}, sq+1))
				g.put(g.mkSigned(c12stream{u.ecs[0], c12govAddr, u.tcs[0]}, sq+2))
			}
			g.sweep(u, true)
			switch n % 3 {
			case 0:
				// overwritten by a VAA that decodes
				g.put(g.mkSigned(s, sp.seqs[sp.bad]))
				g.gap(s)
			case 1:
				// a decodable record of the stream overwritten by one that does not decode
				g.put(mkBad(s, sp.seqs[len(sp.seqs)-1], kind))
				g.gap(s)
				g.get(vaa.VAAID{EmitterChain: s.ec, EmitterAddress: s.addr, TargetChain: s.tc, Sequence: sp.seqs[len(sp.seqs)-1]})
			}
		}
	}
}

// The store handle unavailable while it is being read (closed, as during a shutdown; every read then fails with an error that is
// not "not found"): a lookup / gap query / governance batch may fail - that makes no statement - but whatever it does answer has to
// be right: stored bytes exact, "not found" only for what was never stored, a gap report / batch only the stream's. Afterwards the
// directory is opened again and everything is asked once more.
func (g *c12gen) downCases(dir string, n int) {
	for c := 0; c < n; c++ {
		g.newCase("down")
		u := g.universe(3 + g.r.Intn(8))
		for i := 0; i < 6+g.r.Intn(20); i++ {
			g.put(g.mkSigned(g.rstream(u), u.seqs[g.r.Intn(len(u.seqs))]))
		}
		if err := g.d.Close(); err != nil {
			panic(err)
		}
		g.down = true
		g.sweep(u, true)
		g.down = false
		nd, err := Open(dir)
		if err != nil {
			panic("verif: store did not reopen: " + err.Error())
		}
		g.d = nd
		g.sweep(u, true)
	}
}

// like mkVAA but always signed with a non-empty payload
func (g *c12gen) mkSigned(s c12stream, seq uint64) *vaa.VAA {
	for {
		v := g.mkVAA(s, seq)
		if len(v.Signatures) > 0 && len(v.Payload) > 0 {
			return v
		}
	}
}

// huge sequence numbers and boundary chain ids: key rendering, get and governance batches only
// (a gap query over a stream containing 2^64-1 would never return)
func (g *c12gen) bigCase() {
	g.newCase("big")
	bigs := []uint64{0, 9, 10, 99, 100, 1<<32 - 1, 1 << 32, 1<<63 - 1, 1 << 63, 1<<64 - 2, 1<<64 - 1, 18446744073709551610, 1844674407370955161}
	u := &c12uni{ecs: []vaa.ChainID{vaa.ChainID(g.r.Intn(65536)), 65535}, tcs: []vaa.ChainID{0, 65535, 6553, vaa.ChainID(g.r.Intn(65536))}, seqs: bigs}
	var a vaa.Address
	copy(a[:], g.bytesN(32))
	u.addrs = []vaa.Address{a, c12govAddr, {}, {255, 255, 255, 255, 255, 255, 255, 255, 255, 255, 255, 255, 255, 255, 255, 255, 255, 255, 255, 255, 255, 255, 255, 255, 255, 255, 255, 255, 255, 255, 255, 255}}
	for i := 0; i < 40; i++ {
		g.put(g.mkVAA(g.rstream(u), bigs[g.r.Intn(len(bigs))]))
		if g.r.Intn(4) == 0 {
			g.gov(u.ecs[g.r.Intn(len(u.ecs))], u.addrs[g.r.Intn(len(u.addrs))], g.rseqs(u))
		}
	}
	g.sweep(u, false)
}

// entries that StoreSignedVAA would never write: exercises the error returns of the two scans
func (g *c12gen) rawCase() {
	g.newCase("raw")
	u := g.universe(6)
	for i := 0; i < 10; i++ {
		g.put(g.mkSigned(g.rstream(u), u.seqs[g.r.Intn(len(u.seqs))]))
	}
	g.sweep(u, true)
	ec := u.ecs[0]
	a := u.addrs[g.r.Intn(len(u.addrs))]
	gp := string((&vaa.VAAID{EmitterChain: ec, EmitterAddress: a}).GovernanceEmitterPrefixBytes())
	tc := u.tcs[0]
	var key string
	val := g.bytesN(10)
	switch g.r.Intn(8) {
	case 0:
		key = gp + "/x/3" // target chain not a number, sequence wanted
	case 1:
		key = gp + "/3/x" // sequence not a number
	case 2:
		key = gp + "/70000/2" // target chain does not fit 16 bits
	case 3:
		key = gp + "/3/18446744073709551616" // sequence does not fit 64 bits
	case 4:
		key = gp + "/3/" // empty sequence
	case 5:
		key = gp + "//2" // empty target chain
	case 6:
		// a well-formed key whose value is not a VAA: the gap scan must report the decode error
		key = fmt.Sprintf("%s/%d/%d", gp, uint16(tc), 2)
	case 7:
		key = gp + "/3/+2"
	}
	g.raw([]byte(key), val)
	for _, tc := range u.tcs {
		g.gap(c12stream{ec, a, tc})
	}
	g.gov(ec, a, u.seqs)
	g.gov(ec, a, []uint64{1})
	g.gov(ec, a, nil)
	for _, id := range g.stored {
		g.get(id)
	}
}

func TestVerifDb(t *testing.T) {
	seed, _ := strconv.ParseInt(os.Getenv("VERIF_SEED"), 10, 64)
	tier := os.Getenv("VERIF_TIER")
	out := os.Getenv("VERIF_OUT")
	if out == "" {
		t.Skip("VERIF_OUT not set")
	}
	f, err := os.Create(filepath.Join(out, "db.cases"))
	if err != nil {
		t.Fatal(err)
	}
	defer f.Close()
	w := bufio.NewWriterSize(f, 1<<20)
	defer w.Flush()
	dir := t.TempDir()
	d, err := Open(dir)
	if err != nil {
		t.Fatal(err)
	}
	g := &c12gen{r: rand.New(rand.NewSource(seed)), w: w, d: d, dist: map[string]int{}}
	defer func() { g.d.Close() }()

	nmix, nbig, nraw := 100, 4, 24
	if tier == "thorough" {
		nmix, nbig, nraw = 2000, 100, 300
	}

	// key functions on a grid of boundary identifiers
	chains := []uint16{0, 1, 2, 4, 9, 10, 17, 25, 42, 99, 100, 255, 256, 999, 1000, 9999, 10000, 10001, 65535}
	seqs := []uint64{0, 1, 9, 10, 11, 99, 100, 255, 1<<32 - 1, 1 << 32, 1<<63 - 1, 1 << 63, 1<<64 - 1}
	for i := 0; i < len(chains)*4; i++ {
		var a vaa.Address
		switch i % 4 {
		case 0:
			copy(a[:], g.bytesN(32))
		case 1:
			a = c12govAddr
		case 2:
			for j := range a {
				a[j] = 0xff
			}
		case 3:
			copy(a[16:], g.bytesN(16))
		}
		g.pfx(vaa.VAAID{EmitterChain: vaa.ChainID(chains[i%len(chains)]), EmitterAddress: a, TargetChain: vaa.ChainID(chains[g.r.Intn(len(chains))]), Sequence: seqs[g.r.Intn(len(seqs))]})
	}

	// an empty store answers every query
	g.newCase("empty")
	g.sweep(g.universe(3), true)

	g.fixedCases()
	// (drawn from a generator of its own so that the PRNG-driven cases below stay what they were)
	{
		g2 := &c12gen{r: rand.New(rand.NewSource(seed ^ 0x6d2b79f5)), w: w, d: d, dist: g.dist, n: g.n}
		g2.undecodableCases()
		g.n = g2.n
	}
	for i := 0; i < nmix; i++ {
		g.mixCase(30+g.r.Intn(50), 3+g.r.Intn(12))
	}
	for i := 0; i < nbig; i++ {
		g.bigCase()
	}
	for i := 0; i < nraw; i++ {
		g.rawCase()
	}
	// the store handle unavailable during the reads (own generator; last, so that every case above is what it was)
	{
		ndown := 4
		if tier == "thorough" {
			ndown = 40
		}
		g3 := &c12gen{r: rand.New(rand.NewSource(seed ^ 0x3c6ef372)), w: w, d: g.d, dist: g.dist, n: g.n}
		g3.downCases(dir, ndown)
		g.d, g.n = g3.d, g3.n
	}
	keys := make([]string, 0, len(g.dist))
	for k := range g.dist {
		keys = append(keys, k)
	}
	sort.Strings(keys)
	for _, k := range keys {
		t.Logf("dist %s=%d", k, g.dist[k])
	}
}
