//go:build verif

package common

// Correspondence harness for C17, part 2 (family `reobserve`): common.PostObservationRequest on queues of every fill
// level.  One line per call:   post <id> cap=<k> fill=<j> res=ok|full|blocked|panic|err len=<n after>
// The call runs in its own goroutine and is given c17PostTimeout to return; "blocked" is reported, never waited for.

import (
	"bufio"
	"errors"
	"fmt"
	"math/rand"
	"os"
	"path/filepath"
	"strconv"
	"testing"
	"time"

	gossipv1 "github.com/alephium/wormhole-fork/node/pkg/proto/gossip/v1"
)

const c17PostTimeout = 10 * time.Second

// after two blocked calls the remaining ones are not attempted (each would cost the full timeout)
var c17PostBlocked int

func c17Post(ch chan *gossipv1.ObservationRequest, req *gossipv1.ObservationRequest) string {
	if c17PostBlocked >= 2 {
		return "skipped"
	}
	resC := make(chan string, 1)
	go func() {
		defer func() {
			if e := recover(); e != nil {
				resC <- "panic"
			}
		}()
		err := PostObservationRequest(ch, req)
		switch {
		case err == nil:
			resC <- "ok"
		case errors.Is(err, ErrChanFull):
			resC <- "full"
		default:
			resC <- "err"
		}
	}()
	t := time.NewTimer(c17PostTimeout)
	defer t.Stop()
	select {
	case r := <-resC:
		return r
	case <-t.C:
		c17PostBlocked++
		return "blocked"
	}
}

func TestVerifC17Post(t *testing.T) {
	seed, _ := strconv.ParseInt(os.Getenv("VERIF_SEED"), 10, 64)
	out := os.Getenv("VERIF_OUT")
	if out == "" {
		t.Skip("VERIF_OUT not set")
	}
	f, err := os.Create(filepath.Join(out, "reobserve_post.cases"))
	if err != nil {
		t.Fatal(err)
	}
	defer f.Close()
	w := bufio.NewWriter(f)
	defer w.Flush()
	r := rand.New(rand.NewSource(seed))
	n := 0
	one := func(k, j int) {
		ch := make(chan *gossipv1.ObservationRequest, k)
		for i := 0; i < j; i++ {
			ch <- &gossipv1.ObservationRequest{ChainId: uint32(i)}
		}
		req := &gossipv1.ObservationRequest{ChainId: 1, TxHash: []byte{1}}
		res := c17Post(ch, req)
		if res == "skipped" {
			return
		}
		n++
		fmt.Fprintf(w, "post p%d cap=%d fill=%d res=%s len=%d\n", n, k, j, res, len(ch))
		if res == "ok" { // the posted request is the last item of the queue
			var last *gossipv1.ObservationRequest
			for len(ch) > 0 {
				last = <-ch
			}
			if last != req {
				n++
				fmt.Fprintf(w, "post p%d cap=%d fill=%d res=err len=%d\n", n, k, j, 0)
			}
		}
	}
	caps := []int{0, 1, 2, 3, 4, 5, ObsvReqChannelSize - 1, ObsvReqChannelSize, ObsvReqChannelSize + 1}
	for _, k := range caps {
		for j := 0; j <= k; j++ {
			one(k, j)
		}
	}
	for i := 0; i < 200; i++ {
		k := r.Intn(70)
		j := k
		if r.Intn(2) == 0 {
			j = r.Intn(k + 1)
		}
		one(k, j)
	}
	// filling a queue call by call: exactly cap successes, then failures, and again after one slot is freed
	for _, k := range []int{1, 3, ObsvReqChannelSize} {
		ch := make(chan *gossipv1.ObservationRequest, k)
		skipped := false
		for i := 0; i < k+3 && !skipped; i++ {
			before := len(ch)
			res := c17Post(ch, &gossipv1.ObservationRequest{ChainId: uint32(i)})
			if res == "skipped" {
				skipped = true
				break
			}
			n++
			fmt.Fprintf(w, "post p%d cap=%d fill=%d res=%s len=%d\n", n, k, before, res, len(ch))
		}
		if skipped || len(ch) == 0 {
			continue
		}
		<-ch
		before := len(ch)
		res := c17Post(ch, &gossipv1.ObservationRequest{ChainId: 7})
		if res == "skipped" {
			continue
		}
		n++
		fmt.Fprintf(w, "post p%d cap=%d fill=%d res=%s len=%d\n", n, k, before, res, len(ch))
	}
}
