//go:build verif

package common

// Correspondence harness for C03, part 2 (family `gossip`): GuardianSetState.SetHeartbeat / Cleanup / GetAll on random
// operation sequences around the per-guardian cap, with and without an update channel.  Same line format as the p2p
// harness (`reset`, `sethb`, `cleanup`, `end`); the full table is printed after every operation.
//   sethb   <cid> addr=<hex> from=<peerhex> hb=<canonhex@ts> res=<ok|e:toomany|panic> upd=<canon@ts,..|-> tbl=<table>
//   cleanup <cid> now=<ns> tbl=<table>

import (
	"bufio"
	"encoding/hex"
	"fmt"
	"math/rand"
	"os"
	"path/filepath"
	"reflect"
	"sort"
	"strconv"
	"strings"
	"sync"
	"testing"
	"time"
	"unsafe"

	gossipv1 "github.com/alephium/wormhole-fork/node/pkg/proto/gossip/v1"
	ethcommon "github.com/ethereum/go-ethereum/common"
	"github.com/libp2p/go-libp2p/core/peer"
	"google.golang.org/protobuf/proto"
)

func c03hex(b []byte) string {
	if len(b) == 0 {
		return "-"
	}
	return hex.EncodeToString(b)
}

func c03CanonHb(h *gossipv1.Heartbeat) string {
	b, err := proto.MarshalOptions{Deterministic: true}.Marshal(h)
	if err != nil {
		return "marshalerr@0"
	}
	return fmt.Sprintf("%s@%d", c03hex(b), h.Timestamp)
}

// c03internals finds the state's mutex and heartbeat table by their TYPES (not by field name, so that a rename does not break
// the harness).
func c03internals(gst *GuardianSetState) (*sync.Mutex, map[ethcommon.Address]map[peer.ID]*gossipv1.Heartbeat) {
	v := reflect.ValueOf(gst).Elem()
	var mu *sync.Mutex
	var table map[ethcommon.Address]map[peer.ID]*gossipv1.Heartbeat
	for i := 0; i < v.NumField(); i++ {
		f := v.Field(i)
		switch {
		case f.Type() == reflect.TypeOf(sync.Mutex{}):
			mu = (*sync.Mutex)(unsafe.Pointer(f.UnsafeAddr()))
		case f.Type() == reflect.TypeOf(table):
			table = *(*map[ethcommon.Address]map[peer.ID]*gossipv1.Heartbeat)(unsafe.Pointer(f.UnsafeAddr()))
		}
	}
	if mu == nil || table == nil {
		panic("verif: GuardianSetState no longer holds a sync.Mutex and a heartbeat table of the known type")
	}
	return mu, table
}

func c03Table(gst *GuardianSetState) string {
	all := gst.GetAll()
	// GetAll must be a faithful copy of the table itself
	mu, table := c03internals(gst)
	mu.Lock()
	same := len(all) == len(table)
	for a, v := range table {
		if len(all[a]) != len(v) {
			same = false
		}
		for p, hb := range v {
			if all[a][p] != hb {
				same = false
			}
		}
	}
	mu.Unlock()
	if !same {
		return "getall-differs-from-table"
	}
	var addrs []string
	byAddr := map[string]map[peer.ID]*gossipv1.Heartbeat{}
	for a, v := range all {
		h := hex.EncodeToString(a.Bytes())
		addrs = append(addrs, h)
		byAddr[h] = v
	}
	sort.Strings(addrs)
	var parts []string
	for _, a := range addrs {
		var ps []string
		for p, hb := range byAddr[a] {
			ps = append(ps, fmt.Sprintf("%s=%s", c03hex([]byte(p)), c03CanonHb(hb)))
		}
		sort.Strings(ps)
		inner := "-"
		if len(ps) > 0 {
			inner = strings.Join(ps, ",")
		}
		parts = append(parts, a+":"+inner)
	}
	if len(parts) == 0 {
		return "-"
	}
	return strings.Join(parts, ";")
}

func TestVerifC03Table(t *testing.T) {
	seed, _ := strconv.ParseInt(os.Getenv("VERIF_SEED"), 10, 64)
	tier := os.Getenv("VERIF_TIER")
	out := os.Getenv("VERIF_OUT")
	if out == "" {
		t.Skip("VERIF_OUT not set")
	}
	f, err := os.Create(filepath.Join(out, "gossip_table.cases"))
	if err != nil {
		t.Fatal(err)
	}
	defer f.Close()
	w := bufio.NewWriterSize(f, 1<<20)
	defer w.Flush()
	r := rand.New(rand.NewSource(seed))
	nsess, nops := 12, 70
	if tier == "thorough" {
		nsess, nops = 150, 150
	}
	for si := 0; si < nsess; si++ {
		cid := fmt.Sprintf("tbl%d", si+1)
		var updC chan *gossipv1.Heartbeat
		if si%2 == 0 {
			updC = make(chan *gossipv1.Heartbeat, 4)
		}
		gst := NewGuardianSetState(updC)
		u := 0
		if updC != nil {
			u = 1
		}
		fmt.Fprintf(w, "reset %s upd=%d\n", cid, u)
		nAddr := 1 + r.Intn(3)
		addrs := make([]ethcommon.Address, nAddr)
		for i := range addrs {
			r.Read(addrs[i][:])
		}
		nPeers := MaxNodesPerGuardian + 1 + r.Intn(4)
		if si%3 == 2 {
			nPeers = 1 + r.Intn(MaxNodesPerGuardian)
		}
		for op := 0; op < nops; op++ {
			if r.Intn(12) == 0 {
				now := time.Now().UnixNano()
				gst.Cleanup()
				fmt.Fprintf(w, "cleanup %s now=%d tbl=%s\n", cid, now, c03Table(gst))
				continue
			}
			a := addrs[r.Intn(nAddr)]
			p := peer.ID(fmt.Sprintf("peer-%02d", r.Intn(nPeers)))
			h := &gossipv1.Heartbeat{NodeName: fmt.Sprintf("n%d", r.Intn(100)), Counter: int64(op)}
			switch r.Intn(5) {
			case 0:
				h.Timestamp = 0
			case 1:
				h.Timestamp = time.Now().Add(-time.Duration(3+r.Intn(60)) * time.Minute).UnixNano()
			default: // not expired: at least a minute on the safe side of the boundary
				h.Timestamp = time.Now().Add(time.Duration(1+r.Intn(60)) * time.Minute).UnixNano()
			}
			res := "ok"
			func() {
				defer func() {
					if e := recover(); e != nil {
						res = "panic"
					}
				}()
				if err := gst.SetHeartbeat(a, p, h); err != nil {
					if strings.Contains(err.Error(), "too many nodes") {
						res = "e:toomany"
					} else {
						res = "e:other"
					}
				}
			}()
			upd := "-"
			if updC != nil {
				var ps []string
				for len(updC) > 0 {
					ps = append(ps, c03CanonHb(<-updC))
				}
				if len(ps) > 0 {
					upd = strings.Join(ps, ",")
				}
			}
			fmt.Fprintf(w, "sethb %s addr=%s from=%s hb=%s res=%s upd=%s tbl=%s\n", cid, hex.EncodeToString(a.Bytes()),
				c03hex([]byte(p)), c03CanonHb(h), res, upd, c03Table(gst))
		}
		fmt.Fprintf(w, "end %s\n", cid)
	}
	// concurrent writers at the cap: p2p delivers heartbeats from its own goroutines, so several SetHeartbeat calls for one
	// guardian can be in flight at once. The subscriber of the update channel is slow (it is the node's heartbeat logger).
	nconc := 6
	if tier == "thorough" {
		nconc = 60
	}
	for ci := 0; ci < nconc; ci++ {
		cid := fmt.Sprintf("tblc%d", ci+1)
		updC := make(chan *gossipv1.Heartbeat)
		stop := make(chan struct{})
		go func() {
			for {
				select {
				case <-updC:
					time.Sleep(500 * time.Microsecond)
				case <-stop:
					return
				}
			}
		}()
		gst := NewGuardianSetState(updC)
		fmt.Fprintf(w, "reset %s upd=0\n", cid)
		var a ethcommon.Address
		r.Read(a[:])
		before := MaxNodesPerGuardian - 1 - r.Intn(3)
		for i := 0; i < before; i++ {
			_ = gst.SetHeartbeat(a, peer.ID(fmt.Sprintf("peer-%02d", i)), &gossipv1.Heartbeat{NodeName: "n", Counter: int64(i), Timestamp: time.Now().Add(time.Hour).UnixNano()})
		}
		nw := 3 + r.Intn(6)
		gate := make(chan struct{})
		res := make(chan bool, nw)
		for g := 0; g < nw; g++ {
			g := g
			go func() {
				<-gate
				err := gst.SetHeartbeat(a, peer.ID(fmt.Sprintf("conc-%02d", g)), &gossipv1.Heartbeat{NodeName: "c", Counter: int64(g), Timestamp: time.Now().Add(time.Hour).UnixNano()})
				res <- err == nil
			}()
		}
		close(gate)
		oks := 0
		for g := 0; g < nw; g++ {
			if <-res {
				oks++
			}
		}
		close(stop)
		fmt.Fprintf(w, "conc %s addr=%s before=%d writers=%d oks=%d tbl=%s\n", cid, hex.EncodeToString(a.Bytes()), before, nw, oks, c03Table(gst))
		fmt.Fprintf(w, "end %s\n", cid)
	}
}
