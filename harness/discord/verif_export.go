//go:build verif

package discord

import (
	"github.com/diamondburned/arikawa/v3/api"
	"go.uber.org/zap"
)

// NewVerifNotifier builds a notifier without contacting Discord (no guild/channel discovery): it has no channels, so
// MissingSignaturesOnTransaction only formats its message (the group lookup fails offline and is logged). Used by the
// processor harness so that the miss-notification block of handleCleanup is executed.
func NewVerifNotifier() *DiscordNotifier {
	return &DiscordNotifier{
		c:         api.NewClient("Bot verif"),
		logger:    zap.NewNop(),
		groupToID: make(map[string]string),
	}
}
