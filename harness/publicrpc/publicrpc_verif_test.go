//go:build verif

package publicrpc

// Correspondence harness for C12, RPC layer (injected into package publicrpc by `go test -overlay`).
// A real PublicrpcServer over a real db.Database; every lookup RPC is called with valid, look-alike and
// malformed requests. Lines go to $VERIF_OUT/dbrpc.cases (driver family `db`).

import (
	"bufio"
	"context"
	"encoding/hex"
	"fmt"
	"math/rand"
	"os"
	"path/filepath"
	"strconv"
	"strings"
	"testing"
	"time"

	"github.com/alephium/wormhole-fork/node/pkg/db"
	publicrpcv1 "github.com/alephium/wormhole-fork/node/pkg/proto/publicrpc/v1"
	"github.com/alephium/wormhole-fork/node/pkg/vaa"
	"go.uber.org/zap"
	"google.golang.org/grpc/codes"
	"google.golang.org/grpc/status"
)

func c12hex(b []byte) string {
	if len(b) == 0 {
		return "-"
	}
	return hex.EncodeToString(b)
}

func c12canon(v *vaa.VAA) string {
	sigs := "-"
	if len(v.Signatures) > 0 {
		parts := make([]string, len(v.Signatures))
		for i, s := range v.Signatures {
			parts[i] = fmt.Sprintf("%d:%s", s.Index, hex.EncodeToString(s.Signature[:]))
		}
		sigs = strings.Join(parts, ";")
	}
	return fmt.Sprintf("%d,%d,%s,%d,%d,%d,%d,%s,%d,%d,%s", v.Version, v.GuardianSetIndex, sigs, v.Timestamp.Unix(),
		v.Nonce, uint16(v.EmitterChain), uint16(v.TargetChain), hex.EncodeToString(v.EmitterAddress[:]), v.Sequence,
		v.ConsistencyLevel, c12hex(v.Payload))
}

func c12u64s(l []uint64) string {
	if len(l) == 0 {
		return "-"
	}
	p := make([]string, len(l))
	for i, x := range l {
		p[i] = strconv.FormatUint(x, 10)
	}
	return strings.Join(p, ",")
}

// gRPC status -> the tag the model produces
func c12tag(err error) string {
	st, ok := status.FromError(err)
	if !ok {
		return "nonstatus"
	}
	m := st.Message()
	switch {
	case st.Code() == codes.InvalidArgument && m == "no message ID specified":
		return "noid"
	case st.Code() == codes.InvalidArgument && strings.HasPrefix(m, "failed to decode address: "):
		return "badhex"
	case st.Code() == codes.InvalidArgument && m == "address must be 32 bytes":
		return "badlen"
	case st.Code() == codes.InvalidArgument && m == "batch size exceed 20":
		return "batchsize"
	case st.Code() == codes.NotFound && m == db.ErrVAANotFound.Error():
		return "notfound"
	case st.Code() == codes.Internal && strings.HasPrefix(m, "internal server error: "):
		return "internal"
	}
	return fmt.Sprintf("code%d:%s", st.Code(), strings.ReplaceAll(m, " ", "_"))
}

type c12rpc struct {
	r   *rand.Rand
	rs  *rand.Rand // the batch sweeps draw from their own generator, so the PRNG-driven operations stay what they were
	w   *bufio.Writer
	t   *testing.T
	n   int
	cid string
	d   *db.Database
	s   *PublicrpcServer
	// universe of the case
	ecs, tcs []uint16
	addrs    []vaa.Address
	maxSeq   int
	stored   []vaa.VAAID
}

var c12groups = [][]uint16{
	{2, 25, 255, 256, 20},
	{1, 10, 11, 13, 17, 10001, 100},
	{4, 42, 420},
	{0, 6, 65, 65535},
}

func (g *c12rpc) bytesN(n int) []byte {
	b := make([]byte, n)
	g.r.Read(b)
	return b
}

func (g *c12rpc) newCase() {
	if g.d != nil {
		g.d.Close()
	}
	g.n++
	g.cid = fmt.Sprintf("rpc%d", g.n)
	d, err := db.Open(g.t.TempDir())
	if err != nil {
		g.t.Fatal(err)
	}
	g.d = d
	g.stored = nil
	grp := c12groups[g.r.Intn(len(c12groups))]
	g.tcs = []uint16{grp[0]}
	for _, i := range g.r.Perm(len(grp) - 1)[:1+g.r.Intn(2)] {
		g.tcs = append(g.tcs, grp[1+i])
	}
	grp2 := c12groups[g.r.Intn(len(c12groups))]
	g.ecs = []uint16{grp2[0], grp2[1+g.r.Intn(len(grp2)-1)]}
	var a vaa.Address
	copy(a[:], g.bytesN(32))
	gov := vaa.Address{}
	if g.r.Intn(2) == 0 {
		gov[31] = 4
	} else {
		copy(gov[:], g.bytesN(32))
	}
	b := a
	b[31] ^= 0x10
	g.addrs = []vaa.Address{a, gov, b}
	g.maxSeq = 4 + g.r.Intn(22)
	govChain := g.ecs[g.r.Intn(len(g.ecs))]
	g.s = NewPublicrpcServer(zap.NewNop(), d, nil, vaa.ChainID(govChain), gov)
	fmt.Fprintf(g.w, "reset %s\n", g.cid)
	fmt.Fprintf(g.w, "srv %s govec=%d govaddr=%s\n", g.cid, govChain, hex.EncodeToString(gov[:]))
}

func (g *c12rpc) put() {
	r := g.r
	v := &vaa.VAA{Version: 1, GuardianSetIndex: uint32(r.Intn(4)),
		EmitterChain: vaa.ChainID(g.ecs[r.Intn(len(g.ecs))]), EmitterAddress: g.addrs[r.Intn(len(g.addrs))],
		TargetChain: vaa.ChainID(g.tcs[r.Intn(len(g.tcs))]), Sequence: uint64(r.Intn(g.maxSeq + 1))}
	for i := 0; i < 1+r.Intn(2); i++ {
		sg := &vaa.Signature{Index: uint8(i)}
		copy(sg.Signature[:], g.bytesN(65))
		v.Signatures = append(v.Signatures, sg)
	}
	v.Timestamp = time.Unix(int64(r.Uint32()), 0)
	v.Nonce = r.Uint32()
	v.ConsistencyLevel = uint8(r.Intn(256))
	v.Payload = g.bytesN(1 + r.Intn(20))
	res := "ok"
	if err := g.d.StoreSignedVAA(v); err != nil {
		res = "err"
	}
	val, _ := v.Marshal()
	id := db.VaaIDFromVAA(v)
	fmt.Fprintf(g.w, "put %s v=%s res=%s key=%s val=%s\n", g.cid, c12canon(v), res, string(id.Bytes()), c12hex(val))
	if res == "ok" {
		g.stored = append(g.stored, *id)
	}
}

// address strings: the exact one, upper case, and the malformed family
func (g *c12rpc) addrString(a vaa.Address) string {
	h := hex.EncodeToString(a[:])
	switch g.r.Intn(14) {
	case 0:
		return strings.ToUpper(h)
	case 1:
		return h[:63] // odd length
	case 2:
		return h[:62] // 31 bytes
	case 3:
		return h + "00" // 33 bytes
	case 4:
		return "0x" + h
	case 5:
		return ""
	case 6:
		return h[:10] + "g" + h[11:]
	case 7:
		return h[:20] + " " + h[21:]
	}
	return h
}

func (g *c12rpc) chainNum(c uint16) int32 {
	switch g.r.Intn(12) {
	case 0:
		return int32(c) + 65536 // narrows to c
	case 1:
		return int32(c) - 65536
	case 2:
		return int32(c) + 65536*7
	}
	return int32(c)
}

func (g *c12rpc) pickID() vaa.VAAID {
	var id vaa.VAAID
	if len(g.stored) > 0 && g.r.Intn(4) != 0 {
		id = g.stored[g.r.Intn(len(g.stored))]
	} else {
		id = vaa.VAAID{EmitterChain: vaa.ChainID(g.ecs[g.r.Intn(len(g.ecs))]), EmitterAddress: g.addrs[g.r.Intn(len(g.addrs))],
			TargetChain: vaa.ChainID(g.tcs[g.r.Intn(len(g.tcs))]), Sequence: uint64(g.r.Intn(g.maxSeq + 2))}
	}
	switch g.r.Intn(10) {
	case 0:
		id.TargetChain = vaa.ChainID(g.tcs[g.r.Intn(len(g.tcs))])
	case 1:
		id.Sequence = id.Sequence*10 + uint64(g.r.Intn(3))
	case 2:
		id.EmitterChain, id.TargetChain = id.TargetChain, id.EmitterChain
	case 3:
		id.EmitterAddress = g.addrs[g.r.Intn(len(g.addrs))]
	case 4:
		id.Sequence++
	}
	return id
}

func (g *c12rpc) rget() {
	id := g.pickID()
	hasid := 1
	req := &publicrpcv1.GetSignedVAARequest{}
	ec, tc := g.chainNum(uint16(id.EmitterChain)), g.chainNum(uint16(id.TargetChain))
	as := g.addrString(id.EmitterAddress)
	if g.r.Intn(40) == 0 {
		hasid = 0
	} else {
		req.MessageId = &publicrpcv1.MessageID{EmitterChain: publicrpcv1.ChainID(ec), EmitterAddress: as, TargetChain: publicrpcv1.ChainID(tc), Sequence: id.Sequence}
	}
	res, val := g.callGet(req)
	line := fmt.Sprintf("rget %s hasid=%d ec=%d addr=%s tc=%d seq=%d res=%s", g.cid, hasid, ec, c12hex([]byte(as)), tc, id.Sequence, res)
	if res == "ok" {
		line += " val=" + c12hex(val)
	}
	fmt.Fprintln(g.w, line)
}

func (g *c12rpc) callGet(req *publicrpcv1.GetSignedVAARequest) (res string, val []byte) {
	defer func() {
		if e := recover(); e != nil {
			res = "panic"
		}
	}()
	resp, err := g.s.GetSignedVAA(context.Background(), req)
	if err != nil {
		if resp != nil {
			return "errnonnil", nil
		}
		return c12tag(err), nil
	}
	return "ok", resp.VaaBytes
}

func (g *c12rpc) seqList() []uint64 {
	n := g.r.Intn(12)
	switch g.r.Intn(10) {
	case 0:
		n = 20
	case 1:
		n = 21
	case 2:
		n = 22 + g.r.Intn(10)
	}
	out := make([]uint64, n)
	for i := range out {
		out[i] = uint64(g.r.Intn(g.maxSeq + 3))
	}
	return out
}

func (g *c12rpc) rbatch() {
	id := g.pickID()
	ec, tc := g.chainNum(uint16(id.EmitterChain)), g.chainNum(uint16(id.TargetChain))
	as := g.addrString(id.EmitterAddress)
	seqs := g.seqList()
	req := &publicrpcv1.GetNonGovernanceVAABatchRequest{EmitterChain: publicrpcv1.ChainID(ec), EmitterAddress: as, TargetChain: publicrpcv1.ChainID(tc), Sequences: seqs}
	res := "ok"
	var parts []string
	func() {
		defer func() {
			if e := recover(); e != nil {
				res = "panic"
			}
		}()
		resp, err := g.s.GetNonGovernanceVAABatch(context.Background(), req)
		if err != nil {
			res = c12tag(err)
			if resp != nil {
				res = "errnonnil"
			}
			return
		}
		for _, e := range resp.Entries {
			parts = append(parts, fmt.Sprintf("%d:%s", e.Sequence, c12hex(e.VaaBytes)))
		}
	}()
	line := fmt.Sprintf("rbatch %s ec=%d addr=%s tc=%d seqs=%s res=%s", g.cid, ec, c12hex([]byte(as)), tc, c12u64s(seqs), res)
	if res == "ok" {
		o := "-"
		if len(parts) > 0 {
			o = strings.Join(parts, ";")
		}
		line += " out=" + o
	}
	fmt.Fprintln(g.w, line)
}

// rbatchExact: a batch for exactly this stream and these sequences (canonical address, in-range chain numbers)
func (g *c12rpc) rbatchExact(ec, tc uint16, a vaa.Address, seqs []uint64) {
	as := hex.EncodeToString(a[:])
	req := &publicrpcv1.GetNonGovernanceVAABatchRequest{EmitterChain: publicrpcv1.ChainID(ec), EmitterAddress: as, TargetChain: publicrpcv1.ChainID(tc), Sequences: seqs}
	res := "ok"
	var parts []string
	func() {
		defer func() {
			if e := recover(); e != nil {
				res = "panic"
			}
		}()
		resp, err := g.s.GetNonGovernanceVAABatch(context.Background(), req)
		if err != nil {
			res = c12tag(err)
			if resp != nil {
				res = "errnonnil"
			}
			return
		}
		for _, e := range resp.Entries {
			parts = append(parts, fmt.Sprintf("%d:%s", e.Sequence, c12hex(e.VaaBytes)))
		}
	}()
	line := fmt.Sprintf("rbatch %s ec=%d addr=%s tc=%d seqs=%s res=%s", g.cid, ec, c12hex([]byte(as)), tc, c12u64s(seqs), res)
	if res == "ok" {
		o := "-"
		if len(parts) > 0 {
			o = strings.Join(parts, ";")
		}
		line += " out=" + o
	}
	fmt.Fprintln(g.w, line)
}

// batchSweep: every stream of the case is asked for all its sequences 0..maxSeq+1 (stored ones and holes) in batches of 2..20 -
// ascending, descending, shuffled - and for pairs (stored, hole), (hole, stored), (stored, another stored)
func (g *c12rpc) batchSweep() {
	storedSeqs := map[string][]uint64{}
	key := func(ec, tc uint16, a vaa.Address) string { return fmt.Sprintf("%d/%x/%d", ec, a[:], tc) }
	seen := map[string]bool{}
	for _, id := range g.stored {
		if k := string(id.Bytes()); !seen[k] {
			seen[k] = true
			sk := key(uint16(id.EmitterChain), uint16(id.TargetChain), id.EmitterAddress)
			storedSeqs[sk] = append(storedSeqs[sk], id.Sequence)
		}
	}
	for _, ec := range g.ecs {
		for _, a := range g.addrs {
			for _, tc := range g.tcs {
				st := storedSeqs[key(ec, tc, a)]
				if len(st) == 0 && g.rs.Intn(4) != 0 {
					continue
				}
				var all []uint64
				for q := 0; q <= g.maxSeq+1; q++ {
					all = append(all, uint64(q))
				}
				for lo := 0; lo < len(all); lo += 20 {
					hi := lo + 20
					if hi > len(all) {
						hi = len(all)
					}
					asc := append([]uint64{}, all[lo:hi]...)
					g.rbatchExact(ec, tc, a, asc)
					desc := make([]uint64, len(asc))
					for i, q := range asc {
						desc[len(asc)-1-i] = q
					}
					g.rbatchExact(ec, tc, a, desc)
					sh := append([]uint64{}, asc...)
					g.rs.Shuffle(len(sh), func(i, j int) { sh[i], sh[j] = sh[j], sh[i] })
					if len(sh) >= 2 {
						g.rbatchExact(ec, tc, a, sh[:2+g.rs.Intn(len(sh)-1)])
					}
				}
				if len(st) > 0 {
					isStored := map[uint64]bool{}
					for _, q := range st {
						isStored[q] = true
					}
					hole := uint64(g.maxSeq + 2)
					for q := uint64(0); q <= uint64(g.maxSeq+1); q++ {
						if !isStored[q] {
							hole = q
							break
						}
					}
					x := st[g.rs.Intn(len(st))]
					g.rbatchExact(ec, tc, a, []uint64{x, hole})
					g.rbatchExact(ec, tc, a, []uint64{hole, x})
					if len(st) > 1 {
						y := st[g.rs.Intn(len(st))]
						g.rbatchExact(ec, tc, a, []uint64{x, y})
						g.rbatchExact(ec, tc, a, []uint64{hole, y, hole + 1, x})
					}
				}
			}
		}
	}
}

func (g *c12rpc) rgov() {
	seqs := g.seqList()
	req := &publicrpcv1.GetGovernanceVAABatchRequest{Sequences: seqs}
	res := "ok"
	var parts []string
	func() {
		defer func() {
			if e := recover(); e != nil {
				res = "panic"
			}
		}()
		resp, err := g.s.GetGovernanceVAABatch(context.Background(), req)
		if err != nil {
			res = c12tag(err)
			if resp != nil {
				res = "errnonnil"
			}
			return
		}
		for _, e := range resp.Entries {
			parts = append(parts, fmt.Sprintf("%d:%d:%s", int32(e.TargetChain), e.Sequence, c12hex(e.VaaBytes)))
		}
	}()
	line := fmt.Sprintf("rgov %s seqs=%s res=%s", g.cid, c12u64s(seqs), res)
	if res == "ok" {
		o := "-"
		if len(parts) > 0 {
			o = strings.Join(parts, ";")
		}
		line += " out=" + o
	}
	fmt.Fprintln(g.w, line)
}

func TestVerifDbRpc(t *testing.T) {
	seed, _ := strconv.ParseInt(os.Getenv("VERIF_SEED"), 10, 64)
	tier := os.Getenv("VERIF_TIER")
	out := os.Getenv("VERIF_OUT")
	if out == "" {
		t.Skip("VERIF_OUT not set")
	}
	f, err := os.Create(filepath.Join(out, "dbrpc.cases"))
	if err != nil {
		t.Fatal(err)
	}
	defer f.Close()
	w := bufio.NewWriterSize(f, 1<<20)
	defer w.Flush()
	g := &c12rpc{r: rand.New(rand.NewSource(seed ^ 0x5bd1e995)), rs: rand.New(rand.NewSource(seed ^ 0x1b873593)), w: w, t: t}
	ncases, nops := 12, 220
	if tier == "thorough" {
		ncases, nops = 250, 400
	}
	for c := 0; c < ncases; c++ {
		g.newCase()
		// an empty store first
		g.rget()
		g.rbatch()
		g.rgov()
		for i := 0; i < nops; i++ {
			switch x := g.r.Intn(100); {
			case x < 35:
				g.put()
			case x < 65:
				g.rget()
			case x < 83:
				g.rbatch()
			default:
				g.rgov()
			}
		}
		// every stream through the batch RPC: all its sequences, stored ones and holes, in batches of 2..20
		g.batchSweep()
		// every stored identifier through the RPC, exactly
		seen := map[string]bool{}
		for _, id := range g.stored {
			k := string(id.Bytes())
			if seen[k] {
				continue
			}
			seen[k] = true
			req := &publicrpcv1.GetSignedVAARequest{MessageId: &publicrpcv1.MessageID{EmitterChain: publicrpcv1.ChainID(id.EmitterChain),
				EmitterAddress: hex.EncodeToString(id.EmitterAddress[:]), TargetChain: publicrpcv1.ChainID(id.TargetChain), Sequence: id.Sequence}}
			res, val := g.callGet(req)
			line := fmt.Sprintf("rget %s hasid=1 ec=%d addr=%s tc=%d seq=%d res=%s", g.cid, uint16(id.EmitterChain), c12hex([]byte(hex.EncodeToString(id.EmitterAddress[:]))), uint16(id.TargetChain), id.Sequence, res)
			if res == "ok" {
				line += " val=" + c12hex(val)
			}
			fmt.Fprintln(g.w, line)
		}
	}
	if g.d != nil {
		g.d.Close()
	}
}
