//go:build verif

package publicrpc

// Correspondence harness for C12, RPC layer (injected into package publicrpc by `go test -overlay`).
// A real PublicrpcServer over a real db.Database; every lookup RPC is called with valid, look-alike and
// malformed requests. Lines go to $VERIF_OUT/dbrpc.cases (driver family `db`).

import (
	"bufio"
	"context"
	"encoding/hex"
	"fmt"
	"math/rand"
	"os"
	"path/filepath"
	"reflect"
	"strconv"
	"strings"
	"testing"
	"time"
	"unsafe"

	"github.com/alephium/wormhole-fork/node/pkg/db"
	publicrpcv1 "github.com/alephium/wormhole-fork/node/pkg/proto/publicrpc/v1"
	"github.com/alephium/wormhole-fork/node/pkg/vaa"
	"go.uber.org/zap"
	"google.golang.org/grpc/codes"
	"google.golang.org/grpc/status"
)

func c12hex(b []byte) string {
	if len(b) == 0 {
		return "-"
	}
	return hex.EncodeToString(b)
}

func c12canon(v *vaa.VAA) string {
	sigs := "-"
	if len(v.Signatures) > 0 {
		parts := make([]string, len(v.Signatures))
		for i, s := range v.Signatures {
			parts[i] = fmt.Sprintf("%d:%s", s.Index, hex.EncodeToString(s.Signature[:]))
		}
		sigs = strings.Join(parts, ";")
	}
	return fmt.Sprintf("%d,%d,%s,%d,%d,%d,%d,%s,%d,%d,%s", v.Version, v.GuardianSetIndex, sigs, v.Timestamp.Unix(),
		v.Nonce, uint16(v.EmitterChain), uint16(v.TargetChain), hex.EncodeToString(v.EmitterAddress[:]), v.Sequence,
		v.ConsistencyLevel, c12hex(v.Payload))
}

func c12u64s(l []uint64) string {
	if len(l) == 0 {
		return "-"
	}
	p := make([]string, len(l))
	for i, x := range l {
		p[i] = strconv.FormatUint(x, 10)
	}
	return strings.Join(p, ",")
}

// gRPC status -> the tag the model produces
func c12tag(err error) string {
	st, ok := status.FromError(err)
	if !ok {
		return "nonstatus"
	}
	m := st.Message()
	switch {
	case st.Code() == codes.InvalidArgument && m == "no message ID specified":
		return "noid"
	case st.Code() == codes.InvalidArgument && strings.HasPrefix(m, "failed to decode address: "):
		return "badhex"
	case st.Code() == codes.InvalidArgument && m == "address must be 32 bytes":
		return "badlen"
	case st.Code() == codes.InvalidArgument && m == "batch size exceed 20":
		return "batchsize"
	case st.Code() == codes.NotFound && m == db.ErrVAANotFound.Error():
		return "notfound"
	case st.Code() == codes.Internal && strings.HasPrefix(m, "internal server error: "):
		return "internal"
	}
	return fmt.Sprintf("code%d:%s", st.Code(), strings.ReplaceAll(m, " ", "_"))
}

type c12rpc struct {
	r   *rand.Rand
	rs  *rand.Rand // the batch sweeps draw from their own generator, so the PRNG-driven operations stay what they were
	w   *bufio.Writer
	t   *testing.T
	n   int
	cid string
	d   *db.Database
	s   *PublicrpcServer
	// universe of the case
	ecs, tcs []uint16
	addrs    []vaa.Address
	maxSeq   int
	stored   []vaa.VAAID
	dir      string     // the store directory of the case
	isDown   bool       // the store handle is closed right now (lines carry down=1)
	rd       *rand.Rand // the store-unavailable episodes and the chain-id cases draw from their own generator
}

// sfx marks the lines of calls made while the store handle is unavailable
func (g *c12rpc) sfx() string {
	if g.isDown {
		return " down=1"
	}
	return ""
}

// setServerDB points the running server at another store handle; the field is found by its TYPE, not by its name
func (g *c12rpc) setServerDB(nd *db.Database) {
	v := reflect.ValueOf(g.s).Elem()
	want := reflect.TypeOf((*db.Database)(nil))
	for i := 0; i < v.NumField(); i++ {
		if f := v.Field(i); f.Type() == want {
			reflect.NewAt(f.Type(), unsafe.Pointer(f.UnsafeAddr())).Elem().Set(reflect.ValueOf(nd))
			return
		}
	}
	g.t.Fatal("verif: PublicrpcServer holds no *db.Database field")
}

// withDown: the store handle is unavailable for the duration of f (closed, as in runNode's deferred db.Close() while the gRPC
// server still accepts calls; every read then fails with an error that is not "not found"), then the directory is opened again
// and the running server continues on the new handle - nothing that was stored may have changed.
func (g *c12rpc) withDown(f func()) {
	if err := g.d.Close(); err != nil {
		g.t.Fatal(err)
	}
	g.isDown = true
	f()
	g.isDown = false
	g.reopenNow()
}

func (g *c12rpc) reopenNow() {
	nd, err := db.Open(g.dir)
	if err != nil {
		g.t.Fatalf("verif: store did not reopen: %v", err)
	}
	g.d = nd
	g.setServerDB(nd)
}

// restart: a clean close and a reopen of the directory between two calls (what a node restart does to the store)
func (g *c12rpc) restart() {
	if err := g.d.Close(); err != nil {
		g.t.Fatal(err)
	}
	g.reopenNow()
	fmt.Fprintf(g.w, "reopen %s\n", g.cid)
}

// rgetExact: the lookup of exactly this identifier (canonical address, in-range chain numbers)
func (g *c12rpc) rgetExact(id vaa.VAAID) {
	as := hex.EncodeToString(id.EmitterAddress[:])
	req := &publicrpcv1.GetSignedVAARequest{MessageId: &publicrpcv1.MessageID{EmitterChain: publicrpcv1.ChainID(id.EmitterChain),
		EmitterAddress: as, TargetChain: publicrpcv1.ChainID(id.TargetChain), Sequence: id.Sequence}}
	res, val := g.callGet(req)
	line := fmt.Sprintf("rget %s hasid=1 ec=%d addr=%s tc=%d seq=%d res=%s", g.cid, uint16(id.EmitterChain), c12hex([]byte(as)), uint16(id.TargetChain), id.Sequence, res)
	if res == "ok" {
		line += " val=" + c12hex(val)
	}
	fmt.Fprintln(g.w, line+g.sfx())
}

// downEpisode: single lookups and batches while the handle is unavailable - stored identifiers, holes, a whole stream, an empty
// batch, the governance batch, also requests the server has to refuse before it reads anything (drawn from g.rd)
func (g *c12rpc) downEpisode() {
	saved := g.r
	g.r = g.rd
	defer func() { g.r = saved }()
	g.withDown(func() {
		seen := map[string]bool{}
		n := 0
		for _, i := range g.r.Perm(len(g.stored)) {
			id := g.stored[i]
			if k := string(id.Bytes()); seen[k] || n >= 3 {
				continue
			} else {
				seen[k] = true
			}
			n++
			g.rgetExact(id)
			// the stream of that identifier: the stored sequence alone, with a hole, and every sequence of the case
			var others []uint64
			for _, o := range g.stored {
				if o.EmitterChain == id.EmitterChain && o.TargetChain == id.TargetChain && o.EmitterAddress == id.EmitterAddress && o.Sequence != id.Sequence {
					others = append(others, o.Sequence)
				}
			}
			hole := uint64(g.maxSeq + 2 + g.r.Intn(5))
			g.rbatchExact(uint16(id.EmitterChain), uint16(id.TargetChain), id.EmitterAddress, []uint64{id.Sequence})
			g.rbatchExact(uint16(id.EmitterChain), uint16(id.TargetChain), id.EmitterAddress, []uint64{hole, id.Sequence})
			if len(others) > 0 {
				sq := []uint64{id.Sequence, hole}
				for _, o := range others {
					if len(sq) < 20 {
						sq = append(sq, o)
					}
				}
				g.rbatchExact(uint16(id.EmitterChain), uint16(id.TargetChain), id.EmitterAddress, sq)
			}
			// a never-stored neighbour
			absent := id
			absent.Sequence = uint64(g.maxSeq + 7)
			g.rgetExact(absent)
		}
		a := g.addrs[g.r.Intn(len(g.addrs))]
		g.rbatchExact(g.ecs[0], g.tcs[0], a, nil)               // nothing to read: an empty answer is exact
		g.rbatchExact(g.ecs[0], g.tcs[0], a, []uint64{0, 1, 2}) // possibly a stream nothing was stored in
		g.rgov()
		// the PRNG-shaped requests (malformed addresses, out-of-range enum numbers, over-long batches)
		for i := 0; i < 3; i++ {
			g.rget()
			g.rbatch()
		}
	})
}

var c12groups = [][]uint16{
	{2, 25, 255, 256, 20},
	{1, 10, 11, 13, 17, 10001, 100},
	{4, 42, 420},
	{0, 6, 65, 65535},
}

func (g *c12rpc) bytesN(n int) []byte {
	b := make([]byte, n)
	g.r.Read(b)
	return b
}

func (g *c12rpc) newCase() {
	if g.d != nil {
		g.d.Close()
	}
	g.n++
	g.cid = fmt.Sprintf("rpc%d", g.n)
	g.dir = g.t.TempDir()
	d, err := db.Open(g.dir)
	if err != nil {
		g.t.Fatal(err)
	}
	g.d = d
	g.stored = nil
	grp := c12groups[g.r.Intn(len(c12groups))]
	g.tcs = []uint16{grp[0]}
	for _, i := range g.r.Perm(len(grp) - 1)[:1+g.r.Intn(2)] {
		g.tcs = append(g.tcs, grp[1+i])
	}
	grp2 := c12groups[g.r.Intn(len(c12groups))]
	g.ecs = []uint16{grp2[0], grp2[1+g.r.Intn(len(grp2)-1)]}
	var a vaa.Address
	copy(a[:], g.bytesN(32))
	gov := vaa.Address{}
	if g.r.Intn(2) == 0 {
		gov[31] = 4
	} else {
		copy(gov[:], g.bytesN(32))
	}
	b := a
	b[31] ^= 0x10
	g.addrs = []vaa.Address{a, gov, b}
	g.maxSeq = 4 + g.r.Intn(22)
	govChain := g.ecs[g.r.Intn(len(g.ecs))]
	g.s = NewPublicrpcServer(zap.NewNop(), d, nil, vaa.ChainID(govChain), gov)
	fmt.Fprintf(g.w, "reset %s\n", g.cid)
	fmt.Fprintf(g.w, "srv %s govec=%d govaddr=%s\n", g.cid, govChain, hex.EncodeToString(gov[:]))
}

func (g *c12rpc) put() {
	r := g.r
	v := &vaa.VAA{Version: 1, GuardianSetIndex: uint32(r.Intn(4)),
		EmitterChain: vaa.ChainID(g.ecs[r.Intn(len(g.ecs))]), EmitterAddress: g.addrs[r.Intn(len(g.addrs))],
		TargetChain: vaa.ChainID(g.tcs[r.Intn(len(g.tcs))]), Sequence: uint64(r.Intn(g.maxSeq + 1))}
	for i := 0; i < 1+r.Intn(2); i++ {
		sg := &vaa.Signature{Index: uint8(i)}
		copy(sg.Signature[:], g.bytesN(65))
		v.Signatures = append(v.Signatures, sg)
	}
	v.Timestamp = time.Unix(int64(r.Uint32()), 0)
	v.Nonce = r.Uint32()
	v.ConsistencyLevel = uint8(r.Intn(256))
	v.Payload = g.bytesN(1 + r.Intn(20))
	res := "ok"
	if err := g.d.StoreSignedVAA(v); err != nil {
		res = "err"
	}
	val, _ := v.Marshal()
	id := db.VaaIDFromVAA(v)
	fmt.Fprintf(g.w, "put %s v=%s res=%s key=%s val=%s\n", g.cid, c12canon(v), res, string(id.Bytes()), c12hex(val))
	if res == "ok" {
		g.stored = append(g.stored, *id)
	}
}

// address strings: the exact one, upper case, and the malformed family
func (g *c12rpc) addrString(a vaa.Address) string {
	h := hex.EncodeToString(a[:])
	switch g.r.Intn(14) {
	case 0:
		return strings.ToUpper(h)
	case 1:
		return h[:63] // odd length
	case 2:
		return h[:62] // 31 bytes
	case 3:
		return h + "00" // 33 bytes
	case 4:
		return "0x" + h
	case 5:
		return ""
	case 6:
		return h[:10] + "g" + h[11:]
	case 7:
		return h[:20] + " " + h[21:]
	}
	return h
}

func (g *c12rpc) chainNum(c uint16) int32 {
	switch g.r.Intn(12) {
	case 0:
		return int32(c) + 65536 // narrows to c
	case 1:
		return int32(c) - 65536
	case 2:
		return int32(c) + 65536*7
	}
	return int32(c)
}

func (g *c12rpc) pickID() vaa.VAAID {
	var id vaa.VAAID
	if len(g.stored) > 0 && g.r.Intn(4) != 0 {
		id = g.stored[g.r.Intn(len(g.stored))]
	} else {
		id = vaa.VAAID{EmitterChain: vaa.ChainID(g.ecs[g.r.Intn(len(g.ecs))]), EmitterAddress: g.addrs[g.r.Intn(len(g.addrs))],
			TargetChain: vaa.ChainID(g.tcs[g.r.Intn(len(g.tcs))]), Sequence: uint64(g.r.Intn(g.maxSeq + 2))}
	}
	switch g.r.Intn(10) {
	case 0:
		id.TargetChain = vaa.ChainID(g.tcs[g.r.Intn(len(g.tcs))])
	case 1:
		id.Sequence = id.Sequence*10 + uint64(g.r.Intn(3))
	case 2:
		id.EmitterChain, id.TargetChain = id.TargetChain, id.EmitterChain
	case 3:
		id.EmitterAddress = g.addrs[g.r.Intn(len(g.addrs))]
	case 4:
		id.Sequence++
	}
	return id
}

func (g *c12rpc) rget() {
	id := g.pickID()
	hasid := 1
	req := &publicrpcv1.GetSignedVAARequest{}
	ec, tc := g.chainNum(uint16(id.EmitterChain)), g.chainNum(uint16(id.TargetChain))
	as := g.addrString(id.EmitterAddress)
	if g.r.Intn(40) == 0 {
		hasid = 0
	} else {
		req.MessageId = &publicrpcv1.MessageID{EmitterChain: publicrpcv1.ChainID(ec), EmitterAddress: as, TargetChain: publicrpcv1.ChainID(tc), Sequence: id.Sequence}
	}
	res, val := g.callGet(req)
	line := fmt.Sprintf("rget %s hasid=%d ec=%d addr=%s tc=%d seq=%d res=%s", g.cid, hasid, ec, c12hex([]byte(as)), tc, id.Sequence, res)
	if res == "ok" {
		line += " val=" + c12hex(val)
	}
	fmt.Fprintln(g.w, line+g.sfx())
}

func (g *c12rpc) callGet(req *publicrpcv1.GetSignedVAARequest) (res string, val []byte) {
	defer func() {
		if e := recover(); e != nil {
			res = "panic"
		}
	}()
	resp, err := g.s.GetSignedVAA(context.Background(), req)
	if err != nil {
		if resp != nil {
			return "errnonnil", nil
		}
		return c12tag(err), nil
	}
	return "ok", resp.VaaBytes
}

func (g *c12rpc) seqList() []uint64 {
	n := g.r.Intn(12)
	switch g.r.Intn(10) {
	case 0:
		n = 20
	case 1:
		n = 21
	case 2:
		n = 22 + g.r.Intn(10)
	}
	out := make([]uint64, n)
	for i := range out {
		out[i] = uint64(g.r.Intn(g.maxSeq + 3))
	}
	return out
}

func (g *c12rpc) rbatch() {
	id := g.pickID()
	ec, tc := g.chainNum(uint16(id.EmitterChain)), g.chainNum(uint16(id.TargetChain))
	as := g.addrString(id.EmitterAddress)
	seqs := g.seqList()
	req := &publicrpcv1.GetNonGovernanceVAABatchRequest{EmitterChain: publicrpcv1.ChainID(ec), EmitterAddress: as, TargetChain: publicrpcv1.ChainID(tc), Sequences: seqs}
	res := "ok"
	var parts []string
	func() {
		defer func() {
			if e := recover(); e != nil {
				res = "panic"
			}
		}()
		resp, err := g.s.GetNonGovernanceVAABatch(context.Background(), req)
		if err != nil {
			res = c12tag(err)
			if resp != nil {
				res = "errnonnil"
			}
			return
		}
		for _, e := range resp.Entries {
			parts = append(parts, fmt.Sprintf("%d:%s", e.Sequence, c12hex(e.VaaBytes)))
		}
	}()
	line := fmt.Sprintf("rbatch %s ec=%d addr=%s tc=%d seqs=%s res=%s", g.cid, ec, c12hex([]byte(as)), tc, c12u64s(seqs), res)
	if res == "ok" {
		o := "-"
		if len(parts) > 0 {
			o = strings.Join(parts, ";")
		}
		line += " out=" + o
	}
	fmt.Fprintln(g.w, line+g.sfx())
}

// rbatchExact: a batch for exactly this stream and these sequences (canonical address, in-range chain numbers)
func (g *c12rpc) rbatchExact(ec, tc uint16, a vaa.Address, seqs []uint64) {
	as := hex.EncodeToString(a[:])
	req := &publicrpcv1.GetNonGovernanceVAABatchRequest{EmitterChain: publicrpcv1.ChainID(ec), EmitterAddress: as, TargetChain: publicrpcv1.ChainID(tc), Sequences: seqs}
	res := "ok"
	var parts []string
	func() {
		defer func() {
			if e := recover(); e != nil {
				res = "panic"
			}
		}()
		resp, err := g.s.GetNonGovernanceVAABatch(context.Background(), req)
		if err != nil {
			res = c12tag(err)
			if resp != nil {
				res = "errnonnil"
			}
			return
		}
		for _, e := range resp.Entries {
			parts = append(parts, fmt.Sprintf("%d:%s", e.Sequence, c12hex(e.VaaBytes)))
		}
	}()
	line := fmt.Sprintf("rbatch %s ec=%d addr=%s tc=%d seqs=%s res=%s", g.cid, ec, c12hex([]byte(as)), tc, c12u64s(seqs), res)
	if res == "ok" {
		o := "-"
		if len(parts) > 0 {
			o = strings.Join(parts, ";")
		}
		line += " out=" + o
	}
	fmt.Fprintln(g.w, line+g.sfx())
}

// batchSweep: every stream of the case is asked for all its sequences 0..maxSeq+1 (stored ones and holes) in batches of 2..20 -
// ascending, descending, shuffled - and for pairs (stored, hole), (hole, stored), (stored, another stored)
func (g *c12rpc) batchSweep() {
	storedSeqs := map[string][]uint64{}
	key := func(ec, tc uint16, a vaa.Address) string { return fmt.Sprintf("%d/%x/%d", ec, a[:], tc) }
	seen := map[string]bool{}
	for _, id := range g.stored {
		if k := string(id.Bytes()); !seen[k] {
			seen[k] = true
			sk := key(uint16(id.EmitterChain), uint16(id.TargetChain), id.EmitterAddress)
			storedSeqs[sk] = append(storedSeqs[sk], id.Sequence)
		}
	}
	for _, ec := range g.ecs {
		for _, a := range g.addrs {
			for _, tc := range g.tcs {
				st := storedSeqs[key(ec, tc, a)]
				if len(st) == 0 && g.rs.Intn(4) != 0 {
					continue
				}
				var all []uint64
				for q := 0; q <= g.maxSeq+1; q++ {
					all = append(all, uint64(q))
				}
				for lo := 0; lo < len(all); lo += 20 {
					hi := lo + 20
					if hi > len(all) {
						hi = len(all)
					}
					asc := append([]uint64{}, all[lo:hi]...)
					g.rbatchExact(ec, tc, a, asc)
					desc := make([]uint64, len(asc))
					for i, q := range asc {
						desc[len(asc)-1-i] = q
					}
					g.rbatchExact(ec, tc, a, desc)
					sh := append([]uint64{}, asc...)
					g.rs.Shuffle(len(sh), func(i, j int) { sh[i], sh[j] = sh[j], sh[i] })
					if len(sh) >= 2 {
						g.rbatchExact(ec, tc, a, sh[:2+g.rs.Intn(len(sh)-1)])
					}
				}
				if len(st) > 0 {
					isStored := map[uint64]bool{}
					for _, q := range st {
						isStored[q] = true
					}
					hole := uint64(g.maxSeq + 2)
					for q := uint64(0); q <= uint64(g.maxSeq+1); q++ {
						if !isStored[q] {
							hole = q
							break
						}
					}
					x := st[g.rs.Intn(len(st))]
					g.rbatchExact(ec, tc, a, []uint64{x, hole})
					g.rbatchExact(ec, tc, a, []uint64{hole, x})
					if len(st) > 1 {
						y := st[g.rs.Intn(len(st))]
						g.rbatchExact(ec, tc, a, []uint64{x, y})
						g.rbatchExact(ec, tc, a, []uint64{hole, y, hole + 1, x})
					}
				}
			}
		}
	}
}

func (g *c12rpc) rgov() {
	seqs := g.seqList()
	req := &publicrpcv1.GetGovernanceVAABatchRequest{Sequences: seqs}
	res := "ok"
	var parts []string
	func() {
		defer func() {
			if e := recover(); e != nil {
				res = "panic"
			}
		}()
		resp, err := g.s.GetGovernanceVAABatch(context.Background(), req)
		if err != nil {
			res = c12tag(err)
			if resp != nil {
				res = "errnonnil"
			}
			return
		}
		for _, e := range resp.Entries {
			parts = append(parts, fmt.Sprintf("%d:%d:%s", int32(e.TargetChain), e.Sequence, c12hex(e.VaaBytes)))
		}
	}()
	line := fmt.Sprintf("rgov %s seqs=%s res=%s", g.cid, c12u64s(seqs), res)
	if res == "ok" {
		o := "-"
		if len(parts) > 0 {
			o = strings.Join(parts, ";")
		}
		line += " out=" + o
	}
	fmt.Fprintln(g.w, line+g.sfx())
}

func TestVerifDbRpc(t *testing.T) {
	seed, _ := strconv.ParseInt(os.Getenv("VERIF_SEED"), 10, 64)
	tier := os.Getenv("VERIF_TIER")
	out := os.Getenv("VERIF_OUT")
	if out == "" {
		t.Skip("VERIF_OUT not set")
	}
	f, err := os.Create(filepath.Join(out, "dbrpc.cases"))
	if err != nil {
		t.Fatal(err)
	}
	defer f.Close()
	w := bufio.NewWriterSize(f, 1<<20)
	defer w.Flush()
	g := &c12rpc{r: rand.New(rand.NewSource(seed ^ 0x5bd1e995)), rs: rand.New(rand.NewSource(seed ^ 0x1b873593)),
		rd: rand.New(rand.NewSource(seed ^ 0x2545f491)), w: w, t: t}
	ncases, nops := 12, 220
	if tier == "thorough" {
		ncases, nops = 250, 400
	}
	for c := 0; c < ncases; c++ {
		g.newCase()
		// an empty store first
		g.rget()
		g.rbatch()
		g.rgov()
		for i := 0; i < nops; i++ {
			switch x := g.r.Intn(100); {
			case x < 35:
				g.put()
			case x < 65:
				g.rget()
			case x < 83:
				g.rbatch()
			default:
				g.rgov()
			}
			// the store handle unavailable under the running server, twice per case (own PRNG: the operations stay what they were)
			if i == nops/3 || i == (2*nops)/3 {
				g.downEpisode()
			}
		}
		// every stream through the batch RPC: all its sequences, stored ones and holes, in batches of 2..20
		g.batchSweep()
		// every stored identifier through the RPC, exactly - and once more after a restart of the store
		for pass := 0; pass < 2; pass++ {
			seen := map[string]bool{}
			for _, id := range g.stored {
				k := string(id.Bytes())
				if seen[k] {
					continue
				}
				seen[k] = true
				g.rgetExact(id)
			}
			if pass == 0 {
				if c%3 != 0 {
					break
				}
				g.restart()
			}
		}
	}
	// chain ids over the whole 16-bit range (the proto enum names only 0..17, 255 and 10001; VAAID chain ids are uint16 and
	// StoreSignedVAA accepts every one of them)
	nchain := 3
	if tier == "thorough" {
		nchain = 40
	}
	for c := 0; c < nchain; c++ {
		g.chainCase(c)
	}
	if g.d != nil {
		g.d.Close()
	}
}

// chain ids at and around every boundary a lookup API could treat specially: the enum's values and their neighbours, one / two
// byte boundaries, decimal-length boundaries, the ends of the range
var c12chainEdges = []uint16{0, 1, 2, 9, 10, 16, 17, 18, 19, 20, 99, 100, 127, 128, 253, 254, 255, 256, 257, 511, 512, 999, 1000, 4095, 4096,
	9999, 10000, 10001, 10002, 32767, 32768, 49151, 65280, 65534, 65535}

func (g *c12rpc) anyChain() uint16 {
	switch g.r.Intn(3) {
	case 0:
		return c12chainEdges[g.r.Intn(len(c12chainEdges))]
	case 1:
		return uint16(g.r.Intn(300))
	}
	return uint16(g.r.Intn(65536))
}

// chainCase: VAAs whose emitter and target chains are drawn from the whole uint16 range (every stored VAA is acknowledged by
// StoreSignedVAA), one in six with a payload vaa.Unmarshal rejects (empty / nil: the store and the lookups carry bytes, they never
// decode); every stored identifier is then looked up exactly - single lookup, a batch of its stream with a hole - before and after
// a restart of the store, and while the handle is unavailable.
func (g *c12rpc) chainCase(c int) {
	saved := g.r
	g.r = g.rd
	defer func() { g.r = saved }()
	g.newCase()
	r := g.r
	n := 40
	type stream struct {
		ec, tc uint16
		a      vaa.Address
	}
	var streams []stream
	for i := 0; i < n; i++ {
		var st stream
		if len(streams) > 0 && r.Intn(4) == 0 {
			st = streams[r.Intn(len(streams))]
		} else {
			st = stream{g.anyChain(), g.anyChain(), g.addrs[r.Intn(len(g.addrs))]}
			switch {
			case i < len(c12chainEdges) && c == 0:
				st.ec = c12chainEdges[i] // every edge once as emitter chain ...
			case i < len(c12chainEdges) && c == 1:
				st.tc = c12chainEdges[i] // ... and once as target chain
			}
			streams = append(streams, st)
		}
		v := &vaa.VAA{Version: 1, GuardianSetIndex: uint32(r.Intn(4)), EmitterChain: vaa.ChainID(st.ec), EmitterAddress: st.a,
			TargetChain: vaa.ChainID(st.tc), Sequence: uint64(r.Intn(g.maxSeq + 1))}
		sg := &vaa.Signature{Index: 0}
		copy(sg.Signature[:], g.bytesN(65))
		v.Signatures = []*vaa.Signature{sg}
		v.Timestamp = time.Unix(int64(r.Uint32()), 0)
		v.Nonce = r.Uint32()
		v.ConsistencyLevel = uint8(r.Intn(256))
		switch r.Intn(12) {
		case 0:
			v.Payload = nil
		case 1:
			v.Payload = []byte{}
		default:
			v.Payload = g.bytesN(1 + r.Intn(20))
		}
		res := "ok"
		if err := g.d.StoreSignedVAA(v); err != nil {
			res = "err"
		}
		val, _ := v.Marshal()
		id := db.VaaIDFromVAA(v)
		fmt.Fprintf(g.w, "put %s v=%s res=%s key=%s val=%s\n", g.cid, c12canon(v), res, string(id.Bytes()), c12hex(val))
		if res == "ok" {
			g.stored = append(g.stored, *id)
		}
	}
	lookups := func() {
		seen := map[string]bool{}
		for _, id := range g.stored {
			k := string(id.Bytes())
			if seen[k] {
				continue
			}
			seen[k] = true
			g.rgetExact(id)
			g.rbatchExact(uint16(id.EmitterChain), uint16(id.TargetChain), id.EmitterAddress, []uint64{uint64(g.maxSeq + 3), id.Sequence})
			// the same identifier with emitter and target chain swapped is (almost always) absent
			sw := id
			sw.EmitterChain, sw.TargetChain = id.TargetChain, id.EmitterChain
			g.rgetExact(sw)
		}
	}
	lookups()
	g.restart()
	lookups()
	g.withDown(lookups)
	lookups()
}
