//go:build verif

package processor

// Correspondence harness for C19 (family `explorer`), injected into package processor (explorer-backend) by `go test -overlay`.
// TestVerifPush drives the real vaaGossipConsumer.Push (real GuardianSets, real Deduplicator over a recording cache, a
// bounded message queue, a fake JSON-RPC chain) and the real verifyVAA with VAAs that are valid, under-signed, wrongly
// signed, reordered, duplicated, altered after signing, naming an old, the current, a future or a non-existent set; every
// call is written with everything the implementation did: error class, what appeared on the queue, cache reads/writes,
// chain requests, guardianSetC sends and the guardian-set state (through the verif-only accessor in gs_verif_export.go).
//
// Histories (historyCases, part of TestVerifGate too): a Push whose guardian-set lookup is held at a gate of the fake chain
// while other Pushes fetch newer sets (overlapping / repeated / contained batches, line field cur0=), a chain many sets
// ahead, and after each for every known set VAAs signed by a quorum of each OTHER known set (mkCross); right after a set change
// (overlapWorld: the new set keeps the old one's low positions) the on-demand lookup of the named set FAILS at the fake chain
// - RPC error, HTTP 503, undecodable / empty result, no dial; once, twice, for a whole window; any request of the range - while
// VAAs naming the new set with a quorum of a STORED set arrive, and the same VAAs again once the node answers (failedLookupHistory).
//
// vaa.VAA / VerifySignatures / processor.CalculateQuorum are the module-cache versions the explorer is built with
// (github.com/alephium/wormhole-fork/node v0.0.0-20240818215257-cb0667c4f6c1).

import (
	"bufio"
	"bytes"
	"context"
	"crypto/ecdsa"
	"encoding/hex"
	"encoding/json"
	"errors"
	"fmt"
	"io"
	"math/rand"
	"net/http"
	"net/http/httptest"
	"os"
	"path/filepath"
	"reflect"
	"strconv"
	"strings"
	"sync"
	"testing"
	"time"

	"github.com/alephium/wormhole-fork/explorer-backend/deduplicator"
	"github.com/alephium/wormhole-fork/explorer-backend/guardiansets"
	"github.com/alephium/wormhole-fork/node/pkg/common"
	ethabi "github.com/alephium/wormhole-fork/node/pkg/ethereum/abi"
	nodeprocessor "github.com/alephium/wormhole-fork/node/pkg/processor"
	"github.com/alephium/wormhole-fork/node/pkg/vaa"
	"github.com/eko/gocache/v3/store"
	gethabi "github.com/ethereum/go-ethereum/accounts/abi"
	eth_common "github.com/ethereum/go-ethereum/common"
	"github.com/ethereum/go-ethereum/crypto"
	"go.uber.org/zap"
)

// ---------------------------------------------------------------- rendering (same formats as gs_verif_test.go)

func pKeys(keys []eth_common.Address) string {
	if keys == nil {
		return "nil"
	}
	if len(keys) == 0 {
		return "-"
	}
	p := make([]string, len(keys))
	for i, k := range keys {
		p[i] = hex.EncodeToString(k.Bytes())
	}
	return strings.Join(p, ",")
}

func pSet(s *common.GuardianSet) string {
	if s == nil {
		return "nilptr"
	}
	return fmt.Sprintf("%d:%s", s.Index, pKeys(s.Keys))
}

func pSets(l []*common.GuardianSet) string {
	if len(l) == 0 {
		return "-"
	}
	p := make([]string, len(l))
	for i, s := range l {
		p[i] = pSet(s)
	}
	return strings.Join(p, ";")
}

func pHex(b []byte) string {
	if len(b) == 0 {
		return "-"
	}
	return hex.EncodeToString(b)
}

func pCanon(v *vaa.VAA) string {
	sigs := "-"
	if len(v.Signatures) > 0 {
		parts := make([]string, len(v.Signatures))
		for i, s := range v.Signatures {
			parts[i] = fmt.Sprintf("%d:%s", s.Index, hex.EncodeToString(s.Signature[:]))
		}
		sigs = strings.Join(parts, ";")
	}
	return fmt.Sprintf("%d,%d,%s,%d,%d,%d,%d,%s,%d,%d,%s", v.Version, v.GuardianSetIndex, sigs, v.Timestamp.Unix(),
		v.Nonce, uint16(v.EmitterChain), uint16(v.TargetChain), hex.EncodeToString(v.EmitterAddress[:]), v.Sequence,
		v.ConsistencyLevel, pHex(v.Payload))
}

// oracle: independent ecrecover per distinct signature, for the VAA's own digest
func pRec(v *vaa.VAA) string {
	if len(v.Signatures) == 0 {
		return "-"
	}
	digest := v.SigningMsg().Bytes()
	seen := map[string]bool{}
	var rp []string
	for _, s := range v.Signatures {
		sh := hex.EncodeToString(s.Signature[:])
		if seen[sh] {
			continue
		}
		seen[sh] = true
		pk, err := crypto.Ecrecover(digest, s.Signature[:])
		if err != nil {
			rp = append(rp, sh+":none")
		} else {
			rp = append(rp, sh+":"+hex.EncodeToString(crypto.Keccak256(pk[1:])[12:]))
		}
	}
	return strings.Join(rp, ";")
}

// ---------------------------------------------------------------- fake chain (as in gs_verif_test.go)

type pChain struct {
	mu     sync.Mutex
	abi    gethabi.ABI
	keys   map[uint32][]eth_common.Address
	failAt map[uint32]bool
	// failN[i] = number of getGuardianSet(i) requests that still fail (an outage that ends by itself); failMode = how a failing
	// request is answered (pFailModes: JSON-RPC error, HTTP 503, an ABI-undecodable result, an empty result)
	failN    map[uint32]int
	failMode int
	cur      uint32
	log      []string
	srv      *httptest.Server

	// one-shot gate: while armed, the next getGuardianSet request is announced on `arrived` and answered (and logged) only
	// after its release channel is closed
	gmu     sync.Mutex
	armed   bool
	arrived chan chan struct{}
}

func (c *pChain) arm(on bool) {
	c.gmu.Lock()
	c.armed = on
	c.gmu.Unlock()
}

func (c *pChain) enterGate() chan struct{} {
	c.gmu.Lock()
	defer c.gmu.Unlock()
	if !c.armed {
		return nil
	}
	c.armed = false
	rel := make(chan struct{})
	c.arrived <- rel
	return rel
}

func pNewChain() *pChain {
	parsed, err := gethabi.JSON(strings.NewReader(ethabi.AbiABI))
	if err != nil {
		panic(err)
	}
	c := &pChain{abi: parsed, keys: map[uint32][]eth_common.Address{}, failAt: map[uint32]bool{}, failN: map[uint32]int{}, arrived: make(chan chan struct{}, 16)}
	c.srv = httptest.NewServer(http.HandlerFunc(c.serve))
	return c
}

// setFail: the next n requests for getGuardianSet(idx) fail in the given mode, then the node answers again
func (c *pChain) setFail(idx uint32, n int, mode int) {
	c.mu.Lock()
	c.failN = map[uint32]int{idx: n}
	c.failMode = mode
	c.mu.Unlock()
}

func (c *pChain) clearFail() {
	c.mu.Lock()
	c.failN = map[uint32]int{}
	c.failMode = 0
	c.mu.Unlock()
}

func (c *pChain) failLeft(idx uint32) int {
	c.mu.Lock()
	defer c.mu.Unlock()
	return c.failN[idx]
}

func (c *pChain) takeLog() string {
	c.mu.Lock()
	defer c.mu.Unlock()
	l := c.log
	c.log = nil
	if len(l) == 0 {
		return "-"
	}
	return strings.Join(l, ";")
}

func (c *pChain) serve(w http.ResponseWriter, r *http.Request) {
	body, _ := io.ReadAll(r.Body)
	var req struct {
		ID     json.RawMessage   `json:"id"`
		Method string            `json:"method"`
		Params []json.RawMessage `json:"params"`
	}
	w.Header().Set("Content-Type", "application/json")
	fail := func(msg string) {
		fmt.Fprintf(w, `{"jsonrpc":"2.0","id":%s,"error":{"code":-32000,"message":%q}}`, string(req.ID), msg)
	}
	if err := json.Unmarshal(body, &req); err != nil || req.Method != "eth_call" || len(req.Params) < 1 {
		req.ID = json.RawMessage("1")
		fail("unsupported")
		return
	}
	var arg struct {
		Data  string `json:"data"`
		Input string `json:"input"`
	}
	_ = json.Unmarshal(req.Params[0], &arg)
	if arg.Data == "" {
		arg.Data = arg.Input
	}
	data, err := hex.DecodeString(strings.TrimPrefix(arg.Data, "0x"))
	if err != nil || len(data) < 4 {
		fail("bad calldata")
		return
	}
	m, err := c.abi.MethodById(data[:4])
	if err != nil {
		fail("unknown method")
		return
	}
	if m.Name == "getGuardianSet" {
		if rel := c.enterGate(); rel != nil {
			<-rel
		}
	}
	c.mu.Lock()
	defer c.mu.Unlock()
	var out []byte
	switch m.Name {
	case "getCurrentGuardianSetIndex":
		c.log = append(c.log, fmt.Sprintf("c:%d", c.cur))
		out, err = m.Outputs.Pack(c.cur)
	case "getGuardianSet":
		args, e := m.Inputs.Unpack(data[4:])
		if e != nil || len(args) != 1 {
			fail("bad args")
			return
		}
		idx := args[0].(uint32)
		if c.failAt[idx] || c.failN[idx] > 0 {
			if c.failN[idx] > 0 {
				c.failN[idx]--
			}
			c.log = append(c.log, fmt.Sprintf("%d:err", idx))
			switch c.failMode {
			case 1: // the endpoint is up but not serving
				w.WriteHeader(http.StatusServiceUnavailable)
				fmt.Fprint(w, "service unavailable")
			case 2: // a result that is not the ABI encoding of a guardian set (one word: an offset pointing past the end)
				fmt.Fprintf(w, `{"jsonrpc":"2.0","id":%s,"result":"0x%064x"}`, string(req.ID), 0x20)
			case 3: // an empty result (no contract behind the address as far as this answer goes)
				fmt.Fprintf(w, `{"jsonrpc":"2.0","id":%s,"result":"0x"}`, string(req.ID))
			default:
				fail("boom")
			}
			return
		}
		keys := c.keys[idx]
		if keys == nil {
			keys = []eth_common.Address{}
		}
		c.log = append(c.log, fmt.Sprintf("%d:%s", idx, pKeys(keys)))
		out, err = m.Outputs.Pack(ethabi.StructsGuardianSet{Keys: keys, ExpirationTime: 0})
	default:
		fail("unsupported method")
		return
	}
	if err != nil {
		fail("pack: " + err.Error())
		return
	}
	fmt.Fprintf(w, `{"jsonrpc":"2.0","id":%s,"result":"0x%s"}`, string(req.ID), hex.EncodeToString(out))
}

// ---------------------------------------------------------------- recording cache (cache.CacheInterface[bool])

type pCache struct {
	m        map[string]bool
	gets     []string
	sets     []string
	getErr   bool // Get also returns an error (the deduplicator ignores it)
	forceHit bool // Get answers true regardless (an arbitrary cache)
}

func (c *pCache) Get(ctx context.Context, key any) (bool, error) {
	k := fmt.Sprint(key)
	c.gets = append(c.gets, k)
	var err error
	if c.getErr {
		err = errors.New("cache error")
	}
	if c.forceHit {
		return true, err
	}
	return c.m[k], err
}
func (c *pCache) Set(ctx context.Context, key any, object bool, options ...store.Option) error {
	k := fmt.Sprint(key)
	c.sets = append(c.sets, k)
	c.m[k] = object
	return nil
}
func (c *pCache) Delete(ctx context.Context, key any) error { delete(c.m, fmt.Sprint(key)); return nil }
func (c *pCache) Invalidate(ctx context.Context, options ...store.InvalidateOption) error {
	return nil
}
func (c *pCache) Clear(ctx context.Context) error { c.m = map[string]bool{}; return nil }
func (c *pCache) GetType() string                 { return "verif" }

// ---------------------------------------------------------------- generator

type pKey struct {
	k    *ecdsa.PrivateKey
	addr eth_common.Address
}

type pGen struct {
	r     *rand.Rand
	w     *bufio.Writer
	n     int
	chain *pChain
	pool  []pKey
}

func (g *pGen) newKey() pKey {
	for {
		b := make([]byte, 32)
		g.r.Read(b)
		k, err := crypto.ToECDSA(b)
		if err == nil {
			return pKey{k, crypto.PubkeyToAddress(k.PublicKey)}
		}
	}
}

func pSign(k pKey, digest []byte) [65]byte {
	s, err := crypto.Sign(digest, k.k)
	if err != nil {
		panic(err)
	}
	var out [65]byte
	copy(out[:], s)
	return out
}

func (g *pGen) bytesN(n int) []byte {
	b := make([]byte, n)
	g.r.Read(b)
	return b
}

func (g *pGen) body(gsIndex uint32) *vaa.VAA {
	r := g.r
	v := &vaa.VAA{Version: 1, GuardianSetIndex: gsIndex}
	v.Timestamp = time.Unix(int64(r.Uint32()), 0)
	v.Nonce = r.Uint32()
	v.Sequence = uint64(r.Intn(1000))
	v.ConsistencyLevel = uint8(r.Intn(256))
	v.EmitterChain = vaa.ChainID(r.Intn(5))
	v.TargetChain = vaa.ChainID(r.Intn(5))
	copy(v.EmitterAddress[:], g.bytesN(32))
	v.Payload = g.bytesN(1 + r.Intn(30))
	return v
}

func (g *pGen) cid(kind string) string {
	g.n++
	return fmt.Sprintf("%s%d", kind, g.n)
}

type pWorld struct {
	truth [][]pKey // truth[i] = key pairs of guardian set i (what the chain answers)
	nilAt int      // index of an initial set whose Keys slice is nil (-1: none)
}

func (w *pWorld) addrs(i int) []eth_common.Address {
	if i < 0 || i >= len(w.truth) {
		return []eth_common.Address{}
	}
	if i == w.nilAt {
		return nil
	}
	a := make([]eth_common.Address, len(w.truth[i]))
	for j, k := range w.truth[i] {
		a[j] = k.addr
	}
	return a
}

var pSizes = []int{1, 2, 3, 4, 5, 6, 7, 10, 13, 19}

// signers: ascending index list -> signatures by set `by`'s keys, claiming those indexes
func (g *pGen) signWith(v *vaa.VAA, keys []pKey, idx []int) {
	digest := v.SigningMsg().Bytes()
	v.Signatures = nil
	for _, i := range idx {
		v.Signatures = append(v.Signatures, &vaa.Signature{Index: uint8(i), Signature: pSign(keys[i%len(keys)], digest)})
	}
}

func firstN(n int) []int {
	l := make([]int, n)
	for i := range l {
		l[i] = i
	}
	return l
}

func (g *pGen) subset(n, k int) []int {
	p := g.r.Perm(n)[:k]
	// ascending
	for i := 0; i < len(p); i++ {
		for j := i + 1; j < len(p); j++ {
			if p[j] < p[i] {
				p[i], p[j] = p[j], p[i]
			}
		}
	}
	return p
}

// mkVAA builds one VAA of the given kind naming set `si`; returns the kind actually built.
func (g *pGen) mkVAA(w *pWorld, si int, kind int, curN int) (*vaa.VAA, string) {
	r := g.r
	v := g.body(uint32(si))
	var keys []pKey
	if si >= 0 && si < len(w.truth) {
		keys = w.truth[si]
	}
	n := len(keys)
	if n == 0 { // a set the chain does not know (empty key list): anything signed by somebody
		other := w.truth[r.Intn(len(w.truth))]
		k := 1 + r.Intn(len(other))
		g.signWith(v, other, firstN(k))
		return v, "unknownset"
	}
	q := nodeprocessor.CalculateQuorum(n)
	switch kind {
	case 0: // exactly a quorum
		g.signWith(v, keys, g.subset(n, q))
		return v, "quorum"
	case 1: // everybody
		g.signWith(v, keys, firstN(n))
		return v, "all"
	case 2: // one short of a quorum
		g.signWith(v, keys, g.subset(n, q-1))
		return v, "short"
	case 3: // not signed
		return v, "nosigs"
	case 4: // a quorum, one of them by an outsider claiming a member's index
		g.signWith(v, keys, g.subset(n, q))
		out := g.newKey()
		j := r.Intn(len(v.Signatures))
		v.Signatures[j].Signature = pSign(out, v.SigningMsg().Bytes())
		return v, "outsider"
	case 5: // a quorum of ANOTHER set's guardians, claiming indexes of this set
		oi := r.Intn(len(w.truth))
		if oi == si {
			oi = (oi + 1) % len(w.truth)
		}
		ok := w.truth[oi]
		if len(ok) == 0 || oi == si {
			g.signWith(v, keys, g.subset(n, q))
			return v, "quorum"
		}
		idx := g.subset(n, q)
		digest := v.SigningMsg().Bytes()
		for _, i := range idx {
			v.Signatures = append(v.Signatures, &vaa.Signature{Index: uint8(i), Signature: pSign(ok[i%len(ok)], digest)})
		}
		return v, "otherset"
	case 6: // body altered after signing
		g.signWith(v, keys, g.subset(n, q))
		v.Payload[r.Intn(len(v.Payload))] ^= 1 << uint(r.Intn(8))
		return v, "altered"
	case 7: // a quorum by count, but one guardian signs twice (same index twice)
		if q < 2 {
			g.signWith(v, keys, firstN(q))
			return v, "quorum"
		}
		idx := g.subset(n, q-1)
		idx = append(idx, idx[len(idx)-1])
		g.signWith(v, keys, idx)
		return v, "dupsigner"
	case 8: // quorum, two signatures swapped
		if q < 2 {
			g.signWith(v, keys, firstN(q))
			return v, "quorum"
		}
		g.signWith(v, keys, g.subset(n, q))
		j := r.Intn(len(v.Signatures) - 1)
		v.Signatures[j], v.Signatures[j+1] = v.Signatures[j+1], v.Signatures[j]
		return v, "swapped"
	case 9: // quorum by count, one guardian's signature under a second index (re-indexed)
		if n < 2 || q >= n {
			g.signWith(v, keys, g.subset(n, q))
			return v, "quorum"
		}
		idx := g.subset(n, q)
		g.signWith(v, keys, idx)
		// replace the last signature by a copy of the first signer's signature under a free higher index
		last := len(v.Signatures) - 1
		v.Signatures[last].Signature = v.Signatures[0].Signature
		return v, "reindexed"
	case 10: // index beyond the set
		g.signWith(v, keys, g.subset(n, q))
		v.Signatures[len(v.Signatures)-1].Index = uint8(n + r.Intn(3))
		return v, "oob"
	case 11: // bad recovery id
		g.signWith(v, keys, g.subset(n, q))
		v.Signatures[r.Intn(len(v.Signatures))].Signature[64] = byte(4 + r.Intn(200))
		return v, "badrecid"
	case 13, 14, 15, 16:
		// exactly quorum(named)-1 / quorum(named) / quorum(current)-1 / quorum(current) VALID signatures of the NAMED set:
		// the threshold that counts is the one of the set the VAA names, whatever the size of the explorer's current set
		qc := nodeprocessor.CalculateQuorum(curN)
		k := []int{q - 1, q, qc - 1, qc}[kind-13]
		name := []string{"qnamed-1", "qnamed", "qcur-1", "qcur"}[kind-13]
		if k > n {
			k = n
		}
		if k < 0 {
			k = 0
		}
		g.signWith(v, keys, g.subset(n, k))
		return v, fmt.Sprintf("%s/%dof%d/cur%d", name, k, n, curN)
	default: // more signatures than guardians
		idx := firstN(n)
		idx = append(idx, n-1)
		g.signWith(v, keys, idx)
		return v, "toomany"
	}
}

func pClass(err error, enq bool) string {
	if err == nil {
		if enq {
			return "queued"
		}
		return "dup"
	}
	switch err.Error() {
	case "No addresses were provided":
		return "noaddr"
	case "VAA was not signed":
		return "notsigned"
	case "VAA did not have a quorum":
		return "noquorum"
	case "VAA had bad signatures":
		return "badsigs"
	case "message queue is full":
		return "full"
	}
	return "geterr"
}

func b2i(b bool) int {
	if b {
		return 1
	}
	return 0
}

// ---------------------------------------------------------------- one consumer under test + one recorded Push

type pEnv struct {
	g        *pGen
	cid      string
	w        *pWorld
	gs       *guardiansets.GuardianSets
	gsC      chan *common.GuardianSet
	cache    *pCache
	queue    chan *Message
	consumer *vaaGossipConsumer
	qcap     int
	filler   *Message
}

// how the surroundings of one Push are arranged
type pOpt struct {
	room     int  // 0: queue full, 1: exactly one slot left, 2: queue empty
	getErr   bool // cache.Get also returns an error
	forceHit bool // cache.Get answers "seen" whatever it holds
	noDial   bool // the chain cannot be dialled
	failAt   int  // getGuardianSet(failAt) fails on the chain (< 0: none)
}

func (e *pEnv) drain() []*common.GuardianSet {
	var l []*common.GuardianSet
	for {
		select {
		case s := <-e.gsC:
			l = append(l, s)
		default:
			return l
		}
	}
}

// newEnv publishes the world's guardian sets on the fake chain, builds the real GuardianSets over the first n0 of them, a
// real Deduplicator over the recording cache, a bounded queue and the real consumer, and writes the `gsnew` line.
func (g *pGen) newEnv(cid string, w *pWorld, n0 int, qcap int) *pEnv {
	g.chain.mu.Lock()
	g.chain.keys = map[uint32][]eth_common.Address{}
	g.chain.failAt = map[uint32]bool{}
	g.chain.failN = map[uint32]int{}
	g.chain.failMode = 0
	g.chain.cur = uint32(len(w.truth) - 1)
	g.chain.log = nil
	for i := range w.truth {
		g.chain.keys[uint32(i)] = w.addrs(i)
	}
	g.chain.mu.Unlock()
	init := make([]*common.GuardianSet, n0)
	for i := range init {
		init[i] = &common.GuardianSet{Index: uint32(i), Keys: w.addrs(i)}
	}
	e := &pEnv{g: g, cid: cid, w: w, qcap: qcap, filler: &Message{}}
	e.gsC = make(chan *common.GuardianSet, 64)
	e.gs = guardiansets.NewGuardianSets(init, g.chain.srv.URL, zap.NewNop(), time.Hour, eth_common.HexToAddress("0xc0"), e.gsC)
	sent := e.drain()
	cur, list := e.gs.VerifState()
	fmt.Fprintf(g.w, "gsnew %s list=%s res=ok sent=%s cur=%d list=%s\n", cid, pSets(init), pSets(sent), cur, pSets(list))
	e.cache = &pCache{m: map[string]bool{}}
	dedup := deduplicator.New(e.cache, zap.NewNop())
	e.queue = make(chan *Message, qcap)
	e.consumer = NewVAAGossipConsumer(e.gs, dedup, e.queue, zap.NewNop())
	return e
}

// push runs the real Push once and writes the `push` line; returns the result class.
func (e *pEnv) push(v *vaa.VAA, kname string, o pOpt) string { return e.pushX(v, kname, o, nil) }

// pushX with others != nil: the Push is OVERTAKEN - its first getGuardianSet request is held at the fake node's gate (barrier:
// the request has arrived, so the consumer's guardian-set lookup has read `current` and released the lock), `others` (further
// pushes, each writing its own line) run to completion, then the request is answered and the Push goes on with a batch that
// starts at the `current+1` it read earlier.  Written as a push line with cur0=.
func (e *pEnv) pushX(v *vaa.VAA, kname string, o pOpt, others func()) string {
	g := e.g
	queue, cache := e.queue, e.cache
	cur, _ := e.gs.VerifState()
	serialized, _ := v.Marshal()
	before := 0
	url := g.chain.srv.URL
	if o.noDial {
		url = "verif-no-such-scheme://x"
	}
	arrange := func() {
		for len(queue) > 0 {
			<-queue
		}
		switch o.room {
		case 0:
			for len(queue) < e.qcap {
				queue <- e.filler
			}
		case 1:
			for len(queue) < e.qcap-1 {
				queue <- e.filler // one slot left: the boundary
			}
		}
		before = len(queue)
		cache.gets, cache.sets = nil, nil
		cache.getErr = o.getErr
		cache.forceHit = o.forceHit
		e.gs.VerifSetURL(url)
	}
	arrange()
	room := o.room != 0
	if o.failAt >= 0 && int(v.GuardianSetIndex) > cur {
		g.chain.failAt[uint32(o.failAt)] = true
	}
	mid := v.MessageID()
	hit := cache.forceHit || cache.m[mid]
	if others != nil {
		g.chain.arm(true)
	}
	var err error
	// Push must not block (its hand-off is a non-blocking send): run it with a deadline so that a blocking
	// implementation shows up as res=blocked instead of hanging the run.
	resC := make(chan string, 1)
	go func() {
		resC <- func() (s string) {
			defer func() {
				if e := recover(); e != nil {
					s = "panic"
				}
			}()
			err = e.consumer.Push(context.Background(), v, serialized)
			return ""
		}()
	}()
	var res string
	extra := ""
	if others != nil {
		select {
		case rel := <-g.chain.arrived:
			g.chain.arm(false)
			others()
			arrange()
			hit = cache.forceHit || cache.m[mid]
			extra = fmt.Sprintf(" cur0=%d", cur)
			close(rel)
		case r := <-resC: // returned without asking the chain
			g.chain.arm(false)
			resC <- r
		case <-time.After(20 * time.Second):
			g.chain.arm(false)
		}
	}
	select {
	case res = <-resC:
	case <-time.After(20 * time.Second):
		for len(queue) > 0 { // unblock it
			<-queue
		}
		<-resC
		res = "blocked"
		before = 0
	}
	g.chain.failAt = map[uint32]bool{}
	// what appeared on the queue
	enq := len(queue) > before
	qsame := false
	var got []*Message
	for len(queue) > 0 {
		got = append(got, <-queue)
	}
	if enq {
		m := got[len(got)-1]
		qsame = m.vaa == v && bytes.Equal(m.serialized, serialized) && len(got) == before+1
	}
	if res == "" {
		res = pClass(err, enq)
	}
	getkey := len(cache.gets) == 0 || (len(cache.gets) == 1 && cache.gets[0] == mid)
	stored := len(cache.sets) > 0
	setkey := !stored || (len(cache.sets) == 1 && cache.sets[0] == mid)
	cur2, list2 := e.gs.VerifState()
	fmt.Fprintf(g.w, "push %s kind=%s v=%s rec=%s hit=%d room=%d dial=%d chain=%s res=%s enq=%d qsame=%d getkey=%d stored=%d setkey=%d sent=%s cur=%d list=%s named=%s%s\n",
		e.cid, kname, pCanon(v), pRec(v), b2i(hit), b2i(room), b2i(!o.noDial), g.chain.takeLog(), res, b2i(enq), b2i(qsame), b2i(getkey), b2i(stored),
		b2i(setkey), pSets(e.drain()), cur2, pSets(list2), pKeys(e.w.addrs(int(v.GuardianSetIndex))), extra)
	return res
}

// the dedup entry expires / is evicted: the cache forgets everything it held
func (e *pEnv) expire() { e.cache.m = map[string]bool{} }

// ---------------------------------------------------------------- forged copies of a genuine VAA (same message id)

var pForgeKinds = []string{"unsigned", "outsiders", "stolen-sigs", "undersigned", "renamed-set", "same-body-outsiders", "one-outsider"}

// forge builds a VAA with the message id (emitter chain / emitter address / target chain / sequence) of `gen` that is NOT
// signed by a quorum of the set it names (barring key coincidences, which the oracle table decides, not this generator).
func (g *pGen) forge(w *pWorld, gen *vaa.VAA, fk int) (*vaa.VAA, string) {
	si := int(gen.GuardianSetIndex)
	f := g.body(gen.GuardianSetIndex)
	f.EmitterChain, f.EmitterAddress, f.TargetChain, f.Sequence = gen.EmitterChain, gen.EmitterAddress, gen.TargetChain, gen.Sequence
	var keys []pKey
	if si >= 0 && si < len(w.truth) {
		keys = w.truth[si]
	}
	n := len(keys)
	q := nodeprocessor.CalculateQuorum(n)
	outsiders := func(v *vaa.VAA, k int) {
		digest := v.SigningMsg().Bytes()
		v.Signatures = nil
		for i := 0; i < k; i++ {
			v.Signatures = append(v.Signatures, &vaa.Signature{Index: uint8(i), Signature: pSign(g.newKey(), digest)})
		}
	}
	copySigs := func(dst *vaa.VAA) {
		dst.Signatures = nil
		for _, s := range gen.Signatures {
			c := *s
			dst.Signatures = append(dst.Signatures, &c)
		}
	}
	switch fk {
	case 0: // another payload, no signature at all
	case 1: // another payload, a quorum-sized list signed by keys outside every set
		outsiders(f, q)
	case 2: // another payload under the genuine VAA's signatures
		copySigs(f)
	case 3: // another payload, really signed by the named set - one short of its quorum
		if q-1 >= 1 {
			g.signWith(f, keys, g.subset(n, q-1))
		} else {
			outsiders(f, 1)
		}
	case 4: // the genuine body and signatures, but naming another guardian set
		c := *gen
		f = &c
		copySigs(f)
		if len(w.truth) > 1 {
			f.GuardianSetIndex = uint32((si + 1 + g.r.Intn(len(w.truth)-1)) % len(w.truth))
		}
		if int(f.GuardianSetIndex) == si {
			f.GuardianSetIndex = uint32(len(w.truth)) // a set nobody knows
		}
	case 5: // the genuine body, signatures replaced by outsiders'
		c := *gen
		f = &c
		outsiders(f, q)
	default: // another payload, a quorum of the named set except that one signature is an outsider's
		if n == 0 {
			outsiders(f, 1)
			break
		}
		g.signWith(f, keys, g.subset(n, q))
		f.Signatures[g.r.Intn(len(f.Signatures))].Signature = pSign(g.newKey(), f.SigningMsg().Bytes())
	}
	return f, "forged-" + pForgeKinds[fk]
}

// forgedSequence: the histories in which a check of the signatures could be skipped because "this message id was verified
// before" - the genuine VAA is verified first but is not (or no longer) in the dedup cache when the forged copy arrives:
//   genuine, queue full (hand-off fails, id not marked)  -> forged copy, queue has room        must not be queued
//   genuine again, room (queued, id marked)              -> forged copy while the id is marked  must not be queued
//   the dedup entry expires                              -> forged copy, room                   must not be queued
//   genuine after expiry (queued again: dedup is a cache)
// for every forging kind, over 2-3 guardian sets.
func (g *pGen) forgedSequence(sizes []int) {
	w := &pWorld{nilAt: -1}
	for _, n := range sizes {
		w.truth = append(w.truth, g.distinctKeys(n))
	}
	e := g.newEnv(g.cid("pushf"), w, len(w.truth), 2)
	none := pOpt{room: 2, failAt: -1}
	for fk := range pForgeKinds {
		si := (fk + g.r.Intn(2)) % len(w.truth)
		n := len(w.truth[si])
		q := nodeprocessor.CalculateQuorum(n)
		gen := g.body(uint32(si))
		if fk%2 == 0 {
			g.signWith(gen, w.truth[si], g.subset(n, q))
		} else {
			g.signWith(gen, w.truth[si], firstN(n))
		}
		e.push(gen, "genuine-queue-full", pOpt{room: 0, failAt: -1})
		f1, k1 := g.forge(w, gen, fk)
		e.push(f1, k1+"/after-failed-handoff", pOpt{room: 1 + g.r.Intn(2), failAt: -1})
		e.push(gen, "genuine-retry", none)
		f2, k2 := g.forge(w, gen, fk)
		e.push(f2, k2+"/while-marked", none)
		e.expire()
		f3, k3 := g.forge(w, gen, (fk+1+g.r.Intn(len(pForgeKinds)-1))%len(pForgeKinds))
		e.push(f3, k3+"/after-expiry", none)
		e.push(f1, k1+"/after-expiry", pOpt{room: 1, failAt: -1})
		e.push(gen, "genuine-after-expiry", none)
	}
}

func (g *pGen) distinctKeys(n int) []pKey {
	ks := make([]pKey, 0, n)
	for _, j := range g.r.Perm(len(g.pool))[:n] {
		ks = append(ks, g.pool[j])
	}
	return ks
}

// ---------------------------------------------------------------- a quorum of valid signatures followed by surplus bad ones

var pBadKinds = []string{"wrongkey", "dupindex", "descending", "oob", "garbage", "validthenbad"}

// mkExtra: quorum(n) valid signatures of set si, then nx (1..3) surplus signatures none of which VerifySignatures accepts:
// signed by a key outside the set, repeating the last index, going back to a lower index (a real signature of that guardian),
// claiming an index >= the set size, or random / zero bytes. "validthenbad" puts one more VALID signature before the bad ones
// when the set has a guardian left.
func (g *pGen) mkExtra(w *pWorld, si int, bad int, nx int) (*vaa.VAA, string) {
	r := g.r
	v := g.body(uint32(si))
	keys := w.truth[si]
	n := len(keys)
	q := nodeprocessor.CalculateQuorum(n)
	digest := v.SigningMsg().Bytes()
	idx := firstN(q)
	if bad == 2 { // the quorum sits at the top of the set so that lower indexes are free
		for i := range idx {
			idx[i] = n - q + i
		}
	}
	g.signWith(v, keys, idx)
	add := func(i int, s [65]byte) {
		v.Signatures = append(v.Signatures, &vaa.Signature{Index: uint8(i), Signature: s})
	}
	clamp := func(i int) int {
		if i >= n {
			return n - 1
		}
		return i
	}
	next := q // next free ascending index
	if bad == 5 && q < n {
		add(q, pSign(keys[q], digest))
		next = q + 1
	}
	for x := 0; x < nx; x++ {
		switch bad {
		case 0, 5:
			add(clamp(next+x), pSign(g.newKey(), digest))
		case 1:
			last := v.Signatures[q-1]
			add(int(last.Index), last.Signature)
		case 2:
			j := n - q - 1 - x
			if j < 0 {
				j = 0
			}
			add(j, pSign(keys[j], digest))
		case 3:
			add([]int{n, n + 1, 255}[x], pSign(keys[x%n], digest))
		default:
			var s [65]byte
			switch x {
			case 0:
				r.Read(s[:])
				s[64] = byte(r.Intn(2))
			case 1:
				r.Read(s[:])
				s[64] = byte(4 + r.Intn(200))
			}
			add(clamp(next+x), s)
		}
	}
	return v, fmt.Sprintf("extra-%s+%d/q%dof%d", pBadKinds[bad], nx, q, n)
}

// surplus VALID signatures (quorum+1 .. all): the control for mkExtra - these are to be accepted
func (g *pGen) mkSurplusValid(w *pWorld, si int, extra int) (*vaa.VAA, string) {
	v := g.body(uint32(si))
	keys := w.truth[si]
	n := len(keys)
	k := nodeprocessor.CalculateQuorum(n) + extra
	if k > n {
		k = n
	}
	g.signWith(v, keys, g.subset(n, k))
	return v, fmt.Sprintf("surplus-valid/%dof%d", k, n)
}

// gateSequence: every surplus-bad-signature kind x 1..3 through the real Push on a fresh consumer, every VAA with its own
// message id, an honest empty dedup cache and room in the queue - what is queued is exactly what the gate let through.
func (g *pGen) gateSequence(sizes []int) {
	w := &pWorld{nilAt: -1}
	for _, n := range sizes {
		w.truth = append(w.truth, g.distinctKeys(n))
	}
	e := g.newEnv(g.cid("pushg"), w, len(w.truth), 2)
	i := 0
	for bad := range pBadKinds {
		for nx := 1; nx <= 3; nx++ {
			si := i % len(w.truth)
			i++
			v, k := g.mkExtra(w, si, bad, nx)
			e.push(v, k, pOpt{room: 1 + i%2, failAt: -1})
		}
	}
	for si := range w.truth {
		for x := 0; x < 3; x++ {
			v, k := g.mkSurplusValid(w, si, x)
			e.push(v, k, pOpt{room: 2, failAt: -1})
		}
	}
}

// gateDirect: the same lists straight into verifyVAA, for every set size
func (g *pGen) gateDirect() {
	vfn, ok := pVerifyFn()
	if !ok {
		return
	}
	w := &pWorld{nilAt: -1}
	for _, n := range pSizes {
		w.truth = append(w.truth, g.distinctKeys(n))
	}
	call := func(v *vaa.VAA, kname string, addrs []eth_common.Address) {
		fmt.Fprintf(g.w, "vfy %s kind=%s v=%s addrs=%s rec=%s res=%s\n", g.cid("vfy"), kname, pCanon(v), pKeys(addrs), pRec(v), pCallVerify(vfn, v, addrs))
	}
	for si := range w.truth {
		for bad := range pBadKinds {
			for nx := 1; nx <= 3; nx++ {
				v, k := g.mkExtra(w, si, bad, nx)
				call(v, k, w.addrs(si))
			}
		}
		for x := 0; x < 3; x++ {
			v, k := g.mkSurplusValid(w, si, x)
			call(v, k, w.addrs(si))
		}
	}
}

var pGateWorlds = [][]int{{4, 13}, {7, 19}, {19, 4, 7}, {13, 5}, {3, 10, 1}, {2, 6}}

// gateCases = the cases C06 re-uses for its anchor explorer-backend/processor/vaa_gossip_consumer.go
func (g *pGen) gateCases() {
	g.gateDirect()
	for _, sizes := range pGateWorlds {
		g.gateSequence(sizes)
	}
}

// ---------------------------------------------------------------- histories: overtaken lookups, far-ahead sets, cross-signed VAAs

// mkCross: a VAA naming set si that carries exactly quorum(|set sj|) valid signatures of set sj's guardians under their
// indexes in sj - complete for set sj, not for the set it names (unless the two sets agree on those positions, which the
// oracle decides).  Whatever set the explorer looks at instead of the named one, some (si, sj) pair passes its gate.
func (g *pGen) mkCross(w *pWorld, si, sj int) (*vaa.VAA, string) {
	v := g.body(uint32(si))
	keys := w.truth[sj]
	n := len(keys)
	q := nodeprocessor.CalculateQuorum(n)
	g.signWith(v, keys, g.subset(n, q))
	return v, fmt.Sprintf("cross/names%d(%dkeys)/signed-by-set%d(%dof%d)", si, len(w.truth[si]), sj, q, n)
}

func (g *pGen) mkGenuine(w *pWorld, si int) (*vaa.VAA, string) {
	v := g.body(uint32(si))
	keys := w.truth[si]
	n := len(keys)
	q := nodeprocessor.CalculateQuorum(n)
	g.signWith(v, keys, g.subset(n, q))
	return v, fmt.Sprintf("genuine/%dof%d", q, n)
}

// every known set: an exact-quorum VAA of its own guardians, and VAAs naming it signed by a quorum of each other known set
// (all of them for small worlds, the `span` nearest on either side otherwise)
func (e *pEnv) probeAll(span int) {
	g := e.g
	cur, _ := e.gs.VerifState()
	if cur >= len(e.w.truth) {
		cur = len(e.w.truth) - 1
	}
	ok := pOpt{room: 2, failAt: -1}
	for si := 0; si <= cur; si++ {
		v, k := g.mkGenuine(e.w, si)
		e.push(v, k, ok)
		for sj := 0; sj <= cur; sj++ {
			if sj == si || sj < si-span || sj > si+span {
				continue
			}
			v, k := g.mkCross(e.w, si, sj)
			e.push(v, k, ok)
		}
	}
}

var pOvertakers = []string{"lower", "same", "higher", "two-lower", "lower-cross"}

// overtakenHistory: the explorer starts with the first n0 sets of a world whose sizes differ clearly from set to set; a VAA
// naming set current+k (k >= 2) arrives and its lookup is overtaken by pushes of VAAs naming a lower / the same / a higher
// new set (pushX); afterwards probeAll.  Repeated while the chain has newer sets.  The overtaken VAA is genuine on even
// rounds and signed by the set BEFORE the one it names on odd rounds.
func (g *pGen) overtakenHistory(sizes []int, n0 int, ov int) {
	w := &pWorld{nilAt: -1}
	for _, n := range sizes {
		w.truth = append(w.truth, g.distinctKeys(n))
	}
	e := g.newEnv(g.cid("pushh"), w, n0, 2)
	ok := pOpt{room: 2, failAt: -1}
	top := len(sizes) - 1
	for round := 0; ; round++ {
		cur, _ := e.gs.VerifState()
		if cur+2 > top {
			break
		}
		k := 2 + g.r.Intn(2)
		idx := cur + k
		if idx > top {
			idx = top
		}
		var v *vaa.VAA
		var kname string
		if round%2 == 0 {
			v, kname = g.mkGenuine(w, idx)
		} else {
			v, kname = g.mkCross(w, idx, idx-1)
		}
		lower := cur + 1 + g.r.Intn(idx-cur-1)
		e.pushX(v, "overtaken-by-"+pOvertakers[ov]+"/"+kname, ok, func() {
			switch ov {
			case 0:
				b, bk := g.mkGenuine(w, lower)
				e.push(b, bk, ok)
			case 1:
				b, bk := g.mkGenuine(w, idx)
				e.push(b, bk, ok)
			case 2:
				b, bk := g.mkGenuine(w, top)
				e.push(b, bk, ok)
			case 3:
				b, bk := g.mkGenuine(w, cur+1)
				e.push(b, bk, ok)
				b, bk = g.mkGenuine(w, idx-1)
				e.push(b, bk, ok)
			default:
				b, bk := g.mkCross(w, lower, cur)
				e.push(b, bk, ok)
			}
		})
		e.probeAll(6)
		ov = (ov + 1) % len(pOvertakers)
	}
}

// farHistory: the chain is `dist` sets ahead of an explorer that knows n0 sets; a VAA naming the far set arrives, then probeAll
func (g *pGen) farHistory(n0, dist int, shrinking bool) {
	w := &pWorld{nilAt: -1}
	for i := 0; i < n0+dist; i++ { // a size ladder 1,1,2,2,4,4,5,5,7,7,... (or the same downwards): quorums 1,1,2,2,3,3,4,4,5,5,...
		j := i
		if shrinking {
			j = n0 + dist - 1 - i
		}
		w.truth = append(w.truth, g.distinctKeys([]int{1, 2, 4, 5, 7, 8, 10, 11, 13}[(j/2)%9]))
	}
	e := g.newEnv(g.cid("pushfar"), w, n0, 2)
	v, k := g.mkGenuine(w, n0-1+dist)
	e.push(v, fmt.Sprintf("far+%d/%s", dist, k), pOpt{room: 2, failAt: -1})
	e.probeAll(2)
}

// worlds of the overtaken histories: (set sizes, sets known at start-up, first overtaker).  Strictly growing and strictly
// shrinking size ladders make ANY displacement of a set within the list visible as a wrong threshold (an older set in a newer
// set's place has a lower quorum on a growing ladder, a newer one in an older one's place on a shrinking ladder); the mixed
// worlds are the 1-key bootstrap set followed by 19-key sets.
var pHistWorlds = []struct {
	sizes []int
	n0    int
	ov    int
}{
	{[]int{1, 2, 4, 7, 13, 19}, 1, 0},
	{[]int{1, 2, 4, 7, 13, 19}, 2, 3},
	{[]int{1, 3, 6, 10, 19}, 1, 4},
	{[]int{19, 13, 7, 4, 2, 1}, 1, 0},
	{[]int{1, 1, 19, 1, 19}, 2, 1},
	{[]int{3, 1, 19, 6, 1, 19}, 1, 2},
}

// historyCases: part of the gate cases (C06 / C07 judge them too: the threshold and the keys the gate applies must be those
// of the set the VAA names, after any history of fetches)
func (g *pGen) historyCases() {
	for _, hw := range pHistWorlds {
		g.overtakenHistory(hw.sizes, hw.n0, hw.ov)
	}
	g.farHistory(1+g.r.Intn(2), 9+g.r.Intn(4), false)
	g.farHistory(1+g.r.Intn(2), 9+g.r.Intn(4), true)
	g.failedLookupCases()
}

// ---------------------------------------------------------------- histories: the on-demand guardian-set lookup fails at the chain

// how the fake node (or the way to it) fails the on-demand lookup
var pFailModes = []string{"rpcerr", "http503", "malformed", "empty", "nodial"}

// overlapWorld: guardian sets that share keys with their predecessor position by position, the way sets are changed in
// practice - extended, shrunk, a few members replaced: set i+1 keeps the first min(|set i|, |set i+1|) - drop keys of set i
// at the same positions (at least key 0), the rest are fresh keys.  A low-index signature of a kept guardian verifies
// against both sets; only the THRESHOLD (and the higher positions) tell them apart.
func (g *pGen) overlapWorld(sizes []int, drop int) *pWorld {
	w := &pWorld{nilAt: -1}
	var prev []pKey
	for _, n := range sizes {
		keep := len(prev)
		if n < keep {
			keep = n
		}
		if keep > 1 {
			keep -= drop
			if keep < 1 {
				keep = 1
			}
		}
		ks := make([]pKey, 0, n)
		ks = append(ks, prev[:keep]...)
		for len(ks) < n {
			ks = append(ks, g.newKey())
		}
		w.truth = append(w.truth, ks)
		prev = ks
	}
	return w
}

// mkLowPrefix: a VAA naming set si signed by that set's OWN guardians at positions 0..k-1 (valid signatures, too few of them
// when k is the quorum of a smaller set)
func (g *pGen) mkLowPrefix(w *pWorld, si, k int) (*vaa.VAA, string) {
	v := g.body(uint32(si))
	keys := w.truth[si]
	if k > len(keys) {
		k = len(keys)
	}
	g.signWith(v, keys, firstN(k))
	return v, fmt.Sprintf("own-first/%dof%d", k, len(keys))
}

// worlds of the failed-lookup histories: set sizes, how many of the shared low positions are replaced from one set to the
// next, sets the explorer holds at start-up
type pFailWorld struct {
	sizes []int
	drop  int
	n0    int
}

var pFailWorlds = []pFailWorld{
	{[]int{1, 19}, 0, 1},                // the bootstrap set extended to a full set, key 0 kept
	{[]int{1, 4, 13, 19}, 0, 1},         // every set extends the one before
	{[]int{1, 2, 4, 7, 13, 19}, 0, 2},   //   "   (two sets held)
	{[]int{1, 1, 19, 19, 19}, 1, 2},     // same size, one of the shared positions replaced
	{[]int{19, 13, 7, 4, 1}, 0, 1},      // every set is a prefix of the one before
	{[]int{3, 6, 10, 19, 19}, 1, 3},     // three sets held
	{[]int{7, 19, 4, 13, 19, 2}, 0, 1},  // up and down, shared prefixes
	{[]int{19, 19, 19, 19}, 6, 1},       // a third of the members replaced each time
	{[]int{2, 3, 5, 9, 19}, 0, 4},       // only the newest set missing
}

// failedLookupHistory: right after a guardian-set change - the explorer holds sets 0..cur, a VAA naming set cur+d (d = 1..3)
// arrives, the set is fetched from the chain ON DEMAND, and that lookup FAILS: the request for one index of the range
// (first / middle / last) is answered with an RPC error / HTTP 503 / an undecodable or empty result, or the endpoint cannot be
// dialled - for the next `nfail` lookups (1, 2, or the whole window), then the node answers again.  While the lookup fails and
// once more after it has recovered (the same VAAs: gossip repeats, other guardians' copies arrive) the window is pushed:
//   for the newest, the one before it and the oldest stored set j: a VAA NAMING cur+d with exactly a quorum of set j's guardians
//   a complete VAA of set cur+d
//   a VAA of set cur+d with as many of its own low-position signatures as the newest stored set's quorum
// then every known set is probed (genuine + cross-signed).  Whatever set an implementation looks at when it cannot get the named
// one - the newest stored, the one before the named, set 0, a set remembered from the failed attempt - one of these passes its gate.
func (g *pGen) failedLookupHistory(hi int, fw pFailWorld) {
	w := g.overlapWorld(fw.sizes, fw.drop)
	e := g.newEnv(g.cid("pushlf"), w, fw.n0, 2)
	ok := pOpt{room: 2, failAt: -1}
	top := len(fw.sizes) - 1
	salt := g.r.Intn(30)
	type wv struct {
		v *vaa.VAA
		k string
	}
	for round := 0; round <= top; round++ {
		cur, _ := e.gs.VerifState()
		if cur < 0 || cur >= top {
			break
		}
		k := salt + hi + round
		d := 1 + k%3
		if cur+d > top {
			d = top - cur
		}
		idx := cur + d
		p := cur + 1 + []int{0, d - 1, d / 2}[(k/3)%3] // which request of the range fails: first / last / middle
		mode := k % len(pFailModes)
		var win []wv
		seen := map[int]bool{}
		for _, j := range []int{cur, cur - 1, 0} {
			if j < 0 || seen[j] {
				continue
			}
			seen[j] = true
			v, kn := g.mkCross(w, idx, j)
			win = append(win, wv{v, kn})
		}
		v, kn := g.mkGenuine(w, idx)
		win = append(win, wv{v, kn})
		v, kn = g.mkLowPrefix(w, idx, nodeprocessor.CalculateQuorum(len(w.truth[cur])))
		win = append(win, wv{v, kn})
		nfail := []int{1, len(win), 2}[(k/2)%3]
		nodial := pFailModes[mode] == "nodial"
		if !nodial {
			g.chain.setFail(uint32(p), nfail, mode)
		}
		where := fmt.Sprintf("%s@%d/cur%d", pFailModes[mode], p, cur)
		for i, x := range win {
			o := ok
			failing := g.chain.failLeft(uint32(p)) > 0
			if nodial {
				failing = i < nfail
				o.noDial = failing
			}
			if c, _ := e.gs.VerifState(); c >= idx {
				failing = false // an earlier push of the window got the set: nothing is looked up any more
			}
			label := fmt.Sprintf("lookup-recovered/%s/", where)
			if failing {
				label = fmt.Sprintf("lookup-fails/%s/%dof%d/", where, i+1, nfail)
			}
			e.push(x.v, label+x.k, o)
		}
		g.chain.clearFail()
		for _, x := range win {
			e.push(x.v, "again-after-recovery/"+where+"/"+x.k, ok)
		}
		e.probeAll(2)
	}
}

func (g *pGen) failedLookupCases() {
	for hi, fw := range pFailWorlds {
		g.failedLookupHistory(hi, fw)
	}
}

func (g *pGen) sequence(steps int) {
	r := g.r
	cid := g.cid("push")
	// the world: C+1 guardian sets on chain
	C := 1 + r.Intn(4)
	w := &pWorld{nilAt: -1}
	ladder := []int{1, 2, 4, 7, 13, 19}
	shape := r.Intn(4) // 0 growing, 1 shrinking, 2 alternating small/large, 3 random
	off := r.Intn(len(ladder))
	for i := 0; i <= C; i++ {
		n := pSizes[r.Intn(len(pSizes))]
		switch shape {
		case 0:
			n = ladder[(off+i)%len(ladder)]
			if off+i >= len(ladder) {
				n = ladder[len(ladder)-1]
			}
		case 1:
			j := len(ladder) - 1 - off - i
			if j < 0 {
				j = 0
			}
			n = ladder[j]
		case 2:
			if (i+off)%2 == 0 {
				n = ladder[r.Intn(2)]
			} else {
				n = ladder[3+r.Intn(3)]
			}
		}
		w.truth = append(w.truth, g.distinctKeys(n))
	}
	n0 := 1 + r.Intn(C+1)
	if r.Intn(8) == 0 {
		w.nilAt = r.Intn(n0)
	}
	e := g.newEnv(cid, w, n0, 2)
	var prev []*vaa.VAA

	for i := 0; i < steps; i++ {
		cur, _ := e.gs.VerifState()
		// which set does the VAA name
		si := r.Intn(cur + 1)
		switch r.Intn(8) {
		case 0:
			si = cur
		case 1:
			si = cur + 1 + r.Intn(2) // future set: fetched from the chain (exists there or not)
		case 2:
			si = 0
		}
		kind := r.Intn(13)
		if r.Intn(3) == 0 {
			kind = r.Intn(2) // bias towards valid VAAs
		}
		curN := 0
		if cur >= 0 && cur < len(w.truth) && cur != w.nilAt {
			curN = len(w.truth[cur])
		}
		if r.Intn(3) == 0 { // thresholds of the named vs the current set, mostly on an older set
			kind = 13 + r.Intn(4)
			if cur > 0 && r.Intn(4) != 0 {
				si = r.Intn(cur)
			}
		}
		v, kname := g.mkVAA(w, si, kind, curN)
		if si >= 0 && si < len(w.truth) && len(w.truth[si]) > 0 && r.Intn(8) == 0 {
			v, kname = g.mkExtra(w, si, r.Intn(len(pBadKinds)), 1+r.Intn(3))
		}
		// a repeat of an earlier message id: the same VAA again, or a forged copy of it
		if len(prev) > 0 && r.Intn(4) == 0 {
			v = prev[r.Intn(len(prev))]
			kname = "repeat"
			if r.Intn(3) == 0 {
				v, kname = g.forge(w, v, r.Intn(len(pForgeKinds)))
			}
		}
		o := pOpt{room: 0, failAt: -1}
		if r.Intn(4) != 0 {
			o.room = 1 + r.Intn(2)
		}
		o.getErr = r.Intn(10) == 0
		o.forceHit = r.Intn(25) == 0
		o.noDial = r.Intn(12) == 0
		if int(v.GuardianSetIndex) > cur && r.Intn(6) == 0 {
			o.failAt = cur + 1 + r.Intn(int(v.GuardianSetIndex)-cur)
			g.chain.mu.Lock()
			g.chain.failMode = i % 4
			g.chain.mu.Unlock()
		}
		e.push(v, kname, o)
		if len(prev) < 8 && !strings.HasPrefix(kname, "forged-") {
			prev = append(prev, v)
		}
		if r.Intn(10) == 0 { // the cache forgets (expiry)
			e.expire()
		}
	}
}

// verifyVAA is reached through reflection so that this file compiles whatever signature the gate has; it is called
// directly only while it still is func(*vaa.VAA, []common.Address) error — otherwise the gate is judged through Push alone
// (where the Spec is evaluated on what actually appears on the queue).
func pVerifyFn() (reflect.Value, bool) {
	fn := reflect.ValueOf(verifyVAA)
	t := fn.Type()
	ok := t.NumIn() == 2 && t.NumOut() == 1 && !t.IsVariadic() &&
		t.In(0) == reflect.TypeOf((*vaa.VAA)(nil)) && t.In(1) == reflect.TypeOf([]eth_common.Address(nil)) &&
		t.Out(0) == reflect.TypeOf((*error)(nil)).Elem()
	return fn, ok
}

func pCallVerify(vfn reflect.Value, v *vaa.VAA, addrs []eth_common.Address) (s string) {
	defer func() {
		if e := recover(); e != nil {
			s = "panic"
		}
	}()
	out := vfn.Call([]reflect.Value{reflect.ValueOf(v), reflect.ValueOf(addrs)})
	if err, _ := out[0].Interface().(error); err != nil {
		return pClass(err, false)
	}
	return "nil"
}

func (g *pGen) verifyDirect() {
	r := g.r
	vfn, ok := pVerifyFn()
	if !ok {
		return
	}
	w := &pWorld{nilAt: -1}
	for _, n := range pSizes {
		ks := make([]pKey, n)
		for j := range ks {
			ks[j] = g.pool[(j*7+n)%len(g.pool)]
		}
		w.truth = append(w.truth, ks)
	}
	for si := range w.truth {
		for kind := 0; kind < 17; kind++ {
			v, kname := g.mkVAA(w, si, kind, len(w.truth[(si+1)%len(w.truth)]))
			addrs := w.addrs(si)
			switch r.Intn(12) {
			case 0:
				addrs = nil
			case 1:
				addrs = []eth_common.Address{}
			case 2:
				addrs = addrs[:len(addrs)-1]
			}
			fmt.Fprintf(g.w, "vfy %s kind=%s v=%s addrs=%s rec=%s res=%s\n", g.cid("vfy"), kname, pCanon(v), pKeys(addrs), pRec(v), pCallVerify(vfn, v, addrs))
		}
	}
}

func pOpen(t *testing.T, name string) (*pGen, func()) {
	seed, _ := strconv.ParseInt(os.Getenv("VERIF_SEED"), 10, 64)
	f, err := os.Create(filepath.Join(os.Getenv("VERIF_OUT"), name))
	if err != nil {
		t.Fatal(err)
	}
	g := &pGen{r: rand.New(rand.NewSource(seed)), w: bufio.NewWriterSize(f, 1<<20), chain: pNewChain()}
	for i := 0; i < 40; i++ {
		g.pool = append(g.pool, g.newKey())
	}
	return g, func() {
		g.w.Flush()
		g.chain.srv.Close()
		f.Close()
	}
}

var pForgedWorlds = [][]int{{1, 4}, {7, 2, 13}, {19, 3}, {4, 4, 1}}

func TestVerifPush(t *testing.T) {
	thorough := os.Getenv("VERIF_TIER") == "thorough"
	g, done := pOpen(t, "explorer_push.cases")
	defer done()
	for n := 0; n <= 255; n++ {
		fmt.Fprintf(g.w, "quo quo%d n=%d q=%d\n", n, n, nodeprocessor.CalculateQuorum(n))
	}
	rounds, nseq := 1, 40
	if thorough {
		rounds, nseq = 6, 600
	}
	for i := 0; i < rounds; i++ {
		g.verifyDirect()
		g.gateCases()
		g.historyCases()
		for _, sizes := range pForgedWorlds {
			g.forgedSequence(sizes)
		}
	}
	for i := 0; i < nseq; i++ {
		g.sequence(8 + g.r.Intn(10))
	}
}

// TestVerifGate writes only the verification-gate cases (verifyVAA directly and through Push on fresh consumers, every VAA
// with its own message id): the part of this harness that C06 re-uses for its anchor vaa_gossip_consumer.go.
func TestVerifGate(t *testing.T) {
	thorough := os.Getenv("VERIF_TIER") == "thorough"
	g, done := pOpen(t, "explorer_gate.cases")
	defer done()
	rounds := 1
	if thorough {
		rounds = 6
	}
	for i := 0; i < rounds; i++ {
		g.verifyDirect()
		g.gateCases()
		// the gate as the consumer applies it over a history: a forged copy of a message whose genuine VAA was verified before
		// must go through the gate again (C06: verification is per signature list, not per message id)
		if i == 0 {
			g.forgedSequence([]int{4})
		}
		g.historyCases()
	}
}
