//go:build verif

package guardiansets

// Correspondence harness for C19 (family `explorer`), injected into package guardiansets by `go test -overlay`.
//
// TestVerifGs      sequential op sequences on the real GuardianSets (updateGuardianSets, GetGuardianSet,
//                  GetCurrentGuardianSet, NewGuardianSets, GetGuardianSetsFromChain, the ticker goroutine) against a
//                  fake JSON-RPC chain; one line per op in $VERIF_OUT/explorer_gs.cases.
// TestVerifGsHist  histories the two callers of updateGuardianSets really produce, everything through the real entry points:
//                  start-up as main.go does it (GetGuardianSetsFromChain(0) -> NewGuardianSets), a chain that is many sets
//                  ahead of the explorer (far-ahead lookups), lookups that are overtaken by other lookups / the ticker's
//                  body while their chain request is held at a gate of the fake node (overlapping, repeated and contained
//                  fetches), a fake node that answers simultaneous requests in another order than they were made, and
//                  on-demand lookups that fail at the chain once or several times (RPC error, HTTP 503, undecodable /
//                  empty result, no dial; any request of the range) and are repeated until the node answers again;
//                  after every step every index is looked up.  $VERIF_OUT/explorer_hist.cases.
// TestVerifGsRace  concurrent GetGuardianSet / GetCurrentGuardianSet readers against updateGuardianSets writers; run
//                  with -race by checks/c19.py.  Every reader result is checked (set index = requested index, no panic);
//                  the race detector's report, if any, is picked up from the test output by the check module.
//
// The explorer-backend module links node/pkg/{common,ethereum/abi} from the module cache
// (github.com/alephium/wormhole-fork/node v0.0.0-20240818215257-cb0667c4f6c1), so this runs the code the explorer ships with.

import (
	"bufio"
	"context"
	"encoding/hex"
	"encoding/json"
	"fmt"
	"io"
	"math/rand"
	"net/http"
	"net/http/httptest"
	"os"
	"path/filepath"
	"sort"
	"strconv"
	"strings"
	"sync"
	"sync/atomic"
	"testing"
	"time"

	"github.com/alephium/wormhole-fork/node/pkg/common"
	ethabi "github.com/alephium/wormhole-fork/node/pkg/ethereum/abi"
	gethabi "github.com/ethereum/go-ethereum/accounts/abi"
	eth_common "github.com/ethereum/go-ethereum/common"
	"go.uber.org/zap"
)

// ---------------------------------------------------------------- rendering

func vKeys(keys []eth_common.Address) string {
	if keys == nil {
		return "nil"
	}
	if len(keys) == 0 {
		return "-"
	}
	p := make([]string, len(keys))
	for i, k := range keys {
		p[i] = hex.EncodeToString(k.Bytes())
	}
	return strings.Join(p, ",")
}

func vSet(s *common.GuardianSet) string {
	if s == nil {
		return "nilptr"
	}
	return fmt.Sprintf("%d:%s", s.Index, vKeys(s.Keys))
}

func vSets(l []*common.GuardianSet) string {
	if len(l) == 0 {
		return "-"
	}
	p := make([]string, len(l))
	for i, s := range l {
		p[i] = vSet(s)
	}
	return strings.Join(p, ";")
}

// ---------------------------------------------------------------- fake chain (JSON-RPC over HTTP, eth_call only)

type vChain struct {
	mu      sync.Mutex
	abi     gethabi.ABI
	keys    map[uint32][]eth_common.Address // index -> keys; an unknown index answers an empty key list (Solidity mapping default)
	failAt  map[uint32]bool                 // RPC error for getGuardianSet(index)
	// failN[i] = number of getGuardianSet(i) requests that still fail (an outage that ends by itself); failMode = how a failing
	// request is answered (vFailModes: JSON-RPC error, HTTP 503, an ABI-undecodable result, an empty result)
	failN    map[uint32]int
	failMode int
	cur     uint32
	failCur bool
	closed  bool     // gate: while closed every request fails and nothing is logged
	log     []string // observed requests with their answers, in order
	srv     *httptest.Server

	// gates on getGuardianSet requests (histories): a request that enters a gate is announced on `arrived` and answered
	// (and logged) only after its `release` channel is closed
	gmu      sync.Mutex
	gateMode int // 0 none, 1 hold the next request (one-shot), 2 hold every request (reorder coordinator running)
	arrived  chan *vHeld
}

type vHeld struct {
	idx      uint32
	release  chan struct{}
	answered chan struct{}
}

func (c *vChain) arm(mode int) {
	c.gmu.Lock()
	c.gateMode = mode
	c.gmu.Unlock()
}

func (c *vChain) enterGate(idx uint32) *vHeld {
	c.gmu.Lock()
	defer c.gmu.Unlock()
	if c.gateMode == 0 {
		return nil
	}
	if c.gateMode == 1 {
		c.gateMode = 0
	}
	h := &vHeld{idx: idx, release: make(chan struct{}), answered: make(chan struct{})}
	c.arrived <- h
	return h
}

const (
	vGrace   = 150 * time.Millisecond // quiescence: no further request arrived for this long while some are held
	vSpacing = 30 * time.Millisecond  // between two answers of one batch (only when the client had several requests in flight)
)

// reorder runs f with every getGuardianSet request held at the gate; whenever no further request has arrived for vGrace the
// held ones are answered highest index first.  A client that asks for one set after the other (the pinned code) only ever
// has one request held, so nothing but the time of its answers changes; after two such single-request batches the gate
// opens for the rest of f.  Returns the largest number of requests that were held at the same time.
func (c *vChain) reorder(f func()) int {
	c.arm(2)
	stop := make(chan struct{})
	fin := make(chan int)
	go func() {
		var held []*vHeld
		var tc <-chan time.Time
		batches, maxBatch, open := 0, 0, false
		for {
			select {
			case h := <-c.arrived:
				if open {
					close(h.release)
					continue
				}
				held = append(held, h)
				tc = time.After(vGrace)
			case <-tc:
				sort.Slice(held, func(i, j int) bool { return held[i].idx > held[j].idx })
				if len(held) > maxBatch {
					maxBatch = len(held)
				}
				for i, h := range held {
					close(h.release)
					<-h.answered
					if i < len(held)-1 {
						time.Sleep(vSpacing)
					}
				}
				held, tc = nil, nil
				batches++
				if batches >= 2 && maxBatch <= 1 {
					open = true
				}
			case <-stop:
				for _, h := range held {
					close(h.release)
				}
				fin <- maxBatch
				return
			}
		}
	}()
	f()
	c.arm(0)
	close(stop)
	n := <-fin
	for {
		select {
		case h := <-c.arrived:
			close(h.release)
		default:
			return n
		}
	}
}

func vNewChain() *vChain {
	parsed, err := gethabi.JSON(strings.NewReader(ethabi.AbiABI))
	if err != nil {
		panic(err)
	}
	c := &vChain{abi: parsed, keys: map[uint32][]eth_common.Address{}, failAt: map[uint32]bool{}, failN: map[uint32]int{}, arrived: make(chan *vHeld, 4096)}
	c.srv = httptest.NewServer(http.HandlerFunc(c.serve))
	return c
}

func (c *vChain) takeLog() string {
	c.mu.Lock()
	defer c.mu.Unlock()
	l := c.log
	c.log = nil
	if len(l) == 0 {
		return "-"
	}
	return strings.Join(l, ";")
}

func (c *vChain) serve(w http.ResponseWriter, r *http.Request) {
	body, _ := io.ReadAll(r.Body)
	var req struct {
		ID     json.RawMessage   `json:"id"`
		Method string            `json:"method"`
		Params []json.RawMessage `json:"params"`
	}
	w.Header().Set("Content-Type", "application/json")
	fail := func(msg string) {
		fmt.Fprintf(w, `{"jsonrpc":"2.0","id":%s,"error":{"code":-32000,"message":%q}}`, string(req.ID), msg)
	}
	if err := json.Unmarshal(body, &req); err != nil || req.Method != "eth_call" || len(req.Params) < 1 {
		req.ID = json.RawMessage("1")
		fail("unsupported")
		return
	}
	var arg struct {
		Data  string `json:"data"`
		Input string `json:"input"`
	}
	_ = json.Unmarshal(req.Params[0], &arg)
	if arg.Data == "" {
		arg.Data = arg.Input
	}
	data, err := hex.DecodeString(strings.TrimPrefix(arg.Data, "0x"))
	if err != nil || len(data) < 4 {
		fail("bad calldata")
		return
	}
	m, err := c.abi.MethodById(data[:4])
	if err != nil {
		fail("unknown method")
		return
	}
	if m.Name == "getGuardianSet" {
		if args, e := m.Inputs.Unpack(data[4:]); e == nil && len(args) == 1 {
			if h := c.enterGate(args[0].(uint32)); h != nil {
				<-h.release
				defer close(h.answered)
			}
		}
	}
	c.mu.Lock()
	defer c.mu.Unlock()
	if c.closed {
		fail("closed")
		return
	}
	var out []byte
	switch m.Name {
	case "getCurrentGuardianSetIndex":
		if c.failCur {
			c.log = append(c.log, "c:err")
			fail("boom")
			return
		}
		c.log = append(c.log, fmt.Sprintf("c:%d", c.cur))
		out, err = m.Outputs.Pack(c.cur)
	case "getGuardianSet":
		args, e := m.Inputs.Unpack(data[4:])
		if e != nil || len(args) != 1 {
			fail("bad args")
			return
		}
		idx := args[0].(uint32)
		if c.failAt[idx] || c.failN[idx] > 0 {
			if c.failN[idx] > 0 {
				c.failN[idx]--
			}
			c.log = append(c.log, fmt.Sprintf("%d:err", idx))
			switch c.failMode {
			case 1: // the endpoint is up but not serving
				w.WriteHeader(http.StatusServiceUnavailable)
				fmt.Fprint(w, "service unavailable")
			case 2: // a result that is not the ABI encoding of a guardian set (one word: an offset pointing past the end)
				fmt.Fprintf(w, `{"jsonrpc":"2.0","id":%s,"result":"0x%064x"}`, string(req.ID), 0x20)
			case 3: // an empty result
				fmt.Fprintf(w, `{"jsonrpc":"2.0","id":%s,"result":"0x"}`, string(req.ID))
			default:
				fail("boom")
			}
			return
		}
		keys := c.keys[idx]
		if keys == nil {
			keys = []eth_common.Address{}
		}
		c.log = append(c.log, fmt.Sprintf("%d:%s", idx, vKeys(keys)))
		out, err = m.Outputs.Pack(ethabi.StructsGuardianSet{Keys: keys, ExpirationTime: 0})
	default:
		fail("unsupported method")
		return
	}
	if err != nil {
		fail("pack: " + err.Error())
		return
	}
	fmt.Fprintf(w, `{"jsonrpc":"2.0","id":%s,"result":"0x%s"}`, string(req.ID), hex.EncodeToString(out))
}

// ---------------------------------------------------------------- generator

type vGen struct {
	r     *rand.Rand
	w     *bufio.Writer
	n     int
	chain *vChain
	t     *testing.T
}

func (g *vGen) addr() eth_common.Address {
	var a eth_common.Address
	g.r.Read(a[:])
	return a
}

func (g *vGen) keys() []eth_common.Address {
	n := g.r.Intn(4)
	k := make([]eth_common.Address, n)
	for i := range k {
		k[i] = g.addr()
	}
	return k
}

func (g *vGen) set(idx uint32) *common.GuardianSet {
	return &common.GuardianSet{Index: idx, Keys: g.keys()}
}

func (g *vGen) rng(a, b uint32) []*common.GuardianSet {
	l := []*common.GuardianSet{}
	for i := a; i <= b && i >= a; i++ {
		l = append(l, g.set(i))
		if i == ^uint32(0) {
			break
		}
	}
	return l
}

func (g *vGen) newGS(cur int, list []*common.GuardianSet, dialOK bool, ch chan *common.GuardianSet) *GuardianSets {
	url := g.chain.srv.URL
	if !dialOK {
		url = "verif-no-such-scheme://x"
	}
	return &GuardianSets{
		lock:                    sync.Mutex{},
		currentGuardianSetIndex: cur,
		guardianSetLists:        list,
		ethRpcUrl:               url,
		logger:                  zap.NewNop(),
		duration:                time.Millisecond,
		ethGovernanceAddress:    eth_common.HexToAddress("0x00000000000000000000000000000000000000c0"),
		guardianSetC:            ch,
	}
}

func vDrain(ch chan *common.GuardianSet) []*common.GuardianSet {
	var l []*common.GuardianSet
	for {
		select {
		case s := <-ch:
			l = append(l, s)
		default:
			return l
		}
	}
}

func (g *vGen) state(gs *GuardianSets) string {
	return fmt.Sprintf("cur=%d list=%s", gs.currentGuardianSetIndex, vSets(gs.guardianSetLists))
}

func (g *vGen) opUpd(cid string, gs *GuardianSets, in []*common.GuardianSet) { g.opUpdX(cid, gs, in, "") }

// opUpdX: extra = " src=fetch" when `in` is what the real GetGuardianSetsFromChain(current+1) just returned (the ticker's body)
func (g *vGen) opUpdX(cid string, gs *GuardianSets, in []*common.GuardianSet, extra string) {
	res := func() (r string) {
		defer func() {
			if e := recover(); e != nil {
				r = "panic"
			}
		}()
		if err := gs.updateGuardianSets(in); err != nil {
			return "err"
		}
		return "nil"
	}()
	fmt.Fprintf(g.w, "gsupd %s in=%s res=%s %s%s\n", cid, vSets(in), res, g.state(gs), extra)
}

func vCallGet(gs *GuardianSets, idx int) (got *common.GuardianSet, r string) {
	defer func() {
		if e := recover(); e != nil {
			got, r = nil, "panic"
		}
	}()
	s, err := gs.GetGuardianSet(context.Background(), idx)
	if err != nil {
		if s != nil {
			return nil, "errnonnil"
		}
		return nil, "err"
	}
	return s, "ok"
}

func (g *vGen) opGet(cid string, gs *GuardianSets, ch chan *common.GuardianSet, idx int, dialOK bool) {
	if dialOK {
		gs.ethRpcUrl = g.chain.srv.URL
	} else {
		gs.ethRpcUrl = "verif-no-such-scheme://x"
	}
	got, res := vCallGet(gs, idx)
	d := 0
	if dialOK {
		d = 1
	}
	fmt.Fprintf(g.w, "gsget %s idx=%d dial=%d chain=%s res=%s set=%s sent=%s %s\n", cid, idx, d, g.chain.takeLog(), res, vSet(got),
		vSets(vDrain(ch)), g.state(gs))
}

// opGetOvertaken: GetGuardianSet(idx) runs in its own goroutine; its first getGuardianSet request is held at the fake node's
// gate (barrier: the request has arrived, so `current` has been read and the lock released), then `others` - further
// lookups, the ticker's body - run to completion on the harness goroutine, then the held request is answered and the
// lookup finishes with a batch that starts at the `current+1` it read earlier.  Written as a gsget line with cur0=.
func (g *vGen) opGetOvertaken(cid string, gs *GuardianSets, ch chan *common.GuardianSet, idx int, others func()) {
	gs.ethRpcUrl = g.chain.srv.URL
	c0 := gs.currentGuardianSetIndex
	g.chain.arm(1)
	var got *common.GuardianSet
	var res string
	done := make(chan struct{})
	go func() {
		got, res = vCallGet(gs, idx)
		close(done)
	}()
	var h *vHeld
	select {
	case h = <-g.chain.arrived:
	case <-done:
	case <-time.After(60 * time.Second):
		g.t.Fatalf("%s: overtaken lookup of %d neither asked the chain nor returned", cid, idx)
	}
	g.chain.arm(0)
	extra := ""
	if h != nil {
		others()
		close(h.release)
		select {
		case <-done:
		case <-time.After(60 * time.Second):
			g.t.Fatalf("%s: overtaken lookup of %d did not return after its request was answered", cid, idx)
		}
		extra = fmt.Sprintf(" cur0=%d", c0)
	}
	fmt.Fprintf(g.w, "gsget %s idx=%d dial=1 chain=%s res=%s set=%s sent=%s %s%s\n", cid, idx, g.chain.takeLog(), res, vSet(got),
		vSets(vDrain(ch)), g.state(gs), extra)
}

func (g *vGen) opCur(cid string, gs *GuardianSets) {
	var got *common.GuardianSet
	res := func() (r string) {
		defer func() {
			if e := recover(); e != nil {
				r = "panic"
			}
		}()
		got = gs.GetCurrentGuardianSet()
		return "ok"
	}()
	fmt.Fprintf(g.w, "gscur %s res=%s set=%s\n", cid, res, vSet(got))
}

// opFetch: GetGuardianSetsFromChain(from) — what main.go and the ticker call — followed by updateGuardianSets of the result.
func (g *vGen) opFetch(cid string, gs *GuardianSets, from uint32) {
	var sets []*common.GuardianSet
	res := func() (r string) {
		defer func() {
			if e := recover(); e != nil {
				r = "panic"
			}
		}()
		s, err := GetGuardianSetsFromChain(context.Background(), g.chain.srv.URL, gs.ethGovernanceAddress, from)
		if err != nil {
			return "err"
		}
		sets = s
		return "ok"
	}()
	fmt.Fprintf(g.w, "gsfetch %s from=%d chain=%s res=%s sets=%s\n", cid, from, g.chain.takeLog(), res, vSets(sets))
	if res == "ok" {
		g.opUpdX(cid, gs, sets, " src=fetch")
	}
}

// opTick: the real ticker goroutine (UpdateGuardianSet) until it has sent once on guardianSetC.  The chain never fails
// here, so the first round always ends in a send; as soon as it arrives the chain's gate is closed, so a possible second
// round (the goroutine may tick again before it sees the cancellation) fails its fetch and changes nothing.
func (g *vGen) opTick(cid string, gs *GuardianSets, ch chan *common.GuardianSet) {
	gs.ethRpcUrl = g.chain.srv.URL
	gs.duration = 5 * time.Millisecond
	ctx, cancel := context.WithCancel(context.Background())
	tickCh := make(chan *common.GuardianSet) // unbuffered: the goroutine blocks in its first send until we take it
	gs.guardianSetC = tickCh
	gs.UpdateGuardianSet(ctx)
	var first *common.GuardianSet
	res := "ok"
	select {
	case first = <-tickCh:
	case <-time.After(30 * time.Second):
		res = "timeout"
	}
	g.chain.mu.Lock()
	g.chain.closed = true
	g.chain.mu.Unlock()
	cancel()
	time.Sleep(12 * time.Millisecond)
	log := g.chain.takeLog()
	g.chain.mu.Lock()
	g.chain.closed = false
	g.chain.mu.Unlock()
	gs.guardianSetC = ch
	fmt.Fprintf(g.w, "gstick %s chain=%s res=%s sent=%s %s\n", cid, log, res, vSet(first), g.state(gs))
}

func (g *vGen) cid(kind string) string {
	g.n++
	return fmt.Sprintf("%s%d", kind, g.n)
}

// chain truth: sets 0..cur with random keys, a few unknown (empty) above
func (g *vGen) resetChain(cur uint32) {
	c := g.chain
	c.mu.Lock()
	defer c.mu.Unlock()
	c.keys = map[uint32][]eth_common.Address{}
	c.failAt = map[uint32]bool{}
	c.failN = map[uint32]int{}
	c.failMode = 0
	c.failCur = false
	c.cur = cur
	for i := uint32(0); i <= cur; i++ {
		k := g.keys()
		if len(k) == 0 {
			k = append(k, g.addr())
		}
		c.keys[i] = k
	}
	c.log = nil
}

func (g *vGen) chainSets(a, b uint32) []*common.GuardianSet {
	l := []*common.GuardianSet{}
	for i := a; i <= b; i++ {
		k := g.chain.keys[i]
		if k == nil {
			k = []eth_common.Address{}
		}
		l = append(l, &common.GuardianSet{Index: i, Keys: k})
	}
	return l
}

// realistic: the list is what main.go builds (GetGuardianSetsFromChain(0) -> NewGuardianSets) and every update is a
// contiguous range starting at <= current+1, i.e. what the two callers fetch.
func (g *vGen) realistic(steps int) {
	r := g.r
	cid := g.cid("real")
	chainCur := uint32(1 + r.Intn(6))
	g.resetChain(chainCur + uint32(r.Intn(3)))
	n := 1 + r.Intn(int(chainCur))
	ch := make(chan *common.GuardianSet, 64)
	init := g.chainSets(0, uint32(n-1))
	var gs *GuardianSets
	res := func() (s string) {
		defer func() {
			if e := recover(); e != nil {
				s = "panic"
			}
		}()
		gs = NewGuardianSets(init, g.chain.srv.URL, zap.NewNop(), time.Millisecond, eth_common.HexToAddress("0xc0"), ch)
		return "ok"
	}()
	if res != "ok" {
		fmt.Fprintf(g.w, "gsnew %s list=%s res=panic sent=- cur=0 list2=-\n", cid, vSets(init))
		return
	}
	fmt.Fprintf(g.w, "gsnew %s list=%s res=ok sent=%s %s\n", cid, vSets(init), vSets(vDrain(ch)), g.state(gs))
	for i := 0; i < steps; i++ {
		cur := gs.currentGuardianSetIndex
		switch r.Intn(9) {
		case 0, 1: // direct update with a contiguous range a..b, a <= cur+1
			a := cur + 1 - r.Intn(4)
			if a < 0 {
				a = 0
			}
			b := a + r.Intn(5) - 1 // may be a-1: empty
			if b < a {
				g.opUpd(cid, gs, []*common.GuardianSet{})
			} else {
				g.opUpd(cid, gs, g.chainSets(uint32(a), uint32(b)))
			}
		case 2, 3: // lookup of a known index (every boundary: 0, cur)
			idx := r.Intn(cur + 1)
			if r.Intn(3) == 0 {
				idx = cur
			}
			g.opGet(cid, gs, ch, idx, r.Intn(4) != 0)
		case 4, 5: // lookup of a future index: cur+1 .. cur+3
			idx := cur + 1 + r.Intn(3)
			dial := r.Intn(6) != 0
			if r.Intn(5) == 0 {
				g.chain.failAt[uint32(cur+1+r.Intn(idx-cur))] = true
				g.chain.failMode = i % 4
			}
			g.opGet(cid, gs, ch, idx, dial)
			g.chain.failAt = map[uint32]bool{}
		case 6:
			g.opCur(cid, gs)
		case 7: // the chain moves on, then the ticker's body
			if r.Intn(2) == 0 {
				g.chain.cur += uint32(r.Intn(3))
				for i := uint32(0); i <= g.chain.cur; i++ {
					if g.chain.keys[i] == nil {
						g.chain.keys[i] = []eth_common.Address{g.addr()}
					}
				}
			}
			if r.Intn(6) == 0 {
				g.chain.failCur = true
			}
			g.opFetch(cid, gs, uint32(cur+1))
			g.chain.failCur = false
		case 8:
			if r.Intn(2) == 0 {
				g.chain.cur += uint32(1 + r.Intn(2))
				for i := uint32(0); i <= g.chain.cur; i++ {
					if g.chain.keys[i] == nil {
						g.chain.keys[i] = []eth_common.Address{g.addr()}
					}
				}
			}
			g.opTick(cid, gs, ch)
		}
	}
}

// adversarial: arbitrary states and update inputs (gaps, late starts, repeats, descending, huge indexes, current = -1);
// only the model/implementation tie is judged on these.
func (g *vGen) adversarial(steps int) {
	r := g.r
	cid := g.cid("adv")
	g.resetChain(uint32(2 + r.Intn(4)))
	n := r.Intn(5)
	list := []*common.GuardianSet{}
	for i := 0; i < n; i++ {
		idx := uint32(i)
		if r.Intn(6) == 0 {
			idx = uint32(r.Intn(8))
		}
		list = append(list, g.set(idx))
	}
	cur := n - 1
	switch r.Intn(6) {
	case 0:
		cur = n - 1 + r.Intn(3)
	case 1:
		cur = n - 2
	}
	ch := make(chan *common.GuardianSet, 64)
	gs := g.newGS(cur, list, true, ch)
	fmt.Fprintf(g.w, "gsinit %s %s\n", cid, g.state(gs))
	big := []uint32{1<<32 - 1, 1<<32 - 2, 1 << 31, 1<<31 - 1}
	for i := 0; i < steps; i++ {
		c := gs.currentGuardianSetIndex
		switch r.Intn(8) {
		case 0: // arbitrary indexes
			k := r.Intn(5)
			in := []*common.GuardianSet{}
			for j := 0; j < k; j++ {
				in = append(in, g.set(uint32(r.Intn(c+6+1))))
			}
			g.opUpd(cid, gs, in)
		case 1: // contiguous but starting late (gap)
			a := uint32(c + 2 + r.Intn(3))
			g.opUpd(cid, gs, g.rng(a, a+uint32(r.Intn(3))))
		case 2: // contiguous, overlapping
			a := c + 1 - r.Intn(4)
			if a < 0 {
				a = 0
			}
			g.opUpd(cid, gs, g.rng(uint32(a), uint32(a+r.Intn(5))))
		case 3: // the target index occurs twice / range with a repeated element
			a := uint32(c + 1)
			in := g.rng(a, a+uint32(r.Intn(3)))
			in = append([]*common.GuardianSet{g.set(uint32(r.Intn(c + 3))), g.set(a)}, in...)
			g.opUpd(cid, gs, in)
		case 4: // descending / huge
			in := []*common.GuardianSet{g.set(big[r.Intn(len(big))])}
			if r.Intn(2) == 0 {
				in = append([]*common.GuardianSet{g.set(uint32(c + 1))}, in...)
			}
			if r.Intn(3) == 0 {
				g.opUpd(cid, gs, in)
			} else {
				g.opUpd(cid, gs, g.rng(uint32(c+1), uint32(c+1+r.Intn(2))))
			}
		case 5:
			idx := r.Intn(len(gs.guardianSetLists)+3) - 1
			if idx > gs.currentGuardianSetIndex && gs.currentGuardianSetIndex > 1<<20 {
				idx = gs.currentGuardianSetIndex // never ask the fake chain for millions of sets
			}
			if idx > gs.currentGuardianSetIndex && idx-gs.currentGuardianSetIndex > 16 {
				idx = gs.currentGuardianSetIndex
			}
			if gs.currentGuardianSetIndex < 0 && idx > 8 {
				idx = 3
			}
			if idx > gs.currentGuardianSetIndex && idx < 0 {
				// uint32(idx) = 2^32-1 as the upper end of the chain fetch: the loop counter of getGuardianSetsFromChain wraps
				// and the call never returns (noted in the report; outside the model)
				idx = 0
			}
			g.opGet(cid, gs, ch, idx, r.Intn(5) != 0)
		case 6:
			g.opCur(cid, gs)
		case 7:
			if gs.currentGuardianSetIndex >= -1 && gs.currentGuardianSetIndex < 1<<20 {
				g.opFetch(cid, gs, uint32(gs.currentGuardianSetIndex+1))
			}
		}
	}
}

// ---------------------------------------------------------------- histories (TestVerifGsHist)

// chain truth for a history: sets 0..n-1 with 1..maxKeys keys each (sizes differ from one set to the next); the contract's
// current index starts at cur
func (g *vGen) histChain(n int, cur int, maxKeys int) {
	c := g.chain
	c.mu.Lock()
	defer c.mu.Unlock()
	c.keys = map[uint32][]eth_common.Address{}
	c.failAt = map[uint32]bool{}
	c.failN = map[uint32]int{}
	c.failMode = 0
	c.failCur = false
	c.cur = uint32(cur)
	prev := 0
	for i := 0; i < n; i++ {
		k := 1 + g.r.Intn(maxKeys)
		if k == prev {
			k = 1 + k%maxKeys
		}
		prev = k
		ks := make([]eth_common.Address, k)
		for j := range ks {
			ks[j] = g.addr()
		}
		c.keys[uint32(i)] = ks
	}
	c.log = nil
}

func (g *vGen) chainTo(cur int) {
	g.chain.mu.Lock()
	g.chain.cur = uint32(cur)
	g.chain.mu.Unlock()
}

// boot: what main.go does - GetGuardianSetsFromChain(0), NewGuardianSets of the result.  `gated`: the fake node holds the
// requests and answers simultaneous ones in descending index order (vChain.reorder).  Returns nil when the start-up failed.
func (g *vGen) boot(cid string, ch chan *common.GuardianSet, gated bool) (*GuardianSets, int) {
	var sets []*common.GuardianSet
	res := "ok"
	held := 0
	run := func() {
		func() {
			defer func() {
				if e := recover(); e != nil {
					res = "panic"
				}
			}()
			s, err := GetGuardianSetsFromChain(context.Background(), g.chain.srv.URL, eth_common.HexToAddress("0xc0"), 0)
			if err != nil {
				res = "err"
				return
			}
			sets = s
		}()
	}
	if gated {
		held = g.chain.reorder(run)
	} else {
		run()
	}
	fmt.Fprintf(g.w, "gsfetch %s from=0 chain=%s res=%s sets=%s\n", cid, g.chain.takeLog(), res, vSets(sets))
	if res != "ok" {
		return nil, held
	}
	var gs *GuardianSets
	nres := func() (s string) {
		defer func() {
			if e := recover(); e != nil {
				s = "panic"
			}
		}()
		gs = NewGuardianSets(sets, g.chain.srv.URL, zap.NewNop(), time.Hour, eth_common.HexToAddress("0xc0"), ch)
		return "ok"
	}()
	if nres != "ok" {
		fmt.Fprintf(g.w, "gsnew %s list=%s res=panic sent=- cur=0 list=- boot=1\n", cid, vSets(sets))
		return nil, held
	}
	fmt.Fprintf(g.w, "gsnew %s list=%s res=ok sent=%s %s boot=1\n", cid, vSets(sets), vSets(vDrain(ch)), g.state(gs))
	return gs, held
}

// every index the explorer knows (and GetCurrentGuardianSet): "the guardian set it returns for index i is always the set with index i"
func (g *vGen) lookupAll(cid string, gs *GuardianSets, ch chan *common.GuardianSet, upTo int) {
	if upTo > gs.currentGuardianSetIndex {
		upTo = gs.currentGuardianSetIndex
	}
	for i := 0; i <= upTo; i++ {
		g.opGet(cid, gs, ch, i, true)
	}
	g.opCur(cid, gs)
}

// histBoot: start-up over n sets, every index looked up; the chain moves on by m >= 2 sets and the explorer catches up in one
// fetch of several sets (the ticker's body, or a lookup of the newest index, or a lookup of the one before it and then the
// ticker's body); every index looked up again.  `gated` as in boot.  Returns the largest number of simultaneously held requests.
func (g *vGen) histBoot(n, m, how int, gated bool) int {
	cid := g.cid("boot")
	g.histChain(n+m, n-1, 3)
	ch := make(chan *common.GuardianSet, 256)
	gs, held := g.boot(cid, ch, gated)
	if gs == nil {
		return held
	}
	g.lookupAll(cid, gs, ch, n+m)
	g.chainTo(n + m - 1)
	step := func() {
		cur := gs.currentGuardianSetIndex
		switch how {
		case 0:
			g.opFetch(cid, gs, uint32(cur+1))
		case 1:
			g.opGet(cid, gs, ch, n+m-1, true)
		default:
			g.opGet(cid, gs, ch, n+m-2, true)
			g.opFetch(cid, gs, uint32(gs.currentGuardianSetIndex+1))
		}
	}
	if gated {
		if h := g.chain.reorder(step); h > held {
			held = h
		}
	} else {
		step()
	}
	g.lookupAll(cid, gs, ch, n+m)
	return held
}

// histFar: the explorer starts with sets 0..prefix-1; by the time it looks again the chain is many sets ahead (no periodic
// fetch in between - it runs every 15 minutes).  A lookup of an index `dist` ahead of the newest known set, then every index
// of the chain, oldest first; then a second far-ahead lookup to the chain's end and every index again, newest first.
func (g *vGen) histFar(prefix, dist, beyond int) {
	cid := g.cid("far")
	n := prefix + dist + beyond
	g.histChain(n, prefix-1, 2)
	ch := make(chan *common.GuardianSet, 256)
	gs, _ := g.boot(cid, ch, false)
	if gs == nil {
		return
	}
	g.chainTo(n - 1)
	g.opGet(cid, gs, ch, prefix-1+dist, true)
	for i := 0; i < n; i++ {
		g.opGet(cid, gs, ch, i, true)
	}
	g.opCur(cid, gs)
	if beyond > 0 {
		g.opGet(cid, gs, ch, n-1, true)
	}
	for i := n - 1; i >= 0; i-- {
		g.opGet(cid, gs, ch, i, g.r.Intn(3) != 0)
	}
}

var vOvertakers = []string{"lower-lookup", "same-lookup", "higher-lookup", "ticker-body", "two-lookups", "lower-lookup-then-ticker", "failed-lookup"}

// histOverlap: start-up over n0 sets; the chain moves on by adv >= 2 sets; a lookup of index current+k is overtaken (see
// opGetOvertaken) by `ov`: a lookup of a lower / the same / a higher new index, the ticker's body, two lookups, ... so that its
// batch overlaps what is stored by then partially, completely, or not at all; then every index is looked up.  Twice per history.
func (g *vGen) histOverlap(n0, adv, k, ov int) {
	cid := g.cid("ovl")
	total := n0 + 2*adv
	g.histChain(total, n0-1, 3)
	ch := make(chan *common.GuardianSet, 256)
	gs, _ := g.boot(cid, ch, false)
	if gs == nil {
		return
	}
	for round := 0; round < 2; round++ {
		cur := gs.currentGuardianSetIndex
		top := n0 - 1 + (round+1)*adv
		if top <= cur {
			break
		}
		g.chainTo(top)
		idx := cur + k
		if idx > top {
			idx = top
		}
		if idx < cur+1 {
			idx = cur + 1
		}
		lower := cur + 1 + g.r.Intn(idx-cur)
		if lower >= idx && idx > cur+1 {
			lower = idx - 1
		}
		g.opGetOvertaken(cid, gs, ch, idx, func() {
			switch ov {
			case 0:
				g.opGet(cid, gs, ch, lower, true)
			case 1:
				g.opGet(cid, gs, ch, idx, true)
			case 2:
				g.opGet(cid, gs, ch, top, true)
			case 3:
				g.opFetch(cid, gs, uint32(cur+1))
			case 4:
				g.opGet(cid, gs, ch, cur+1, true)
				if idx-1 > cur+1 {
					g.opGet(cid, gs, ch, idx-1, true)
				}
			case 5:
				g.opGet(cid, gs, ch, lower, true)
				g.opFetch(cid, gs, uint32(gs.currentGuardianSetIndex+1))
			default: // the other lookup fails at the chain: nothing is stored in between
				g.chain.failAt[uint32(cur+1)] = true
				g.opGet(cid, gs, ch, lower, true)
				g.chain.failAt = map[uint32]bool{}
			}
		})
		g.lookupAll(cid, gs, ch, total)
		ov = (ov + 3) % len(vOvertakers)
	}
}

var vFailModes = []string{"rpcerr", "http503", "malformed", "empty", "nodial"}

// histFail: the on-demand lookup fails at the chain.  Start-up over n0 sets; the chain moves on; a lookup of index current+d
// (d = 1..3) for which the request for one index of the range (first / last / middle) fails nfail (1..3) times - RPC error, HTTP
// 503, an undecodable or empty result, or the endpoint cannot be dialled - and is repeated until the node answers again; after
// every attempt GetCurrentGuardianSet and every index the explorer knows ("the guardian set it returns for index i is always the
// set with index i" - also right after a lookup that could not be served), after the last one every index of the chain.
func (g *vGen) histFail(n0, adv, salt int) {
	cid := g.cid("lfail")
	total := n0 + adv
	g.histChain(total, n0-1, 3)
	ch := make(chan *common.GuardianSet, 256)
	gs, _ := g.boot(cid, ch, false)
	if gs == nil {
		return
	}
	g.chainTo(total - 1)
	for round := 0; round < adv; round++ {
		cur := gs.currentGuardianSetIndex
		if cur < 0 || cur >= total-1 {
			break
		}
		k := salt + round
		d := 1 + k%3
		if cur+d > total-1 {
			d = total - 1 - cur
		}
		idx := cur + d
		p := cur + 1 + []int{0, d - 1, d / 2}[(k/3)%3]
		mode := k % len(vFailModes)
		nfail := 1 + (k/2)%3
		nodial := vFailModes[mode] == "nodial"
		if !nodial {
			g.chain.mu.Lock()
			g.chain.failN = map[uint32]int{uint32(p): nfail}
			g.chain.failMode = mode
			g.chain.mu.Unlock()
		}
		for try := 0; try <= nfail; try++ {
			g.opGet(cid, gs, ch, idx, !(nodial && try < nfail))
			g.lookupAll(cid, gs, ch, total)
			if gs.currentGuardianSetIndex >= idx {
				break
			}
		}
		g.chain.mu.Lock()
		g.chain.failN = map[uint32]int{}
		g.chain.failMode = 0
		g.chain.mu.Unlock()
	}
	for i := 0; i < total; i++ {
		g.opGet(cid, gs, ch, i, true)
	}
	g.opCur(cid, gs)
}

func TestVerifGsHist(t *testing.T) {
	seed, _ := strconv.ParseInt(os.Getenv("VERIF_SEED"), 10, 64)
	thorough := os.Getenv("VERIF_TIER") == "thorough"
	f, err := os.Create(filepath.Join(os.Getenv("VERIF_OUT"), "explorer_hist.cases"))
	if err != nil {
		t.Fatal(err)
	}
	defer f.Close()
	g := &vGen{r: rand.New(rand.NewSource(seed)), w: bufio.NewWriterSize(f, 1<<20), chain: vNewChain(), t: t}
	defer g.chain.srv.Close()
	defer g.w.Flush()
	r := g.r
	rounds := 1
	if thorough {
		rounds = 12
	}
	// 1. does the implementation have several chain requests in flight at once?  One gated start-up + catch-up per catch-up
	// path; a client that asks for one set after the other costs two grace periods per probe and is never gated again.
	concurrent := false
	for how := 0; how < 2; how++ {
		if g.histBoot(3+r.Intn(2), 3, how, true) > 1 {
			concurrent = true
		}
		g.w.Flush()
	}
	for round := 0; round < rounds; round++ {
		// 2. start-up and multi-set catch-up (gated again only for a client that fetches concurrently)
		for how := 0; how < 3; how++ {
			g.histBoot(2+r.Intn(5), 2+r.Intn(3), how, concurrent)
			g.w.Flush()
		}
		// 3. far-ahead lookups: distances around every power of two up to 32, and a random one
		dists := []int{8, 9, 10, 16, 17, 33, 9 + r.Intn(28)}
		if !thorough {
			dists = []int{8, 9, 17, []int{10, 16, 33}[r.Intn(3)], 9 + r.Intn(28)}
		}
		for _, d := range dists {
			g.histFar(1+r.Intn(3), d, r.Intn(4))
			g.w.Flush()
		}
		// 4. overtaken lookups: every overtaker, k = 2..4
		for ov := range vOvertakers {
			adv := 2 + r.Intn(4)
			g.histOverlap(1+r.Intn(3), adv, 2+r.Intn(adv-1), ov)
			g.w.Flush()
		}
		// 5. on-demand lookups that fail at the chain (every failure mode, 1..3 times, first / middle / last request of the range)
		salt := r.Intn(30)
		for i := range vFailModes {
			g.histFail(1+r.Intn(3), 3+r.Intn(4), salt+i)
			g.w.Flush()
		}
	}
}

func TestVerifGs(t *testing.T) {
	seed, _ := strconv.ParseInt(os.Getenv("VERIF_SEED"), 10, 64)
	thorough := os.Getenv("VERIF_TIER") == "thorough"
	f, err := os.Create(filepath.Join(os.Getenv("VERIF_OUT"), "explorer_gs.cases"))
	if err != nil {
		t.Fatal(err)
	}
	defer f.Close()
	g := &vGen{r: rand.New(rand.NewSource(seed)), w: bufio.NewWriterSize(f, 1<<20), chain: vNewChain(), t: t}
	defer g.chain.srv.Close()
	defer g.w.Flush()
	nReal, nAdv := 60, 60
	if thorough {
		nReal, nAdv = 1500, 1500
	}
	// the constructor on an empty list (panics), once
	{
		cid := g.cid("ctor")
		ch := make(chan *common.GuardianSet, 4)
		res := func() (s string) {
			defer func() {
				if e := recover(); e != nil {
					s = "panic"
				}
			}()
			NewGuardianSets([]*common.GuardianSet{}, "", zap.NewNop(), time.Second, eth_common.Address{}, ch)
			return "ok"
		}()
		fmt.Fprintf(g.w, "gsnew %s list=- res=%s sent=- cur=-1 list=-\n", cid, res)
	}
	for i := 0; i < nReal; i++ {
		g.realistic(6 + g.r.Intn(10))
	}
	for i := 0; i < nAdv; i++ {
		g.adversarial(5 + g.r.Intn(8))
	}
}

// ---------------------------------------------------------------- concurrency (run with -race)

func TestVerifGsRace(t *testing.T) {
	seed, _ := strconv.ParseInt(os.Getenv("VERIF_SEED"), 10, 64)
	thorough := os.Getenv("VERIF_TIER") == "thorough"
	f, err := os.Create(filepath.Join(os.Getenv("VERIF_OUT"), "explorer_race.cases"))
	if err != nil {
		t.Fatal(err)
	}
	defer f.Close()
	r := rand.New(rand.NewSource(seed))
	rounds, total := 20, 200
	if thorough {
		rounds, total = 1500, 400
	}
	var reads, wrong, panics, appends int64
	firstBad := ""
	var badMu sync.Mutex
	for round := 0; round < rounds; round++ {
		all := make([]*common.GuardianSet, total)
		for i := range all {
			var a eth_common.Address
			r.Read(a[:])
			all[i] = &common.GuardianSet{Index: uint32(i), Keys: []eth_common.Address{a}}
		}
		ch := make(chan *common.GuardianSet, 4)
		gs := &GuardianSets{
			lock: sync.Mutex{}, currentGuardianSetIndex: 0, guardianSetLists: all[0:1:1], ethRpcUrl: "verif-no-such-scheme://x",
			logger: zap.NewNop(), duration: time.Second, guardianSetC: ch,
		}
		// published: an index i is published once an updateGuardianSets call that appended set i has RETURNED, so a
		// reader asking for i <= published must get the set with index i on any correct implementation.
		var published int64
		var wg sync.WaitGroup
		start := make(chan struct{})
		nReaders := 4
		stopReaders := int32(0)
		for k := 0; k < nReaders; k++ {
			wg.Add(1)
			go func(k int) {
				defer wg.Done()
				<-start
				for atomic.LoadInt32(&stopReaders) == 0 {
					p := int(atomic.LoadInt64(&published))
					idx := p
					if k == 1 && p > 0 {
						idx = p - 1
					}
					func() {
						defer func() {
							if e := recover(); e != nil {
								atomic.AddInt64(&panics, 1)
								badMu.Lock()
								if firstBad == "" {
									firstBad = fmt.Sprintf("panic:idx=%d:%v", idx, e)
								}
								badMu.Unlock()
							}
						}()
						var s *common.GuardianSet
						if k == 2 {
							s = gs.GetCurrentGuardianSet()
							atomic.AddInt64(&reads, 1)
							if s == nil || int(s.Index) < p {
								atomic.AddInt64(&wrong, 1)
							}
							return
						}
						if k == 3 {
							// one past the last published index: not there yet (the fetch fails: no chain) or already there
							idx = p + 1
							s, err := gs.GetGuardianSet(context.Background(), idx)
							atomic.AddInt64(&reads, 1)
							if err == nil && (s == nil || int(s.Index) != idx) {
								atomic.AddInt64(&wrong, 1)
								badMu.Lock()
								if firstBad == "" {
									firstBad = fmt.Sprintf("wrong:idx=%d:got=%s", idx, vSet(s))
								}
								badMu.Unlock()
							}
							return
						}
						s, err := gs.GetGuardianSet(context.Background(), idx)
						atomic.AddInt64(&reads, 1)
						if err != nil || s == nil || int(s.Index) != idx {
							atomic.AddInt64(&wrong, 1)
							badMu.Lock()
							if firstBad == "" {
								firstBad = fmt.Sprintf("wrong:idx=%d:got=%s:err=%v", idx, vSet(s), err)
							}
							badMu.Unlock()
						}
					}()
				}
			}(k)
		}
		close(start)
		// two writers, each feeding contiguous ranges starting at <= current+1 (as the callers do)
		var ww sync.WaitGroup
		for wk := 0; wk < 2; wk++ {
			ww.Add(1)
			step := 1 + wk
			go func(step int) {
				defer ww.Done()
				for {
					p := int(atomic.LoadInt64(&published))
					if p >= total-1 {
						return
					}
					b := p + step
					if b > total-1 {
						b = total - 1
					}
					_ = gs.updateGuardianSets(all[p+1 : b+1])
					atomic.AddInt64(&appends, 1)
					for {
						old := atomic.LoadInt64(&published)
						if int64(b) <= old || atomic.CompareAndSwapInt64(&published, old, int64(b)) {
							break
						}
					}
				}
			}(step)
		}
		ww.Wait()
		atomic.StoreInt32(&stopReaders, 1)
		wg.Wait()
	}
	if firstBad == "" {
		firstBad = "-"
	}
	fmt.Fprintf(f, "gsconc conc1 rounds=%d sets=%d reads=%d appends=%d wrong=%d panics=%d first=%s\n", rounds, total, reads, appends, wrong, panics,
		strings.ReplaceAll(firstBad, " ", "_"))
}
