//go:build verif

package guardiansets

// Correspondence harness for C19 (family `explorer`), injected into package guardiansets by `go test -overlay`.
//
// TestVerifGs      sequential op sequences on the real GuardianSets (updateGuardianSets, GetGuardianSet,
//                  GetCurrentGuardianSet, NewGuardianSets, GetGuardianSetsFromChain, the ticker goroutine) against a
//                  fake JSON-RPC chain; one line per op in $VERIF_OUT/explorer_gs.cases.
// TestVerifGsRace  concurrent GetGuardianSet / GetCurrentGuardianSet readers against updateGuardianSets writers; run
//                  with -race by checks/c19.py.  Every reader result is checked (set index = requested index, no panic);
//                  the race detector's report, if any, is picked up from the test output by the check module.
//
// The explorer-backend module links node/pkg/{common,ethereum/abi} from the module cache
// (github.com/alephium/wormhole-fork/node v0.0.0-20240818215257-cb0667c4f6c1), so this runs the code the explorer ships with.

import (
	"bufio"
	"context"
	"encoding/hex"
	"encoding/json"
	"fmt"
	"io"
	"math/rand"
	"net/http"
	"net/http/httptest"
	"os"
	"path/filepath"
	"strconv"
	"strings"
	"sync"
	"sync/atomic"
	"testing"
	"time"

	"github.com/alephium/wormhole-fork/node/pkg/common"
	ethabi "github.com/alephium/wormhole-fork/node/pkg/ethereum/abi"
	gethabi "github.com/ethereum/go-ethereum/accounts/abi"
	eth_common "github.com/ethereum/go-ethereum/common"
	"go.uber.org/zap"
)

// ---------------------------------------------------------------- rendering

func vKeys(keys []eth_common.Address) string {
	if keys == nil {
		return "nil"
	}
	if len(keys) == 0 {
		return "-"
	}
	p := make([]string, len(keys))
	for i, k := range keys {
		p[i] = hex.EncodeToString(k.Bytes())
	}
	return strings.Join(p, ",")
}

func vSet(s *common.GuardianSet) string {
	if s == nil {
		return "nilptr"
	}
	return fmt.Sprintf("%d:%s", s.Index, vKeys(s.Keys))
}

func vSets(l []*common.GuardianSet) string {
	if len(l) == 0 {
		return "-"
	}
	p := make([]string, len(l))
	for i, s := range l {
		p[i] = vSet(s)
	}
	return strings.Join(p, ";")
}

// ---------------------------------------------------------------- fake chain (JSON-RPC over HTTP, eth_call only)

type vChain struct {
	mu      sync.Mutex
	abi     gethabi.ABI
	keys    map[uint32][]eth_common.Address // index -> keys; an unknown index answers an empty key list (Solidity mapping default)
	failAt  map[uint32]bool                 // RPC error for getGuardianSet(index)
	cur     uint32
	failCur bool
	closed  bool     // gate: while closed every request fails and nothing is logged
	log     []string // observed requests with their answers, in order
	srv     *httptest.Server
}

func vNewChain() *vChain {
	parsed, err := gethabi.JSON(strings.NewReader(ethabi.AbiABI))
	if err != nil {
		panic(err)
	}
	c := &vChain{abi: parsed, keys: map[uint32][]eth_common.Address{}, failAt: map[uint32]bool{}}
	c.srv = httptest.NewServer(http.HandlerFunc(c.serve))
	return c
}

func (c *vChain) takeLog() string {
	c.mu.Lock()
	defer c.mu.Unlock()
	l := c.log
	c.log = nil
	if len(l) == 0 {
		return "-"
	}
	return strings.Join(l, ";")
}

func (c *vChain) serve(w http.ResponseWriter, r *http.Request) {
	body, _ := io.ReadAll(r.Body)
	var req struct {
		ID     json.RawMessage   `json:"id"`
		Method string            `json:"method"`
		Params []json.RawMessage `json:"params"`
	}
	w.Header().Set("Content-Type", "application/json")
	fail := func(msg string) {
		fmt.Fprintf(w, `{"jsonrpc":"2.0","id":%s,"error":{"code":-32000,"message":%q}}`, string(req.ID), msg)
	}
	if err := json.Unmarshal(body, &req); err != nil || req.Method != "eth_call" || len(req.Params) < 1 {
		req.ID = json.RawMessage("1")
		fail("unsupported")
		return
	}
	var arg struct {
		Data  string `json:"data"`
		Input string `json:"input"`
	}
	_ = json.Unmarshal(req.Params[0], &arg)
	if arg.Data == "" {
		arg.Data = arg.Input
	}
	data, err := hex.DecodeString(strings.TrimPrefix(arg.Data, "0x"))
	if err != nil || len(data) < 4 {
		fail("bad calldata")
		return
	}
	c.mu.Lock()
	defer c.mu.Unlock()
	if c.closed {
		fail("closed")
		return
	}
	m, err := c.abi.MethodById(data[:4])
	if err != nil {
		fail("unknown method")
		return
	}
	var out []byte
	switch m.Name {
	case "getCurrentGuardianSetIndex":
		if c.failCur {
			c.log = append(c.log, "c:err")
			fail("boom")
			return
		}
		c.log = append(c.log, fmt.Sprintf("c:%d", c.cur))
		out, err = m.Outputs.Pack(c.cur)
	case "getGuardianSet":
		args, e := m.Inputs.Unpack(data[4:])
		if e != nil || len(args) != 1 {
			fail("bad args")
			return
		}
		idx := args[0].(uint32)
		if c.failAt[idx] {
			c.log = append(c.log, fmt.Sprintf("%d:err", idx))
			fail("boom")
			return
		}
		keys := c.keys[idx]
		if keys == nil {
			keys = []eth_common.Address{}
		}
		c.log = append(c.log, fmt.Sprintf("%d:%s", idx, vKeys(keys)))
		out, err = m.Outputs.Pack(ethabi.StructsGuardianSet{Keys: keys, ExpirationTime: 0})
	default:
		fail("unsupported method")
		return
	}
	if err != nil {
		fail("pack: " + err.Error())
		return
	}
	fmt.Fprintf(w, `{"jsonrpc":"2.0","id":%s,"result":"0x%s"}`, string(req.ID), hex.EncodeToString(out))
}

// ---------------------------------------------------------------- generator

type vGen struct {
	r     *rand.Rand
	w     *bufio.Writer
	n     int
	chain *vChain
	t     *testing.T
}

func (g *vGen) addr() eth_common.Address {
	var a eth_common.Address
	g.r.Read(a[:])
	return a
}

func (g *vGen) keys() []eth_common.Address {
	n := g.r.Intn(4)
	k := make([]eth_common.Address, n)
	for i := range k {
		k[i] = g.addr()
	}
	return k
}

func (g *vGen) set(idx uint32) *common.GuardianSet {
	return &common.GuardianSet{Index: idx, Keys: g.keys()}
}

func (g *vGen) rng(a, b uint32) []*common.GuardianSet {
	l := []*common.GuardianSet{}
	for i := a; i <= b && i >= a; i++ {
		l = append(l, g.set(i))
		if i == ^uint32(0) {
			break
		}
	}
	return l
}

func (g *vGen) newGS(cur int, list []*common.GuardianSet, dialOK bool, ch chan *common.GuardianSet) *GuardianSets {
	url := g.chain.srv.URL
	if !dialOK {
		url = "verif-no-such-scheme://x"
	}
	return &GuardianSets{
		lock:                    sync.Mutex{},
		currentGuardianSetIndex: cur,
		guardianSetLists:        list,
		ethRpcUrl:               url,
		logger:                  zap.NewNop(),
		duration:                time.Millisecond,
		ethGovernanceAddress:    eth_common.HexToAddress("0x00000000000000000000000000000000000000c0"),
		guardianSetC:            ch,
	}
}

func vDrain(ch chan *common.GuardianSet) []*common.GuardianSet {
	var l []*common.GuardianSet
	for {
		select {
		case s := <-ch:
			l = append(l, s)
		default:
			return l
		}
	}
}

func (g *vGen) state(gs *GuardianSets) string {
	return fmt.Sprintf("cur=%d list=%s", gs.currentGuardianSetIndex, vSets(gs.guardianSetLists))
}

func (g *vGen) opUpd(cid string, gs *GuardianSets, in []*common.GuardianSet) {
	res := func() (r string) {
		defer func() {
			if e := recover(); e != nil {
				r = "panic"
			}
		}()
		if err := gs.updateGuardianSets(in); err != nil {
			return "err"
		}
		return "nil"
	}()
	fmt.Fprintf(g.w, "gsupd %s in=%s res=%s %s\n", cid, vSets(in), res, g.state(gs))
}

func (g *vGen) opGet(cid string, gs *GuardianSets, ch chan *common.GuardianSet, idx int, dialOK bool) {
	if dialOK {
		gs.ethRpcUrl = g.chain.srv.URL
	} else {
		gs.ethRpcUrl = "verif-no-such-scheme://x"
	}
	var got *common.GuardianSet
	res := func() (r string) {
		defer func() {
			if e := recover(); e != nil {
				r = "panic"
			}
		}()
		s, err := gs.GetGuardianSet(context.Background(), idx)
		if err != nil {
			if s != nil {
				return "errnonnil"
			}
			return "err"
		}
		got = s
		return "ok"
	}()
	d := 0
	if dialOK {
		d = 1
	}
	fmt.Fprintf(g.w, "gsget %s idx=%d dial=%d chain=%s res=%s set=%s sent=%s %s\n", cid, idx, d, g.chain.takeLog(), res, vSet(got),
		vSets(vDrain(ch)), g.state(gs))
}

func (g *vGen) opCur(cid string, gs *GuardianSets) {
	var got *common.GuardianSet
	res := func() (r string) {
		defer func() {
			if e := recover(); e != nil {
				r = "panic"
			}
		}()
		got = gs.GetCurrentGuardianSet()
		return "ok"
	}()
	fmt.Fprintf(g.w, "gscur %s res=%s set=%s\n", cid, res, vSet(got))
}

// opFetch: GetGuardianSetsFromChain(from) — what main.go and the ticker call — followed by updateGuardianSets of the result.
func (g *vGen) opFetch(cid string, gs *GuardianSets, from uint32) {
	var sets []*common.GuardianSet
	res := func() (r string) {
		defer func() {
			if e := recover(); e != nil {
				r = "panic"
			}
		}()
		s, err := GetGuardianSetsFromChain(context.Background(), g.chain.srv.URL, gs.ethGovernanceAddress, from)
		if err != nil {
			return "err"
		}
		sets = s
		return "ok"
	}()
	fmt.Fprintf(g.w, "gsfetch %s from=%d chain=%s res=%s sets=%s\n", cid, from, g.chain.takeLog(), res, vSets(sets))
	if res == "ok" {
		g.opUpd(cid, gs, sets)
	}
}

// opTick: the real ticker goroutine (UpdateGuardianSet) until it has sent once on guardianSetC.  The chain never fails
// here, so the first round always ends in a send; as soon as it arrives the chain's gate is closed, so a possible second
// round (the goroutine may tick again before it sees the cancellation) fails its fetch and changes nothing.
func (g *vGen) opTick(cid string, gs *GuardianSets, ch chan *common.GuardianSet) {
	gs.ethRpcUrl = g.chain.srv.URL
	gs.duration = 5 * time.Millisecond
	ctx, cancel := context.WithCancel(context.Background())
	tickCh := make(chan *common.GuardianSet) // unbuffered: the goroutine blocks in its first send until we take it
	gs.guardianSetC = tickCh
	gs.UpdateGuardianSet(ctx)
	var first *common.GuardianSet
	res := "ok"
	select {
	case first = <-tickCh:
	case <-time.After(30 * time.Second):
		res = "timeout"
	}
	g.chain.mu.Lock()
	g.chain.closed = true
	g.chain.mu.Unlock()
	cancel()
	time.Sleep(12 * time.Millisecond)
	log := g.chain.takeLog()
	g.chain.mu.Lock()
	g.chain.closed = false
	g.chain.mu.Unlock()
	gs.guardianSetC = ch
	fmt.Fprintf(g.w, "gstick %s chain=%s res=%s sent=%s %s\n", cid, log, res, vSet(first), g.state(gs))
}

func (g *vGen) cid(kind string) string {
	g.n++
	return fmt.Sprintf("%s%d", kind, g.n)
}

// chain truth: sets 0..cur with random keys, a few unknown (empty) above
func (g *vGen) resetChain(cur uint32) {
	c := g.chain
	c.mu.Lock()
	defer c.mu.Unlock()
	c.keys = map[uint32][]eth_common.Address{}
	c.failAt = map[uint32]bool{}
	c.failCur = false
	c.cur = cur
	for i := uint32(0); i <= cur; i++ {
		k := g.keys()
		if len(k) == 0 {
			k = append(k, g.addr())
		}
		c.keys[i] = k
	}
	c.log = nil
}

func (g *vGen) chainSets(a, b uint32) []*common.GuardianSet {
	l := []*common.GuardianSet{}
	for i := a; i <= b; i++ {
		k := g.chain.keys[i]
		if k == nil {
			k = []eth_common.Address{}
		}
		l = append(l, &common.GuardianSet{Index: i, Keys: k})
	}
	return l
}

// realistic: the list is what main.go builds (GetGuardianSetsFromChain(0) -> NewGuardianSets) and every update is a
// contiguous range starting at <= current+1, i.e. what the two callers fetch.
func (g *vGen) realistic(steps int) {
	r := g.r
	cid := g.cid("real")
	chainCur := uint32(1 + r.Intn(6))
	g.resetChain(chainCur + uint32(r.Intn(3)))
	n := 1 + r.Intn(int(chainCur))
	ch := make(chan *common.GuardianSet, 64)
	init := g.chainSets(0, uint32(n-1))
	var gs *GuardianSets
	res := func() (s string) {
		defer func() {
			if e := recover(); e != nil {
				s = "panic"
			}
		}()
		gs = NewGuardianSets(init, g.chain.srv.URL, zap.NewNop(), time.Millisecond, eth_common.HexToAddress("0xc0"), ch)
		return "ok"
	}()
	if res != "ok" {
		fmt.Fprintf(g.w, "gsnew %s list=%s res=panic sent=- cur=0 list2=-\n", cid, vSets(init))
		return
	}
	fmt.Fprintf(g.w, "gsnew %s list=%s res=ok sent=%s %s\n", cid, vSets(init), vSets(vDrain(ch)), g.state(gs))
	for i := 0; i < steps; i++ {
		cur := gs.currentGuardianSetIndex
		switch r.Intn(9) {
		case 0, 1: // direct update with a contiguous range a..b, a <= cur+1
			a := cur + 1 - r.Intn(4)
			if a < 0 {
				a = 0
			}
			b := a + r.Intn(5) - 1 // may be a-1: empty
			if b < a {
				g.opUpd(cid, gs, []*common.GuardianSet{})
			} else {
				g.opUpd(cid, gs, g.chainSets(uint32(a), uint32(b)))
			}
		case 2, 3: // lookup of a known index (every boundary: 0, cur)
			idx := r.Intn(cur + 1)
			if r.Intn(3) == 0 {
				idx = cur
			}
			g.opGet(cid, gs, ch, idx, r.Intn(4) != 0)
		case 4, 5: // lookup of a future index: cur+1 .. cur+3
			idx := cur + 1 + r.Intn(3)
			dial := r.Intn(6) != 0
			if r.Intn(5) == 0 {
				g.chain.failAt[uint32(cur+1+r.Intn(idx-cur))] = true
			}
			g.opGet(cid, gs, ch, idx, dial)
			g.chain.failAt = map[uint32]bool{}
		case 6:
			g.opCur(cid, gs)
		case 7: // the chain moves on, then the ticker's body
			if r.Intn(2) == 0 {
				g.chain.cur += uint32(r.Intn(3))
				for i := uint32(0); i <= g.chain.cur; i++ {
					if g.chain.keys[i] == nil {
						g.chain.keys[i] = []eth_common.Address{g.addr()}
					}
				}
			}
			if r.Intn(6) == 0 {
				g.chain.failCur = true
			}
			g.opFetch(cid, gs, uint32(cur+1))
			g.chain.failCur = false
		case 8:
			if r.Intn(2) == 0 {
				g.chain.cur += uint32(1 + r.Intn(2))
				for i := uint32(0); i <= g.chain.cur; i++ {
					if g.chain.keys[i] == nil {
						g.chain.keys[i] = []eth_common.Address{g.addr()}
					}
				}
			}
			g.opTick(cid, gs, ch)
		}
	}
}

// adversarial: arbitrary states and update inputs (gaps, late starts, repeats, descending, huge indexes, current = -1);
// only the model/implementation tie is judged on these.
func (g *vGen) adversarial(steps int) {
	r := g.r
	cid := g.cid("adv")
	g.resetChain(uint32(2 + r.Intn(4)))
	n := r.Intn(5)
	list := []*common.GuardianSet{}
	for i := 0; i < n; i++ {
		idx := uint32(i)
		if r.Intn(6) == 0 {
			idx = uint32(r.Intn(8))
		}
		list = append(list, g.set(idx))
	}
	cur := n - 1
	switch r.Intn(6) {
	case 0:
		cur = n - 1 + r.Intn(3)
	case 1:
		cur = n - 2
	}
	ch := make(chan *common.GuardianSet, 64)
	gs := g.newGS(cur, list, true, ch)
	fmt.Fprintf(g.w, "gsinit %s %s\n", cid, g.state(gs))
	big := []uint32{1<<32 - 1, 1<<32 - 2, 1 << 31, 1<<31 - 1}
	for i := 0; i < steps; i++ {
		c := gs.currentGuardianSetIndex
		switch r.Intn(8) {
		case 0: // arbitrary indexes
			k := r.Intn(5)
			in := []*common.GuardianSet{}
			for j := 0; j < k; j++ {
				in = append(in, g.set(uint32(r.Intn(c+6+1))))
			}
			g.opUpd(cid, gs, in)
		case 1: // contiguous but starting late (gap)
			a := uint32(c + 2 + r.Intn(3))
			g.opUpd(cid, gs, g.rng(a, a+uint32(r.Intn(3))))
		case 2: // contiguous, overlapping
			a := c + 1 - r.Intn(4)
			if a < 0 {
				a = 0
			}
			g.opUpd(cid, gs, g.rng(uint32(a), uint32(a+r.Intn(5))))
		case 3: // the target index occurs twice / range with a repeated element
			a := uint32(c + 1)
			in := g.rng(a, a+uint32(r.Intn(3)))
			in = append([]*common.GuardianSet{g.set(uint32(r.Intn(c + 3))), g.set(a)}, in...)
			g.opUpd(cid, gs, in)
		case 4: // descending / huge
			in := []*common.GuardianSet{g.set(big[r.Intn(len(big))])}
			if r.Intn(2) == 0 {
				in = append([]*common.GuardianSet{g.set(uint32(c + 1))}, in...)
			}
			if r.Intn(3) == 0 {
				g.opUpd(cid, gs, in)
			} else {
				g.opUpd(cid, gs, g.rng(uint32(c+1), uint32(c+1+r.Intn(2))))
			}
		case 5:
			idx := r.Intn(len(gs.guardianSetLists)+3) - 1
			if idx > gs.currentGuardianSetIndex && gs.currentGuardianSetIndex > 1<<20 {
				idx = gs.currentGuardianSetIndex // never ask the fake chain for millions of sets
			}
			if idx > gs.currentGuardianSetIndex && idx-gs.currentGuardianSetIndex > 16 {
				idx = gs.currentGuardianSetIndex
			}
			if gs.currentGuardianSetIndex < 0 && idx > 8 {
				idx = 3
			}
			if idx > gs.currentGuardianSetIndex && idx < 0 {
				// uint32(idx) = 2^32-1 as the upper end of the chain fetch: the loop counter of getGuardianSetsFromChain wraps
				// and the call never returns (noted in the report; outside the model)
				idx = 0
			}
			g.opGet(cid, gs, ch, idx, r.Intn(5) != 0)
		case 6:
			g.opCur(cid, gs)
		case 7:
			if gs.currentGuardianSetIndex >= -1 && gs.currentGuardianSetIndex < 1<<20 {
				g.opFetch(cid, gs, uint32(gs.currentGuardianSetIndex+1))
			}
		}
	}
}

func TestVerifGs(t *testing.T) {
	seed, _ := strconv.ParseInt(os.Getenv("VERIF_SEED"), 10, 64)
	thorough := os.Getenv("VERIF_TIER") == "thorough"
	f, err := os.Create(filepath.Join(os.Getenv("VERIF_OUT"), "explorer_gs.cases"))
	if err != nil {
		t.Fatal(err)
	}
	defer f.Close()
	g := &vGen{r: rand.New(rand.NewSource(seed)), w: bufio.NewWriterSize(f, 1<<20), chain: vNewChain(), t: t}
	defer g.chain.srv.Close()
	defer g.w.Flush()
	nReal, nAdv := 60, 60
	if thorough {
		nReal, nAdv = 1500, 1500
	}
	// the constructor on an empty list (panics), once
	{
		cid := g.cid("ctor")
		ch := make(chan *common.GuardianSet, 4)
		res := func() (s string) {
			defer func() {
				if e := recover(); e != nil {
					s = "panic"
				}
			}()
			NewGuardianSets([]*common.GuardianSet{}, "", zap.NewNop(), time.Second, eth_common.Address{}, ch)
			return "ok"
		}()
		fmt.Fprintf(g.w, "gsnew %s list=- res=%s sent=- cur=-1 list=-\n", cid, res)
	}
	for i := 0; i < nReal; i++ {
		g.realistic(6 + g.r.Intn(10))
	}
	for i := 0; i < nAdv; i++ {
		g.adversarial(5 + g.r.Intn(8))
	}
}

// ---------------------------------------------------------------- concurrency (run with -race)

func TestVerifGsRace(t *testing.T) {
	seed, _ := strconv.ParseInt(os.Getenv("VERIF_SEED"), 10, 64)
	thorough := os.Getenv("VERIF_TIER") == "thorough"
	f, err := os.Create(filepath.Join(os.Getenv("VERIF_OUT"), "explorer_race.cases"))
	if err != nil {
		t.Fatal(err)
	}
	defer f.Close()
	r := rand.New(rand.NewSource(seed))
	rounds, total := 20, 200
	if thorough {
		rounds, total = 1500, 400
	}
	var reads, wrong, panics, appends int64
	firstBad := ""
	var badMu sync.Mutex
	for round := 0; round < rounds; round++ {
		all := make([]*common.GuardianSet, total)
		for i := range all {
			var a eth_common.Address
			r.Read(a[:])
			all[i] = &common.GuardianSet{Index: uint32(i), Keys: []eth_common.Address{a}}
		}
		ch := make(chan *common.GuardianSet, 4)
		gs := &GuardianSets{
			lock: sync.Mutex{}, currentGuardianSetIndex: 0, guardianSetLists: all[0:1:1], ethRpcUrl: "verif-no-such-scheme://x",
			logger: zap.NewNop(), duration: time.Second, guardianSetC: ch,
		}
		// published: an index i is published once an updateGuardianSets call that appended set i has RETURNED, so a
		// reader asking for i <= published must get the set with index i on any correct implementation.
		var published int64
		var wg sync.WaitGroup
		start := make(chan struct{})
		nReaders := 4
		stopReaders := int32(0)
		for k := 0; k < nReaders; k++ {
			wg.Add(1)
			go func(k int) {
				defer wg.Done()
				<-start
				for atomic.LoadInt32(&stopReaders) == 0 {
					p := int(atomic.LoadInt64(&published))
					idx := p
					if k == 1 && p > 0 {
						idx = p - 1
					}
					func() {
						defer func() {
							if e := recover(); e != nil {
								atomic.AddInt64(&panics, 1)
								badMu.Lock()
								if firstBad == "" {
									firstBad = fmt.Sprintf("panic:idx=%d:%v", idx, e)
								}
								badMu.Unlock()
							}
						}()
						var s *common.GuardianSet
						if k == 2 {
							s = gs.GetCurrentGuardianSet()
							atomic.AddInt64(&reads, 1)
							if s == nil || int(s.Index) < p {
								atomic.AddInt64(&wrong, 1)
							}
							return
						}
						if k == 3 {
							// one past the last published index: not there yet (the fetch fails: no chain) or already there
							idx = p + 1
							s, err := gs.GetGuardianSet(context.Background(), idx)
							atomic.AddInt64(&reads, 1)
							if err == nil && (s == nil || int(s.Index) != idx) {
								atomic.AddInt64(&wrong, 1)
								badMu.Lock()
								if firstBad == "" {
									firstBad = fmt.Sprintf("wrong:idx=%d:got=%s", idx, vSet(s))
								}
								badMu.Unlock()
							}
							return
						}
						s, err := gs.GetGuardianSet(context.Background(), idx)
						atomic.AddInt64(&reads, 1)
						if err != nil || s == nil || int(s.Index) != idx {
							atomic.AddInt64(&wrong, 1)
							badMu.Lock()
							if firstBad == "" {
								firstBad = fmt.Sprintf("wrong:idx=%d:got=%s:err=%v", idx, vSet(s), err)
							}
							badMu.Unlock()
						}
					}()
				}
			}(k)
		}
		close(start)
		// two writers, each feeding contiguous ranges starting at <= current+1 (as the callers do)
		var ww sync.WaitGroup
		for wk := 0; wk < 2; wk++ {
			ww.Add(1)
			step := 1 + wk
			go func(step int) {
				defer ww.Done()
				for {
					p := int(atomic.LoadInt64(&published))
					if p >= total-1 {
						return
					}
					b := p + step
					if b > total-1 {
						b = total - 1
					}
					_ = gs.updateGuardianSets(all[p+1 : b+1])
					atomic.AddInt64(&appends, 1)
					for {
						old := atomic.LoadInt64(&published)
						if int64(b) <= old || atomic.CompareAndSwapInt64(&published, old, int64(b)) {
							break
						}
					}
				}
			}(step)
		}
		ww.Wait()
		atomic.StoreInt32(&stopReaders, 1)
		wg.Wait()
	}
	if firstBad == "" {
		firstBad = "-"
	}
	fmt.Fprintf(f, "gsconc conc1 rounds=%d sets=%d reads=%d appends=%d wrong=%d panics=%d first=%s\n", rounds, total, reads, appends, wrong, panics,
		strings.ReplaceAll(firstBad, " ", "_"))
}
