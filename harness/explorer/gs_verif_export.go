//go:build verif

package guardiansets

// Verif-only accessors (added to package guardiansets by `go test -overlay` together with the harness of package
// processor, which cannot see the unexported fields).  Not part of any production build: the file only exists in the overlay.

import "github.com/alephium/wormhole-fork/node/pkg/common"

// VerifState returns currentGuardianSetIndex and a copy of guardianSetLists (sequential harness only).
func (gs *GuardianSets) VerifState() (int, []*common.GuardianSet) {
	l := make([]*common.GuardianSet, len(gs.guardianSetLists))
	copy(l, gs.guardianSetLists)
	return gs.currentGuardianSetIndex, l
}

// VerifSetURL points the instance at another RPC endpoint (used to make getContract fail).
func (gs *GuardianSets) VerifSetURL(url string) { gs.ethRpcUrl = url }
